// c12: seeded driver + recorder for the real diffdb.Database over the real db.DB (pebble on an in-memory file system).
// Every public call is logged with arguments and result; spec/trace/StagedStoreTrace.tla replays the
// log on the model and compares every read.
//
// usage: c12 <out.ndjson> <meta.json> <sequences>          recorded sequences (standard + liskbft/batchdb phases)
//
//	c12 <out.ndjson> <meta.json> <rounds> race     two goroutines on two sibling views (meant for a -race build)
//
// Worlds of a standard sequence (chosen per sequence): memtable-only pebble / pebble with close+reopen (WAL replay,
// flush to L0) after the initial fill and after every commit; the staged store over the DB or over a snapshot Reader;
// "mirror" sequences whose commit goes through batchdb.NewWithPrefix.
// Returned byte slices are overwritten with 0xEE after they were logged (Get, raw scans: keys and values; staged
// Range/Iterate: keys); with VERIF_EXPERIMENTAL=1 additional sequences also overwrite the VALUES returned by staged
// Range/Iterate, and the slice handed to Set.
package main

import (
	"errors"
	"fmt"
	"math/rand"
	"os"
	"sort"
	"strconv"
	"sync"

	"github.com/LiskHQ/lisk-engine/pkg/consensus/liskbft"
	"github.com/LiskHQ/lisk-engine/pkg/db"
	"github.com/LiskHQ/lisk-engine/pkg/db/batchdb"
	"github.com/LiskHQ/lisk-engine/pkg/db/diffdb"
	"github.com/cockroachdb/pebble/vfs"

	"verifharness/internal/bftx"
	"verifharness/internal/tj"
)

var alphabet = []byte{0, 1, 2, 255}
var rootPrefix = []byte{7}
var mirrorPrefix = []byte{5}
var views = [][]byte{{}, {1}, {1, 0}, {2}, {1, 255}, {255}}

type ev = map[string]interface{}

func ints(b []byte) []int {
	r := make([]int, len(b))
	for i, x := range b {
		r[i] = int(x)
	}
	return r
}

func key(r *rand.Rand, maxLen int) []byte {
	n := r.Intn(maxLen + 1)
	k := make([]byte, n)
	for i := range k {
		k[i] = alphabet[r.Intn(len(alphabet))]
	}
	return k
}

// valueCodec turns the bytes the real store returned into the integer the model uses for that value
type valueCodec func([]byte) int

func kvsWith(list []db.KeyValue, enc valueCodec) [][]interface{} {
	res := [][]interface{}{}
	for _, kv := range list {
		res = append(res, []interface{}{ints(kv.Key()), enc(kv.Value())})
	}
	return res
}

func kvs(list []db.KeyValue) [][]interface{} { return kvsWith(list, venc) }

func keysOf(list [][]byte) [][]int {
	res := [][]int{}
	for _, k := range list {
		res = append(res, ints(k))
	}
	return res
}

// scribble overwrites what the API handed out, AFTER it was logged: if the store kept a reference, later reads differ
func scribble(b []byte) {
	for i := range b {
		b[i] = 0xEE
	}
}

func scribbleKVs(list []db.KeyValue, keys, values bool) int {
	n := 0
	for _, kv := range list {
		if keys {
			scribble(kv.Key())
		}
		if values && len(kv.Value()) > 0 {
			scribble(kv.Value())
			n++
		}
	}
	return n
}

// guard runs a read on the real store; a panic is logged as the impossible result [[[-1], -99]]
func guard(f func() []db.KeyValue) (list []db.KeyValue, res [][]interface{}) {
	defer func() {
		if e := recover(); e != nil {
			list, res = nil, [][]interface{}{{[]int{-1}, -99}}
		}
	}()
	list = f()
	return list, kvs(list)
}

// values: 0 = empty byte string, 1..255 = that single byte, 2^16 + x = the two bytes of x, 2^24 + x = the three bytes of x
// (injective on byte strings of length <= 3; longer ones - never written by this driver - map to 2^30 + length)
func venc(v []byte) int {
	switch len(v) {
	case 0:
		return 0
	case 1:
		return int(v[0])
	case 2:
		return 1<<16 + int(v[0])<<8 + int(v[1])
	case 3:
		return 1<<24 + int(v[0])<<16 + int(v[1])<<8 + int(v[2])
	}
	return 1<<30 + len(v)
}

func vdec(v int) []byte {
	switch {
	case v == 0:
		return []byte{}
	case v < 256:
		return []byte{byte(v)}
	case v < 1<<24:
		return []byte{byte(v >> 8), byte(v)}
	}
	return []byte{byte(v >> 16), byte(v >> 8), byte(v)}
}

var longVals = []int{venc([]byte{1, 2}), venc([]byte{2, 1}), venc([]byte{0, 0}), venc([]byte{1, 2, 3}), venc([]byte{1, 2, 4}), venc([]byte{0, 0, 0})}

func randVal(r *rand.Rand) int {
	switch x := r.Intn(8); {
	case x == 0:
		return 0
	case x < 3:
		return longVals[r.Intn(len(longVals))]
	}
	return 1 + r.Intn(9)
}

func dump(d *db.DB) [][]interface{} {
	return kvs(d.Iterate([]byte{}, -1, false))
}

func join(a, b []byte) []byte {
	r := append([]byte{}, a...)
	return append(r, b...)
}

const dbDir = "c12db"

func openDB(fs vfs.FS) *db.DB {
	var d *db.DB
	var err error
	if fs == nil {
		d, err = db.NewInMemoryDB()
	} else {
		d, err = db.NewDBWithFS(dbDir, fs)
	}
	if err != nil {
		panic(fmt.Sprintf("c12 harness: cannot open the database: %v", err))
	}
	return d
}

func main() {
	if len(os.Args) < 4 {
		fmt.Fprintln(os.Stderr, "usage: c12 out.ndjson meta.json sequences [race]")
		os.Exit(2)
	}
	nseq, _ := strconv.Atoi(os.Args[3])
	seed := int64(tj.EnvInt("VERIF_SEED", 1))
	w, err := tj.NewWriter(os.Args[1])
	if err != nil {
		panic(err)
	}
	meta := map[string]int{}
	if len(os.Args) > 4 && os.Args[4] == "race" {
		racePhase(rand.New(rand.NewSource(seed+7777)), w, meta, nseq)
	} else {
		r := rand.New(rand.NewSource(seed))
		for s := 0; s < nseq; s++ {
			standardSeq(r, w, meta, s, "")
		}
		// directed phase: the consumers of "reverse with limit 1" / "inclusive end" in pkg/consensus/liskbft
		rb := rand.New(rand.NewSource(seed + 4242))
		bft := discoverBFT()
		for s := 0; s < nseq/15; s++ {
			bftSeq(rb, w, meta, bft)
		}
		if os.Getenv("VERIF_EXPERIMENTAL") == "1" {
			// candidates under triage: slices handed out by staged Range/Iterate, slices handed in to Set
			rx := rand.New(rand.NewSource(seed + 999))
			for s := 0; s < nseq/10; s++ {
				standardSeq(rx, w, meta, s, []string{"range-value", "set-argument"}[s%2])
			}
		}
	}
	w.Close()
	meta["events"] = w.N
	tj.WriteJSON(os.Args[2], meta)
}

// snapObj is a store object (the root or a kept view) that took snapshots: ids are per object
type snapObj struct {
	obj int
	s   *diffdb.Database
	ids []int
}

// standardSeq records one operation sequence.  exp != "" : experimental aliasing mode (see the package comment).
func standardSeq(r *rand.Rand, w *tj.Writer, meta map[string]int, s int, exp string) {
	var fs vfs.FS
	if s%20 == 0 {
		fs = vfs.NewMem() // pebble with a directory: closed and reopened below
		meta["disk_seq"]++
	}
	overReader := s%5 == 1 // the staged store reads through a snapshot Reader, as the framework's read-only contexts do
	mirror := s%6 == 2     // every key under the root prefix is mirrored under mirrorPrefix; the commit goes through batchdb
	if overReader {
		meta["reader_seq"]++
	}
	d := openDB(fs)
	var rd *db.Reader
	reopen := func() {
		if fs == nil {
			return
		}
		if rd != nil {
			rd.Close()
			rd = nil
		}
		d.Close() //nolint: DB.IterateRange leaves its iterator open, Close reports that; the files are closed all the same
		d = openDB(fs)
		meta["reopen"]++
	}
	// initial contents: keys under the root prefix and under neighbouring prefixes
	nInit := r.Intn(10)
	for i := 0; i < nInit; i++ {
		p := rootPrefix
		switch r.Intn(10) {
		case 0:
			p = []byte{6}
		case 1:
			p = []byte{8}
		case 2:
			p = []byte{7, 1}
		case 3:
			p = []byte{255}
		case 4:
			p = []byte{255, 255}
		}
		k := join(p, key(r, 3))
		v := vdec(randVal(r))
		d.Set(k, v)
		if mirror && k[0] == rootPrefix[0] {
			d.Set(join(mirrorPrefix, k), v)
		}
	}
	reopen()
	w.Emit(ev{"op": "reset", "db": dump(d)})
	newStore := func() *diffdb.Database {
		if rd != nil {
			rd.Close()
			rd = nil
		}
		if overReader {
			rd = d.NewReader()
			return diffdb.New(rd, rootPrefix)
		}
		return diffdb.New(d, rootPrefix)
	}
	store := newStore()
	var lastDiff *diffdb.Diff
	// a view object that is kept across operations (and possibly across a RestoreSnapshot)
	var held *diffdb.Database
	var heldMid *diffdb.Database // the one-byte view the held two-byte view was derived from: later siblings come from it too
	var heldPrefix []byte
	stale := 0
	objs := []*snapObj{{obj: 0, s: store}}
	nextObj := 1
	heldObj := -1
	dropObjs := func() {
		objs = []*snapObj{{obj: 0, s: store}}
		heldObj = -1
		held, heldMid = nil, nil
	}
	tainted := "" // experimental mode: set once a slice was overwritten that the store may still refer to
	emit := func(e ev) {
		if tainted != "" {
			e["exp"] = tainted
		}
		w.Emit(e)
	}
	// scr overwrites the keys of a staged Range / Iterate result, in the experimental mode "range-value" the values as well
	scr := func(list []db.KeyValue) {
		if scribbleKVs(list, true, exp == "range-value") > 0 && exp == "range-value" {
			tainted = "range-value"
			meta["exp_range_scribbles"]++
		}
	}
	nops := 10 + r.Intn(50)
	for i := 0; i < nops; i++ {
		vp := views[r.Intn(len(views))]
		if r.Intn(3) == 0 {
			vp = []byte{}
		}
		full := join(rootPrefix, vp)
		view := store
		if len(vp) > 0 {
			if len(vp) == 2 && heldMid != nil && vp[0] == heldPrefix[0] && r.Intn(2) == 0 {
				view = heldMid.WithPrefix(vp[1:]) // a sibling of the held view, derived from the same parent view
			} else if len(vp) == 2 && r.Intn(2) == 0 {
				view = store.WithPrefix(vp[:1]).WithPrefix(vp[1:]) // nested views
			} else {
				view = store.WithPrefix(vp)
			}
		}
		useHeld := 0
		if held == nil && r.Intn(6) == 0 {
			heldPrefix = views[1+r.Intn(len(views)-1)]
			held, heldMid = store.WithPrefix(heldPrefix), nil
			if len(heldPrefix) == 2 && r.Intn(2) == 0 {
				heldMid = store.WithPrefix(heldPrefix[:1])
				held = heldMid.WithPrefix(heldPrefix[1:])
			}
			stale = 0
			heldObj = -1
		}
		op := r.Intn(22)
		if held != nil && r.Intn(4) == 0 && (stale == 0 || op >= 8) {
			view, vp, full, useHeld = held, heldPrefix, join(rootPrefix, heldPrefix), 1
		}
		limit := -1
		if r.Intn(2) == 0 {
			limit = 1 + r.Intn(3)
		}
		rev := r.Intn(2)
		switch {
		case op < 5:
			k := key(r, 3-len(vp)+1)
			v := randVal(r)
			arg := vdec(v)
			view.Set(k, arg)
			emit(ev{"op": "set", "view": ints(full), "k": ints(k), "v": v})
			if exp == "set-argument" && len(arg) > 0 && r.Intn(2) == 0 {
				scribble(arg) // the caller reuses its buffer after the call
				tainted = "set-argument"
				meta["exp_set_scribbles"]++
			}
		case op < 8:
			k := key(r, 3-len(vp)+1)
			view.Del(k)
			emit(ev{"op": "del", "view": ints(full), "k": ints(k)})
		case op < 10:
			k := key(r, 3-len(vp)+1)
			val, ok := view.Get(k)
			res := -1
			if ok {
				res = venc(val)
				if len(val) > 1 {
					meta["multibyte_reads"]++
				}
				if len(val) > 0 {
					meta["scribble_get"]++
				}
			}
			emit(ev{"op": "get", "view": ints(full), "k": ints(k), "res": res, "held": useHeld, "stale": stale * useHeld})
			scribble(val)
		case op < 11:
			k := key(r, 3-len(vp)+1)
			emit(ev{"op": "has", "view": ints(full), "k": ints(k), "res": tj.B(view.Has(k)), "held": useHeld, "stale": stale * useHeld})
		case op < 14:
			a, b := key(r, 2), key(r, 3)
			if r.Intn(3) == 0 {
				a = []byte{}
			}
			if r.Intn(3) == 0 {
				b = []byte{255, 255, 255, 255}
			}
			list, res := guard(func() []db.KeyValue { return view.Range(a, b, limit, rev == 1) })
			emit(ev{"op": "range", "view": ints(full), "s": ints(a), "e": ints(b), "limit": limit, "rev": rev, "res": res, "held": useHeld, "stale": stale * useHeld})
			meta["range"]++
			scr(list)
		case op < 16:
			q := key(r, 2)
			list, res := guard(func() []db.KeyValue { return view.Iterate(q, limit, rev == 1) })
			emit(ev{"op": "iter", "view": ints(full), "q": ints(q), "limit": limit, "rev": rev, "res": res, "held": useHeld, "stale": stale * useHeld})
			meta["iter"]++
			scr(list)
		case op < 17:
			// raw database scans (on the committed contents), through DB or a snapshot Reader
			first := func() byte {
				if r.Intn(4) == 0 {
					return 255
				}
				return byte(6 + r.Intn(3))
			}
			a, b := join([]byte{first()}, key(r, 2)), join([]byte{first()}, key(r, 3))
			if r.Intn(2) == 0 {
				b = join(a, key(r, 2))
			}
			var res []db.KeyValue
			if r.Intn(2) == 0 {
				res = d.IterateRange(a, b, limit, rev == 1)
			} else {
				rdr := d.NewReader()
				res = rdr.IterateRange(a, b, limit, rev == 1)
				rdr.Close()
			}
			emit(ev{"op": "dbrange", "s": ints(a), "e": ints(b), "limit": limit, "rev": rev, "res": kvs(res)})
			meta["scribble_scan"] += scribbleKVs(res, true, true)
			// prefix scans: the four entry points, prefixes with and without an upper bound
			var q []byte
			switch r.Intn(6) {
			case 0:
				q = []byte{}
			case 1:
				q = [][]byte{{255}, {255, 255}, {255, 255, 255}}[r.Intn(3)]
			default:
				q = join([]byte{first()}, key(r, 2))
			}
			unbounded := len(q) > 0 && q[0] == 255 && (len(q) == 1 || q[1] == 255)
			variant := r.Intn(4)
			rdr := d.NewReader()
			switch variant {
			case 0, 1:
				if variant == 0 {
					res = d.Iterate(q, limit, rev == 1)
				} else {
					res = rdr.Iterate(q, limit, rev == 1)
					meta["dbiter_reader"]++
				}
				emit(ev{"op": "dbiter", "q": ints(q), "limit": limit, "rev": rev, "res": kvs(res), "via": []string{"db", "reader"}[variant]})
				if unbounded && len(res) > 0 {
					meta["scan255_nonempty"]++
				}
				meta["scribble_scan"] += scribbleKVs(res, true, true)
			default:
				var ks [][]byte
				if variant == 2 {
					ks = d.IterateKey(q, limit, rev == 1)
				} else {
					ks = rdr.IterateKey(q, limit, rev == 1)
				}
				emit(ev{"op": "dbiterkey", "q": ints(q), "limit": limit, "rev": rev, "res": keysOf(ks), "via": []string{"db", "reader"}[variant-2]})
				meta["dbiterkey"]++
				if unbounded && len(ks) > 0 {
					meta["scan255_nonempty"]++
				}
				for _, k := range ks {
					scribble(k)
				}
			}
			rdr.Close()
			meta["dbscan"]++
		case op < 20:
			// snapshots: mostly on the root store (as pkg/statemachine uses them), one in three through a kept view object;
			// every object numbers its own snapshots, a restore through any object restores the whole staged state
			o := objs[0]
			sub := r.Intn(20)
			if sub >= 8 {
				// restore / delete: one in three through a view object that holds snapshots (if there is one)
				withIDs := []*snapObj{}
				for _, x := range objs[1:] {
					if len(x.ids) > 0 {
						withIDs = append(withIDs, x)
					}
				}
				if len(withIDs) > 0 && r.Intn(3) == 0 {
					o = withIDs[r.Intn(len(withIDs))]
				}
			} else if r.Intn(3) == 0 {
				switch {
				case held != nil && r.Intn(2) == 0:
					if heldObj < 0 {
						heldObj = nextObj
						nextObj++
						objs = append(objs, &snapObj{obj: heldObj, s: held})
					}
					for _, x := range objs {
						if x.obj == heldObj {
							o = x
						}
					}
				case len(objs) < 4 && len(vp) > 0 && useHeld == 0:
					o = &snapObj{obj: nextObj, s: view} // this view object is kept from now on
					nextObj++
					objs = append(objs, o)
				default:
					o = objs[r.Intn(len(objs))]
				}
			}
			switch {
			case sub < 8:
				id := o.s.Snapshot()
				o.ids = append(o.ids, id)
				emit(ev{"op": "snap", "id": id, "obj": o.obj})
				if o.obj != 0 {
					meta["snap_view"]++
				}
			case sub < 17:
				id := r.Intn(4)
				if len(o.ids) > 0 && r.Intn(4) != 0 {
					id = o.ids[r.Intn(len(o.ids))]
				}
				err := o.s.RestoreSnapshot(id)
				emit(ev{"op": "restore", "id": id, "obj": o.obj, "err": tj.B(err != nil)})
				if err == nil {
					stale = 1
					meta["restore_ok"]++
					if o.obj != 0 {
						meta["restore_view_ok"]++
					}
					// whatever object restored: the root now reads exactly the staged state of the snapshot
					top := []byte{255, 255, 255, 255, 255}
					list, res := guard(func() []db.KeyValue { return store.Range([]byte{}, top, -1, false) })
					emit(ev{"op": "range", "view": ints(rootPrefix), "s": []int{}, "e": ints(top), "limit": -1, "rev": 0, "res": res, "held": 0, "stale": 0, "tag": "restore-state"})
					scr(list)
				}
				meta["restore"]++
				if err == nil && r.Intn(2) == 0 {
					// a new snapshot right after an out-of-order restore (later snapshots are still held): it must not take
					// over the id of one of them
					nid := o.s.Snapshot()
					o.ids = append(o.ids, nid)
					emit(ev{"op": "snap", "id": nid, "obj": o.obj})
				}
			default:
				if len(o.ids) > 0 {
					id := o.ids[r.Intn(len(o.ids))]
					o.s.DeleteSnapshot(id)
					emit(ev{"op": "delsnap", "id": id, "obj": o.obj})
				}
			}
		case op < 21:
			// the receiver of Commit is the root, a fresh view or the held view: the whole staged state is written
			recv, via := store, rootPrefix
			switch r.Intn(3) {
			case 1:
				if len(vp) > 0 && useHeld == 0 {
					recv, via = view, full
					meta["commit_view"]++
				}
			case 2:
				if held != nil {
					recv, via = held, join(rootPrefix, heldPrefix)
					meta["commit_view"]++
				}
			}
			batch := d.NewBatch()
			if mirror {
				// the same writes, shifted under mirrorPrefix by batchdb: the mirror of the root prefix becomes the staged state
				bdb := batchdb.NewWithPrefix(d, batch, mirrorPrefix)
				recv.Commit(bdb)
				d.Write(batch)
				reopen()
				emit(ev{"op": "bcommit", "root": ints(rootPrefix), "p": ints(mirrorPrefix), "via": ints(via), "dump": dump(d)})
				meta["bcommit"]++
				bdb = batchdb.NewWithPrefix(d, d.NewBatch(), mirrorPrefix)
				for j := 0; j < 3; j++ {
					k := join(rootPrefix, key(r, 3))
					val, ok := bdb.Get(k)
					res := -1
					if ok {
						res = venc(val)
					}
					emit(ev{"op": "bget", "p": ints(mirrorPrefix), "k": ints(k), "res": res})
					meta["bget"]++
				}
				i = nops // the root prefix no longer holds what the store staged: the sequence ends here
				break
			}
			diff := recv.Commit(batch)
			d.Write(batch)
			reopen()
			// the diff must survive its own codec
			enc := diff.Encode()
			dec := &diffdb.Diff{}
			if err := dec.Decode(enc); err != nil {
				panic(err)
			}
			added := [][]int{}
			for _, a := range dec.Added {
				added = append(added, ints(a))
			}
			sort.Slice(added, func(i, j int) bool { return fmt.Sprint(added[i]) < fmt.Sprint(added[j]) })
			conv := func(l []*diffdb.KV) [][]interface{} {
				res := [][]interface{}{}
				for _, kv := range l {
					res = append(res, []interface{}{ints(kv.Key), venc(kv.Value)})
				}
				return res
			}
			emit(ev{"op": "commit", "via": ints(via), "dump": dump(d), "added": added, "updated": conv(dec.Updated), "deleted": conv(dec.Deleted)})
			lastDiff = dec
			store = newStore()
			dropObjs()
			meta["commit"]++
		default:
			if lastDiff != nil {
				batch := d.NewBatch()
				store = newStore()
				recv, via := store, rootPrefix
				if len(vp) > 0 && r.Intn(2) == 0 {
					recv, via = store.WithPrefix(vp), join(rootPrefix, vp)
					meta["revert_view"]++
				}
				recv.RevertDiff(batch, lastDiff)
				d.Write(batch)
				reopen()
				emit(ev{"op": "revert", "via": ints(via), "dump": dump(d)})
				lastDiff = nil
				store = newStore()
				dropObjs()
				meta["revert"]++
			}
		}
	}
	if rd != nil {
		rd.Close()
	}
	d.Close()
	meta["sequences"]++
	w.Flush() // the supervisor takes a growing trace as the sign of progress
}

// ---------------------------------------------------------------------------------------------- liskbft phase

type bftLayout struct {
	params, keys []byte // the 6-byte store prefixes of the BFT parameters / generator keys under the state prefix
	state        []byte
}

func viewDump(d *db.DB, state []byte) map[string][]byte {
	res := map[string][]byte{}
	for _, kv := range d.Iterate(state, -1, false) {
		if len(kv.Key()) == len(state)+10 {
			res[string(kv.Key())] = kv.Value()
		}
	}
	return res
}

// discoverBFT learns where the real module keeps parameters and generator keys (the prefixes are not exported): it
// writes one of each on a scratch node and looks at the database.
func discoverBFT() *bftLayout {
	n, err := bftx.NewNode(2, 2, 3)
	if err != nil {
		panic(fmt.Sprintf("c12 harness: bft node: %v", err))
	}
	defer n.Close()
	state := []byte{10}
	if err := n.SetParams(20, 20, []uint64{15, 15}, nil); err != nil {
		panic(fmt.Sprintf("c12 harness: SetBFTParameters: %v", err))
	}
	n.Flush()
	a := viewDump(n.DB, state)
	if len(a) != 1 {
		// the state prefix is blockchain.DBPrefixState; take it from the data if it ever changes
		all := n.DB.Iterate([]byte{}, -1, false)
		if len(all) == 0 {
			panic("c12 harness: nothing stored by SetBFTParameters")
		}
		state = []byte{all[0].Key()[0]}
		a = viewDump(n.DB, state)
		if len(a) != 1 {
			panic("c12 harness: layout of the BFT parameter store not recognised")
		}
	}
	l := &bftLayout{state: state}
	for k := range a {
		l.params = []byte(k)[len(state) : len(state)+6]
	}
	if err := n.Mod.API().SetGeneratorKeys(n.Store, liskbft.Generators{liskbft.NewGenerator(bftx.Addr(1), bftx.GenKey(1))}); err != nil {
		panic(fmt.Sprintf("c12 harness: SetGeneratorKeys: %v", err))
	}
	n.Flush()
	for k := range viewDump(n.DB, state) {
		if _, old := a[k]; !old {
			l.keys = []byte(k)[len(state) : len(state)+6]
		}
	}
	if l.keys == nil || string(l.keys) == string(l.params) {
		panic("c12 harness: layout of the generator key store not recognised")
	}
	return l
}

func be32(h uint32) []byte { return []byte{byte(h >> 24), byte(h >> 16), byte(h >> 8), byte(h)} }

// bftSeq: a real liskbft.Module on a real staged store.  Heights are 4-byte big-endian keys in two views; the model is told
// every write (set: after SetBFTParameters / SetGeneratorKeys; bftprune: what BeforeTransactionsExecute must retain) and
// checks GetBFTParameters / GetGeneratorKeys (Range(0, h, 1, reverse)), NextHeightBFTParameters (Range(h+1, max, 1)) and
// the contents of both views after every block.
func bftSeq(r *rand.Rand, w *tj.Writer, meta map[string]int, l *bftLayout) {
	bases := []uint32{0, 1, 2, 250, 252, 254, 65530, 65533, 16777210}
	h0 := bases[r.Intn(len(bases))]
	n, err := bftx.NewNode(2, 2, h0)
	if err != nil {
		panic(fmt.Sprintf("c12 harness: bft node: %v", err))
	}
	defer n.Close()
	api := n.Mod.API()
	pfull, gfull := join(l.state, l.params), join(l.state, l.keys)
	w.Emit(ev{"op": "reset", "db": [][]interface{}{}})
	tags := map[string]int{}               // encoded value -> the integer the model uses for it
	known := map[string]map[uint32][]byte{ // what the model was told, per view
		"p": {}, "g": {}}
	enc := func(v []byte) int {
		if t, ok := tags[string(v)]; ok {
			return t
		}
		return -7
	}
	tip := h0
	lastPc, lastGen := uint64(0), 0
	// told: after a call that may have written at height h, read that one key back and tell the model
	told := func(which string, full, suffix []byte, h uint32, tag int) {
		val, ok := n.Store.WithPrefix(suffix).Get(be32(h))
		if !ok || string(val) == string(known[which][h]) {
			return
		}
		tags[string(val)] = tag
		known[which][h] = val
		w.Emit(ev{"op": "set", "view": ints(full), "k": ints(be32(h)), "v": tag})
	}
	setParams := func() {
		pc := uint64(11 + r.Intn(20))
		for pc == lastPc {
			pc = uint64(11 + r.Intn(20))
		}
		ce := uint64(11 + r.Intn(20))
		if err := n.SetParams(pc, ce, []uint64{15, 15}, nil); err != nil {
			panic(fmt.Sprintf("c12 harness: SetBFTParameters: %v", err))
		}
		lastPc = pc
		told("p", pfull, l.params, tip+1, int(pc))
	}
	setKeys := func() {
		g := 1 + r.Intn(2)
		if g == lastGen {
			g = 3 - g
		}
		gens := liskbft.Generators{liskbft.NewGenerator(bftx.Addr(g), bftx.GenKey(g)), liskbft.NewGenerator(bftx.Addr(3-g), bftx.GenKey(3-g))}
		if err := api.SetGeneratorKeys(n.Store, gens); err != nil {
			panic(fmt.Sprintf("c12 harness: SetGeneratorKeys: %v", err))
		}
		lastGen = g
		told("g", gfull, l.keys, tip+1, 100+g)
	}
	below := func(which string, h uint32) int {
		c := 0
		for k := range known[which] {
			if k <= h {
				c++
			}
		}
		return c
	}
	probe := func() {
		var h uint32
		switch r.Intn(6) {
		case 0:
			h = 0
		case 1:
			h = 0xffffffff
		default:
			lo := h0
			if lo > 0 {
				lo--
			}
			h = lo + uint32(r.Intn(int(tip+2-lo)+1))
		}
		switch r.Intn(5) {
		case 0, 1:
			res := -1
			p, err := api.GetBFTParameters(n.Store, h)
			if err == nil {
				res = int(p.PrecommitThreshold())
			} else if !errors.Is(err, liskbft.ErrBFTParamsNotFound) {
				res = -2
			}
			w.Emit(ev{"op": "bftget", "view": ints(pfull), "h": ints(be32(h)), "res": res})
			meta["bft_get"]++
			if below("p", h) >= 2 {
				meta["bft_get_multi"]++
			}
		case 2, 3:
			res := -1
			g, err := api.GetGeneratorKeys(n.Store, h)
			if err == nil && len(g) > 0 {
				res = 100 + bftx.ValOf(g[0].Address())
			} else if err == nil || !errors.Is(err, liskbft.ErrGeneratorKeysNotFound) {
				res = -2
			}
			w.Emit(ev{"op": "bftget", "view": ints(gfull), "h": ints(be32(h)), "res": res})
			meta["bft_get"]++
			if below("g", h) >= 2 {
				meta["bft_get_multi"]++
			}
		default:
			if h == 0xffffffff {
				h = tip
			}
			res := [][]int{}
			nh, err := api.NextHeightBFTParameters(n.Store, h)
			if err == nil {
				res = append(res, ints(be32(nh)))
			}
			w.Emit(ev{"op": "bftnext", "view": ints(pfull), "s": ints(be32(h + 1)), "res": res})
			meta["bft_next"]++
		}
	}
	whole := func(full, suffix []byte, tag string) int {
		list := n.Store.WithPrefix(suffix).Range(be32(0), be32(0xffffffff), -1, false)
		w.Emit(ev{"op": "range", "view": ints(full), "s": ints(be32(0)), "e": ints(be32(0xffffffff)), "limit": -1, "rev": 0,
			"res": kvsWith(list, enc), "held": 0, "stale": 0, "tag": tag})
		return len(list)
	}
	flush := func() {
		n.Flush()
		d := append(n.DB.Iterate(pfull, -1, false), n.DB.Iterate(gfull, -1, false)...)
		w.Emit(ev{"op": "flush", "views": [][]int{ints(pfull), ints(gfull)}, "dump": kvsWith(d, enc)})
		meta["bft_flush"]++
	}
	setParams()
	setKeys()
	cert := h0
	nblocks := 8 + r.Intn(8)
	for b := 0; b < nblocks; b++ {
		mhpv, _, _, herr := api.GetBFTHeights(n.Store)
		if herr != nil {
			panic(fmt.Sprintf("c12 harness: GetBFTHeights: %v", herr))
		}
		hd := bftx.Hdr{H: tip + 1, Gen: uint32(1 + r.Intn(2)), Mhg: tip, Mhp: mhpv, AcH: cert}
		if tip > h0 && r.Intn(3) != 0 {
			// the aggregate commit certifies a height between the last certified one and the parent
			c := cert + uint32(r.Intn(int(tip-cert)+1))
			hd.AcH, hd.AcNonEmpty = c, true
		}
		before := len(known["p"]) + len(known["g"])
		if err := n.Apply(n.Header(hd)); err != nil {
			// the module refused the block (possible only when its own reads went wrong): nothing more to compare here
			meta["bft_apply_err"]++
			break
		}
		tip++
		if hd.AcNonEmpty {
			cert = hd.AcH
		}
		o, err := n.Observe()
		if err != nil {
			meta["bft_apply_err"]++
			break
		}
		oldest := tip
		if len(o.Win) > 0 {
			oldest = uint32(o.Win[len(o.Win)-1][0])
		}
		minH := oldest
		if o.Cert+1 < minH {
			minH = o.Cert + 1
		}
		// BeforeTransactionsExecute keeps, in both views, everything above minH and the newest entry at or below it
		for _, x := range []struct {
			which        string
			full, suffix []byte
		}{{"p", pfull, l.params}, {"g", gfull, l.keys}} {
			w.Emit(ev{"op": "bftprune", "view": ints(x.full), "h": ints(be32(minH))})
			var newest uint32
			found := false
			for k := range known[x.which] {
				if k <= minH && (!found || k > newest) {
					newest, found = k, true
				}
			}
			for k := range known[x.which] {
				if k <= minH && k != newest {
					delete(known[x.which], k)
				}
			}
			whole(x.full, x.suffix, "bft-prune")
		}
		if len(known["p"])+len(known["g"]) < before {
			meta["bft_prune_removed"]++
		}
		meta["bft_apply"]++
		if r.Intn(2) == 0 {
			setParams()
		}
		if r.Intn(3) == 0 {
			setKeys()
		}
		if r.Intn(3) == 0 {
			flush()
		}
		for j := r.Intn(3); j > 0; j-- {
			probe()
		}
	}
	meta["bft_seq"]++
	w.Flush()
}

// ---------------------------------------------------------------------------------------------- two goroutines, two views

// racePhase: per round one store with two sibling views; two goroutines, released at the same instant, work each on its own
// view (Get fills the shared overlay from the database, Set/Del write it, Range/Iterate scan it).  The key sets of the two
// views are disjoint, so every interleaving is equivalent to "first all calls of A, then all calls of B": that order is
// logged and validated by the monitor like any other sequence.  Data races are the race detector's business.
func racePhase(r *rand.Rand, w *tj.Writer, meta map[string]int, rounds int) {
	type call struct {
		op         int
		k, a, b    []byte
		v, lim, rv int
	}
	for round := 0; round < rounds; round++ {
		fmt.Fprintf(os.Stderr, "C12-RACE round %d begin\n", round)
		d := openDB(nil)
		for i := r.Intn(8); i > 0; i-- {
			d.Set(join([]byte{7, byte(1 + r.Intn(2))}, key(r, 2)), vdec(randVal(r)))
		}
		w.Emit(ev{"op": "reset", "db": dump(d)})
		store := diffdb.New(d, rootPrefix)
		vs := []*diffdb.Database{store.WithPrefix([]byte{1}), store.WithPrefix([]byte{2})}
		plans := [2][]call{}
		for g := 0; g < 2; g++ {
			for i := 8 + r.Intn(6); i > 0; i-- {
				c := call{op: r.Intn(10), k: key(r, 2), a: key(r, 1), b: key(r, 2), v: randVal(r), lim: -1, rv: r.Intn(2)}
				if r.Intn(2) == 0 {
					c.lim = 1 + r.Intn(2)
				}
				plans[g] = append(plans[g], c)
			}
		}
		logs := [2][]ev{}
		start := make(chan struct{})
		var wg sync.WaitGroup
		for g := 0; g < 2; g++ {
			wg.Add(1)
			go func(g int) {
				defer wg.Done()
				v, full := vs[g], ints([]byte{7, byte(1 + g)})
				<-start
				for _, c := range plans[g] {
					switch {
					case c.op < 3:
						v.Set(c.k, vdec(c.v))
						logs[g] = append(logs[g], ev{"op": "set", "view": full, "k": ints(c.k), "v": c.v})
					case c.op < 4:
						v.Del(c.k)
						logs[g] = append(logs[g], ev{"op": "del", "view": full, "k": ints(c.k)})
					case c.op < 7:
						val, ok := v.Get(c.k)
						res := -1
						if ok {
							res = venc(val)
						}
						logs[g] = append(logs[g], ev{"op": "get", "view": full, "k": ints(c.k), "res": res, "held": 0, "stale": 0})
					case c.op < 8:
						logs[g] = append(logs[g], ev{"op": "has", "view": full, "k": ints(c.k), "res": tj.B(v.Has(c.k)), "held": 0, "stale": 0})
					case c.op < 9:
						res := kvs(v.Range(c.a, join(c.a, c.b), c.lim, c.rv == 1))
						logs[g] = append(logs[g], ev{"op": "range", "view": full, "s": ints(c.a), "e": ints(join(c.a, c.b)), "limit": c.lim, "rev": c.rv, "res": res, "held": 0, "stale": 0})
					default:
						res := kvs(v.Iterate(c.a, c.lim, c.rv == 1))
						logs[g] = append(logs[g], ev{"op": "iter", "view": full, "q": ints(c.a), "limit": c.lim, "rev": c.rv, "res": res, "held": 0, "stale": 0})
					}
				}
			}(g)
		}
		close(start)
		wg.Wait()
		for g := 0; g < 2; g++ {
			for _, e := range logs[g] {
				e["tag"] = "concurrent-views"
				w.Emit(e)
				meta["race_calls"]++
			}
		}
		batch := d.NewBatch()
		diff := vs[round%2].Commit(batch)
		d.Write(batch)
		added := [][]int{}
		for _, a := range diff.Added {
			added = append(added, ints(a))
		}
		conv := func(l []*diffdb.KV) [][]interface{} {
			res := [][]interface{}{}
			for _, kv := range l {
				res = append(res, []interface{}{ints(kv.Key), venc(kv.Value)})
			}
			return res
		}
		w.Emit(ev{"op": "commit", "via": []int{7, 1 + round%2}, "dump": dump(d), "added": added, "updated": conv(diff.Updated), "deleted": conv(diff.Deleted), "tag": "concurrent-views"})
		d.Close()
		meta["race_rounds"]++
		meta["sequences"]++
		w.Flush()
	}
}
