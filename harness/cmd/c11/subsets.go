package main

import (
	"bytes"
	"fmt"
	"math/rand"
	"sort"

	"github.com/LiskHQ/lisk-engine/pkg/trie/rmt"
)

func cloneProof(p *rmt.Proof) *rmt.Proof {
	return &rmt.Proof{Size: p.Size, Idxs: append([]uint64{}, p.Idxs...), SiblingHashes: copyHashes(p.SiblingHashes)}
}

func hashesOf(order []int, val valfn) [][]byte {
	q := [][]byte{}
	for _, p := range order {
		q = append(q, leafHash(val(p)))
	}
	return q
}

// some positions of 0..k-1: all of them when there are few, else the first, the last and a few random ones
func somePositions(k int, r *rand.Rand, max int) []int {
	res := []int{}
	if k <= max {
		for j := 0; j < k; j++ {
			res = append(res, j)
		}
		return res
	}
	set := map[int]bool{0: true, k - 1: true}
	for len(set) < max {
		set[r.Intn(k)] = true
	}
	for j := range set {
		res = append(res, j)
	}
	sort.Ints(res)
	return res
}

// checkSubset: one list of n distinct values and one leaf set: proof, tampered proofs, update through the proof, Update on the
// tree, and what the tree answers AFTER the update (the nodes Update wrote are read back by proofs of other leaf sets, by
// right witnesses, by a second Update and - behind the switch - by the next Append).
func checkSubset(n int, s []int, r *rand.Rand, origin string) {
	add(&out.Subsets, 1)
	if origin == "shape" {
		add(&out.Shapes, 1)
	}
	rep := map[string]interface{}{"n": n, "subset": s, "origin": origin}
	guard("proof", rep, func() {
		row := sizeRow(n)
		st := newStore()
		tree := build(n, st, distinct)
		if n >= 2 && r.Intn(2) == 0 {
			// the proofs (and everything after them) come from a tree reloaded from storage
			re, err := rmt.NewRegularMerkleTreeWithPastData(st)
			if err != nil {
				viol("reload", fmt.Sprintf("tree of %d leaves cannot be reloaded from storage: %v", n, err), rep)
				return
			}
			tree = re
			rep["reloaded"] = true
			hit("proof-on-reloaded-tree")
		}
		order := append([]int{}, s...)
		if r.Intn(2) == 0 {
			r.Shuffle(len(order), func(i, j int) { order[i], order[j] = order[j], order[i] })
		}
		rep["order"] = order
		inS := map[int]bool{}
		for _, p := range s {
			inS[p] = true
		}
		q := hashesOf(order, distinct)
		want, _ := row.distinctHashes()
		proof, err := tree.GenerateProof(q)
		if err != nil {
			viol("proof-error", "GenerateProof failed: "+err.Error(), rep)
			return
		}
		add(&out.Evals, 1)
		clone := func() *rmt.Proof { return cloneProof(proof) }
		cq := func() [][]byte { return copyHashes(q) }
		if !rmt.VerifyProof(cq(), clone(), want) {
			viol("proof-completeness", fmt.Sprintf("inclusion proof for leaves %v of a list of %d does not verify against the LIP-0031 root", order, n), rep)
			return
		}
		// the same proof object must verify again (no hidden mutation of caller data)
		p2 := clone()
		q2 := cq()
		if !rmt.VerifyProof(q2, p2, want) || !rmt.VerifyProof(q2, p2, want) {
			viol("proof-completeness-reuse", "a proof that verified once does not verify when used again", rep)
			return
		}
		if len(order) > 1 && !gated("aliasing:proof-input") {
			// (defect candidate iii) query hashes and sibling hashes as sub-slices of one backing array each
			pa := clone()
			pa.SiblingHashes = shared(pa.SiblingHashes)
			if !rmt.VerifyProof(shared(q), pa, want) {
				viol("aliasing:proof-input", fmt.Sprintf("a proof for leaves %v of %d whose query and sibling hashes are sub-slices of one buffer does not verify", order, n), rep)
				return
			}
		}
		// soundness: any other leaf data, any other root, any other sibling hash (spec: Tampers.proof)
		other := fold(row.Root, over(distinct, map[int][]byte{1 + r.Intn(n): []byte("another value")}))
		reject := func(kind string, pos int, q [][]byte, p *rmt.Proof, root []byte) bool {
			if rmt.VerifyProof(q, p, root) {
				key := map[string]string{"forge-query": "proof-soundness", "other-root": "proof-soundness-root"}[kind]
				if key == "" {
					key = "proof-soundness:" + kind
				}
				viol(key, fmt.Sprintf("a tampered proof verifies (%s, element %d; n=%d, leaves %v)", kind, pos, n, order), rep)
				return false
			}
			add(&out.Rejected, 1)
			hit("tamper:proof:" + kind)
			return true
		}
		for _, kind := range tampers.Proof {
			switch kind {
			case "forge-query":
				for _, j := range somePositions(len(order), r, 6) {
					bad := cq()
					bad[j] = forged
					if !reject(kind, j, bad, clone(), want) {
						return
					}
				}
			case "forge-sibling":
				for _, k := range somePositions(len(proof.SiblingHashes), r, 6) {
					bad := clone()
					bad.SiblingHashes[k] = forged
					if !reject(kind, k, cq(), bad, want) {
						return
					}
				}
			case "drop-sibling":
				if k := len(proof.SiblingHashes); k > 0 {
					bad := clone()
					bad.SiblingHashes = bad.SiblingHashes[:k-1]
					if !reject(kind, k-1, cq(), bad, want) {
						return
					}
				}
			case "extend-sibling":
				if !noVerdict(kind) {
					harnessError("the specification gives a verdict for tamper kind " + kind + ", the harness does not")
				}
				if n <= 16 {
					bad := clone()
					bad.SiblingHashes = append(bad.SiblingHashes, forged)
					bounded("VerifyProof with one more sibling hash", func() { rmt.VerifyProof(cq(), bad, want) })
					hit("tamper:proof:" + kind)
				}
			case "other-root", "nil-root", "empty-root", "short-root":
				if !reject(kind, 0, cq(), clone(), badRoots(want, other)[kind]) {
					return
				}
			}
		}
		// update through the proof = root of the modified list
		upd := map[int][]byte{}
		newData := [][]byte{}
		for _, p := range order {
			upd[p] = updVal(p)
		}
		for _, p := range order {
			newData = append(newData, upd[p])
		}
		val1 := over(distinct, upd)
		wantUpd := fold(row.Root, val1)
		// use the proof that was verified before (as a caller would)
		got, err := rmt.CalculateRootFromUpdateData(newData, p2)
		if err != nil || !bytes.Equal(got, wantUpd) {
			viol("update-from-proof", fmt.Sprintf("CalculateRootFromUpdateData for leaves %v of %d: %x err=%v, root of the modified list is %x", order, n, got, err, wantUpd), rep)
			return
		}
		idxs := []uint64{}
		for _, p := range order {
			idxs = append(idxs, leafIdx(n, p))
		}
		if err := tree.Update(idxs, newData); err != nil {
			viol("update-error", "Update failed: "+err.Error(), rep)
			return
		}
		if !bytes.Equal(tree.Root(), wantUpd) {
			viol("update-root", fmt.Sprintf("root after Update of leaves %v of %d differs from the root of the modified list", order, n), rep)
			return
		}
		// reload after update keeps the root; proofs of the updated tree verify
		re, err := rmt.NewRegularMerkleTreeWithPastData(st)
		if err != nil || !bytes.Equal(re.Root(), wantUpd) || re.Size() != uint64(n) {
			viol("reload-after-update", fmt.Sprintf("reloaded tree differs after update (err=%v)", err), rep)
			return
		}
		q3 := hashesOf(order, val1)
		p3, err := re.GenerateProof(q3)
		if err != nil || !rmt.VerifyProof(q3, p3, wantUpd) {
			viol("proof-after-update", fmt.Sprintf("proof generated after Update does not verify (err=%v)", err), rep)
			return
		}
		add(&out.Evals, 4)
		// the caller's (index, value) pairs are still the same update: applying them again changes nothing (an Update that
		// reorders one of the two lists in place breaks this, one that reorders both together does not)
		if err := tree.Update(idxs, newData); err != nil || !bytes.Equal(tree.Root(), wantUpd) {
			viol("update-arguments-reuse", fmt.Sprintf("the same index and value lists passed to Update a second time give another root (err=%v)", err), rep)
			return
		}

		// ---- what Update wrote is read back: on the SAME object (the one that answered before the update)
		// proofs of other leaf sets
		others := [][]int{}
		cand := []int{}
		for t := 1; t <= n; t++ {
			if !inS[t] {
				cand = append(cand, t)
			}
		}
		if len(cand) > 0 {
			pick := map[int]bool{}
			if n <= 8 {
				for _, t := range cand {
					pick[t] = true
				}
			} else {
				for _, p := range s {
					for _, t := range []int{p - 1, p + 1} {
						if t >= 1 && t <= n && !inS[t] && len(pick) < 3 {
							pick[t] = true
						}
					}
				}
				for _, t := range []int{cand[0], cand[r.Intn(len(cand))]} {
					pick[t] = true
				}
			}
			for t := range pick {
				others = append(others, []int{t})
			}
			t := cand[r.Intn(len(cand))]
			others = append(others, append([]int{t}, order...)) // S plus one leaf
		}
		if len(order) > 1 {
			others = append(others, append([]int{}, order[1:]...)) // S minus one leaf
		}
		for _, o := range others {
			if !proveVerify(tree, n, o, val1, wantUpd, rep, "proof-after-update:other-leaves") {
				return
			}
			hit("proof-after-update:other-leaves")
		}
		// right witnesses across the updated paths
		other1 := fold(row.Root, over(val1, map[int][]byte{1 + r.Intn(n): []byte("another value")}))
		positions := []int{}
		if n <= 16 {
			for i := 0; i <= n; i++ {
				positions = append(positions, i)
			}
		} else {
			// next to the updated leaves, at both ends, and one at random
			set := map[int]bool{0: true, 1: true, n - 1: true, n: true, r.Intn(n + 1): true}
			for _, j := range somePositions(len(s), r, 3) {
				set[s[j]-1] = true
				set[s[j]] = true
			}
			for i := range set {
				positions = append(positions, i)
			}
			sort.Ints(positions)
		}
		for _, i := range positions {
			if _, ok := sizes[i]; !ok {
				continue
			}
			if i == 0 && gated("witness-after-update:position-0") {
				continue
			}
			ctx := "witness-after-update"
			if i == 0 {
				ctx = "witness-after-update:position-0"
			}
			if !checkWitness(tree, n, i, pathOf(i, val1, false), wantUpd, other1, rep, ctx, false) {
				if i == 0 {
					continue
				}
				return
			}
			hit("witness-after-update")
		}
		// (defect candidate i) the append path of the tree is the append path of the modified list
		stale := false
		if !gated("append-path-after-update") {
			if !eqPath(tree.AppendPath(), foldPath(row.Path, val1)) {
				viol("append-path-after-update", fmt.Sprintf("the append path after Update of leaves %v of %d is not the append path of the modified list", order, n), rep)
				stale = true
			}
		}
		// a second Update of another leaf set (overlapping the first one in one leaf)
		set2 := map[int]bool{order[r.Intn(len(order))]: true}
		if len(cand) > 0 {
			set2[cand[r.Intn(len(cand))]] = true
			if r.Intn(2) == 0 {
				set2[cand[r.Intn(len(cand))]] = true
			}
		}
		order2 := []int{}
		for p := range set2 {
			order2 = append(order2, p)
		}
		sort.Sort(sort.Reverse(sort.IntSlice(order2)))
		rep["second"] = order2
		upd2 := map[int][]byte{}
		idxs2, data2 := []uint64{}, [][]byte{}
		for _, p := range order2 {
			upd2[p] = upd2Val(p)
			idxs2 = append(idxs2, leafIdx(n, p))
			data2 = append(data2, upd2[p])
		}
		val2 := over(val1, upd2)
		want2 := fold(row.Root, val2)
		if err := tree.Update(idxs2, data2); err != nil || !bytes.Equal(tree.Root(), want2) {
			viol("update-after-update", fmt.Sprintf("root after a second Update (leaves %v after %v, n=%d) differs from the root of the modified list (err=%v)", order2, order, n, err), rep)
			return
		}
		hit("update-after-update")
		if !proveVerify(tree, n, order, val2, want2, rep, "proof-after-update:second-update") {
			return
		}
		for _, i := range []int{1, (n + 1) / 2, n} {
			if _, ok := sizes[i]; ok && i >= 1 {
				if !checkWitness(tree, n, i, pathOf(i, val2, false), want2, other1, rep, "witness-after-update", false) {
					return
				}
			}
		}
		// (defect candidate i) the next Append continues from the modified list
		next, ok := sizes[n+1]
		if ok && !gated("append-after-update") {
			v := []byte(fmt.Sprintf("appended-after-update-%d", n+1))
			val3 := over(val2, map[int][]byte{n + 1: v})
			err := tree.Append(v)
			if err != nil || !bytes.Equal(tree.Root(), fold(next.Root, val3)) {
				viol("append-after-update", fmt.Sprintf("Append after Update (n=%d, updated %v then %v): the root is not the root of the modified list with the new leaf (err=%v)", n, order, order2, err), rep)
				return
			}
			if !stale && !eqPath(tree.AppendPath(), foldPath(next.Path, val3)) {
				viol("append-after-update", fmt.Sprintf("Append after Update (n=%d): the append path is not the append path of the modified list with the new leaf", n), rep)
				return
			}
			hit("append-after-update")
		}
	})
}
