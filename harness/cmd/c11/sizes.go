package main

import (
	"bytes"
	"fmt"
	"math/rand"
	"time"

	"github.com/LiskHQ/lisk-engine/pkg/db"
	"github.com/LiskHQ/lisk-engine/pkg/trie/rmt"
)

// the tamper kinds of the specification (RMT.tla: Tampers) this harness implements
var knownTamper = map[string]bool{
	"forge-witness": true, "forge-path": true, "drop-witness": true, "extend-witness": true, "position": true,
	"forge-query": true, "forge-sibling": true, "drop-sibling": true, "extend-sibling": true,
	"other-root": true, "nil-root": true, "empty-root": true, "short-root": true,
}

var forged = leafHash([]byte("forged"))

func noVerdict(kind string) bool {
	for _, k := range tampers.NoVerdict {
		if k == kind {
			return true
		}
	}
	return false
}

// bounded runs a call whose verdict is free (the statement says nothing about it); only a hang is of interest, and that is
// a tool-level finding here (C09 owns hangs): the run ends inconclusive
func bounded(what string, f func()) {
	done := make(chan struct{})
	go func() {
		defer func() { recover(); close(done) }()
		f()
	}()
	select {
	case <-done:
	case <-time.After(120 * time.Second):
		harnessError("call did not return within 120 s: " + what)
	}
}

func badRoots(want, other []byte) map[string][]byte {
	return map[string][]byte{"other-root": other, "nil-root": nil, "empty-root": {}, "short-root": append([]byte{}, want[:len(want)-1]...)}
}

// checkWitness: the append path `ap` of the first i values and the right witness the tree generates for position i
// reconstruct `want`.  ctx "" uses the keys witness-error / witness-root, otherwise ctx is the key of both.
// full: the whole tamper table of the specification, otherwise only the forged last element.
func checkWitness(tree *rmt.RegularMerkleTree, n, i int, ap [][]byte, want, other []byte, rep map[string]interface{}, ctx string, full bool) bool {
	kErr, kRoot := "witness-error", "witness-root"
	if ctx != "" {
		kErr, kRoot = ctx, ctx
	}
	r2 := map[string]interface{}{"case": rep, "i": i}
	w, err := tree.GenerateRightWitness(uint64(i))
	if n == 0 {
		// nothing can be reconstructed for the empty list (an error is as good as an empty witness); but no root verifies
		for kind, bad := range badRoots(emptyHash, forged) {
			if full && rmt.VerifyRightWitness(0, [][]byte{}, [][]byte{}, bad) {
				viol("witness-soundness:"+kind, "the empty tree: an empty append path and an empty witness verify against a root that is not the root of the list ("+kind+")", r2)
				return false
			}
			if full {
				add(&out.Rejected, 1)
				hit("tamper:witness:" + kind)
			}
		}
		return true
	}
	if err != nil {
		viol(kErr, fmt.Sprintf("GenerateRightWitness(%d) of %d: %v", i, n, err), r2)
		return false
	}
	add(&out.Witness, 1)
	w = copyHashes(w)
	if !rmt.VerifyRightWitness(uint64(i), copyHashes(ap), copyHashes(w), want) {
		viol(kRoot, fmt.Sprintf("append path of the first %d leaves + right witness does not reconstruct the root of %d leaves", i, n), r2)
		return false
	}
	reject := func(kind string, pos int, ap2, w2 [][]byte, root []byte) bool {
		if rmt.VerifyRightWitness(uint64(i), ap2, w2, root) {
			key := "witness-soundness"
			if kind != "forge-witness" {
				key += ":" + kind
			}
			viol(key, fmt.Sprintf("a tampered right witness verifies (%s, element %d; n=%d, position %d)", kind, pos, n, i), r2)
			return false
		}
		add(&out.Rejected, 1)
		return true
	}
	if !full {
		if len(w) > 0 {
			bad := copyHashes(w)
			bad[len(bad)-1] = forged
			return reject("forge-witness", len(bad)-1, copyHashes(ap), bad, want)
		}
		return true
	}
	for _, kind := range tampers.Witness {
		switch kind {
		case "forge-witness":
			for k := range w {
				bad := copyHashes(w)
				bad[k] = forged
				if !reject(kind, k, copyHashes(ap), bad, want) {
					return false
				}
				hit("tamper:witness:" + kind)
			}
		case "forge-path":
			for k := range ap {
				bad := copyHashes(ap)
				bad[k] = forged
				if !reject(kind, k, bad, copyHashes(w), want) {
					return false
				}
				hit("tamper:witness:" + kind)
			}
		case "drop-witness":
			if len(w) > 0 {
				if !reject(kind, len(w)-1, copyHashes(ap), copyHashes(w[:len(w)-1]), want) {
					return false
				}
				hit("tamper:witness:" + kind)
			}
		case "other-root", "nil-root", "empty-root", "short-root":
			if !reject(kind, 0, copyHashes(ap), copyHashes(w), badRoots(want, other)[kind]) {
				return false
			}
			hit("tamper:witness:" + kind)
		case "extend-witness":
			if !noVerdict(kind) {
				harnessError("the specification gives a verdict for tamper kind " + kind + ", the harness does not")
			}
			if n <= 16 {
				bounded("VerifyRightWitness with an extended witness", func() {
					rmt.VerifyRightWitness(uint64(i), copyHashes(ap), append(copyHashes(w), forged), want)
				})
				hit("tamper:witness:" + kind)
			}
		case "position":
			if !noVerdict(kind) {
				harnessError("the specification gives a verdict for tamper kind " + kind + ", the harness does not")
			}
			if n <= 16 {
				for _, j := range []int{i - 1, i + 1} {
					if j >= 0 {
						j := j
						bounded("VerifyRightWitness at another position", func() { rmt.VerifyRightWitness(uint64(j), copyHashes(ap), copyHashes(w), want) })
					}
				}
				hit("tamper:witness:" + kind)
			}
		}
	}
	return true
}

// pathOf: the folded declarative append path of the first i values
func pathOf(i int, val valfn, isDistinct bool) [][]byte {
	row := sizeRow(i)
	if isDistinct {
		_, p := row.distinctHashes()
		return p
	}
	return foldPath(row.Path, val)
}

func sizeJob(n int, r *rand.Rand) {
	row := sizes[n]
	add(&out.Sizes, 1)
	fams := append([]Fam{{Name: "distinct"}}, row.Fams...)
	next, haveNext := sizes[n+1]
	for fi, fam := range fams {
		fi, fam := fi, fam
		isDistinct := fi == 0
		val := valfn(distinct)
		if !isDistinct {
			val = famVal(fam)
			hit("family:" + fam.Name)
		}
		// the value appended after the n values of the family: a new one, or (family "repeated") the last one again
		extra := []byte(fmt.Sprintf("extra-leaf-%d", n+1))
		if fam.Name == "repeated" && n > 0 {
			extra = val(n)
		}
		valNext := over(val, map[int][]byte{n + 1: extra})
		rep := map[string]interface{}{"n": n, "family": fam.Name}
		var want []byte
		var wantPath [][]byte
		if isDistinct {
			want, wantPath = row.distinctHashes()
		} else {
			want, wantPath = fold(row.Root, val), foldPath(row.Path, val)
		}
		other := forged
		if n > 0 {
			other = fold(row.Root, over(val, map[int][]byte{1 + r.Intn(n): []byte("another value")}))
		}
		guard("size", rep, func() {
			var st rmt.Database = newStore()
			if n%4 == 0 && isDistinct {
				d, err := db.NewInMemoryDB()
				if err != nil {
					panic(err)
				}
				defer d.Close()
				st = d
			}
			tree := build(n, st, val)
			add(&out.Evals, 1)
			if !bytes.Equal(tree.Root(), want) {
				viol("incremental-root", fmt.Sprintf("root after %d appends differs from the LIP-0031 root", n), rep)
				return
			}
			data := [][]byte{}
			for i := 1; i <= n; i++ {
				data = append(data, val(i))
			}
			if !bytes.Equal(rmt.CalculateRoot(data), want) {
				viol("batch-root", fmt.Sprintf("CalculateRoot of %d leaves differs from the LIP-0031 root", n), rep)
				return
			}
			if isDistinct || n <= 40 {
				// the same slice again, as Block.Validate followed by GetRoot would do
				if !bytes.Equal(rmt.CalculateRoot(data), want) {
					viol("batch-root:second-call", fmt.Sprintf("the second CalculateRoot on the same slice of %d leaves gives another root", n), rep)
					return
				}
				if !bytes.Equal(rmt.CalculateRoot(shared(data)), want) {
					viol("aliasing:batch-input", fmt.Sprintf("CalculateRoot of %d leaves that are sub-slices of one buffer differs from the LIP-0031 root", n), rep)
					return
				}
				hit("batch-root:second-call")
			}
			if tree.Size() != uint64(n) || !eqPath(tree.AppendPath(), wantPath) {
				viol("append-path", fmt.Sprintf("size/append path after %d appends differ from LIP-0031", n), rep)
				return
			}
			// right witnesses: the distinct family at every printed position, the other families for the short lists
			witnesses := func(t *rmt.RegularMerkleTree, ctx string, full bool) bool {
				for i := 0; i <= n; i++ {
					if _, ok := sizes[i]; !ok {
						continue
					}
					if !checkWitness(t, n, i, pathOf(i, val, isDistinct), want, other, rep, ctx, full) {
						return false
					}
					if n == 0 {
						break
					}
					if i > 0 && (i == n || i == n/2 || i == 3) {
						// (defect candidate iii) the same call with hashes that share one backing array
						if !gated("aliasing:witness-input") {
							w, _ := t.GenerateRightWitness(uint64(i))
							if !rmt.VerifyRightWitness(uint64(i), shared(pathOf(i, val, isDistinct)), shared(w), want) {
								viol("aliasing:witness-input", fmt.Sprintf("append path and right witness passed as sub-slices of one buffer do not reconstruct the root (n=%d, position %d)", n, i), rep)
								return false
							}
						}
					}
				}
				return true
			}
			if isDistinct || n <= 40 {
				if !witnesses(tree, "", n <= 40 && isDistinct) {
					return
				}
			}
			if n >= 1 && !(n == 1 && gated("reload:size-1")) {
				kReload := "reload"
				if n == 1 {
					kReload = "reload:size-1"
				}
				re, err := rmt.NewRegularMerkleTreeWithPastData(st)
				if err != nil || !bytes.Equal(re.Root(), want) || re.Size() != uint64(n) || !eqPath(re.AppendPath(), wantPath) {
					viol(kReload, fmt.Sprintf("tree of %d leaves reloaded from storage differs (err=%v)", n, err), rep)
					return
				}
				hit("reload")
				if n <= 40 {
					if !witnesses(re, "reload-witness", false) {
						return
					}
					hit("reload-witness")
				}
				// continue appending on the reloaded tree
				if haveNext {
					if err := re.Append(extra); err != nil || !bytes.Equal(re.Root(), fold(next.Root, valNext)) || !eqPath(re.AppendPath(), foldPath(next.Path, valNext)) {
						viol("reload-append", fmt.Sprintf("append on a tree of %d leaves reloaded from storage gives a wrong root/path (err=%v)", n, err), rep)
						return
					}
				}
			}
		})
		// prediction from the append path
		if haveNext {
			guard("predict", rep, func() {
				add(&out.Evals, 1)
				wantRoot, wantNextPath := fold(next.Root, valNext), foldPath(next.Path, valNext)
				res := rmt.CalculateRootFromAppendPath(extra, copyHashes(wantPath), uint64(n))
				if !bytes.Equal(res.Root, wantRoot) || res.Size != uint64(n+1) || !eqPath(res.AppendPath, wantNextPath) {
					viol("predict-from-append-path", fmt.Sprintf("root/append path predicted from the append path of %d leaves differ from those after the real append", n), rep)
					return
				}
				if len(wantPath) > 1 && !gated("aliasing:append-path-input") {
					// (defect candidate iii) the append path as sub-slices of one backing array with spare capacity
					res := rmt.CalculateRootFromAppendPath(extra, shared(wantPath), uint64(n))
					if !bytes.Equal(res.Root, wantRoot) || !eqPath(res.AppendPath, wantNextPath) {
						viol("aliasing:append-path-input", fmt.Sprintf("CalculateRootFromAppendPath with an append path of %d leaves whose entries are sub-slices of one buffer predicts a wrong root/path", n), rep)
					}
				}
			})
		}
	}
}

// one LIVE tree grown leaf by leaf: values handed out earlier are used later, the way a caller uses them - the append
// path taken before an append predicts the state after it, the path of the first i leaves verifies right witnesses
// generated many appends later, a root handed out stays the root of that size; and the same leaves are proven again
// after every append (what the tree read for the first proof must not serve the second one)
func liveJob(r *rand.Rand) {
	guard("live", map[string]interface{}{"live": true}, func() {
		maxN := 0
		for _, n := range ns {
			if n > maxN && n <= 70 {
				maxN = n
			}
		}
		tree := rmt.NewRegularMerkleTree(newStore())
		keptPath := map[int][][]byte{} // size -> the slice AppendPath() returned at that size (not copied)
		keptRoot := map[int][]byte{}   // size -> the slice Root() returned at that size (not copied)
		proven := map[int]int{}        // leaf -> size at which it was proven last
		for n := 0; n < maxN; n++ {
			p := tree.AppendPath()
			keptPath[n] = p
			keptRoot[n] = tree.Root()
			sz := tree.Size()
			v := distinct(n + 1)
			if err := tree.Append(v); err != nil {
				panic(err)
			}
			add(&out.Evals, 1)
			res := rmt.CalculateRootFromAppendPath(v, p, sz)
			if !bytes.Equal(res.Root, tree.Root()) || res.Size != tree.Size() || !eqPath(res.AppendPath, tree.AppendPath()) {
				viol("predict-from-append-path", fmt.Sprintf("live tree: the append path taken at %d leaves, evaluated after the real append, predicts a root/path different from the tree's", n), map[string]interface{}{"n": n, "live": true})
				return
			}
			m := n + 1
			want := tree.Root()
			row, ok := sizes[m]
			if ok {
				want, _ = row.distinctHashes()
				if !bytes.Equal(tree.Root(), want) {
					viol("incremental-root", fmt.Sprintf("live tree: root after %d appends differs from the LIP-0031 root", m), map[string]interface{}{"n": m, "live": true})
					return
				}
			}
			// the same object: proofs of leaves that were proven before the append, right witnesses at a few positions
			rep := map[string]interface{}{"n": m, "live": true}
			leaves := map[int]bool{1: true, m: true, (m + 1) / 2: true, 1 + r.Intn(m): true}
			if m > 1 {
				leaves[m-1] = true
			}
			for l := range leaves {
				if !proveVerify(tree, m, []int{l}, distinct, want, rep, "proof-after-append") {
					return
				}
				if proven[l] == m-1 && m > 1 {
					hit("prove-append-prove")
				}
				proven[l] = m
			}
			if m > 2 && !proveVerify(tree, m, []int{m, 1, (m + 1) / 2}, distinct, want, rep, "proof-after-append") {
				return
			}
			if ok {
				for _, i := range []int{1, (m + 1) / 2, m - 1, m} {
					if _, have := sizes[i]; have && i >= 1 {
						if !checkWitness(tree, m, i, pathOf(i, distinct, true), want, forged, rep, "witness-after-append", false) {
							return
						}
						hit("witness-after-append")
					}
				}
			}
		}
		final := tree.Root()
		for i := 0; i <= maxN; i++ {
			pre, ok := sizes[i]
			ap, have := keptPath[i]
			if !ok || !have || i == maxN {
				continue
			}
			wantRoot, wantPath := pre.distinctHashes()
			if !eqPath(ap, wantPath) {
				viol("append-path", fmt.Sprintf("live tree: the append path handed out at %d leaves was changed by later appends", i), map[string]interface{}{"n": maxN, "i": i, "live": true})
				return
			}
			if !bytes.Equal(keptRoot[i], wantRoot) {
				viol("incremental-root:kept", fmt.Sprintf("live tree: the root handed out at %d leaves was changed by later appends", i), map[string]interface{}{"n": maxN, "i": i, "live": true})
				return
			}
			hit("kept-root")
			w, err := tree.GenerateRightWitness(uint64(i))
			if err != nil {
				viol("witness-error", fmt.Sprintf("live tree: GenerateRightWitness(%d) of %d: %v", i, maxN, err), map[string]interface{}{"n": maxN, "i": i, "live": true})
				return
			}
			add(&out.Witness, 1)
			if !rmt.VerifyRightWitness(uint64(i), ap, w, final) {
				viol("witness-root", fmt.Sprintf("live tree: the append path kept from %d leaves + right witness does not reconstruct the root of %d leaves", i, maxN), map[string]interface{}{"n": maxN, "i": i, "live": true})
				return
			}
		}
	})
}

// proveVerify: a proof generated by the tree for the leaves `order` (values val) verifies against want
func proveVerify(tree *rmt.RegularMerkleTree, n int, order []int, val valfn, want []byte, rep map[string]interface{}, key string) bool {
	q := [][]byte{}
	for _, p := range order {
		q = append(q, leafHash(val(p)))
	}
	proof, err := tree.GenerateProof(q)
	if err != nil || !rmt.VerifyProof(q, proof, want) {
		viol(key, fmt.Sprintf("proof for leaves %v of a list of %d does not verify against the root of the list (err=%v)", order, n, err), map[string]interface{}{"case": rep, "leaves": order})
		return false
	}
	add(&out.Evals, 1)
	return true
}
