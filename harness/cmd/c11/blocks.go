package main

import (
	"bytes"
	"fmt"
	"math/rand"

	"github.com/LiskHQ/lisk-engine/pkg/blockchain"
	"github.com/LiskHQ/lisk-engine/pkg/codec"
)

func flip(b []byte) []byte {
	c := append([]byte{}, b...)
	c[len(c)-1] ^= 1
	return c
}

// blockJob: the two header roots a block commits to are regular Merkle roots (pkg/blockchain/block.go): the transaction
// root over the transaction ids, the asset root over the encoded assets.  Block.Validate must accept a block whose header
// carries the folded LIP-0031 term of the specification over exactly those leaves, and no other root.
func blockJob(r *rand.Rand) {
	for _, k := range []int{0, 1, 2, 3, 5, 8} {
		for _, a := range []int{0, 1, 2, 3, 5} {
			k, a := k, a
			rowT, okT := sizes[k]
			rowA, okA := sizes[a]
			if !okT || !okA {
				continue
			}
			rep := map[string]interface{}{"block": true, "transactions": k, "assets": a}
			guard("block-roots", rep, func() {
				txs := []*blockchain.Transaction{}
				for i := 0; i < k; i++ {
					tx := &blockchain.Transaction{Module: "toy", Command: "ok", Nonce: uint64(100*k + i), Fee: 1000, SenderPublicKey: bytes.Repeat([]byte{3}, 32),
						Params: bytes.Repeat([]byte{7}, (i*37)%90), Signatures: []codec.Hex{bytes.Repeat([]byte{9}, 64)}}
					tx.Init()
					txs = append(txs, tx)
				}
				assets := blockchain.BlockAssets{}
				for i := 0; i < a; i++ {
					assets = append(assets, &blockchain.BlockAsset{Module: fmt.Sprintf("mod%d", i), Data: bytes.Repeat([]byte{byte(i)}, (i*53)%120)})
				}
				txRoot := fold(rowT.Root, func(i int) []byte { return txs[i-1].ID })
				assetRoot := fold(rowA.Root, func(i int) []byte { return assets[i-1].Encode() })
				mk := func(tr, ar []byte) *blockchain.Block {
					h := &blockchain.BlockHeader{Version: 2, Timestamp: 100, Height: 7, PreviousBlockID: bytes.Repeat([]byte{1}, 32),
						GeneratorAddress: bytes.Repeat([]byte{2}, 20), TransactionRoot: tr, AssetRoot: ar, EventRoot: emptyHash, StateRoot: emptyHash,
						ValidatorsHash: emptyHash, AggregateCommit: &blockchain.AggregateCommit{AggregationBits: []byte{}, CertificateSignature: []byte{}},
						Signature: bytes.Repeat([]byte{5}, 64)}
					h.Init()
					return &blockchain.Block{Header: h, Transactions: txs, Assets: assets}
				}
				if got := assets.GetRoot(); !bytes.Equal(got, assetRoot) {
					viol("block-roots:asset-root", fmt.Sprintf("BlockAssets.GetRoot of %d assets is not the LIP-0031 root over the encoded assets", a), rep)
					return
				}
				if err := mk(txRoot, assetRoot).Validate(); err != nil {
					viol("block-roots:rejects-lip-roots", fmt.Sprintf("Block.Validate rejects a block (%d transactions, %d assets) whose header carries the LIP-0031 roots over the transaction ids / encoded assets: %v", k, a, err), rep)
					return
				}
				if mk(flip(txRoot), assetRoot).Validate() == nil {
					viol("block-roots:accepts-other-transaction-root", fmt.Sprintf("Block.Validate accepts a block with %d transactions whose transaction root is not the LIP-0031 root", k), rep)
					return
				}
				if mk(txRoot, flip(assetRoot)).Validate() == nil {
					viol("block-roots:accepts-other-asset-root", fmt.Sprintf("Block.Validate accepts a block with %d assets whose asset root is not the LIP-0031 root", a), rep)
					return
				}
				add(&out.Rejected, 2)
				add(&out.Evals, 2)
				hit("block-roots")
			})
		}
	}
}
