// c11: compares the real regular Merkle tree with the LIP-0031 terms exported by TLC from spec/RMT.tla.
// usage: c11 <rows.ndjson> <out.json>
package main

import (
	"bufio"
	"bytes"
	"crypto/sha256"
	"encoding/json"
	"fmt"
	"math/rand"
	"os"
	"sort"
	"sync"

	"github.com/LiskHQ/lisk-engine/pkg/db"
	"github.com/LiskHQ/lisk-engine/pkg/trie/rmt"

	"verifharness/internal/tj"
)

type Term struct {
	T string `json:"t"`
	I int    `json:"i"`
	L *Term  `json:"l"`
	R *Term  `json:"r"`
}

type Row struct {
	N    int     `json:"n"`
	Root *Term   `json:"root"`
	Path []*Term `json:"path"`
	S    []int   `json:"s"`
}

type Violation struct {
	Key    string      `json:"key"`
	What   string      `json:"what"`
	Replay interface{} `json:"replay"`
}

type Out struct {
	Sizes      int         `json:"sizes"`
	Subsets    int         `json:"subsets"`
	Evals      int         `json:"evaluations"`
	Witness    int         `json:"witness_positions"`
	Rejected   int         `json:"tampered_rejected"`
	Violations []Violation `json:"violations"`
}

var emptyHash = func() []byte { h := sha256.Sum256(nil); return h[:] }()

func datum(i int, upd map[int]bool) []byte {
	if upd[i] {
		return []byte(fmt.Sprintf("updated-leaf-%d", i))
	}
	return []byte(fmt.Sprintf("leaf-%d", i))
}

func leafHash(d []byte) []byte { h := sha256.Sum256(append([]byte{0}, d...)); return h[:] }

func fold(t *Term, upd map[int]bool) []byte {
	switch t.T {
	case "E":
		return emptyHash
	case "L":
		return leafHash(datum(t.I, upd))
	}
	h := sha256.New()
	h.Write([]byte{1})
	h.Write(fold(t.L, upd))
	h.Write(fold(t.R, upd))
	return h.Sum(nil)
}

// safe for concurrent use, as the real database is (the tree may use goroutines of its own)
type mapStore struct {
	mu sync.Mutex
	m  map[string][]byte
}

func (s *mapStore) Get(k []byte) ([]byte, bool) {
	s.mu.Lock()
	defer s.mu.Unlock()
	v, ok := s.m[string(k)]
	return v, ok
}
func (s *mapStore) Set(k, v []byte) {
	s.mu.Lock()
	defer s.mu.Unlock()
	s.m[string(k)] = append([]byte{}, v...)
}
func (s *mapStore) Del(k []byte) {
	s.mu.Lock()
	defer s.mu.Unlock()
	delete(s.m, string(k))
}

func height(n int) uint64 {
	h := uint64(0)
	for (1 << h) < n {
		h++
	}
	return h + 1
}

func leafIdx(n, pos int) uint64 { return uint64(1)<<height(n) + uint64(pos-1) }

func eqPath(a [][]byte, b [][]byte) bool {
	if len(a) != len(b) {
		return false
	}
	for i := range a {
		if !bytes.Equal(a[i], b[i]) {
			return false
		}
	}
	return true
}

var out = &Out{}
var perKey = map[string]int{}

func viol(key, what string, replay interface{}) {
	perKey[key]++
	if perKey[key] <= 3 {
		out.Violations = append(out.Violations, Violation{key, what, replay})
	}
}

func guard(key string, replay interface{}, f func()) {
	defer func() {
		if e := recover(); e != nil {
			viol(key+":panic", fmt.Sprintf("%s panicked: %v", key, e), replay)
		}
	}()
	f()
}

func build(n int, st rmt.Database) *rmt.RegularMerkleTree {
	tree := rmt.NewRegularMerkleTree(st)
	for i := 1; i <= n; i++ {
		if err := tree.Append(datum(i, nil)); err != nil {
			panic(err)
		}
	}
	return tree
}

func checkSubset(n int, s []int, root *Term, r *rand.Rand) {
	out.Subsets++
	rep := map[string]interface{}{"n": n, "subset": s}
	guard("proof", rep, func() {
		st := &mapStore{m: map[string][]byte{}}
		tree := build(n, st)
		order := append([]int{}, s...)
		if r.Intn(2) == 0 {
			r.Shuffle(len(order), func(i, j int) { order[i], order[j] = order[j], order[i] })
		}
		rep["order"] = order
		q := [][]byte{}
		for _, p := range order {
			q = append(q, leafHash(datum(p, nil)))
		}
		want := fold(root, nil)
		proof, err := tree.GenerateProof(q)
		if err != nil {
			viol("proof-error", "GenerateProof failed: "+err.Error(), rep)
			return
		}
		out.Evals++
		// indexes are the LIP-0031 indexes of the queried leaves, in query order
		for j, p := range order {
			if j >= len(proof.Idxs) || proof.Idxs[j] != leafIdx(n, p) {
				viol("proof-index", fmt.Sprintf("proof index of leaf %d in a list of %d is %v, LIP-0031 index is %d", p, n, proof.Idxs, leafIdx(n, p)), rep)
				return
			}
		}
		clone := func() *rmt.Proof {
			c := &rmt.Proof{Size: proof.Size, Idxs: append([]uint64{}, proof.Idxs...)}
			for _, h := range proof.SiblingHashes {
				c.SiblingHashes = append(c.SiblingHashes, append([]byte{}, h...))
			}
			return c
		}
		cq := func() [][]byte {
			c := [][]byte{}
			for _, h := range q {
				c = append(c, append([]byte{}, h...))
			}
			return c
		}
		if !rmt.VerifyProof(cq(), clone(), want) {
			viol("proof-completeness", fmt.Sprintf("inclusion proof for leaves %v of a list of %d does not verify against the LIP-0031 root", order, n), rep)
			return
		}
		// the same proof object must verify again (no hidden mutation of caller data)
		p2 := clone()
		q2 := cq()
		if !rmt.VerifyProof(q2, p2, want) || !rmt.VerifyProof(q2, p2, want) {
			viol("proof-completeness-reuse", "a proof that verified once does not verify when used again", rep)
			return
		}
		// soundness: any other leaf data, any other root
		for j := range order {
			bad := cq()
			bad[j] = leafHash([]byte("forged"))
			if rmt.VerifyProof(bad, clone(), want) {
				viol("proof-soundness", fmt.Sprintf("proof verifies for different data at leaf %d (n=%d, subset %v)", order[j], n, order), rep)
				return
			}
			out.Rejected++
		}
		other := fold(root, map[int]bool{1 + r.Intn(n): true})
		if rmt.VerifyProof(cq(), clone(), other) {
			viol("proof-soundness-root", "proof verifies against the root of a different list", rep)
			return
		}
		out.Rejected++
		// update through the proof = root of the modified list
		upd := map[int]bool{}
		newData := [][]byte{}
		for _, p := range order {
			upd[p] = true
		}
		for _, p := range order {
			newData = append(newData, datum(p, upd))
		}
		wantUpd := fold(root, upd)
		// use the proof that was verified before (as a caller would)
		got, err := rmt.CalculateRootFromUpdateData(newData, p2)
		if err != nil || !bytes.Equal(got, wantUpd) {
			viol("update-from-proof", fmt.Sprintf("CalculateRootFromUpdateData for leaves %v of %d: %x err=%v, root of the modified list is %x", order, n, got, err, wantUpd), rep)
			return
		}
		idxs := []uint64{}
		for _, p := range order {
			idxs = append(idxs, leafIdx(n, p))
		}
		idxCopy := append([]uint64{}, idxs...)
		if err := tree.Update(idxs, newData); err != nil {
			viol("update-error", "Update failed: "+err.Error(), rep)
			return
		}
		if !bytes.Equal(tree.Root(), wantUpd) {
			viol("update-root", fmt.Sprintf("root after Update of leaves %v of %d differs from the root of the modified list", order, n), rep)
			return
		}
		if fmt.Sprint(idxs) != fmt.Sprint(idxCopy) {
			viol("update-mutates-arguments", "Update reordered the caller's index list", rep)
			return
		}
		// reload after update keeps the root; proofs of the updated tree verify
		re, err := rmt.NewRegularMerkleTreeWithPastData(st)
		if err != nil || !bytes.Equal(re.Root(), wantUpd) || re.Size() != uint64(n) {
			viol("reload-after-update", fmt.Sprintf("reloaded tree differs after update (err=%v)", err), rep)
			return
		}
		q3 := [][]byte{}
		for _, p := range order {
			q3 = append(q3, leafHash(datum(p, upd)))
		}
		p3, err := re.GenerateProof(q3)
		if err != nil || !rmt.VerifyProof(q3, p3, wantUpd) {
			viol("proof-after-update", fmt.Sprintf("proof generated after Update does not verify (err=%v)", err), rep)
			return
		}
		out.Evals += 4
	})
}

func main() {
	if len(os.Args) < 3 {
		fmt.Fprintln(os.Stderr, "usage: c11 rows.ndjson out.json")
		os.Exit(2)
	}
	f, err := os.Open(os.Args[1])
	if err != nil {
		panic(err)
	}
	sc := bufio.NewScanner(f)
	sc.Buffer(make([]byte, 1<<20), 1<<26)
	sizes := map[int]*Row{}
	var subsets []*Row
	for sc.Scan() {
		r := &Row{}
		if json.Unmarshal(sc.Bytes(), r) != nil {
			continue
		}
		if r.S != nil {
			subsets = append(subsets, r)
		} else {
			sizes[r.N] = r
		}
	}
	rnd := rand.New(rand.NewSource(int64(tj.EnvInt("VERIF_SEED", 1))))
	ns := []int{}
	for n := range sizes {
		ns = append(ns, n)
	}
	sort.Ints(ns)
	foldPath := func(p []*Term) [][]byte {
		res := [][]byte{}
		for _, t := range p {
			res = append(res, fold(t, nil))
		}
		return res
	}
	for _, n := range ns {
		row := sizes[n]
		out.Sizes++
		rep := map[string]interface{}{"n": n}
		guard("size", rep, func() {
			var st rmt.Database = &mapStore{m: map[string][]byte{}}
			if n%4 == 0 {
				d, err := db.NewInMemoryDB()
				if err != nil {
					panic(err)
				}
				defer d.Close()
				st = d
			}
			tree := build(n, st)
			want := fold(row.Root, nil)
			wantPath := foldPath(row.Path)
			out.Evals++
			if !bytes.Equal(tree.Root(), want) {
				viol("incremental-root", fmt.Sprintf("root after %d appends differs from the LIP-0031 root", n), rep)
				return
			}
			data := [][]byte{}
			for i := 1; i <= n; i++ {
				data = append(data, datum(i, nil))
			}
			if !bytes.Equal(rmt.CalculateRoot(data), want) {
				viol("batch-root", fmt.Sprintf("CalculateRoot of %d leaves differs from the LIP-0031 root", n), rep)
				return
			}
			if tree.Size() != uint64(n) || !eqPath(tree.AppendPath(), wantPath) {
				viol("append-path", fmt.Sprintf("size/append path after %d appends differ from LIP-0031", n), rep)
				return
			}
			if n > 1 {
				re, err := rmt.NewRegularMerkleTreeWithPastData(st)
				if err != nil || !bytes.Equal(re.Root(), want) || re.Size() != uint64(n) || !eqPath(re.AppendPath(), wantPath) {
					viol("reload", fmt.Sprintf("tree of %d leaves reloaded from storage differs (err=%v)", n, err), rep)
					return
				}
				// continue appending on the reloaded tree
				if next, ok := sizes[n+1]; ok {
					if err := re.Append(datum(n+1, nil)); err != nil || !bytes.Equal(re.Root(), fold(next.Root, nil)) || !eqPath(re.AppendPath(), foldPath(next.Path)) {
						viol("reload-append", fmt.Sprintf("append on a tree of %d leaves reloaded from storage gives a wrong root/path (err=%v)", n, err), rep)
						return
					}
				}
			}
		})
		// prediction from the append path
		if next, ok := sizes[n+1]; ok {
			guard("predict", rep, func() {
				out.Evals++
				res := rmt.CalculateRootFromAppendPath(datum(n+1, nil), foldPath(row.Path), uint64(n))
				if !bytes.Equal(res.Root, fold(next.Root, nil)) || res.Size != uint64(n+1) || !eqPath(res.AppendPath, foldPath(next.Path)) {
					viol("predict-from-append-path", fmt.Sprintf("root/append path predicted from the append path of %d leaves differ from those after the real append", n), rep)
				}
			})
		}
		// right witnesses at every position
		guard("witness", rep, func() {
			st := &mapStore{m: map[string][]byte{}}
			tree := build(n, st)
			want := fold(row.Root, nil)
			for i := 0; i <= n; i++ {
				pre, ok := sizes[i]
				if !ok {
					continue
				}
				w, err := tree.GenerateRightWitness(uint64(i))
				if err != nil {
					viol("witness-error", fmt.Sprintf("GenerateRightWitness(%d) of %d: %v", i, n, err), rep)
					return
				}
				out.Witness++
				ap := foldPath(pre.Path)
				if n == 0 {
					continue
				}
				if !rmt.VerifyRightWitness(uint64(i), ap, w, want) {
					viol("witness-root", fmt.Sprintf("append path of the first %d leaves + right witness does not reconstruct the root of %d leaves", i, n), map[string]interface{}{"n": n, "i": i})
					return
				}
				if len(w) > 0 {
					bad := append([][]byte{}, w...)
					bad[len(bad)-1] = leafHash([]byte("forged"))
					if rmt.VerifyRightWitness(uint64(i), ap, bad, want) {
						viol("witness-soundness", "a forged right witness verifies", map[string]interface{}{"n": n, "i": i})
						return
					}
					out.Rejected++
				}
			}
		})
	}
	// one LIVE tree grown leaf by leaf: values handed out earlier are used later, the way a caller uses them - the append
	// path taken before an append predicts the state after it, and the path of the first i leaves verifies right witnesses
	// generated many appends later
	guard("live", map[string]interface{}{"live": true}, func() {
		maxN := 0
		for _, n := range ns {
			if n > maxN && n <= 70 {
				maxN = n
			}
		}
		tree := rmt.NewRegularMerkleTree(&mapStore{m: map[string][]byte{}})
		kept := map[int][][]byte{} // size -> the slice AppendPath() returned at that size (not copied)
		for n := 0; n < maxN; n++ {
			p := tree.AppendPath()
			kept[n] = p
			sz := tree.Size()
			v := datum(n+1, nil)
			if err := tree.Append(v); err != nil {
				panic(err)
			}
			out.Evals++
			res := rmt.CalculateRootFromAppendPath(v, p, sz)
			if !bytes.Equal(res.Root, tree.Root()) || res.Size != tree.Size() || !eqPath(res.AppendPath, tree.AppendPath()) {
				viol("predict-from-append-path", fmt.Sprintf("live tree: the append path taken at %d leaves, evaluated after the real append, predicts a root/path different from the tree's", n), map[string]interface{}{"n": n, "live": true})
				return
			}
			if row, ok := sizes[n+1]; ok && !bytes.Equal(tree.Root(), fold(row.Root, nil)) {
				viol("incremental-root", fmt.Sprintf("live tree: root after %d appends differs from the LIP-0031 root", n+1), map[string]interface{}{"n": n + 1, "live": true})
				return
			}
		}
		for i := 0; i <= maxN; i++ {
			pre, ok := sizes[i]
			ap, have := kept[i]
			if !ok || !have || i == maxN {
				continue
			}
			if !eqPath(ap, foldPath(pre.Path)) {
				viol("append-path", fmt.Sprintf("live tree: the append path handed out at %d leaves was changed by later appends", i), map[string]interface{}{"n": maxN, "i": i, "live": true})
				return
			}
			w, err := tree.GenerateRightWitness(uint64(i))
			if err != nil {
				viol("witness-error", fmt.Sprintf("live tree: GenerateRightWitness(%d) of %d: %v", i, maxN, err), map[string]interface{}{"n": maxN, "i": i, "live": true})
				return
			}
			out.Witness++
			if !rmt.VerifyRightWitness(uint64(i), ap, w, tree.Root()) {
				viol("witness-root", fmt.Sprintf("live tree: the append path kept from %d leaves + right witness does not reconstruct the root of %d leaves", i, maxN), map[string]interface{}{"n": maxN, "i": i, "live": true})
				return
			}
		}
	})
	for _, s := range subsets {
		checkSubset(s.N, s.S, s.Root, rnd)
	}
	// larger lists: subsets sampled around powers of two (the expected root term still comes from the spec)
	extra := tj.EnvInt("C11_EXTRA", 200)
	for k := 0; k < extra && len(ns) > 0; k++ {
		n := ns[rnd.Intn(len(ns))]
		if n < 2 {
			continue
		}
		cnt := 1 + rnd.Intn(4)
		set := map[int]bool{}
		for len(set) < cnt && len(set) < n {
			set[1+rnd.Intn(n)] = true
		}
		s := []int{}
		for p := range set {
			s = append(s, p)
		}
		sort.Ints(s)
		checkSubset(n, s, sizes[n].Root, rnd)
	}
	tj.WriteJSON(os.Args[2], out)
}
