// c19: sync (properties C19 and the sync part of C04).
//
//	peers    : evaluates the real peer selection on the TLC-generated table (spec/Sync.tla BestPeers; ranks, evaluated
//	           under several monotone embeddings into uint32)
//	handlers : calls the real getLastBlock / getHighestCommonBlock / getBlocksFromId handlers of a real node over loopback
//	           libp2p (one server with a block cache of 8 blocks: look-ups go to the database), fixed boundary cases,
//	           up to 210 ids, unknown / malformed requests
//	offers   : a real node is offered the tip of a peer's chain (honest real node; fake peer that corrupts, tampers,
//	           leaves out, reorders or withholds blocks) through the real process() path incl. fast / block sync;
//	           records features + outcome + finalize events; afterwards the node forges one more block and a twin node
//	           (same blocks, never offered anything) has to accept it
//	several honest peers: the in-situ peer selection of the block synchronisation
//
// The handler and offer records are validated by spec/trace/SyncTrace.tla.
//
// usage: c19 <peers-table.txt> <trace.ndjson> <out.json> <nHandlerCases> <nOffers>
package main

import (
	"bufio"
	"bytes"
	"context"
	"encoding/json"
	"fmt"
	"math/rand"
	"os"
	"strconv"
	"strings"
	"sync"
	"time"

	"github.com/LiskHQ/lisk-engine/pkg/blockchain"
	"github.com/LiskHQ/lisk-engine/pkg/crypto"
	"github.com/LiskHQ/lisk-engine/pkg/log"
	"github.com/LiskHQ/lisk-engine/pkg/p2p"

	lsync "github.com/LiskHQ/lisk-engine/pkg/consensus/sync"

	"verifharness/internal/node"
	"verifharness/internal/tj"
)

type Violation struct {
	Key    string      `json:"key"`
	What   string      `json:"what"`
	Replay interface{} `json:"replay"`
}
type Out struct {
	PeerRows   int            `json:"peer_rows"`
	Handler    int            `json:"handler_calls"`
	Offers     int            `json:"offers"`
	Outcomes   map[string]int `json:"outcomes"`
	Paths      map[string]int `json:"offer_kinds"`
	Cov        map[string]int `json:"cov"`
	Errors     []string       `json:"harness_errors"`
	Violations []Violation    `json:"violations"`
}

var (
	out    = &Out{Outcomes: map[string]int{}, Paths: map[string]int{}, Cov: map[string]int{}}
	mu     sync.Mutex
	perKey = map[string]int{}
)

func viol(key, what string, replay interface{}) {
	mu.Lock()
	defer mu.Unlock()
	perKey[key]++
	if perKey[key] <= 2 {
		out.Violations = append(out.Violations, Violation{key, what, replay})
	}
}

func cov(key string, n int) {
	mu.Lock()
	out.Cov[key] += n
	mu.Unlock()
}

// experimental: sub-checks that are red on the unchanged tree until their finding is triaged (VERIF_EXPERIMENTAL=1)
var experimental = os.Getenv("VERIF_EXPERIMENTAL") == "1"

func cfg3(network bool) *node.Config {
	return &node.Config{NVal: 3, Batch: 3, Init: node.ParamSet{PcT: 2, CertT: 2, W: []uint64{1, 1, 1}, Gens: []int{1, 2, 3}}, Now: 200, Network: network}
}

// ---------------------------------------------------------------- peers table
// One JSON object per row: t = tips <<rank of maxHeightPrevoted, rank of height, id>>, b = 1 for the peers the specification
// allows, k = the row is one on which a known wrong rule is certain to be noticed (frequency over all peers, composite key).
type peerRow struct {
	T [][3]int `json:"t"`
	B []int    `json:"b"`
	K []int    `json:"k"`
}

// the selection depends on the order of the values only: every row is evaluated under monotone embeddings of the ranks
// 0..2 into uint32 (pairs: embedding of maxHeightPrevoted, embedding of height)
var embeddings = [][3]uint32{{0, 1, 2}, {0, 1 << 31, 0xFFFFFFFF}, {0x7FFFFFFF, 0x80000000, 0xFFFFFFFF}, {1, 0xFFFFFFFE, 0xFFFFFFFF}}
var embPairs = [][2]int{{0, 0}, {1, 1}, {2, 3}, {3, 1}}

func peersTable(path string) {
	f, err := os.Open(path)
	if err != nil {
		out.Errors = append(out.Errors, "peers table: "+err.Error())
		return
	}
	defer f.Close()
	sc := bufio.NewScanner(f)
	sc.Buffer(make([]byte, 1<<20), 1<<24)
	for sc.Scan() {
		line := sc.Text()
		row := &peerRow{}
		if err := json.Unmarshal([]byte(line), row); err != nil || len(row.T) == 0 || len(row.T) != len(row.B) {
			continue
		}
		out.PeerRows++
		n := len(row.T)
		if n >= 5 {
			out.Cov["peers:rows-5-6-peers"]++
		}
		maxRank := 0
		for _, t := range row.T {
			if t[0] > maxRank {
				maxRank = t[0]
			}
			if t[1] > maxRank {
				maxRank = t[1]
			}
		}
		if maxRank >= 2 {
			out.Cov["peers:rows-three-ranks"]++
		}
		if len(row.K) == 2 {
			out.Cov["peers:rows-frequency-over-all-peers-wrong"] += row.K[0]
			out.Cov["peers:rows-composite-key-wrong"] += row.K[1]
		}
		bad := false
		for _, ep := range embPairs {
			if bad {
				break
			}
			em, eh := embeddings[ep[0]], embeddings[ep[1]]
			infos := []*lsync.NodeInfo{}
			for i, t := range row.T {
				ni := lsync.NewNodeInfo(eh[t[1]], em[t[0]], 2, bytes.Repeat([]byte{byte(t[2])}, 32))
				ni.PeerID = p2p.PeerID(fmt.Sprintf("peer-%d", i))
				infos = append(infos, ni)
			}
			for rep := 0; rep < 3; rep++ {
				got, err := lsync.VerifBestNodeInfo(infos)
				out.Cov["peers:evaluations"]++
				if err != nil || got == nil {
					viol("best-peer:error", fmt.Sprintf("peer selection failed on %s: %v", line, err), map[string]interface{}{"row": row, "embedding": ep})
					bad = true
					break
				}
				// the answer is judged by its fields (the statement is about the tip that is picked, not about the object):
				// tips with equal fields are equally good
				ok := false
				id := got.VerifLastBlockID()
				for i, t := range row.T {
					if row.B[i] == 1 && got.VerifMaxHeightPrevoted() == em[t[0]] && got.VerifHeight() == eh[t[1]] && len(id) == 32 && id[0] == byte(t[2]) {
						ok = true
					}
				}
				if !ok {
					first := byte(0)
					if len(id) > 0 {
						first = id[0]
					}
					viol("best-peer:not-best", fmt.Sprintf("peer selection returned tip (mhp=%d,h=%d,id=%d), which is not among the best by (maxHeightPrevoted, height, most common id): row %s, maxHeightPrevoted ranks -> %v, height ranks -> %v",
						got.VerifMaxHeightPrevoted(), got.VerifHeight(), first, line, em, eh), map[string]interface{}{"row": row, "embedding": ep})
					bad = true
					break
				}
			}
		}
	}
}

// ---------------------------------------------------------------- network helpers
func newClient() (*p2p.Connection, error) {
	logger, _ := log.NewSilentLogger()
	c := p2p.NewConnection(logger, &p2p.Config{ChainID: []byte{4, 0, 0, 7}, Addresses: []string{"/ip4/127.0.0.1/tcp/0"}})
	return c, nil
}

// a pure client still has to know the procedure names: responses are rate-limited per registered procedure
func registerNoop(c *p2p.Connection) {
	for _, name := range []string{lsync.RPCEndpointGetLastBlock, lsync.RPCEndpointGetHighestCommonBlock, lsync.RPCEndpointGetBlocksFromID} {
		c.RegisterRPCHandler(name, func(w p2p.ResponseWriter, r *p2p.Request) { w.Write(nil) }) //nolint
	}
}

func connect(a *p2p.Connection, b *node.Node) error {
	ai, err := b.AddrInfo()
	if err != nil {
		return err
	}
	return a.Connect(context.Background(), *ai)
}

// ---------------------------------------------------------------- handlers
type server struct {
	srv   *node.Node
	cli   *p2p.Connection
	pid   p2p.PeerID
	L     int
	ids   [][]byte
	index map[string]int
	chain []int
	enc   map[string][]byte // block id -> encoding of the block as it was built
}

func (s *server) close() {
	if s.cli != nil {
		s.cli.Stop() //nolint
	}
	if s.srv != nil {
		s.srv.Close()
	}
}

func newServer(L int, cache int) (*server, error) {
	cfg := cfg3(true)
	cfg.CacheSize = cache
	srv, err := node.New(cfg, nil, 0)
	if err != nil {
		return nil, err
	}
	s := &server{srv: srv, L: L, index: map[string]int{}, enc: map[string][]byte{}}
	for x := 1; x <= L; x++ {
		blk, err := srv.Extend(x, x%3%2)
		if err != nil {
			s.close()
			return nil, fmt.Errorf("extend: %v", err)
		}
		s.enc[string(blk.Header.ID)] = blk.Encode()
	}
	cli, _ := newClient()
	registerNoop(cli)
	if err := cli.Start(crypto.RandomBytes(32)); err != nil {
		s.close()
		return nil, fmt.Errorf("client start: %v", err)
	}
	s.cli = cli
	if err := connect(cli, srv); err != nil {
		s.close()
		return nil, fmt.Errorf("connect: %v", err)
	}
	for h := 0; h <= L; h++ {
		hd, err := srv.Chain.DataAccess().GetBlockHeaderByHeight(uint32(h))
		if err != nil {
			s.close()
			return nil, err
		}
		s.ids = append(s.ids, hd.ID)
		s.index[string(hd.ID)] = h + 1
		s.chain = append(s.chain, h+1)
	}
	s.pid = srv.Conn.ID()
	return s, nil
}

// common sends one getHighestCommonBlock request: abs = abstract ids (height+1 of the server's chain, >= 9000 for ids the
// server does not have / malformed ids), mal = the request contains malformed ids (it may then be refused as a whole)
func (s *server) common(w *tj.Writer, abs []int, data []byte, mal int, timeout time.Duration) {
	ctx, cancel := context.WithTimeout(context.Background(), timeout)
	resp := s.cli.RequestFrom(ctx, s.pid, lsync.RPCEndpointGetHighestCommonBlock, data)
	cancel()
	res := 0
	if resp.Error() != nil {
		if mal == 0 {
			viol("handler:common:error", "getHighestCommonBlock failed: "+resp.Error().Error(), abs)
			return
		}
		res = -2
	} else if len(resp.Data()) > 0 {
		rr := &lsync.GetHighestCommonBlockResponse{}
		if err := rr.Decode(resp.Data()); err != nil {
			viol("handler:common:decode", err.Error(), abs)
			return
		}
		res = s.index[string(rr.ID)]
		if len(rr.ID) > 0 && res == 0 {
			res = -1
		}
	}
	if abs == nil {
		abs = []int{}
	}
	mu.Lock()
	w.Emit(map[string]interface{}{"ev": "common", "chain": s.chain, "ids": abs, "res": res, "mal": mal})
	out.Handler++
	out.Cov["handler:common:ids-max"] = maxInt(out.Cov["handler:common:ids-max"], len(abs))
	mu.Unlock()
}

func maxInt(a, b int) int {
	if a > b {
		return a
	}
	return b
}

// blocks sends one getBlocksFromId request: abs = abstract id (>= 9000: not on the server's chain / malformed)
func (s *server) blocks(w *tj.Writer, abs int, data []byte, timeout time.Duration) {
	ctx, cancel := context.WithTimeout(context.Background(), timeout)
	resp := s.cli.RequestFrom(ctx, s.pid, lsync.RPCEndpointGetBlocksFromID, data)
	cancel()
	got := []int{}
	if resp.Error() != nil {
		if abs < 9000 {
			viol("handler:blocks:error", "getBlocksFromId failed: "+resp.Error().Error(), abs-1)
			return
		}
	} else if len(resp.Data()) > 0 {
		br := &lsync.GetBlocksFromIDResponse{}
		if err := br.Decode(resp.Data()); err != nil {
			viol("handler:blocks:decode", err.Error(), abs-1)
			return
		}
		for _, b := range br.Blocks {
			b.Init()
			x := s.index[string(b.Header.ID)]
			if x == 0 {
				x = -1
			} else if !bytes.Equal(s.enc[string(b.Header.ID)], b.Encode()) {
				// a block of the chain is the block as it was applied, payload included (look-ups below the cache window
				// come from the database)
				x = -1
			}
			got = append(got, x)
		}
	}
	mu.Lock()
	w.Emit(map[string]interface{}{"ev": "blocks", "chain": s.chain, "id": abs, "res": got})
	out.Handler++
	if len(got) == 103 {
		out.Cov["handler:blocks:at-cap"]++
	}
	if abs < 9000 && len(got) < 103 {
		out.Cov["handler:blocks:below-cap"]++
	}
	if abs >= 9000 {
		out.Cov["handler:blocks:unknown-or-malformed-id"]++
	}
	mu.Unlock()
}

func (s *server) last(w *tj.Writer) {
	ctx, cancel := context.WithTimeout(context.Background(), 5*time.Second)
	resp := s.cli.RequestFrom(ctx, s.pid, lsync.RPCEndpointGetLastBlock, nil)
	cancel()
	if resp.Error() != nil {
		viol("handler:last:error", "getLastBlock failed: "+resp.Error().Error(), nil)
		return
	}
	res := -1
	if blk, err := blockchain.NewBlock(resp.Data()); err == nil {
		if x := s.index[string(blk.Header.ID)]; x > 0 {
			res = x
		}
	}
	mu.Lock()
	w.Emit(map[string]interface{}{"ev": "last", "chain": s.chain, "res": res})
	out.Handler++
	out.Cov["handler:last"]++
	mu.Unlock()
}

func handlers(w *tj.Writer, r *rand.Rand, cases int, cache int, fixed bool) {
	L := 112
	s, err := newServer(L, cache)
	if err != nil {
		out.Errors = append(out.Errors, "handlers: "+err.Error())
		return
	}
	defer s.close()
	if cache > 0 && cache < L {
		cov("handler:servers-with-small-cache", 1)
	}
	if fixed {
		// boundary cases of getBlocksFromId: genesis, around tip - cap, the block below the tip, the tip; an id the server
		// does not have
		for _, h := range []int{0, L - 104, L - 103, L - 102, L - 1, L} {
			s.blocks(w, h+1, (&lsync.GetBlocksFromIDRequest{ID: s.ids[h]}).Encode(), 5*time.Second)
		}
		s.blocks(w, 9999, (&lsync.GetBlocksFromIDRequest{ID: crypto.RandomBytes(32)}).Encode(), 5*time.Second)
		s.last(w)
		// getHighestCommonBlock with as many ids as a requester of a large network sends (and more)
		mk := func(hs []int, unknown int, shuffle bool) ([]int, []byte) {
			req := &lsync.GetHighestCommonBlockRequest{}
			abs := []int{}
			for _, h := range hs {
				req.IDs = append(req.IDs, s.ids[h])
				abs = append(abs, h+1)
			}
			for i := 0; i < unknown; i++ {
				req.IDs = append(req.IDs, crypto.RandomBytes(32))
				abs = append(abs, 9000+i)
			}
			if shuffle {
				r.Shuffle(len(abs), func(i, j int) { abs[i], abs[j] = abs[j], abs[i]; req.IDs[i], req.IDs[j] = req.IDs[j], req.IDs[i] })
			}
			return abs, req.Encode()
		}
		few := []int{}
		for i := 0; i < 10; i++ {
			few = append(few, r.Intn(L-20))
		}
		all := []int{}
		for h := 0; h <= L; h++ {
			all = append(all, h)
		}
		dup := []int{}
		for i := 0; i < 50; i++ {
			dup = append(dup, 7)
		}
		for _, c := range []struct {
			hs      []int
			unknown int
			shuffle bool
		}{{few, 200, true}, {all, 97, true}, {all, 0, false}, {[]int{L, L - 1, L - 3, L - 6, L - 9, L - 12, L - 15, L - 18, L - 21}, 0, false}, {nil, 5, false}, {dup, 0, false}, {[]int{0}, 204, true}} {
			abs, data := mk(c.hs, c.unknown, c.shuffle)
			s.common(w, abs, data, 0, 5*time.Second)
		}
	}
	for c := 0; c < cases; c++ {
		// getHighestCommonBlock
		n := 1 + r.Intn(6)
		req := &lsync.GetHighestCommonBlockRequest{}
		abs := []int{}
		for i := 0; i < n; i++ {
			if r.Intn(4) == 0 {
				req.IDs = append(req.IDs, crypto.RandomBytes(32))
				abs = append(abs, 9000+i)
			} else {
				h := r.Intn(L + 1)
				if r.Intn(3) == 0 {
					h = L - r.Intn(3)
				}
				req.IDs = append(req.IDs, s.ids[h])
				abs = append(abs, h+1)
			}
		}
		s.common(w, abs, req.Encode(), 0, 5*time.Second)
		// getBlocksFromId
		h := r.Intn(L + 1)
		if r.Intn(3) == 0 {
			h = r.Intn(12)
		}
		s.blocks(w, h+1, (&lsync.GetBlocksFromIDRequest{ID: s.ids[h]}).Encode(), 5*time.Second)
	}
}

// malformed: one malformed request to a fresh small server (a refusal may ban the requester's address - here the loopback
// address - so every case gets its own server).  The statement fixes what a handler returns; for a request that names no
// block the server has there is nothing to return: a refusal (error, no answer, ban) or the answer for the well-formed
// part of the request are both accepted, blocks / an id the requester did not ask for never.
func malformed(w *tj.Writer, kind string) {
	s, err := newServer(6, 0)
	if err != nil {
		mu.Lock()
		out.Errors = append(out.Errors, "malformed "+kind+": "+err.Error())
		mu.Unlock()
		return
	}
	defer s.close()
	to := 3 * time.Second
	switch kind {
	case "common:nil":
		s.common(w, nil, nil, 1, to)
	case "common:garbage":
		s.common(w, nil, []byte{0xff, 0xff, 0xff, 0x01, 0x02}, 1, to)
	case "common:empty-ids":
		s.common(w, nil, (&lsync.GetHighestCommonBlockRequest{}).Encode(), 1, to)
	case "common:short-id":
		s.common(w, []int{4, 9001}, (&lsync.GetHighestCommonBlockRequest{IDs: [][]byte{s.ids[3], s.ids[5][:31]}}).Encode(), 1, to)
	case "common:long-id":
		s.common(w, []int{9001, 3}, (&lsync.GetHighestCommonBlockRequest{IDs: [][]byte{append(append([]byte{}, s.ids[5]...), 0), s.ids[2]}}).Encode(), 1, to)
	case "common:empty-id":
		s.common(w, []int{9001}, (&lsync.GetHighestCommonBlockRequest{IDs: [][]byte{{}}}).Encode(), 1, to)
	case "blocks:nil":
		s.blocks(w, 9001, nil, to)
	case "blocks:garbage":
		s.blocks(w, 9001, []byte{0xff, 0xff, 0xff, 0x01, 0x02}, to)
	case "blocks:short-id":
		s.blocks(w, 9001, (&lsync.GetBlocksFromIDRequest{ID: s.ids[2][:31]}).Encode(), to)
	case "blocks:long-id":
		s.blocks(w, 9001, (&lsync.GetBlocksFromIDRequest{ID: append(append([]byte{}, s.ids[2]...), 0)}).Encode(), to)
	case "blocks:empty-id":
		s.blocks(w, 9001, (&lsync.GetBlocksFromIDRequest{}).Encode(), to)
	}
	cov("handler:malformed-requests", 1)
}

var malformedKinds = []string{"common:nil", "common:garbage", "common:empty-ids", "common:short-id", "common:long-id", "common:empty-id",
	"blocks:nil", "blocks:garbage", "blocks:short-id", "blocks:long-id", "blocks:empty-id"}

// ---------------------------------------------------------------- fake peer serving an arbitrary chain
type fakePeer struct {
	conn    *p2p.Connection
	blocks  []*blockchain.Block // blocks[0] = genesis
	reverse bool                // serves every segment in descending order
	mu      sync.Mutex
	budget  int // blocks still to be served (< 0: no limit); 0 = empty segments
	// spinning: the same request answered with an empty list again and again
	emptyRun int
}

func (fp *fakePeer) emptyAnswers() int {
	fp.mu.Lock()
	defer fp.mu.Unlock()
	return fp.emptyRun
}

func newFakePeer(blocks []*blockchain.Block, budget int, reverse bool) (*fakePeer, error) {
	c, _ := newClient()
	fp := &fakePeer{conn: c, blocks: blocks, budget: budget, reverse: reverse}
	find := func(id []byte) int {
		for i, b := range fp.blocks {
			if bytes.Equal(b.Header.ID, id) {
				return i
			}
		}
		return -1
	}
	c.RegisterRPCHandler(lsync.RPCEndpointGetLastBlock, func(w p2p.ResponseWriter, r *p2p.Request) {
		w.Write(fp.blocks[len(fp.blocks)-1].Encode())
	})
	c.RegisterRPCHandler(lsync.RPCEndpointGetHighestCommonBlock, func(w p2p.ResponseWriter, r *p2p.Request) {
		req := &lsync.GetHighestCommonBlockRequest{}
		if err := req.Decode(r.Data); err != nil {
			w.Write(nil)
			return
		}
		best := -1
		for _, id := range req.IDs {
			if i := find(id); i > best {
				best = i
			}
		}
		if best < 0 {
			w.Write(nil)
			return
		}
		w.Write((&lsync.GetHighestCommonBlockResponse{ID: fp.blocks[best].Header.ID}).Encode())
	})
	c.RegisterRPCHandler(lsync.RPCEndpointGetBlocksFromID, func(w p2p.ResponseWriter, r *p2p.Request) {
		req := &lsync.GetBlocksFromIDRequest{}
		if err := req.Decode(r.Data); err != nil {
			w.Write(nil)
			return
		}
		i := find(req.ID)
		if i < 0 {
			w.Error(fmt.Errorf("unknown id"))
			return
		}
		seg := fp.blocks[i+1:]
		fp.mu.Lock()
		if fp.budget >= 0 {
			if len(seg) > fp.budget {
				seg = seg[:fp.budget]
			}
			fp.budget -= len(seg)
		}
		if len(seg) == 0 {
			fp.emptyRun++
		} else {
			fp.emptyRun = 0
		}
		fp.mu.Unlock()
		resp := &lsync.GetBlocksFromIDResponse{}
		if fp.reverse {
			for j := len(seg) - 1; j >= 0; j-- {
				resp.Blocks = append(resp.Blocks, seg[j])
			}
		} else {
			resp.Blocks = seg
		}
		w.Write(resp.Encode())
	})
	if err := c.Start(crypto.RandomBytes(32)); err != nil {
		return nil, err
	}
	return fp, nil
}

// ---------------------------------------------------------------- offers
func chainBlocks(n *node.Node) []*blockchain.Block {
	res := []*blockchain.Block{}
	for h := uint32(0); h <= n.Tip().Header.Height; h++ {
		b, err := n.Chain.DataAccess().GetBlockByHeight(h)
		if err != nil {
			break
		}
		res = append(res, b)
	}
	return res
}

// replica: a node that was given exactly these blocks (blocks[0] = genesis), one after the other
func replica(cfg *node.Config, ts uint32, blocks []*blockchain.Block) (*node.Node, error) {
	n, err := node.New(cfg, nil, ts)
	if err != nil {
		return nil, err
	}
	for _, blk := range blocks[1:] {
		if err := n.Ex.VerifProcess(blk, "12D3KooWverifpeer"); err != nil {
			n.Close()
			return nil, err
		}
	}
	if !bytes.Equal(n.Tip().Header.ID, blocks[len(blocks)-1].Header.ID) {
		n.Close()
		return nil, fmt.Errorf("replica did not reach the tip")
	}
	return n, nil
}

// await runs the synchronisation entry point with a watchdog.  Nothing here depends on the speed of the machine: after
// 60 s without a result the call gets another 120 s; only a call that still has not returned is reported as a hang.
// spinning (optional) reports evidence that the call cannot make progress any more (then the wait ends early).
func await(fn func() error, spinning func() bool) (err error, state string) {
	done := make(chan error, 1)
	go func() {
		defer func() {
			if e := recover(); e != nil {
				done <- fmt.Errorf("panic: %v", e)
			}
		}()
		done <- fn()
	}()
	deadline := time.After(60 * time.Second)
	tick := time.NewTicker(500 * time.Millisecond)
	defer tick.Stop()
	state = "ok"
	for {
		select {
		case err = <-done:
			return err, state
		case <-tick.C:
			if spinning != nil && spinning() {
				return nil, "spin"
			}
		case <-deadline:
			if state == "slow" {
				return nil, "hang"
			}
			state = "slow"
			deadline = time.After(120 * time.Second)
		}
	}
}

type evPair [2]uint32

// finalizeEvents drains the node's events and returns the finalize events in publication order.  Publication is
// synchronous today; an asynchronous publisher is given a moment to deliver what the stored heights say must come.
func finalizeEvents(n *node.Node, before, after uint32) []evPair {
	res := []evPair{}
	for try := 0; try < 6; try++ {
		for _, e := range n.Drain() {
			if e.Kind == "finalize" {
				res = append(res, evPair{e.A, e.B})
			}
		}
		complete := (len(res) == 0 && before == after) || (len(res) > 0 && res[len(res)-1][1] == after)
		if complete {
			break
		}
		time.Sleep(100 * time.Millisecond)
	}
	return res
}

type plan struct {
	P, fa, fb int
	behaviour string // honest | corrupt | truncate | truncate-partial | tamper | static | gap | reorder
	lazy      bool
	cache     int // block cache of both nodes (0 = default 515)
	now       int // slot of real time
	serve     int // truncating peer: blocks it serves before it serves nothing
	ntxOwn    int // > 0: every block of the node's own fork carries that many transactions
	spoil     int // > 0: the block of the peer's fork (1-based) the middle-block behaviours spoil
	forced    string
}

func makePlan(r *rand.Rand, idx int) plan {
	pl := plan{now: 200}
	if idx%3 == 0 {
		pl.cache = 8
	}
	pl.P = r.Intn(7)
	pl.fa = r.Intn(6)
	pl.fb = 1 + r.Intn(8)
	if r.Intn(4) == 0 {
		pl.fb = 8 + r.Intn(8) // far ahead: block sync territory
	}
	pl.behaviour = []string{"honest", "honest", "honest", "corrupt", "truncate", "tamper", "static", "gap", "reorder"}[r.Intn(9)]
	// "lazy" own fork: long, but forged by one validator only (no prevotes), against a shorter peer chain that all
	// validators signed: the better chain (larger maxHeightPrevoted) lies more than two rounds BELOW the node's tip
	pl.lazy = r.Intn(5) == 0
	if pl.lazy {
		pl.fa = 11 + r.Intn(4)
		pl.fb = 3 + r.Intn(2)
		pl.behaviour = "honest"
		if r.Intn(3) == 0 {
			// deep: the common block lies 12-16 rounds below the node's tip - beyond the first batch of heights the block
			// synchronisation samples for the common block, inside what its retries cover
			pl.fa = 36 + r.Intn(12)
		}
	}
	// directed scenarios: present in every run, whatever the seed
	near := func(b string) {
		pl.lazy, pl.behaviour, pl.forced = false, b, b+":near"
		pl.P, pl.fa, pl.fb = 2+r.Intn(3), 1+r.Intn(2), 4+r.Intn(3)
	}
	far := func(b string) {
		pl.lazy, pl.behaviour, pl.forced = false, b, b+":far"
		pl.P, pl.fa, pl.fb = 1+r.Intn(3), r.Intn(2), 9+r.Intn(6)
	}
	switch idx {
	case 0:
		// the peer is more than one download batch (103 blocks) ahead
		pl.lazy, pl.behaviour, pl.forced = false, "honest", "honest:long"
		pl.P, pl.fa, pl.fb, pl.now, pl.cache = 1+r.Intn(3), r.Intn(3), 104+r.Intn(117), 700, 8
	case 1:
		near("static")
	case 2:
		near("tamper")
	case 3:
		// two blocks of the peer are applied (none of them can become final), the third is missing: the restoration has to
		// remove a block above the node's own tip
		near("gap")
		pl.fa, pl.spoil = 1, 3
	case 4:
		near("reorder")
	case 5:
		far("static")
	case 6:
		far("reorder")
	case 7:
		// restoration of original blocks that carry transactions
		near("corrupt")
		pl.fa, pl.ntxOwn = 2+r.Intn(2), 1+r.Intn(2)
		pl.fb = pl.fa + 2 + r.Intn(2)
	case 8:
		near("honest")
		pl.cache = 8
	}
	if pl.behaviour == "truncate" && experimental && pl.fb >= 2 && r.Intn(2) == 0 {
		pl.behaviour, pl.serve = "truncate-partial", 1+r.Intn(pl.fb-1)
	}
	if (pl.behaviour == "tamper" || pl.behaviour == "static" || pl.behaviour == "gap") && pl.fb < 2 {
		pl.behaviour = "corrupt" // no middle block to spoil
	}
	return pl
}

// specBehaviour: the behaviour class of spec/Sync.tla a scenario behaviour belongs to
func specBehaviour(b string) string {
	switch b {
	case "tamper", "static", "gap":
		return "corrupt"
	case "truncate-partial":
		return "truncate"
	case "reorder":
		return "disorder"
	}
	return b
}

func resign(a *node.Node, hdr *blockchain.BlockHeader, nval int) {
	gen := 0
	for id := 1; id <= nval; id++ {
		if bytes.Equal(node.Validator(id).Address, hdr.GeneratorAddress) {
			gen = id
		}
	}
	hdr.Sign(a.ChainID, node.Validator(gen).PrivKey)
}

func offer(w *tj.Writer, r *rand.Rand, idx int) {
	pl := makePlan(r, idx)
	cfg := cfg3(true)
	cfg.Now, cfg.CacheSize = pl.now, pl.cache
	ts := uint32(time.Now().Unix()) - uint32(cfg.Now)*node.BlockTime - node.BlockTime/2
	fail := func(e error) {
		mu.Lock()
		out.Errors = append(out.Errors, fmt.Sprintf("offer %d (%s): %v", idx, pl.behaviour, e))
		mu.Unlock()
	}
	a, err := node.New(cfg, nil, ts)
	if err != nil {
		fail(err)
		return
	}
	defer a.Close()
	bcfg := cfg3(true)
	bcfg.Now, bcfg.CacheSize = pl.now, pl.cache
	b, err := node.New(bcfg, nil, ts)
	if err != nil {
		fail(err)
		return
	}
	defer b.Close()
	P, fa, fb, behaviour := pl.P, pl.fa, pl.fb, pl.behaviour
	// the blocks as they were built (what the nodes' own look-ups return is part of what is being checked)
	origBlocks := []*blockchain.Block{a.Genesis}
	peerBlocks := []*blockchain.Block{b.Genesis}
	slot := 1
	for i := 0; i < P; i++ {
		blk, err := a.Extend(slot, 0)
		if err != nil {
			fail(err)
			return
		}
		origBlocks = append(origBlocks, blk)
		blk, err = b.Extend(slot, 0)
		if err != nil {
			fail(err)
			return
		}
		peerBlocks = append(peerBlocks, blk)
		slot++
	}
	sa, sb := slot, slot+1
	ownTxs := 0
	for i := 0; i < fa; i++ {
		// the node's own fork carries transactions: these are the blocks a failed fast sync has to put back
		ntx := r.Intn(3)
		if pl.ntxOwn > 0 {
			ntx = pl.ntxOwn
		}
		ownTxs += ntx
		blk, err := a.Extend(sa, ntx)
		if err != nil {
			fail(err)
			return
		}
		origBlocks = append(origBlocks, blk)
		if pl.lazy {
			sa += 3 // always the same validator's slot
		} else {
			sa += 1 + r.Intn(2)*3
		}
	}
	// the block of the peer's fork (1-based, never the last one) that is spoiled by the middle-block behaviours
	spoil := 0
	if behaviour == "tamper" || behaviour == "static" || behaviour == "gap" {
		spoil = 1 + r.Intn(fb-1)
		if pl.spoil > 0 && pl.spoil < fb {
			spoil = pl.spoil
		}
	}
	for i := 0; i < fb; i++ {
		if behaviour == "static" && i+1 == spoil {
			// a block with a statically invalid transaction (module name), consistent roots, signed by the slot's generator:
			// nothing but Block.Validate() rejects it.  The peer's node is made to apply it (validation skipped) and builds on it.
			c, err := b.AutoCand(sb, 2)
			if err != nil {
				fail(err)
				return
			}
			c.TxStatic = "bad"
			blk := b.Build(c)
			if blk.Validate() == nil {
				fail(fmt.Errorf("the statically invalid block passes Validate"))
				return
			}
			if err := b.Ex.VerifProcessValidated(blk, false, false); err != nil {
				fail(fmt.Errorf("statically invalid block not applicable on the peer: %v", err))
				return
			}
			peerBlocks = append(peerBlocks, blk)
		} else {
			blk, err := b.Extend(sb, i%2)
			if err != nil {
				fail(err)
				return
			}
			peerBlocks = append(peerBlocks, blk)
		}
		sb += 1
		if pl.forced != "honest:long" && r.Intn(3) == 0 {
			sb += 3
		}
	}
	if len(peerBlocks) != P+fb+1 || !bytes.Equal(peerBlocks[P+fb].Header.ID, b.Tip().Header.ID) || !bytes.Equal(origBlocks[len(origBlocks)-1].Header.ID, a.Tip().Header.ID) {
		fail(fmt.Errorf("chains were not built as planned"))
		return
	}
	var peerID p2p.PeerID
	var fp *fakePeer
	corruptAt := 0
	switch behaviour {
	case "honest":
		if err := connect(a.Conn, b); err != nil {
			fail(err)
			return
		}
		peerID = b.Conn.ID()
	default:
		budget := -1
		switch behaviour {
		case "corrupt":
			// the last block of the served chain carries a state root that does not match its execution (re-signed)
			corruptAt = P + 1 + r.Intn(fb)
			peerBlocks = peerBlocks[:corruptAt+1]
			last := peerBlocks[corruptAt]
			hdr := *last.Header
			if r.Intn(3) == 0 && hdr.Height >= 2 {
				// a block that links to its parent but claims the parent's height (statically fine, signed by the
				// slot's generator): only verifyBlock's height rule stands between it and the height index
				hdr.Height--
			} else {
				sr := append([]byte{}, hdr.StateRoot...)
				sr[0] ^= 0xff
				hdr.StateRoot = sr
			}
			resign(a, &hdr, cfg.NVal)
			peerBlocks[corruptAt] = &blockchain.Block{Header: &hdr, Transactions: last.Transactions, Assets: last.Assets}
		case "tamper":
			// header untouched, payload not: a transaction is taken out of / put into a block in the middle of the segment
			corruptAt = P + spoil
			old := peerBlocks[corruptAt]
			txs := append([]*blockchain.Transaction{}, old.Transactions...)
			if len(txs) > 0 {
				txs = txs[1:]
			} else {
				for _, o := range peerBlocks[P+1:] {
					if len(o.Transactions) > 0 {
						txs = append(txs, o.Transactions[0])
						break
					}
				}
				if len(txs) == 0 {
					fail(fmt.Errorf("no transaction to put into the tampered block"))
					return
				}
			}
			peerBlocks = append([]*blockchain.Block{}, peerBlocks...)
			peerBlocks[corruptAt] = &blockchain.Block{Header: old.Header, Transactions: txs, Assets: old.Assets}
			if peerBlocks[corruptAt].Validate() == nil {
				fail(fmt.Errorf("the tampered block passes Validate"))
				return
			}
		case "static":
			corruptAt = P + spoil
		case "gap":
			// a block in the middle of the segment is never served
			corruptAt = P + spoil
			peerBlocks = append(append([]*blockchain.Block{}, peerBlocks[:corruptAt]...), peerBlocks[corruptAt+1:]...)
		case "truncate":
			budget = 0
		case "truncate-partial":
			budget = pl.serve
		}
		fp, err = newFakePeer(peerBlocks, budget, behaviour == "reorder")
		if err != nil {
			fail(err)
			return
		}
		defer fp.conn.Stop()
		addrs, err := fp.conn.MultiAddress()
		if err != nil || len(addrs) == 0 {
			fail(fmt.Errorf("fake peer has no address"))
			return
		}
		ai, _ := p2p.AddrInfoFromMultiAddr(addrs[0])
		if err := a.Conn.Connect(context.Background(), *ai); err != nil {
			fail(err)
			return
		}
		peerID = fp.conn.ID()
	}
	time.Sleep(50 * time.Millisecond)
	before, _ := a.Observe()
	aTip := a.Tip().Header
	finIDs := [][]byte{}
	for h := uint32(0); h <= before.Fin; h++ {
		hd, _ := a.Chain.DataAccess().GetBlockHeaderByHeight(h)
		finIDs = append(finIDs, hd.ID)
	}
	finHdr, _ := a.Chain.DataAccess().GetBlockHeaderByHeight(before.Fin)
	offered := peerBlocks[len(peerBlocks)-1]
	common := uint32(P)
	f := map[string]interface{}{
		"a": map[string]uint32{"h": aTip.Height, "mhp": aTip.MaxHeightPrevoted}, "b": map[string]uint32{"h": offered.Header.Height, "mhp": offered.Header.MaxHeightPrevoted},
		"common": common, "fin": before.Fin, "n": 3, "genKnown": 1,
		"slotGap":   a.Slot.GetSlotNumber(uint32(time.Now().Unix())) - a.Slot.GetSlotNumber(finHdr.Timestamp),
		"behaviour": specBehaviour(behaviour),
		"child":     tj.B(offered.Header.Height == aTip.Height+1 && bytes.Equal(offered.Header.PreviousBlockID, aTip.ID)),
	}
	scenario := map[string]interface{}{"P": P, "forkA": fa, "forkB": fb, "behaviour": behaviour, "corruptAt": corruptAt, "served": pl.serve, "cache": pl.cache,
		"ownTransactions": ownTxs, "forced": pl.forced, "features": f}
	a.Drain()
	var spinning func() bool
	if fp != nil && behaviour == "truncate-partial" {
		spinning = func() bool { return fp.emptyAnswers() >= tj.EnvInt("VERIF_SPIN_REQUESTS", 100) }
	}
	perr, state := await(func() error { return a.Ex.VerifProcess(offered, peerID) }, spinning)
	if state == "hang" || state == "spin" {
		what := fmt.Sprintf("process() of a block offered by a %s peer did not return within 180 s (sync never terminates)", behaviour)
		if state == "spin" {
			what = fmt.Sprintf("process() of a block offered by a peer that serves %d block(s) of the segment and then empty lists does not return: the download loop repeats the same getBlocksFromId request (%d identical requests answered with an empty list so far, 10 per second) - the synchronisation never terminates", pl.serve, fp.emptyAnswers())
		}
		viol("hang:sync:"+behaviour, what, scenario)
		mu.Lock()
		out.Offers++
		out.Outcomes["hang"]++
		mu.Unlock()
		return
	}
	if state == "slow" {
		cov("offers:slower-than-60s", 1)
	}
	if perr != nil && strings.HasPrefix(perr.Error(), "panic:") {
		viol("panic:sync", perr.Error(), scenario)
		return
	}
	after, err := a.Observe()
	if err != nil {
		viol("observe-after-sync", err.Error(), scenario)
		return
	}
	finEvents := finalizeEvents(a, before.Fin, after.Fin)
	tip := a.Tip().Header
	outcome := "partial"
	if bytes.Equal(tip.ID, offered.Header.ID) {
		outcome = "peer"
	} else if bytes.Equal(tip.ID, aTip.ID) {
		outcome = "own"
	}
	banned := len(a.Conn.BlacklistedPeers()) > 0
	if banned {
		outcome += "+ban"
	}
	same := 1
	for h := uint32(0); h <= before.Fin; h++ {
		hd, err := a.Chain.DataAccess().GetBlockHeaderByHeight(h)
		if err != nil || !bytes.Equal(hd.ID, finIDs[h]) {
			same = 0
		}
	}
	kind := "other"
	if f["child"] == 1 {
		kind = "child"
	} else if offered.Header.Height > aTip.Height+6 || aTip.Height > offered.Header.Height+6 {
		kind = "far"
	} else {
		kind = "near"
	}
	// ---- the node goes on from where it ended: it forges its next block; a node that always had exactly the chain the
	// node ended on accepts that block; after a restoration the database equals the one of a twin that was never
	// offered anything (compared when the finalized height did not move: finality reached on the way stays)
	ext := map[string]int{"extended": -1, "twin": -1, "dump": -1}
	sameDump := func(n1, n2 *node.Node, when string) {
		d1, d2 := n1.Dump(), n2.Dump()
		if ext["dump"] != 0 {
			ext["dump"] = 1
		}
		if len(d1) != len(d2) {
			ext["dump"] = 0
			scenario["rows:"+when] = []int{len(d1), len(d2)}
		}
		for i := 0; i < len(d1) && i < len(d2); i++ {
			if d1[i] != d2[i] {
				ext["dump"] = 0
				scenario["firstDifferingRow:"+when] = []string{d1[i], d2[i]}
				break
			}
		}
	}
	var twin *node.Node
	if strings.HasPrefix(outcome, "own") {
		tcfg := cfg3(false)
		tcfg.Now, tcfg.CacheSize = pl.now, pl.cache
		var terr error
		twin, terr = replica(tcfg, ts, origBlocks)
		if terr != nil {
			fail(fmt.Errorf("twin: %v", terr))
			return
		}
		defer twin.Close()
		if after.Fin == before.Fin {
			sameDump(a, twin, "restored")
		}
	}
	nb, xerr := a.Extend(pl.now-5, 1)
	if xerr != nil {
		ext["extended"] = 0
		scenario["extendError"] = xerr.Error()
	} else {
		ext["extended"] = 1
		switch {
		case twin != nil:
			if err := twin.Ex.VerifProcess(nb, "12D3KooWverifpeer"); err != nil || !bytes.Equal(twin.Tip().Header.ID, nb.Header.ID) {
				ext["twin"] = 0
				scenario["twinError"] = fmt.Sprint(err)
			} else {
				ext["twin"] = 1
				if after.Fin == before.Fin {
					sameDump(a, twin, "extended")
				}
			}
		case outcome == "peer" && bytes.Equal(offered.Header.ID, b.Tip().Header.ID):
			// the peer's own node is the node that always had this chain
			if err := b.Ex.VerifProcess(nb, "12D3KooWverifpeer"); err != nil || !bytes.Equal(b.Tip().Header.ID, nb.Header.ID) {
				ext["twin"] = 0
				scenario["twinError"] = fmt.Sprint(err)
			} else {
				ext["twin"] = 1
			}
		}
	}
	mu.Lock()
	out.Offers++
	out.Outcomes[outcome]++
	out.Paths[kind+":"+behaviour]++
	if pl.forced != "" {
		out.Cov["forced:"+pl.forced+":"+outcome]++
	}
	if pl.cache > 0 {
		out.Cov["offers:small-cache"]++
		if outcome == "peer" {
			out.Cov["offers:small-cache:peer"]++
		}
	}
	if fb > 103 && outcome == "peer" {
		out.Cov["offers:second-download-batch"]++
	}
	if strings.HasPrefix(outcome, "own+ban") && kind == "near" && ownTxs > 0 && f["behaviour"] == "corrupt" {
		out.Cov["offers:restored-blocks-with-transactions"]++
	}
	for _, k := range []string{"extended", "twin", "dump"} {
		if ext[k] == 1 {
			out.Cov["ext:"+k]++
		}
	}
	if ext["dump"] == 1 && strings.HasSuffix(outcome, "+ban") {
		out.Cov["ext:dump-after-restore"]++
	}
	if len(finEvents) > 0 {
		out.Cov["finalize-events:offers-with-raise"]++
		out.Cov["finalize-events:events"] += len(finEvents)
	}
	w.Emit(map[string]interface{}{"ev": "offer", "f": f, "outcome": outcome, "finBefore": before.Fin, "finAfter": after.Fin, "finalIdsSame": same,
		"scenario": scenario, "err": fmt.Sprint(perr), "temp": after.Temp, "finEvents": finEvents, "mhpcAfter": after.Mhpc, "ext": ext})
	mu.Unlock()
	if outcome == "own" || outcome == "own+ban" {
		// the original blocks are restored and no temporary block is left behind
		if after.TipH != before.TipH {
			viol("sync:tip-height-changed-on-own-chain", "after a refused/failed sync the node is on its own tip id but reports another height", scenario)
		}
	}
}

// ---------------------------------------------------------------- two offers in a row
// A failed block sync leaves the node on a prefix of the peer's chain with its own removed blocks kept as temporary
// blocks.  A second peer then offers a near fork whose last block is corrupt: fast sync must restore the blocks it
// removed ("the original blocks are restored and the peer is banned") whatever the earlier attempt left behind.
func corruptLast(a *node.Node, blocks []*blockchain.Block, at int, nval int) []*blockchain.Block {
	res := append([]*blockchain.Block{}, blocks[:at+1]...)
	last := res[at]
	hdr := *last.Header
	sr := append([]byte{}, hdr.StateRoot...)
	sr[0] ^= 0xff
	hdr.StateRoot = sr
	resign(a, &hdr, nval)
	res[at] = &blockchain.Block{Header: &hdr, Transactions: last.Transactions, Assets: last.Assets}
	return res
}

func offerFrom(a *node.Node, fp *fakePeer) (error, bool) {
	addrs, err := fp.conn.MultiAddress()
	if err != nil || len(addrs) == 0 {
		return fmt.Errorf("fake peer has no address"), false
	}
	ai, _ := p2p.AddrInfoFromMultiAddr(addrs[0])
	if err := a.Conn.Connect(context.Background(), *ai); err != nil {
		return err, false
	}
	time.Sleep(50 * time.Millisecond)
	e, state := await(func() error { return a.Ex.VerifProcess(fp.blocks[len(fp.blocks)-1], fp.conn.ID()) }, nil)
	if state == "hang" {
		return fmt.Errorf("hang"), true
	}
	return e, true
}

func doubleOffer(w *tj.Writer, r *rand.Rand, idx int) {
	fail := func(e error) {
		mu.Lock()
		out.Errors = append(out.Errors, fmt.Sprintf("double offer %d: %v", idx, e))
		mu.Unlock()
	}
	cfg := cfg3(true)
	ts := uint32(time.Now().Unix()) - uint32(cfg.Now)*node.BlockTime - node.BlockTime/2
	a, err := node.New(cfg, nil, ts)
	if err != nil {
		fail(err)
		return
	}
	defer a.Close()
	b, err := node.New(cfg3(false), nil, ts)
	if err != nil {
		fail(err)
		return
	}
	defer b.Close()
	P := 1 + r.Intn(4)
	fa := 1 + r.Intn(4)
	fb := 9 + fa + r.Intn(6) // far ahead: block sync
	good := 1 + r.Intn(4)    // blocks of the first peer applied before the corrupt one
	slot := 1
	for i := 0; i < P; i++ {
		if _, err := a.Extend(slot, 0); err != nil {
			fail(err)
			return
		}
		if _, err := b.Extend(slot, 0); err != nil {
			fail(err)
			return
		}
		slot++
	}
	sa, sb := slot, slot+1
	for i := 0; i < fa; i++ {
		if _, err := a.Extend(sa, r.Intn(3)); err != nil {
			fail(err)
			return
		}
		sa += 4
	}
	for i := 0; i < fb; i++ {
		if _, err := b.Extend(sb, 0); err != nil {
			fail(err)
			return
		}
		sb++
	}
	far := chainBlocks(b)
	fp1, err := newFakePeer(append(corruptLast(a, far, P+good+1, cfg.NVal), far[P+good+2:]...), -1, false)
	if err != nil {
		fail(err)
		return
	}
	defer fp1.conn.Stop()
	if e, ok := offerFrom(a, fp1); !ok {
		fail(e)
		return
	}
	mid, err := a.Observe()
	if err != nil {
		fail(err)
		return
	}
	scenario := map[string]interface{}{"double": true, "behaviour": "corrupt-after-failed-sync", "P": P, "forkA": fa, "forkB": fb, "goodBlocksOfFirstPeer": good, "tempAfterFirst": mid.Temp}
	if len(a.Conn.BlacklistedPeers()) > 0 || len(mid.Temp) == 0 || mid.TipH < 2 {
		// the first attempt did not end the way this scenario needs (peer banned: the shared loopback address is closed)
		mu.Lock()
		out.Outcomes["double:not-applicable"]++
		mu.Unlock()
		return
	}
	tipBefore := a.Tip()
	finBefore := mid.Fin
	finIDs := [][]byte{}
	for h := uint32(0); h <= finBefore; h++ {
		hd, err := a.Chain.DataAccess().GetBlockHeaderByHeight(h)
		if err != nil {
			fail(err)
			return
		}
		finIDs = append(finIDs, hd.ID)
	}
	// second peer: the node's own chain up to tip-1, then a fork of two blocks, the last one corrupt
	ab := chainBlocks(a)
	c, err := replica(cfg3(false), ts, ab[:len(ab)-1])
	if err != nil {
		fail(err)
		return
	}
	defer c.Close()
	s2 := a.Slot.GetSlotNumber(tipBefore.Header.Timestamp) + 1
	for i := 0; i < 2; i++ {
		if _, err := c.Extend(s2, 0); err != nil {
			fail(err)
			return
		}
		s2++
	}
	cb := chainBlocks(c)
	fp2, err := newFakePeer(corruptLast(a, cb, len(cb)-1, cfg.NVal), -1, false)
	if err != nil {
		fail(err)
		return
	}
	defer fp2.conn.Stop()
	offered := fp2.blocks[len(fp2.blocks)-1]
	a.Drain()
	perr, ok := offerFrom(a, fp2)
	if !ok {
		fail(perr)
		return
	}
	if perr != nil && perr.Error() == "hang" {
		viol("hang:sync:double", "process() of a block offered after an earlier failed sync did not return within 180 s", scenario)
		return
	}
	if perr != nil && strings.HasPrefix(perr.Error(), "panic:") {
		viol("panic:sync", perr.Error(), scenario)
		return
	}
	after, err := a.Observe()
	if err != nil {
		viol("observe-after-sync", err.Error(), scenario)
		return
	}
	finEvents := finalizeEvents(a, finBefore, after.Fin)
	tip := a.Tip().Header
	outcome := "partial"
	if bytes.Equal(tip.ID, offered.Header.ID) {
		outcome = "peer"
	} else if bytes.Equal(tip.ID, tipBefore.Header.ID) {
		outcome = "own"
	}
	if len(a.Conn.BlacklistedPeers()) > 0 {
		outcome += "+ban"
	}
	// the ids served for the heights that were final before the second offer (they include blocks of the first peer)
	same := 1
	for h := uint32(0); h <= finBefore; h++ {
		hd, err := a.Chain.DataAccess().GetBlockHeaderByHeight(h)
		if err != nil || !bytes.Equal(hd.ID, finIDs[h]) {
			same = 0
		}
	}
	finHdr, _ := a.Chain.DataAccess().GetBlockHeaderByHeight(finBefore)
	f := map[string]interface{}{
		"a": map[string]uint32{"h": tipBefore.Header.Height, "mhp": tipBefore.Header.MaxHeightPrevoted}, "b": map[string]uint32{"h": offered.Header.Height, "mhp": offered.Header.MaxHeightPrevoted},
		"common": tipBefore.Header.Height - 1, "fin": finBefore, "n": 3, "genKnown": 1,
		"slotGap":   a.Slot.GetSlotNumber(uint32(time.Now().Unix())) - a.Slot.GetSlotNumber(finHdr.Timestamp),
		"behaviour": "corrupt", "child": 0,
	}
	ext := map[string]int{"extended": -1, "twin": -1, "dump": -1}
	if _, xerr := a.Extend(cfg.Now-5, 1); xerr != nil {
		ext["extended"] = 0
		scenario["extendError"] = xerr.Error()
	} else {
		ext["extended"] = 1
	}
	mu.Lock()
	out.Offers++
	out.Outcomes["double:"+outcome]++
	out.Paths["near:corrupt:after-failed-sync"]++
	if finBefore > uint32(P) {
		out.Cov["double:final-blocks-of-first-peer"]++
	}
	if len(finEvents) > 0 {
		out.Cov["finalize-events:offers-with-raise"]++
		out.Cov["finalize-events:events"] += len(finEvents)
	}
	w.Emit(map[string]interface{}{"ev": "offer", "f": f, "outcome": outcome, "finBefore": finBefore, "finAfter": after.Fin, "finalIdsSame": same,
		"scenario": scenario, "err": fmt.Sprint(perr), "temp": after.Temp, "finEvents": finEvents, "mhpcAfter": after.Mhpc, "ext": ext})
	mu.Unlock()
}

func main() {
	if len(os.Args) < 6 {
		fmt.Fprintln(os.Stderr, "usage: c19 peers-table.txt trace.ndjson out.json nHandlerCases nOffers")
		os.Exit(2)
	}
	seed := int64(tj.EnvInt("VERIF_SEED", 1))
	r := rand.New(rand.NewSource(seed))
	w, err := tj.NewWriter(os.Args[2])
	if err != nil {
		panic(err)
	}
	nh, _ := strconv.Atoi(os.Args[4])
	no, _ := strconv.Atoi(os.Args[5])
	peersTable(os.Args[1])
	var wg sync.WaitGroup
	// malformed requests: every case on a server of its own, next to everything else
	for _, kind := range malformedKinds {
		kind := kind
		wg.Add(1)
		go func() {
			defer wg.Done()
			defer func() {
				if e := recover(); e != nil {
					mu.Lock()
					out.Errors = append(out.Errors, fmt.Sprintf("malformed %s: harness panic %v", kind, e))
					mu.Unlock()
				}
			}()
			malformed(w, kind)
		}()
	}
	// the serving node rate-limits every procedure (100 messages per 10 s and peer, 10 penalty points above that, ban at
	// 100 points): a fresh server and client for every 75 cases (+ the fixed cases on the first one) keeps the client an
	// ordinary, well-behaved peer.  The first server keeps 8 blocks in its cache: nearly every look-up goes to the database.
	for done, i := 0, 0; done < nh; done, i = done+75, i+1 {
		k := nh - done
		if k > 75 {
			k = 75
		}
		cache := 0
		if i%2 == 0 {
			cache = 8
		}
		handlers(w, r, k, cache, i == 0)
	}
	sem := make(chan struct{}, 6)
	for i := 0; i < no; i++ {
		i := i
		rr := rand.New(rand.NewSource(seed*7919 + int64(i)))
		wg.Add(1)
		sem <- struct{}{}
		go func() {
			defer wg.Done()
			defer func() { <-sem }()
			defer func() {
				if e := recover(); e != nil {
					mu.Lock()
					out.Errors = append(out.Errors, fmt.Sprintf("offer %d: harness panic %v", i, e))
					mu.Unlock()
				}
			}()
			offer(w, rr, i)
		}()
	}
	for i := 0; i < no/5; i++ {
		i := i
		rr := rand.New(rand.NewSource(seed*104729 + int64(i)))
		wg.Add(1)
		sem <- struct{}{}
		go func() {
			defer wg.Done()
			defer func() { <-sem }()
			defer func() {
				if e := recover(); e != nil {
					mu.Lock()
					out.Errors = append(out.Errors, fmt.Sprintf("double offer %d: harness panic %v", i, e))
					mu.Unlock()
				}
			}()
			doubleOffer(w, rr, i)
		}()
	}
	for i := 0; i < no/8; i++ {
		i := i
		rr := rand.New(rand.NewSource(seed*15485863 + int64(i)))
		wg.Add(1)
		sem <- struct{}{}
		go func() {
			defer wg.Done()
			defer func() { <-sem }()
			defer func() {
				if e := recover(); e != nil {
					mu.Lock()
					out.Errors = append(out.Errors, fmt.Sprintf("several peers %d: harness panic %v", i, e))
					mu.Unlock()
				}
			}()
			severalPeers(w, rr, i)
		}()
	}
	wg.Wait()
	w.Close()
	tj.WriteJSON(os.Args[3], out)
}

// ---------------------------------------------------------------- several honest peers
// The block that starts a block synchronisation comes from peer T; the node asks every connected peer for its tip and
// selects one by the rule of the statement (spec/Sync.tla BestPeers, evaluated by SyncTrace.tla on the tips the peers
// really have) - and has to fetch the blocks from that peer: it ends on that peer's chain.  Variants:
//
//	0 better   : B is better than T in maxHeightPrevoted and in height
//	1 disagree : T is a long fork forged by one validator (higher, low maxHeightPrevoted), B is shorter and signed by all
//	2 silent   : variant 0 + a connected peer whose getLastBlock fails
//	3 common-id: two peers on B's tip, T on a sibling of that tip (same height, same maxHeightPrevoted)
func severalPeers(w *tj.Writer, r *rand.Rand, idx int) {
	variant := idx % 4
	vname := []string{"better", "disagree", "silent", "common-id"}[variant]
	fail := func(e error) {
		mu.Lock()
		out.Errors = append(out.Errors, fmt.Sprintf("several peers %d (%s): %v", idx, vname, e))
		mu.Unlock()
	}
	cfg := cfg3(true)
	ts := uint32(time.Now().Unix()) - uint32(cfg.Now)*node.BlockTime - node.BlockTime/2
	nodes := []*node.Node{}
	for i := 0; i < 3; i++ {
		n, err := node.New(cfg3(true), nil, ts)
		if err != nil {
			fail(err)
			return
		}
		defer n.Close()
		nodes = append(nodes, n)
	}
	a, t, b := nodes[0], nodes[1], nodes[2]
	P := 1 + r.Intn(3)
	ft := 9 + r.Intn(4)      // the triggering peer: far ahead of the node (block sync)
	fb := ft + 2 + r.Intn(4) // the best peer: longer still, on another fork
	if variant == 1 {
		fb = 7 + r.Intn(3)
		ft = fb + 2 + r.Intn(3)
	}
	slot := 1
	for i := 0; i < P; i++ {
		for _, n := range nodes {
			if _, err := n.Extend(slot, 0); err != nil {
				fail(err)
				return
			}
		}
		slot++
	}
	st, sb := slot, slot
	for i := 0; i < fb; i++ {
		// the first block of B's branch differs from T's (one transaction), the rest follows
		ntx := 0
		if i == 0 {
			ntx = 1
		}
		if _, err := b.Extend(sb, ntx); err != nil {
			fail(err)
			return
		}
		sb++
	}
	peers := []*node.Node{t, b}
	if variant == 3 {
		// T: B's chain without its last block, then a block of its own in the next slot (another generator)
		bb := chainBlocks(b)
		for _, blk := range bb[P+1 : len(bb)-1] {
			if err := t.Ex.VerifProcess(blk, "12D3KooWverifpeer"); err != nil {
				fail(err)
				return
			}
		}
		if _, err := t.Extend(sb, 1); err != nil {
			fail(err)
			return
		}
		b2, err := replica(cfg3(true), ts, bb)
		if err != nil {
			fail(err)
			return
		}
		defer b2.Close()
		peers = append(peers, b2)
	} else {
		for i := 0; i < ft; i++ {
			if _, err := t.Extend(st, 0); err != nil {
				fail(err)
				return
			}
			if variant == 1 {
				st += 3 // always the same validator: no prevotes beyond the common prefix
			} else {
				st++
			}
		}
	}
	if bytes.Equal(t.Tip().Header.ID, b.Tip().Header.ID) {
		fail(fmt.Errorf("the peer chains do not differ as intended"))
		return
	}
	for _, p := range peers {
		if err := connect(a.Conn, p); err != nil {
			fail(err)
			return
		}
	}
	if variant == 2 {
		// a connected peer that cannot tell its tip
		c, _ := newClient()
		c.RegisterRPCHandler(lsync.RPCEndpointGetLastBlock, func(w p2p.ResponseWriter, r *p2p.Request) { w.Error(fmt.Errorf("not available")) })          //nolint
		c.RegisterRPCHandler(lsync.RPCEndpointGetHighestCommonBlock, func(w p2p.ResponseWriter, r *p2p.Request) { w.Error(fmt.Errorf("not available")) }) //nolint
		c.RegisterRPCHandler(lsync.RPCEndpointGetBlocksFromID, func(w p2p.ResponseWriter, r *p2p.Request) { w.Error(fmt.Errorf("not available")) })       //nolint
		if err := c.Start(crypto.RandomBytes(32)); err != nil {
			fail(err)
			return
		}
		defer c.Stop()
		addrs, err := c.MultiAddress()
		if err != nil || len(addrs) == 0 {
			fail(fmt.Errorf("silent peer has no address"))
			return
		}
		ai, _ := p2p.AddrInfoFromMultiAddr(addrs[0])
		if err := a.Conn.Connect(context.Background(), *ai); err != nil {
			fail(err)
			return
		}
	}
	time.Sleep(80 * time.Millisecond)
	aTip := a.Tip().Header
	offered := t.Tip()
	// the tips as the specification sees them: one label per distinct tip id
	label := map[string]int{}
	tips := []map[string]uint32{}
	for _, p := range peers {
		h := p.Tip().Header
		if label[string(h.ID)] == 0 {
			label[string(h.ID)] = len(label) + 1
		}
		tips = append(tips, map[string]uint32{"mhp": h.MaxHeightPrevoted, "h": h.Height, "id": uint32(label[string(h.ID)])})
	}
	th, bh := t.Tip().Header, b.Tip().Header
	scenario := map[string]interface{}{"severalPeers": true, "variant": vname, "P": P, "forkT": ft, "forkB": fb, "tips": tips}
	if aTip.Height+6 >= th.Height {
		fail(fmt.Errorf("the triggering block is not far enough ahead for a block synchronisation"))
		return
	}
	perr, state := await(func() error { return a.Ex.VerifProcess(offered, t.Conn.ID()) }, nil)
	if state == "hang" {
		viol("hang:sync:two-peers", "process() of a block offered by one of several honest peers did not return within 180 s", scenario)
		return
	}
	if perr != nil && strings.HasPrefix(perr.Error(), "panic:") {
		viol("panic:sync", perr.Error(), scenario)
		return
	}
	tip := a.Tip().Header
	outcome := "elsewhere"
	tipLabel := -1
	if l := label[string(tip.ID)]; l > 0 {
		tipLabel = l
	}
	switch {
	case bytes.Equal(tip.ID, bh.ID):
		outcome = "best"
	case bytes.Equal(tip.ID, th.ID):
		outcome = "trigger"
	case bytes.Equal(tip.ID, aTip.ID):
		outcome = "own"
		tipLabel = 0
	}
	banned := len(a.Conn.BlacklistedPeers())
	noBan := 1
	if variant == 2 {
		noBan = 0 // how a peer that does not answer is treated is not fixed
	}
	mu.Lock()
	out.Offers++
	out.Outcomes["two-peers:"+outcome]++
	out.Cov["several-peers:"+vname]++
	if variant == 1 && bh.MaxHeightPrevoted > th.MaxHeightPrevoted && bh.Height < th.Height {
		out.Cov["several-peers:mhp-and-height-disagree"]++
	}
	if variant == 3 && bh.MaxHeightPrevoted == th.MaxHeightPrevoted && bh.Height == th.Height {
		out.Cov["several-peers:decided-by-most-common-id"]++
	}
	w.Emit(map[string]interface{}{"ev": "offer2", "outcome": outcome, "peers": tips, "tip": tipLabel, "banned": banned, "noBan": noBan,
		"tipH": map[string]uint32{"h": tip.Height}, "best": map[string]uint32{"h": bh.Height},
		"trigger": map[string]uint32{"h": th.Height}, "scenario": scenario, "err": fmt.Sprint(perr)})
	mu.Unlock()
}
