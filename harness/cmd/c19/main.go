// c19: sync (properties C19 and the sync part of C04).
//   peers    : evaluates the real peer selection on the TLC-generated table (spec/Sync.tla BestPeers)
//   handlers : calls the real getHighestCommonBlock / getBlocksFromId handlers of a real node over loopback libp2p
//   offers   : a real node is offered the tip of a peer's chain (honest real node, corrupting or truncating fake
//              peer) through the real process() path incl. fast / block sync; records features + outcome
// The handler and offer records are validated by spec/trace/SyncTrace.tla.
//
// usage: c19 <peers-table.txt> <trace.ndjson> <out.json> <nHandlerCases> <nOffers>
package main

import (
	"bufio"
	"bytes"
	"context"
	"fmt"
	"math/rand"
	"os"
	"regexp"
	"strconv"
	"strings"
	"sync"
	"time"

	"github.com/LiskHQ/lisk-engine/pkg/blockchain"
	"github.com/LiskHQ/lisk-engine/pkg/crypto"
	"github.com/LiskHQ/lisk-engine/pkg/log"
	"github.com/LiskHQ/lisk-engine/pkg/p2p"

	lsync "github.com/LiskHQ/lisk-engine/pkg/consensus/sync"

	"verifharness/internal/node"
	"verifharness/internal/tj"
)

type Violation struct {
	Key    string      `json:"key"`
	What   string      `json:"what"`
	Replay interface{} `json:"replay"`
}
type Out struct {
	PeerRows   int            `json:"peer_rows"`
	Handler    int            `json:"handler_calls"`
	Offers     int            `json:"offers"`
	Outcomes   map[string]int `json:"outcomes"`
	Paths      map[string]int `json:"offer_kinds"`
	Errors     []string       `json:"harness_errors"`
	Violations []Violation    `json:"violations"`
}

var (
	out    = &Out{Outcomes: map[string]int{}, Paths: map[string]int{}}
	mu     sync.Mutex
	perKey = map[string]int{}
)

func viol(key, what string, replay interface{}) {
	mu.Lock()
	defer mu.Unlock()
	perKey[key]++
	if perKey[key] <= 2 {
		out.Violations = append(out.Violations, Violation{key, what, replay})
	}
}

func cfg3(network bool) *node.Config {
	return &node.Config{NVal: 3, Batch: 3, Init: node.ParamSet{PcT: 2, CertT: 2, W: []uint64{1, 1, 1}, Gens: []int{1, 2, 3}}, Now: 200, Network: network}
}

// ---------------------------------------------------------------- peers table
func peersTable(path string) {
	f, err := os.Open(path)
	if err != nil {
		return
	}
	defer f.Close()
	num := regexp.MustCompile(`\d+`)
	sc := bufio.NewScanner(f)
	sc.Buffer(make([]byte, 1<<20), 1<<24)
	for sc.Scan() {
		line := sc.Text()
		if !strings.HasPrefix(line, "<<\"TB\"") {
			continue
		}
		// <<"TB", <<<<mhp,h,id>>,...>>, <<b1,b2,..>>>>
		parts := strings.SplitN(line, ">>>>, <<", 2)
		if len(parts) != 2 {
			continue
		}
		a := num.FindAllString(parts[0], -1)
		b := num.FindAllString(parts[1], -1)
		n := len(b)
		if len(a) != 3*n {
			continue
		}
		infos := []*lsync.NodeInfo{}
		for i := 0; i < n; i++ {
			mhp, _ := strconv.Atoi(a[3*i])
			h, _ := strconv.Atoi(a[3*i+1])
			id, _ := strconv.Atoi(a[3*i+2])
			ni := lsync.NewNodeInfo(uint32(h), uint32(mhp), 2, bytes.Repeat([]byte{byte(id)}, 32))
			infos = append(infos, ni)
		}
		out.PeerRows++
		for rep := 0; rep < 4; rep++ {
			got, err := lsync.VerifBestNodeInfo(infos)
			if err != nil || got == nil {
				viol("best-peer:error", fmt.Sprintf("peer selection failed on %s: %v", line, err), line)
				break
			}
			idx := -1
			for i, ni := range infos {
				if ni == got {
					idx = i
				}
			}
			if idx < 0 || b[idx] != "1" {
				viol("best-peer:not-best", fmt.Sprintf("peer selection returned tip (mhp=%d,h=%d,id=%d), which is not among the best by (maxHeightPrevoted, height, most common id): %s",
					got.VerifMaxHeightPrevoted(), got.VerifHeight(), got.VerifLastBlockID()[0], line), line)
				break
			}
		}
	}
}

// ---------------------------------------------------------------- network helpers
func newClient() (*p2p.Connection, error) {
	logger, _ := log.NewSilentLogger()
	c := p2p.NewConnection(logger, &p2p.Config{ChainID: []byte{4, 0, 0, 7}, Addresses: []string{"/ip4/127.0.0.1/tcp/0"}})
	return c, nil
}

// a pure client still has to know the procedure names: responses are rate-limited per registered procedure
func registerNoop(c *p2p.Connection) {
	for _, name := range []string{lsync.RPCEndpointGetLastBlock, lsync.RPCEndpointGetHighestCommonBlock, lsync.RPCEndpointGetBlocksFromID} {
		c.RegisterRPCHandler(name, func(w p2p.ResponseWriter, r *p2p.Request) { w.Write(nil) }) //nolint
	}
}

func connect(a *p2p.Connection, b *node.Node) error {
	ai, err := b.AddrInfo()
	if err != nil {
		return err
	}
	return a.Connect(context.Background(), *ai)
}

// ---------------------------------------------------------------- handlers
func handlers(w *tj.Writer, r *rand.Rand, cases int) {
	srv, err := node.New(cfg3(true), nil, 0)
	if err != nil {
		out.Errors = append(out.Errors, "handlers: "+err.Error())
		return
	}
	defer srv.Close()
	L := 112
	for s := 1; s <= L; s++ {
		if _, err := srv.Extend(s, 0); err != nil {
			out.Errors = append(out.Errors, "handlers: extend: "+err.Error())
			return
		}
	}
	cli, _ := newClient()
	registerNoop(cli)
	if err := cli.Start(crypto.RandomBytes(32)); err != nil {
		out.Errors = append(out.Errors, "handlers: client start: "+err.Error())
		return
	}
	defer cli.Stop()
	if err := connect(cli, srv); err != nil {
		out.Errors = append(out.Errors, "handlers: connect: "+err.Error())
		return
	}
	ids := [][]byte{}
	index := map[string]int{}
	chain := []int{}
	for h := 0; h <= L; h++ {
		hd, err := srv.Chain.DataAccess().GetBlockHeaderByHeight(uint32(h))
		if err != nil {
			out.Errors = append(out.Errors, "handlers: "+err.Error())
			return
		}
		ids = append(ids, hd.ID)
		index[string(hd.ID)] = h + 1
		chain = append(chain, h+1)
	}
	pid := srv.Conn.ID()
	for c := 0; c < cases; c++ {
		// getHighestCommonBlock
		n := 1 + r.Intn(6)
		req := &lsync.GetHighestCommonBlockRequest{}
		abs := []int{}
		for i := 0; i < n; i++ {
			if r.Intn(4) == 0 {
				req.IDs = append(req.IDs, crypto.RandomBytes(32))
				abs = append(abs, 9000+i)
			} else {
				h := r.Intn(L + 1)
				if r.Intn(3) == 0 {
					h = L - r.Intn(3)
				}
				req.IDs = append(req.IDs, ids[h])
				abs = append(abs, h+1)
			}
		}
		ctx, cancel := context.WithTimeout(context.Background(), 5*time.Second)
		resp := cli.RequestFrom(ctx, pid, lsync.RPCEndpointGetHighestCommonBlock, req.Encode())
		cancel()
		res := 0
		if resp.Error() != nil {
			viol("handler:common:error", "getHighestCommonBlock failed: "+resp.Error().Error(), abs)
			continue
		}
		if len(resp.Data()) > 0 {
			rr := &lsync.GetHighestCommonBlockResponse{}
			if err := rr.Decode(resp.Data()); err != nil {
				viol("handler:common:decode", err.Error(), abs)
				continue
			}
			res = index[string(rr.ID)]
			if len(rr.ID) > 0 && res == 0 {
				res = -1
			}
		}
		w.Emit(map[string]interface{}{"ev": "common", "chain": chain, "ids": abs, "res": res})
		out.Handler++
		// getBlocksFromId
		h := r.Intn(L + 1)
		if r.Intn(3) == 0 {
			h = r.Intn(12)
		}
		breq := &lsync.GetBlocksFromIDRequest{ID: ids[h]}
		ctx, cancel = context.WithTimeout(context.Background(), 5*time.Second)
		resp = cli.RequestFrom(ctx, pid, lsync.RPCEndpointGetBlocksFromID, breq.Encode())
		cancel()
		if resp.Error() != nil {
			viol("handler:blocks:error", "getBlocksFromId failed: "+resp.Error().Error(), h)
			continue
		}
		br := &lsync.GetBlocksFromIDResponse{}
		got := []int{}
		if len(resp.Data()) > 0 {
			if err := br.Decode(resp.Data()); err != nil {
				viol("handler:blocks:decode", err.Error(), h)
				continue
			}
			for _, b := range br.Blocks {
				b.Init()
				x := index[string(b.Header.ID)]
				if x == 0 {
					x = -1
				}
				got = append(got, x)
			}
		}
		w.Emit(map[string]interface{}{"ev": "blocks", "chain": chain, "id": h + 1, "res": got})
		out.Handler++
	}
}

// ---------------------------------------------------------------- fake peer serving an arbitrary chain
type fakePeer struct {
	conn   *p2p.Connection
	blocks []*blockchain.Block // blocks[0] = genesis
	trunc  bool                // serve empty segments
}

func newFakePeer(blocks []*blockchain.Block, trunc bool) (*fakePeer, error) {
	c, _ := newClient()
	fp := &fakePeer{conn: c, blocks: blocks, trunc: trunc}
	find := func(id []byte) int {
		for i, b := range fp.blocks {
			if bytes.Equal(b.Header.ID, id) {
				return i
			}
		}
		return -1
	}
	c.RegisterRPCHandler(lsync.RPCEndpointGetLastBlock, func(w p2p.ResponseWriter, r *p2p.Request) {
		w.Write(fp.blocks[len(fp.blocks)-1].Encode())
	})
	c.RegisterRPCHandler(lsync.RPCEndpointGetHighestCommonBlock, func(w p2p.ResponseWriter, r *p2p.Request) {
		req := &lsync.GetHighestCommonBlockRequest{}
		if err := req.Decode(r.Data); err != nil {
			w.Write(nil)
			return
		}
		best := -1
		for _, id := range req.IDs {
			if i := find(id); i > best {
				best = i
			}
		}
		if best < 0 {
			w.Write(nil)
			return
		}
		w.Write((&lsync.GetHighestCommonBlockResponse{ID: fp.blocks[best].Header.ID}).Encode())
	})
	c.RegisterRPCHandler(lsync.RPCEndpointGetBlocksFromID, func(w p2p.ResponseWriter, r *p2p.Request) {
		req := &lsync.GetBlocksFromIDRequest{}
		if err := req.Decode(r.Data); err != nil {
			w.Write(nil)
			return
		}
		i := find(req.ID)
		if i < 0 {
			w.Error(fmt.Errorf("unknown id"))
			return
		}
		resp := &lsync.GetBlocksFromIDResponse{}
		if !fp.trunc {
			resp.Blocks = fp.blocks[i+1:]
		}
		w.Write(resp.Encode())
	})
	if err := c.Start(crypto.RandomBytes(32)); err != nil {
		return nil, err
	}
	return fp, nil
}

// ---------------------------------------------------------------- offers
func chainBlocks(n *node.Node) []*blockchain.Block {
	res := []*blockchain.Block{}
	for h := uint32(0); h <= n.Tip().Header.Height; h++ {
		b, err := n.Chain.DataAccess().GetBlockByHeight(h)
		if err != nil {
			break
		}
		res = append(res, b)
	}
	return res
}

func offer(w *tj.Writer, r *rand.Rand, idx int) {
	cfg := cfg3(true)
	ts := uint32(time.Now().Unix()) - uint32(cfg.Now)*node.BlockTime - node.BlockTime/2
	a, err := node.New(cfg, nil, ts)
	if err != nil {
		mu.Lock()
		out.Errors = append(out.Errors, "offer: "+err.Error())
		mu.Unlock()
		return
	}
	defer a.Close()
	bcfg := cfg3(true)
	b, err := node.New(bcfg, nil, ts)
	if err != nil {
		return
	}
	defer b.Close()
	P := r.Intn(7)
	fa := r.Intn(6)
	fb := 1 + r.Intn(8)
	if r.Intn(4) == 0 {
		fb = 8 + r.Intn(8) // far ahead: block sync territory
	}
	behaviour := []string{"honest", "honest", "corrupt", "truncate"}[r.Intn(4)]
	// "lazy" own fork: long, but forged by one validator only (no prevotes), against a shorter peer chain that all
	// validators signed: the better chain (larger maxHeightPrevoted) lies more than two rounds BELOW the node's tip
	lazy := r.Intn(5) == 0
	if lazy {
		fa = 11 + r.Intn(4)
		fb = 3 + r.Intn(2)
		behaviour = "honest"
		if r.Intn(3) == 0 {
			// deep: the common block lies 12-16 rounds below the node's tip - beyond the first batch of heights the block
			// synchronisation samples for the common block, inside what its retries cover
			fa = 36 + r.Intn(12)
		}
	}
	slot := 1
	fail := func(e error) {
		mu.Lock()
		out.Errors = append(out.Errors, fmt.Sprintf("offer %d: %v", idx, e))
		mu.Unlock()
	}
	for i := 0; i < P; i++ {
		if _, err := a.Extend(slot, 0); err != nil {
			fail(err)
			return
		}
		if _, err := b.Extend(slot, 0); err != nil {
			fail(err)
			return
		}
		slot++
	}
	sa, sb := slot, slot+1
	for i := 0; i < fa; i++ {
		if _, err := a.Extend(sa, 0); err != nil {
			fail(err)
			return
		}
		if lazy {
			sa += 3 // always the same validator's slot
		} else {
			sa += 1 + r.Intn(2)*3
		}
	}
	for i := 0; i < fb; i++ {
		if _, err := b.Extend(sb, i%2); err != nil {
			fail(err)
			return
		}
		sb += 1
		if r.Intn(3) == 0 {
			sb += 3
		}
	}
	peerBlocks := chainBlocks(b)
	var peerID p2p.PeerID
	var fp *fakePeer
	corruptAt := 0
	switch behaviour {
	case "honest":
		if err := connect(a.Conn, b); err != nil {
			fail(err)
			return
		}
		peerID = b.Conn.ID()
	default:
		if behaviour == "corrupt" {
			// the last block of the served chain carries a state root that does not match its execution (re-signed)
			corruptAt = P + 1 + r.Intn(fb)
			peerBlocks = peerBlocks[:corruptAt+1]
			last := peerBlocks[corruptAt]
			hdr := *last.Header
			if r.Intn(3) == 0 && hdr.Height >= 2 {
				// a block that links to its parent but claims the parent's height (statically fine, signed by the
				// slot's generator): only verifyBlock's height rule stands between it and the height index
				hdr.Height--
			} else {
				sr := append([]byte{}, hdr.StateRoot...)
				sr[0] ^= 0xff
				hdr.StateRoot = sr
			}
			gen := 0
			for id := 1; id <= cfg.NVal; id++ {
				if bytes.Equal(node.Validator(id).Address, hdr.GeneratorAddress) {
					gen = id
				}
			}
			hdr.Sign(a.ChainID, node.Validator(gen).PrivKey)
			peerBlocks[corruptAt] = &blockchain.Block{Header: &hdr, Transactions: last.Transactions, Assets: last.Assets}
		}
		fp, err = newFakePeer(peerBlocks, behaviour == "truncate")
		if err != nil {
			fail(err)
			return
		}
		defer fp.conn.Stop()
		addrs, err := fp.conn.MultiAddress()
		if err != nil || len(addrs) == 0 {
			fail(fmt.Errorf("fake peer has no address"))
			return
		}
		ai, _ := p2p.AddrInfoFromMultiAddr(addrs[0])
		if err := a.Conn.Connect(context.Background(), *ai); err != nil {
			fail(err)
			return
		}
		peerID = fp.conn.ID()
	}
	time.Sleep(50 * time.Millisecond)
	before, _ := a.Observe()
	aTip := a.Tip().Header
	finIDs := [][]byte{}
	for h := uint32(0); h <= before.Fin; h++ {
		hd, _ := a.Chain.DataAccess().GetBlockHeaderByHeight(h)
		finIDs = append(finIDs, hd.ID)
	}
	finHdr, _ := a.Chain.DataAccess().GetBlockHeaderByHeight(before.Fin)
	offered := peerBlocks[len(peerBlocks)-1]
	common := uint32(P)
	if fa == 0 && uint32(len(peerBlocks)-1) >= aTip.Height {
		common = aTip.Height
	}
	f := map[string]interface{}{
		"a": map[string]uint32{"h": aTip.Height, "mhp": aTip.MaxHeightPrevoted}, "b": map[string]uint32{"h": offered.Header.Height, "mhp": offered.Header.MaxHeightPrevoted},
		"common": common, "fin": before.Fin, "n": 3, "genKnown": 1,
		"slotGap": a.Slot.GetSlotNumber(uint32(time.Now().Unix())) - a.Slot.GetSlotNumber(finHdr.Timestamp),
		"behaviour": behaviour,
		"child":     tj.B(offered.Header.Height == aTip.Height+1 && bytes.Equal(offered.Header.PreviousBlockID, aTip.ID)),
	}
	scenario := map[string]interface{}{"P": P, "forkA": fa, "forkB": fb, "behaviour": behaviour, "corruptAt": corruptAt, "features": f}
	done := make(chan error, 1)
	go func() {
		defer func() {
			if e := recover(); e != nil {
				done <- fmt.Errorf("panic: %v", e)
			}
		}()
		done <- a.Ex.VerifProcess(offered, peerID)
	}()
	var perr error
	select {
	case perr = <-done:
	case <-time.After(60 * time.Second):
		viol("hang:sync:"+behaviour, fmt.Sprintf("process() of a block offered by a %s peer did not return within 60 s (sync never terminates)", behaviour), scenario)
		mu.Lock()
		out.Offers++
		out.Outcomes["hang"]++
		mu.Unlock()
		return
	}
	if perr != nil && strings.HasPrefix(perr.Error(), "panic:") {
		viol("panic:sync", perr.Error(), scenario)
		return
	}
	after, err := a.Observe()
	if err != nil {
		viol("observe-after-sync", err.Error(), scenario)
		return
	}
	tip := a.Tip().Header
	outcome := "partial"
	if bytes.Equal(tip.ID, offered.Header.ID) {
		outcome = "peer"
	} else if bytes.Equal(tip.ID, aTip.ID) {
		outcome = "own"
	}
	banned := len(a.Conn.BlacklistedPeers()) > 0
	if banned {
		outcome += "+ban"
	}
	same := 1
	for h := uint32(0); h <= before.Fin; h++ {
		hd, err := a.Chain.DataAccess().GetBlockHeaderByHeight(h)
		if err != nil || !bytes.Equal(hd.ID, finIDs[h]) {
			same = 0
		}
	}
	kind := "other"
	if f["child"] == 1 {
		kind = "child"
	} else if offered.Header.Height > aTip.Height+6 || aTip.Height > offered.Header.Height+6 {
		kind = "far"
	} else {
		kind = "near"
	}
	mu.Lock()
	out.Offers++
	out.Outcomes[outcome]++
	out.Paths[kind+":"+behaviour]++
	w.Emit(map[string]interface{}{"ev": "offer", "f": f, "outcome": outcome, "finBefore": before.Fin, "finAfter": after.Fin, "finalIdsSame": same,
		"scenario": scenario, "err": fmt.Sprint(perr), "temp": after.Temp})
	mu.Unlock()
	if outcome == "own" || outcome == "own+ban" {
		// the original blocks are restored and no temporary block is left behind
		if after.TipH != before.TipH {
			viol("sync:tip-height-changed-on-own-chain", "after a refused/failed sync the node is on its own tip id but reports another height", scenario)
		}
	}
}

// ---------------------------------------------------------------- two offers in a row
// A failed block sync leaves the node on a prefix of the peer's chain with its own removed blocks kept as temporary
// blocks.  A second peer then offers a near fork whose last block is corrupt: fast sync must restore the blocks it
// removed ("the original blocks are restored and the peer is banned") whatever the earlier attempt left behind.
func corruptLast(a *node.Node, blocks []*blockchain.Block, at int, nval int) []*blockchain.Block {
	res := append([]*blockchain.Block{}, blocks[:at+1]...)
	last := res[at]
	hdr := *last.Header
	sr := append([]byte{}, hdr.StateRoot...)
	sr[0] ^= 0xff
	hdr.StateRoot = sr
	gen := 0
	for id := 1; id <= nval; id++ {
		if bytes.Equal(node.Validator(id).Address, hdr.GeneratorAddress) {
			gen = id
		}
	}
	hdr.Sign(a.ChainID, node.Validator(gen).PrivKey)
	res[at] = &blockchain.Block{Header: &hdr, Transactions: last.Transactions, Assets: last.Assets}
	return res
}

func offerFrom(a *node.Node, fp *fakePeer) (error, bool) {
	addrs, err := fp.conn.MultiAddress()
	if err != nil || len(addrs) == 0 {
		return fmt.Errorf("fake peer has no address"), false
	}
	ai, _ := p2p.AddrInfoFromMultiAddr(addrs[0])
	if err := a.Conn.Connect(context.Background(), *ai); err != nil {
		return err, false
	}
	time.Sleep(50 * time.Millisecond)
	done := make(chan error, 1)
	go func() {
		defer func() {
			if e := recover(); e != nil {
				done <- fmt.Errorf("panic: %v", e)
			}
		}()
		done <- a.Ex.VerifProcess(fp.blocks[len(fp.blocks)-1], fp.conn.ID())
	}()
	select {
	case e := <-done:
		return e, true
	case <-time.After(60 * time.Second):
		return fmt.Errorf("hang"), true
	}
}

func doubleOffer(w *tj.Writer, r *rand.Rand, idx int) {
	fail := func(e error) {
		mu.Lock()
		out.Errors = append(out.Errors, fmt.Sprintf("double offer %d: %v", idx, e))
		mu.Unlock()
	}
	cfg := cfg3(true)
	ts := uint32(time.Now().Unix()) - uint32(cfg.Now)*node.BlockTime - node.BlockTime/2
	a, err := node.New(cfg, nil, ts)
	if err != nil {
		fail(err)
		return
	}
	defer a.Close()
	b, err := node.New(cfg3(false), nil, ts)
	if err != nil {
		fail(err)
		return
	}
	defer b.Close()
	P := 1 + r.Intn(4)
	fa := 1 + r.Intn(4)
	fb := 9 + fa + r.Intn(6) // far ahead: block sync
	good := 1 + r.Intn(4)    // blocks of the first peer applied before the corrupt one
	slot := 1
	for i := 0; i < P; i++ {
		if _, err := a.Extend(slot, 0); err != nil {
			fail(err)
			return
		}
		if _, err := b.Extend(slot, 0); err != nil {
			fail(err)
			return
		}
		slot++
	}
	sa, sb := slot, slot+1
	for i := 0; i < fa; i++ {
		if _, err := a.Extend(sa, 0); err != nil {
			fail(err)
			return
		}
		sa += 4
	}
	for i := 0; i < fb; i++ {
		if _, err := b.Extend(sb, 0); err != nil {
			fail(err)
			return
		}
		sb++
	}
	far := chainBlocks(b)
	fp1, err := newFakePeer(append(corruptLast(a, far, P+good+1, cfg.NVal), far[P+good+2:]...), false)
	if err != nil {
		fail(err)
		return
	}
	defer fp1.conn.Stop()
	if e, ok := offerFrom(a, fp1); !ok {
		fail(e)
		return
	}
	mid, err := a.Observe()
	if err != nil {
		fail(err)
		return
	}
	scenario := map[string]interface{}{"double": true, "behaviour": "corrupt-after-failed-sync", "P": P, "forkA": fa, "forkB": fb, "goodBlocksOfFirstPeer": good, "tempAfterFirst": mid.Temp}
	if len(a.Conn.BlacklistedPeers()) > 0 || len(mid.Temp) == 0 || mid.TipH < 2 {
		// the first attempt did not end the way this scenario needs (peer banned: the shared loopback address is closed)
		mu.Lock()
		out.Outcomes["double:not-applicable"]++
		mu.Unlock()
		return
	}
	tipBefore := a.Tip()
	finBefore := mid.Fin
	// second peer: the node's own chain up to tip-1, then a fork of two blocks, the last one corrupt
	c, err := node.New(cfg3(false), nil, ts)
	if err != nil {
		fail(err)
		return
	}
	defer c.Close()
	ab := chainBlocks(a)
	for _, blk := range ab[1 : len(ab)-1] {
		if err := c.Ex.VerifProcess(blk, "12D3KooWverifpeer"); err != nil {
			fail(err)
			return
		}
	}
	s2 := a.Slot.GetSlotNumber(tipBefore.Header.Timestamp) + 1
	for i := 0; i < 2; i++ {
		if _, err := c.Extend(s2, 0); err != nil {
			fail(err)
			return
		}
		s2++
	}
	cb := chainBlocks(c)
	fp2, err := newFakePeer(corruptLast(a, cb, len(cb)-1, cfg.NVal), false)
	if err != nil {
		fail(err)
		return
	}
	defer fp2.conn.Stop()
	offered := fp2.blocks[len(fp2.blocks)-1]
	perr, ok := offerFrom(a, fp2)
	if !ok {
		fail(perr)
		return
	}
	if perr != nil && perr.Error() == "hang" {
		viol("hang:sync:double", "process() of a block offered after an earlier failed sync did not return within 60 s", scenario)
		return
	}
	if perr != nil && strings.HasPrefix(perr.Error(), "panic:") {
		viol("panic:sync", perr.Error(), scenario)
		return
	}
	after, err := a.Observe()
	if err != nil {
		viol("observe-after-sync", err.Error(), scenario)
		return
	}
	tip := a.Tip().Header
	outcome := "partial"
	if bytes.Equal(tip.ID, offered.Header.ID) {
		outcome = "peer"
	} else if bytes.Equal(tip.ID, tipBefore.Header.ID) {
		outcome = "own"
	}
	if len(a.Conn.BlacklistedPeers()) > 0 {
		outcome += "+ban"
	}
	finHdr, _ := a.Chain.DataAccess().GetBlockHeaderByHeight(finBefore)
	f := map[string]interface{}{
		"a": map[string]uint32{"h": tipBefore.Header.Height, "mhp": tipBefore.Header.MaxHeightPrevoted}, "b": map[string]uint32{"h": offered.Header.Height, "mhp": offered.Header.MaxHeightPrevoted},
		"common": tipBefore.Header.Height - 1, "fin": finBefore, "n": 3, "genKnown": 1,
		"slotGap": a.Slot.GetSlotNumber(uint32(time.Now().Unix())) - a.Slot.GetSlotNumber(finHdr.Timestamp),
		"behaviour": "corrupt", "child": 0,
	}
	mu.Lock()
	out.Offers++
	out.Outcomes["double:"+outcome]++
	out.Paths["near:corrupt:after-failed-sync"]++
	w.Emit(map[string]interface{}{"ev": "offer", "f": f, "outcome": outcome, "finBefore": finBefore, "finAfter": after.Fin, "finalIdsSame": 1,
		"scenario": scenario, "err": fmt.Sprint(perr), "temp": after.Temp})
	mu.Unlock()
}

func main() {
	if len(os.Args) < 6 {
		fmt.Fprintln(os.Stderr, "usage: c19 peers-table.txt trace.ndjson out.json nHandlerCases nOffers")
		os.Exit(2)
	}
	seed := int64(tj.EnvInt("VERIF_SEED", 1))
	r := rand.New(rand.NewSource(seed))
	w, err := tj.NewWriter(os.Args[2])
	if err != nil {
		panic(err)
	}
	nh, _ := strconv.Atoi(os.Args[4])
	no, _ := strconv.Atoi(os.Args[5])
	peersTable(os.Args[1])
	// the serving node rate-limits every procedure (100 messages per 10 s and peer, 10 penalty points above that, ban at
	// 100 points): a fresh server and client for every 90 calls keeps the client an ordinary, well-behaved peer
	for done := 0; done < nh; done += 90 {
		k := nh - done
		if k > 90 {
			k = 90
		}
		handlers(w, r, k)
	}
	var wg sync.WaitGroup
	sem := make(chan struct{}, 6)
	for i := 0; i < no; i++ {
		i := i
		rr := rand.New(rand.NewSource(seed*7919 + int64(i)))
		wg.Add(1)
		sem <- struct{}{}
		go func() {
			defer wg.Done()
			defer func() { <-sem }()
			defer func() {
				if e := recover(); e != nil {
					mu.Lock()
					out.Errors = append(out.Errors, fmt.Sprintf("offer %d: harness panic %v", i, e))
					mu.Unlock()
				}
			}()
			offer(w, rr, i)
		}()
	}
	for i := 0; i < no/5; i++ {
		i := i
		rr := rand.New(rand.NewSource(seed*104729 + int64(i)))
		wg.Add(1)
		sem <- struct{}{}
		go func() {
			defer wg.Done()
			defer func() { <-sem }()
			defer func() {
				if e := recover(); e != nil {
					mu.Lock()
					out.Errors = append(out.Errors, fmt.Sprintf("double offer %d: harness panic %v", i, e))
					mu.Unlock()
				}
			}()
			doubleOffer(w, rr, i)
		}()
	}
	for i := 0; i < no/8; i++ {
		i := i
		rr := rand.New(rand.NewSource(seed*15485863 + int64(i)))
		wg.Add(1)
		sem <- struct{}{}
		go func() {
			defer wg.Done()
			defer func() { <-sem }()
			defer func() {
				if e := recover(); e != nil {
					mu.Lock()
					out.Errors = append(out.Errors, fmt.Sprintf("two peers %d: harness panic %v", i, e))
					mu.Unlock()
				}
			}()
			twoPeers(w, rr, i)
		}()
	}
	wg.Wait()
	w.Close()
	tj.WriteJSON(os.Args[3], out)
}

// ---------------------------------------------------------------- two honest peers
// The block that starts a block synchronisation comes from peer T; another connected honest peer B has the better chain
// (another fork of the common prefix).  The node selects B as the best peer - and has to fetch the blocks from B: it ends on
// B's chain.
func twoPeers(w *tj.Writer, r *rand.Rand, idx int) {
	fail := func(e error) {
		mu.Lock()
		out.Errors = append(out.Errors, fmt.Sprintf("two peers %d: %v", idx, e))
		mu.Unlock()
	}
	cfg := cfg3(true)
	ts := uint32(time.Now().Unix()) - uint32(cfg.Now)*node.BlockTime - node.BlockTime/2
	nodes := []*node.Node{}
	for i := 0; i < 3; i++ {
		n, err := node.New(cfg3(true), nil, ts)
		if err != nil {
			fail(err)
			return
		}
		defer n.Close()
		nodes = append(nodes, n)
	}
	a, t, b := nodes[0], nodes[1], nodes[2]
	P := 1 + r.Intn(3)
	ft := 9 + r.Intn(4)      // the triggering peer: far ahead of the node (block sync)
	fb := ft + 2 + r.Intn(4) // the best peer: longer still, on another fork
	slot := 1
	for i := 0; i < P; i++ {
		for _, n := range nodes {
			if _, err := n.Extend(slot, 0); err != nil {
				fail(err)
				return
			}
		}
		slot++
	}
	st, sb := slot, slot
	for i := 0; i < ft; i++ {
		if _, err := t.Extend(st, 0); err != nil {
			fail(err)
			return
		}
		st++
	}
	for i := 0; i < fb; i++ {
		// the first block of B's branch differs from T's (one transaction), the rest follows
		ntx := 0
		if i == 0 {
			ntx = 1
		}
		if _, err := b.Extend(sb, ntx); err != nil {
			fail(err)
			return
		}
		sb++
	}
	if bytes.Equal(t.Tip().Header.ID, b.Tip().Header.ID) || b.Tip().Header.Height <= t.Tip().Header.Height {
		fail(fmt.Errorf("the two peer chains do not differ as intended"))
		return
	}
	if err := connect(a.Conn, t); err != nil {
		fail(err)
		return
	}
	if err := connect(a.Conn, b); err != nil {
		fail(err)
		return
	}
	time.Sleep(80 * time.Millisecond)
	aTip := a.Tip().Header
	offered := t.Tip()
	scenario := map[string]interface{}{"twoPeers": true, "P": P, "forkT": ft, "forkB": fb}
	done := make(chan error, 1)
	go func() {
		defer func() {
			if e := recover(); e != nil {
				done <- fmt.Errorf("panic: %v", e)
			}
		}()
		done <- a.Ex.VerifProcess(offered, t.Conn.ID())
	}()
	var perr error
	select {
	case perr = <-done:
	case <-time.After(60 * time.Second):
		viol("hang:sync:two-peers", "process() of a block offered by one of two honest peers did not return within 60 s", scenario)
		return
	}
	if perr != nil && strings.HasPrefix(perr.Error(), "panic:") {
		viol("panic:sync", perr.Error(), scenario)
		return
	}
	tip := a.Tip().Header
	outcome := "elsewhere"
	switch {
	case bytes.Equal(tip.ID, b.Tip().Header.ID):
		outcome = "best"
	case bytes.Equal(tip.ID, t.Tip().Header.ID):
		outcome = "trigger"
	case bytes.Equal(tip.ID, aTip.ID):
		outcome = "own"
	}
	mu.Lock()
	out.Offers++
	out.Outcomes["two-peers:"+outcome]++
	w.Emit(map[string]interface{}{"ev": "offer2", "outcome": outcome, "tip": map[string]uint32{"h": tip.Height}, "best": map[string]uint32{"h": b.Tip().Header.Height},
		"trigger": map[string]uint32{"h": t.Tip().Header.Height}, "scenario": scenario, "err": fmt.Sprint(perr)})
	mu.Unlock()
}
