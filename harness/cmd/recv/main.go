// cmd/recv: replay of RecvTime.tla scripts on real nodes under a real, MOVING wall clock.
//
// Every other harness pins real time to one slot (block time 100 000 s).  Here the block time is a few seconds and all
// scripts run side by side in lock-step with the wall clock: the steps a script takes at model time `now = k` are executed
// while real time lies well inside slot Base+k.  After every step the real tip must be the block the model names
// (accepted child / replacing competitor / unchanged tip).  A step that could not be placed inside its slot (loaded
// machine) makes its script inconclusive - never a violation.
//
// Step kinds: "ok" (valid block), "bad" (signed with another validator's key), "lying" (correctly signed by a generator that
// already has a block on the chain and claims maxHeightGenerated = that height - 1: contradicts its own header, LIP-0014).
// Script position "start" / "end": the steps of a slot are executed in the first / in the last second of the slot (receive
// times are compared on whole seconds; the guard band is 300 ms on both sides of every slot boundary).
// With a priority table (TP rows printed by TLC from ForkChoice.tla) Executer.Synced is probed after every step around the
// node's own (height, prevoted height) and compared with the table row of the rank-compressed values.
//
// usage: recv scripts.jsonl out.json blocktime-seconds [tables.txt]
package main

import (
	"bufio"
	"bytes"
	"encoding/json"
	"fmt"
	"os"
	"sort"
	"strconv"
	"strings"
	"sync"
	"time"

	"verifharness/internal/node"
)

type Step struct {
	Op   string `json:"op"`
	S    int    `json:"s"`
	Ok   bool   `json:"ok"`
	Kind string `json:"kind"`
	Exp  string `json:"exp"`
	Now  int    `json:"now"`
	Late bool   `json:"late"`
	Pos  string `json:"pos"`
}

type Script struct {
	Script []Step `json:"script"`
	NVal   int    `json:"nval"`
}

type Violation struct {
	Key    string      `json:"key"`
	What   string      `json:"what"`
	Replay interface{} `json:"replay"`
}

type Out struct {
	Scripts        int            `json:"scripts"`
	Completed      int            `json:"completed"`
	Timing         int            `json:"timing_inconclusive"`
	Steps          int            `json:"steps"`
	Ops            map[string]int `json:"ops"`
	TieBreaks      int            `json:"tie_breaks_performed"`
	InTimeKept     int            `json:"competitors_refused_tip_in_time"`
	AfterReject    int            `json:"competitors_offered_after_a_rejected_child"`
	Restarts       int            `json:"restarts"`
	LyingChild     int            `json:"contradicting_children_offered"`
	LyingComp      int            `json:"contradicting_competitors_offered"`
	LyingCompTie   int            `json:"contradicting_competitors_in_tie_break_window"`
	LyingSample    string         `json:"contradicting_sample_error"`
	FirstSecond    int            `json:"blocks_offered_in_first_second_of_slot"`
	LastSecond     int            `json:"blocks_offered_in_last_second_of_slot"`
	EndScripts     int            `json:"scripts_at_slot_end"`
	EndCompleted   int            `json:"scripts_at_slot_end_completed"`
	EndTieBreaks   int            `json:"tie_breaks_in_last_second"`
	StartCompleted int            `json:"scripts_at_slot_start_completed"`
	Synced         int            `json:"synced_probes"`
	SyncedTrue     int            `json:"synced_probes_true"`
	SyncedGenesis  int            `json:"synced_probes_genesis"`
	SyncedRaised   int            `json:"synced_probes_tip_raised_prevoted"`
	MaxBatchMs     int64          `json:"max_batch_ms"`
	SetupMs        int64          `json:"setup_ms"`
	HarnessErr     []string       `json:"harness_errors"`
	Violations     []Violation    `json:"violations"`
	BlockTime      int            `json:"block_time_s"`
	WallSeconds    float64        `json:"wall_s"`
}

const base = 24 // slot of model time 0 (a multiple of every generator-round length used: 3 and 4)

type run struct {
	idx                   int
	sc                    Script
	nval                  int
	end                   bool // steps are placed in the last second of their slot
	probeDue              bool
	n                     *node.Node
	cfg                   *node.Config
	pos                   int
	dead                  bool
	timing                bool
	rejectedChildSinceTip bool
}

// prio is the TP table of ForkChoice.tla: (ver, hh, hp, h, p) -> header (ver, hh, hp) has priority over (h, p)
var prio map[[5]int]bool

func loadPrio(path string) error {
	f, err := os.Open(path)
	if err != nil {
		return err
	}
	defer f.Close()
	prio = map[[5]int]bool{}
	sc := bufio.NewScanner(f)
	sc.Buffer(make([]byte, 1<<20), 1<<24)
	for sc.Scan() {
		line := strings.TrimSpace(sc.Text())
		if !strings.HasPrefix(line, "<<\"TP\"") {
			continue
		}
		line = strings.TrimSuffix(strings.TrimPrefix(line, "<<"), ">>")
		parts := strings.Split(line, ",")
		if len(parts) < 7 {
			continue
		}
		v := make([]int, len(parts))
		for i := 1; i < len(parts); i++ {
			v[i], _ = strconv.Atoi(strings.TrimSpace(parts[i]))
		}
		// <<"TP", hh, hp, h, p, res, ver>>
		prio[[5]int{v[6], v[1], v[2], v[3], v[4]}] = v[5] == 1
	}
	if len(prio) == 0 {
		return fmt.Errorf("no TP rows in %s", path)
	}
	return nil
}

// expectedPriority looks the verdict up in the TLC table: the specification uses comparisons between the four values only,
// so the row of the rank-compressed values decides (<= 4 distinct values -> ranks 0..3)
func expectedPriority(ver int, hh, hp, h, p uint32) (bool, bool) {
	vals := []uint32{hh, hp, h, p}
	sorted := append([]uint32{}, vals...)
	sort.Slice(sorted, func(a, b int) bool { return sorted[a] < sorted[b] })
	rank := map[uint32]int{}
	for _, v := range sorted {
		if _, ok := rank[v]; !ok {
			rank[v] = len(rank)
		}
	}
	e, ok := prio[[5]int{ver, rank[hh], rank[hp], rank[h], rank[p]}]
	return e, ok
}

func main() {
	if len(os.Args) < 4 {
		fmt.Fprintln(os.Stderr, "usage: recv scripts.jsonl out.json blocktime [tables.txt]")
		os.Exit(2)
	}
	bt, _ := strconv.Atoi(os.Args[3])
	node.BlockTime = uint32(bt)
	T := time.Duration(bt) * time.Second
	out := &Out{Ops: map[string]int{}, BlockTime: bt, HarnessErr: []string{}, Violations: []Violation{}}
	var mu sync.Mutex
	viol := func(key, what string, replay interface{}) {
		mu.Lock()
		defer mu.Unlock()
		if len(out.Violations) < 30 {
			out.Violations = append(out.Violations, Violation{key, what, replay})
		}
	}
	herr := func(s string) {
		mu.Lock()
		defer mu.Unlock()
		if len(out.HarnessErr) < 10 {
			out.HarnessErr = append(out.HarnessErr, s)
		}
	}
	if len(os.Args) > 4 && os.Args[4] != "" {
		if err := loadPrio(os.Args[4]); err != nil {
			herr("priority table: " + err.Error())
		}
	}
	f, err := os.Open(os.Args[1])
	if err != nil {
		panic(err)
	}
	var runs []*run
	sc := bufio.NewScanner(f)
	sc.Buffer(make([]byte, 1<<20), 1<<24)
	for sc.Scan() {
		var s Script
		if json.Unmarshal(sc.Bytes(), &s) != nil || len(s.Script) == 0 {
			continue
		}
		r := &run{idx: len(runs), sc: s, nval: s.NVal, end: s.Script[0].Pos == "end"}
		if r.nval == 0 {
			r.nval = 4
		}
		if r.end {
			out.EndScripts++
		}
		runs = append(runs, r)
	}
	out.Scripts = len(runs)
	start := time.Now()
	mkcfg := func(nval int) *node.Config {
		w := make([]uint64, nval)
		gens := make([]int, nval)
		for i := range w {
			w[i], gens[i] = 1, i+1
		}
		thr := uint64(2*nval)/3 + 1 // 3 of 4, 3 of 3
		return &node.Config{NVal: nval, Batch: nval, Init: node.ParamSet{PcT: thr, CertT: thr, W: w, Gens: gens}, Now: base}
	}
	// how long does it take to create the nodes on this machine right now?  16 throw-away nodes, side by side
	probe := time.Now()
	{
		var wg sync.WaitGroup
		for i := 0; i < 16; i++ {
			wg.Add(1)
			go func() {
				defer wg.Done()
				if n, err := node.New(mkcfg(4), nil, uint32(time.Now().Unix())-uint32(base*bt)); err == nil {
					n.Close()
				}
			}()
		}
		wg.Wait()
	}
	est := time.Since(probe) * time.Duration(len(runs)/16+1)
	// model time 0 = slot `base`; it starts on a full second, after the nodes exist (twice the estimate + 1..2 s)
	t0 := time.Unix(time.Now().Add(2*est).Unix()+2, 0)
	genesisTS := uint32(t0.Unix()) - uint32(base*bt)
	{
		var wg sync.WaitGroup
		sem := make(chan struct{}, 16)
		for _, r := range runs {
			wg.Add(1)
			sem <- struct{}{}
			go func(r *run) {
				defer wg.Done()
				defer func() { <-sem }()
				r.cfg = mkcfg(r.nval)
				n, err := node.New(r.cfg, nil, genesisTS)
				if err != nil {
					herr("node: " + err.Error())
					r.dead = true
					return
				}
				r.n = n
				// a node that is still at its genesis block
				r.probeSynced(out, &mu, viol, herr)
			}(r)
		}
		wg.Wait()
	}
	out.SetupMs = time.Since(probe).Milliseconds()
	maxTick := 0
	for _, r := range runs {
		for _, s := range r.sc.Script {
			if s.Now > maxTick {
				maxTick = s.Now
			}
		}
	}
	slotNow := func() int { return int((time.Now().Unix() - int64(genesisTS)) / int64(bt)) }
	inSlot := func(k int) bool {
		// inside slot base+k with a margin of 300 ms on both sides
		a := t0.Add(time.Duration(k) * T).Add(300 * time.Millisecond)
		b := t0.Add(time.Duration(k+1) * T).Add(-300 * time.Millisecond)
		now := time.Now()
		return now.After(a) && now.Before(b) && slotNow() == base+k
	}
	// second of the slot in which `t` lies: 0 = first, bt-1 = last
	secondOf := func(k int, t time.Time) int { return int(t.Unix() - t0.Unix() - int64(k*bt)) }
	batch := func(k int, end bool) {
		var wg sync.WaitGroup
		sem := make(chan struct{}, 16)
		t1 := time.Now()
		for _, r := range runs {
			if r.dead || r.timing || r.end != end {
				continue
			}
			wg.Add(1)
			sem <- struct{}{}
			go func(r *run) {
				defer wg.Done()
				defer func() { <-sem }()
				defer func() {
					if e := recover(); e != nil {
						viol("recvtime:panic", fmt.Sprintf("script %d: panic in the node: %v", r.idx, e), r.sc)
						r.dead = true
					}
				}()
				if k == 0 {
					// the initial tip: generated in slot base-1, handed over now (received late)
					if !inSlot(0) {
						r.timing = true
						return
					}
					if _, err := r.n.Extend(base-1, 0); err != nil {
						herr("initial tip: " + err.Error())
						r.dead = true
						return
					}
				}
				for r.pos < len(r.sc.Script) && r.sc.Script[r.pos].Now == k {
					s := r.sc.Script[r.pos]
					if s.Op == "tick" {
						r.pos++
						break // the remaining steps belong to the next slot
					}
					if !inSlot(k) {
						r.timing = true
						return
					}
					ta := time.Now()
					ok := r.step(s, out, &mu, viol, herr)
					tb := time.Now()
					if !inSlot(k) { // the step itself crossed the guard band: its outcome is not judged
						r.timing = true
						return
					}
					if !ok {
						r.dead = true
						return
					}
					if s.Op != "restart" {
						sa, sb := secondOf(k, ta), secondOf(k, tb)
						mu.Lock()
						if sa == 0 && sb == 0 {
							out.FirstSecond++
						}
						if sa == bt-1 && sb == bt-1 {
							out.LastSecond++
							if s.Exp == "replace" {
								out.EndTieBreaks++
							}
						}
						mu.Unlock()
					}
					if end {
						r.probeDue = true // outside the narrow window at the end of the slot
					} else {
						r.probeSynced(out, &mu, viol, herr)
					}
					r.pos++
				}
			}(r)
		}
		wg.Wait()
		if d := time.Since(t1).Milliseconds(); d > out.MaxBatchMs {
			out.MaxBatchMs = d
		}
	}
	for k := 0; k <= maxTick; k++ {
		// scripts placed at the start of their slots: from 350 ms after the slot boundary
		time.Sleep(time.Until(t0.Add(time.Duration(k) * T).Add(350 * time.Millisecond)))
		batch(k, false)
		// scripts placed at the end: the last second of the slot, up to the guard band
		time.Sleep(time.Until(t0.Add(time.Duration(k+1) * T).Add(-980 * time.Millisecond)))
		batch(k, true)
		// the Synced probes of the scripts at the slot end do not depend on the clock: after the batch
		for _, r := range runs {
			if r.probeDue && !r.dead && !r.timing {
				r.probeSynced(out, &mu, viol, herr)
			}
			r.probeDue = false
		}
	}
	for _, r := range runs {
		if r.timing {
			out.Timing++
		} else if !r.dead && r.pos == len(r.sc.Script) {
			out.Completed++
			if r.end {
				out.EndCompleted++
			} else {
				out.StartCompleted++
			}
		}
		if r.n != nil {
			r.n.Close()
		}
	}
	out.WallSeconds = time.Since(start).Seconds()
	b, _ := json.MarshalIndent(out, "", " ")
	if err := os.WriteFile(os.Args[2], b, 0o644); err != nil {
		panic(err)
	}
}

// probeSynced asks the real Executer whether its chain is ahead of a peer reporting (h, p), for all (h, p) around its own
// (height, prevoted height), and compares with the priority table of ForkChoice.tla (no table: no probes)
func (r *run) probeSynced(out *Out, mu *sync.Mutex, viol func(string, string, interface{}), herr func(string)) {
	if prio == nil || r.n == nil {
		return
	}
	n := r.n
	tip := n.Tip().Header
	mhpv, _, _, err := n.Ex.GetBFTHeights(n.Ex.VerifConsensusStore())
	if err != nil {
		herr("GetBFTHeights: " + err.Error())
		return
	}
	ver := 2
	if tip.Version == 0 {
		ver = 0
	}
	for dh := -1; dh <= 1; dh++ {
		for dp := -1; dp <= 1; dp++ {
			h, p := int64(tip.Height)+int64(dh), int64(mhpv)+int64(dp)
			if h < 0 || p < 0 {
				continue
			}
			exp, ok := expectedPriority(ver, tip.Height, mhpv, uint32(h), uint32(p))
			if !ok {
				herr(fmt.Sprintf("priority table has no row for ranks of (%d,%d,%d,%d)", tip.Height, mhpv, h, p))
				return
			}
			got, err := n.Ex.Synced(uint32(h), uint32(p), 0)
			mu.Lock()
			out.Synced++
			if exp {
				out.SyncedTrue++
			}
			if ver == 0 {
				out.SyncedGenesis++
			} else if mhpv != tip.MaxHeightPrevoted {
				out.SyncedRaised++
			}
			mu.Unlock()
			if err != nil || got != exp {
				key := "recvtime:synced-mismatch"
				if ver == 0 {
					key = "recvtime:synced-mismatch:genesis"
				}
				viol(key, fmt.Sprintf("script %d after step %d: node at height %d (block version %d) with prevoted height %d (its tip's header says %d): Synced(height %d, maxHeightPrevoted %d) = %v (err %v), ForkChoice.tla HasPriority says %v",
					r.idx, r.pos, tip.Height, tip.Version, mhpv, tip.MaxHeightPrevoted, h, p, got, err, exp),
					map[string]interface{}{"script": r.sc.Script, "nval": r.nval, "failed_step": r.pos, "synced": []int64{h, p}})
				return
			}
		}
	}
}

// step executes one offered block / restart and compares the real tip with the model's expectation
func (r *run) step(s Step, out *Out, mu *sync.Mutex, viol func(string, string, interface{}), herr func(string)) bool {
	n := r.n
	count := func(f func()) { mu.Lock(); f(); mu.Unlock() }
	count(func() { out.Steps++; out.Ops[s.Op]++ })
	rep := map[string]interface{}{"script": r.sc.Script, "nval": r.nval, "failed_step": r.pos}
	kind := s.Kind
	if kind == "" {
		kind = map[bool]string{true: "ok", false: "bad"}[s.Ok]
	}
	switch s.Op {
	case "restart":
		n.StopExecuter()
		n2, err := node.New(r.cfg, n.DB, n.GenesisTS)
		if err != nil {
			viol("recvtime:restart-fails", "node does not restart on its own database: "+err.Error(), rep)
			return false
		}
		r.n = n2
		count(func() { out.Restarts++ })
		return true
	case "child", "comp":
	default:
		herr("unknown op " + s.Op)
		return false
	}
	before := n.Tip()
	var c *node.Cand
	var err error
	if s.Op == "child" {
		c, err = n.AutoCand(base+s.S, 0)
		if err != nil {
			herr("child candidate: " + err.Error())
			return false
		}
	} else {
		c, err = n.CompetitorCand(base + s.S)
		if err != nil {
			herr("competitor candidate: " + err.Error())
			return false
		}
		if r.rejectedChildSinceTip {
			count(func() { out.AfterReject++ })
		}
	}
	label := s.Op
	switch kind {
	case "bad":
		c.Signer = c.Gen%r.nval + 1 // signed with another validator's key
	case "lying":
		// c.Mhg is the height of the generator's newest block on the chain (below the tip for a competitor)
		if c.Mhg == 0 {
			herr(fmt.Sprintf("script %d step %d: the model says the generator of slot +%d has a block on the chain, the node has none", r.idx, r.pos, s.S))
			return false
		}
		c.Mhg--
		label = "contradicting-" + s.Op
		count(func() {
			if s.Op == "child" {
				out.LyingChild++
			} else {
				out.LyingComp++
				if s.Late && s.S == s.Now {
					out.LyingCompTie++
				}
			}
		})
	}
	b := n.Build(c)
	perr := n.Ex.VerifProcess(b, "12D3KooWverifpeer")
	after := n.Tip()
	obs := "other"
	switch {
	case bytes.Equal(after.Header.ID, b.Header.ID) && s.Op == "child":
		obs = "accept"
	case bytes.Equal(after.Header.ID, b.Header.ID):
		obs = "replace"
	case bytes.Equal(after.Header.ID, before.Header.ID):
		obs = "none"
	}
	if kind == "lying" && perr != nil {
		count(func() {
			if out.LyingSample == "" {
				out.LyingSample = perr.Error()
			}
		})
	}
	if s.Op == "child" {
		if obs == "accept" {
			r.rejectedChildSinceTip = false
		} else {
			r.rejectedChildSinceTip = true
		}
	}
	if obs == "replace" {
		r.rejectedChildSinceTip = false
		count(func() { out.TieBreaks++ })
	}
	if s.Op == "comp" && s.Exp == "none" && !s.Late && obs == "none" {
		count(func() { out.InTimeKept++ })
	}
	if obs == s.Exp {
		return true
	}
	key := fmt.Sprintf("recvtime:%s:%s-instead-of-%s", label, obs, s.Exp)
	if s.Op == "comp" && obs == "replace" && !s.Late && kind != "lying" {
		key = "recvtime:tip-received-in-time-replaced"
	}
	viol(key, fmt.Sprintf("script %d step %d: %s(slot +%d, %s) at wall slot +%d (%s of the slot), tip received %s: the model expects '%s', the node did '%s' (process error: %v)",
		r.idx, r.pos, s.Op, s.S, map[string]string{"ok": "valid", "bad": "wrong signer", "lying": "contradicts its generator's earlier header on this chain"}[kind], s.Now,
		map[bool]string{true: "last second", false: "first second"}[r.end],
		map[bool]string{true: "outside its slot", false: "within its slot (or restored from disk)"}[s.Late], s.Exp, obs, perr), rep)
	return false
}
