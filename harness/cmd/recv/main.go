// cmd/recv: replay of RecvTime.tla scripts on real nodes under a real, MOVING wall clock.
//
// Every other harness pins real time to one slot (block time 100 000 s).  Here the block time is a few seconds and all
// scripts run side by side in lock-step with the wall clock: the steps a script takes at model time `now = k` are executed
// while real time lies well inside slot Base+k.  After every step the real tip must be the block the model names
// (accepted child / replacing competitor / unchanged tip).  A step that could not be placed inside its slot (loaded
// machine) makes its script inconclusive - never a violation.
//
// usage: recv scripts.jsonl out.json blocktime-seconds
package main

import (
	"bufio"
	"bytes"
	"encoding/json"
	"fmt"
	"os"
	"strconv"
	"sync"
	"time"

	"verifharness/internal/node"
)

type Step struct {
	Op   string `json:"op"`
	S    int    `json:"s"`
	Ok   bool   `json:"ok"`
	Exp  string `json:"exp"`
	Now  int    `json:"now"`
	Late bool   `json:"late"`
}

type Script struct {
	Script []Step `json:"script"`
}

type Violation struct {
	Key    string      `json:"key"`
	What   string      `json:"what"`
	Replay interface{} `json:"replay"`
}

type Out struct {
	Scripts      int            `json:"scripts"`
	Completed    int            `json:"completed"`
	Timing       int            `json:"timing_inconclusive"`
	Steps        int            `json:"steps"`
	Ops          map[string]int `json:"ops"`
	TieBreaks    int            `json:"tie_breaks_performed"`
	InTimeKept   int            `json:"competitors_refused_tip_in_time"`
	AfterReject  int            `json:"competitors_offered_after_a_rejected_child"`
	Restarts     int            `json:"restarts"`
	HarnessErr   []string       `json:"harness_errors"`
	Violations   []Violation    `json:"violations"`
	BlockTime    int            `json:"block_time_s"`
	WallSeconds  float64        `json:"wall_s"`
}

const nVal = 4
const base = 8 // slot of model time 0

type run struct {
	idx     int
	sc      Script
	n       *node.Node
	cfg     *node.Config
	pos     int
	dead    bool
	timing  bool
	rejectedChildSinceTip bool
}

func main() {
	if len(os.Args) < 4 {
		fmt.Fprintln(os.Stderr, "usage: recv scripts.jsonl out.json blocktime")
		os.Exit(2)
	}
	bt, _ := strconv.Atoi(os.Args[3])
	node.BlockTime = uint32(bt)
	T := time.Duration(bt) * time.Second
	out := &Out{Ops: map[string]int{}, BlockTime: bt}
	var mu sync.Mutex
	viol := func(key, what string, replay interface{}) {
		mu.Lock()
		defer mu.Unlock()
		if len(out.Violations) < 30 {
			out.Violations = append(out.Violations, Violation{key, what, replay})
		}
	}
	herr := func(s string) {
		mu.Lock()
		defer mu.Unlock()
		if len(out.HarnessErr) < 10 {
			out.HarnessErr = append(out.HarnessErr, s)
		}
	}
	f, err := os.Open(os.Args[1])
	if err != nil {
		panic(err)
	}
	var runs []*run
	sc := bufio.NewScanner(f)
	sc.Buffer(make([]byte, 1<<20), 1<<24)
	for sc.Scan() {
		var s Script
		if json.Unmarshal(sc.Bytes(), &s) != nil || len(s.Script) == 0 {
			continue
		}
		runs = append(runs, &run{idx: len(runs), sc: s})
	}
	out.Scripts = len(runs)
	start := time.Now()
	// model time 0 = slot `base`, which starts at the next full second + 1
	t0 := time.Unix(time.Now().Unix()+2, 0)
	genesisTS := uint32(t0.Unix()) - uint32(base*bt)
	w := []uint64{1, 1, 1, 1}
	gens := []int{1, 2, 3, 4}
	for _, r := range runs {
		r.cfg = &node.Config{NVal: nVal, Batch: nVal, Init: node.ParamSet{PcT: 3, CertT: 3, W: w, Gens: gens}, Now: base}
		n, err := node.New(r.cfg, nil, genesisTS)
		if err != nil {
			herr("node: " + err.Error())
			r.dead = true
			continue
		}
		r.n = n
	}
	maxTick := 0
	for _, r := range runs {
		for _, s := range r.sc.Script {
			if s.Now > maxTick {
				maxTick = s.Now
			}
		}
	}
	slotNow := func() int { return int((time.Now().Unix() - int64(genesisTS)) / int64(bt)) }
	inSlot := func(k int) bool {
		// inside slot base+k with a margin of 300 ms on both sides
		a := t0.Add(time.Duration(k) * T).Add(300 * time.Millisecond)
		b := t0.Add(time.Duration(k+1) * T).Add(-300 * time.Millisecond)
		now := time.Now()
		return now.After(a) && now.Before(b) && slotNow() == base+k
	}
	for k := 0; k <= maxTick; k++ {
		time.Sleep(time.Until(t0.Add(time.Duration(k) * T).Add(500 * time.Millisecond)))
		var wg sync.WaitGroup
		sem := make(chan struct{}, 16)
		for _, r := range runs {
			if r.dead || r.timing {
				continue
			}
			wg.Add(1)
			sem <- struct{}{}
			go func(r *run) {
				defer wg.Done()
				defer func() { <-sem }()
				defer func() {
					if e := recover(); e != nil {
						viol("recvtime:panic", fmt.Sprintf("script %d: panic in the node: %v", r.idx, e), r.sc)
						r.dead = true
					}
				}()
				if k == 0 {
					// the initial tip: generated in slot base-1, handed over now (received late)
					if !inSlot(0) {
						r.timing = true
						return
					}
					if _, err := r.n.Extend(base-1, 0); err != nil {
						herr("initial tip: " + err.Error())
						r.dead = true
						return
					}
				}
				for r.pos < len(r.sc.Script) && r.sc.Script[r.pos].Now == k {
					s := r.sc.Script[r.pos]
					if s.Op == "tick" {
						r.pos++
						break // the remaining steps belong to the next slot
					}
					if !inSlot(k) {
						r.timing = true
						return
					}
					ok := r.step(s, out, &mu, viol, herr)
					if !inSlot(k) { // the step itself crossed the guard band: its outcome is not judged
						r.timing = true
						return
					}
					if !ok {
						r.dead = true
						return
					}
					r.pos++
				}
			}(r)
		}
		wg.Wait()
	}
	for _, r := range runs {
		if r.timing {
			out.Timing++
		} else if !r.dead && r.pos == len(r.sc.Script) {
			out.Completed++
		}
		if r.n != nil {
			r.n.Close()
		}
	}
	out.WallSeconds = time.Since(start).Seconds()
	b, _ := json.MarshalIndent(out, "", " ")
	if err := os.WriteFile(os.Args[2], b, 0o644); err != nil {
		panic(err)
	}
}

// step executes one offered block / restart and compares the real tip with the model's expectation
func (r *run) step(s Step, out *Out, mu *sync.Mutex, viol func(string, string, interface{}), herr func(string)) bool {
	n := r.n
	count := func(f func()) { mu.Lock(); f(); mu.Unlock() }
	count(func() { out.Steps++; out.Ops[s.Op]++ })
	rep := map[string]interface{}{"script": r.sc.Script, "failed_step": r.pos}
	switch s.Op {
	case "restart":
		n.StopExecuter()
		n2, err := node.New(r.cfg, n.DB, n.GenesisTS)
		if err != nil {
			viol("recvtime:restart-fails", "node does not restart on its own database: "+err.Error(), rep)
			return false
		}
		r.n = n2
		count(func() { out.Restarts++ })
		return true
	case "child", "comp":
	default:
		herr("unknown op " + s.Op)
		return false
	}
	before := n.Tip()
	var c *node.Cand
	var err error
	if s.Op == "child" {
		c, err = n.AutoCand(base+s.S, 0)
		if err != nil {
			herr("child candidate: " + err.Error())
			return false
		}
	} else {
		c, err = n.CompetitorCand(base + s.S)
		if err != nil {
			herr("competitor candidate: " + err.Error())
			return false
		}
		if r.rejectedChildSinceTip {
			count(func() { out.AfterReject++ })
		}
	}
	if !s.Ok {
		c.Signer = c.Gen%nVal + 1 // signed with another validator's key
	}
	b := n.Build(c)
	perr := n.Ex.VerifProcess(b, "12D3KooWverifpeer")
	after := n.Tip()
	obs := "other"
	switch {
	case bytes.Equal(after.Header.ID, b.Header.ID) && s.Op == "child":
		obs = "accept"
	case bytes.Equal(after.Header.ID, b.Header.ID):
		obs = "replace"
	case bytes.Equal(after.Header.ID, before.Header.ID):
		obs = "none"
	}
	if s.Op == "child" {
		if obs == "accept" {
			r.rejectedChildSinceTip = false
		} else {
			r.rejectedChildSinceTip = true
		}
	}
	if obs == "replace" {
		r.rejectedChildSinceTip = false
		count(func() { out.TieBreaks++ })
	}
	if s.Op == "comp" && s.Exp == "none" && !s.Late && obs == "none" {
		count(func() { out.InTimeKept++ })
	}
	if obs == s.Exp {
		return true
	}
	key := fmt.Sprintf("recvtime:%s:%s-instead-of-%s", s.Op, obs, s.Exp)
	if s.Op == "comp" && obs == "replace" && !s.Late {
		key = "recvtime:tip-received-in-time-replaced"
	}
	viol(key, fmt.Sprintf("script %d step %d: %s(slot +%d, %s) at wall slot +%d, tip received %s: the model expects '%s', the node did '%s' (process error: %v)",
		r.idx, r.pos, s.Op, s.S, map[bool]string{true: "valid", false: "wrong signer"}[s.Ok], s.Now,
		map[bool]string{true: "outside its slot", false: "within its slot (or restored from disk)"}[s.Late], s.Exp, obs, perr), rep)
	return false
}
