package main

import (
	"bytes"
	"crypto/sha256"
	"encoding/hex"
	"errors"
	"fmt"

	"github.com/LiskHQ/lisk-engine/pkg/framework"
)

// ---------------------------------------------------------------- concrete universe
//
// The spec's cells are abstract: cell c = (store, key).  A history is replayed with ONE concrete embedding of the three
// abstract keys and of the values: the byte length of every key is drawn from keyProfiles, the length of the values,
// event data and topics from valLens.  All concrete keys of one abstract key have the same 16 leading bits of SHA-256,
// so that the leading 64 bits of the tree keys - the KeyBits constant of MCStateMachine.tla - are the same for every
// embedding and the spec's root TERM folds to the right root whatever the lengths (checkMeta verifies it).
// Lengths sit on both sides of Go's small allocation size classes (8, 16, 24, 32, 48, 64): a key buffer whose capacity
// exceeds its length is what an aliasing `append` needs to corrupt its caller's key.

var keyTable = map[int][]string{
	2:  {"6b13", "6b6e", "6b05"},
	8:  {"6b535e6900023284", "6b58636e00001b85", "6b5d68730000b126"},
	16: {"6b5b66717c48535e6974404b00025429", "6b606b76424d58636e7945500001e94c", "6b65707b47525d68737e4a5500002ec7"},
	24: {"6b636e7945505b66717c48535e6974404b56616c00001f95", "6b68737e4a55606b76424d58636e7945505b6671000010b3", "6b6d78444f5a65707b47525d68737e4a55606b7600013e6e"},
	26: {"6b65707b47525d68737e4a55606b76424d58636e7945000022de", "6b6a75414c57626d78444f5a65707b47525d68737e4a0004a42c", "6b6f7a46515c67727d49545f6a75414c57626d78444f0000b1c7"},
	28: {"6b67727d49545f6a75414c57626d78444f5a65707b47525d0000deb0", "6b6c77434e59646f7a46515c67727d49545f6a75414c576200035195", "6b717c48535e6974404b56616c77434e59646f7a46515c6700021e4f"},
	32: {"6b6b76424d58636e7945505b66717c48535e6974404b56616c77434e0001097b", "6b707b47525d68737e4a55606b76424d58636e7945505b66717c485300001ef0", "6b75414c57626d78444f5a65707b47525d68737e4a55606b76424d58000037b7"},
	40: {"6b737e4a55606b76424d58636e7945505b66717c48535e6974404b56616c77434e59646f00006d13", "6b78444f5a65707b47525d68737e4a55606b76424d58636e7945505b66717c48535e6974000009a5", "6b7d49545f6a75414c57626d78444f5a65707b47525d68737e4a55606b76424d58636e790001e382"},
	48: {"6b7b47525d68737e4a55606b76424d58636e7945505b66717c48535e6974404b56616c77434e59646f7a46510000c337", "6b414c57626d78444f5a65707b47525d68737e4a55606b76424d58636e7945505b66717c48535e6974404b560002ccd9", "6b46515c67727d49545f6a75414c57626d78444f5a65707b47525d68737e4a55606b76424d58636e7945505b00005106"},
	64: {"6b4c57626d78444f5a65707b47525d68737e4a55606b76424d58636e7945505b66717c48535e6974404b56616c77434e59646f7a46515c67727d49540000eab6", "6b515c67727d49545f6a75414c57626d78444f5a65707b47525d68737e4a55606b76424d58636e7945505b66717c48535e6974404b56616c77434e5900000970", "6b56616c77434e59646f7a46515c67727d49545f6a75414c57626d78444f5a65707b47525d68737e4a55606b76424d58636e7945505b66717c48535e00000f62"},
}

// byte length of the three abstract keys
var keyProfiles = [][]int{
	{2, 2, 2}, {26, 28, 32}, {40, 64, 26}, {8, 16, 24}, {32, 48, 64}, {28, 2, 40}, {64, 26, 8}, {24, 32, 26}, {48, 40, 28}, {16, 64, 32},
}

// byte length of the values (and, capped, of event data and of the modules' own event topics)
var valLens = []int{3, 8, 16, 24, 32, 33, 48, 64, 100}

var (
	meta        Meta
	shape       = map[string]bool{}
	storePrefix = [][2][]byte{{{0, 0, 0, 3}, {0, 0}}, {{0, 0, 0, 4}, {0x80, 0}}}
	emptyHash   = hash()
	chainID     = []byte{4, 0, 0, 0}
	moduleNames = []string{"scripted", "second"} // module i owns store i; the command belongs to module 0
	commandName = "run"
)

func hash(parts ...[]byte) []byte {
	s := sha256.New()
	for _, p := range parts {
		s.Write(p)
	}
	return s.Sum(nil)
}

func cellStore(c int) int { return (c - 1) / meta.NK }
func cellKey(c int) int   { return (c - 1) % meta.NK }
func ncells() int         { return meta.NS * meta.NK }

// uni is the embedding of one history
type uni struct {
	keyLens []int
	valLen  int
	keys    [][]byte
}

func newUni(keyLens []int, valLen int) (*uni, error) {
	u := &uni{keyLens: keyLens, valLen: valLen}
	if len(keyLens) != meta.NK {
		return nil, fmt.Errorf("key profile %v does not fit %d keys per store", keyLens, meta.NK)
	}
	for k, l := range keyLens {
		row, ok := keyTable[l]
		if !ok || k >= len(row) {
			return nil, fmt.Errorf("no concrete key of %d bytes for abstract key %d", l, k)
		}
		b, err := hex.DecodeString(row[k])
		if err != nil || len(b) != l {
			return nil, fmt.Errorf("bad key table entry %d/%d", l, k)
		}
		u.keys = append(u.keys, b)
	}
	if valLen < 3 {
		return nil, errors.New("values need three bytes")
	}
	return u, u.checkMeta()
}

// a fresh copy of the store key of cell c (callers hand their own buffer to the store API)
func (u *uni) key(c int) []byte { return append([]byte{}, u.keys[cellKey(c)]...) }

func (u *uni) longKeys() bool {
	for _, l := range u.keyLens {
		if l >= 26 {
			return true
		}
	}
	return false
}

func pad(head []byte, n int, salt byte) []byte {
	b := make([]byte, n)
	for i := range b {
		b[i] = byte(i)*7 + salt
	}
	copy(b, head)
	return b
}

// value of cell c: the largest value of the last key of every store is the EMPTY byte string (a present entry with an empty
// value: a marker / flag record - it is in the state DB and, as hash(""), in the tree)
func (u *uni) value(c, v int) []byte {
	if v == meta.NV && cellKey(c) == meta.NK-1 {
		return []byte{}
	}
	return pad([]byte{0xA0 + byte(v), byte(v), byte(v)}, u.valLen, byte(v))
}

func (u *uni) valueIndex(c int, b []byte) int {
	for v := 1; v <= meta.NV; v++ {
		if bytes.Equal(b, u.value(c, v)) {
			return v
		}
	}
	return -2
}

func (u *uni) dataLen() int  { return 1 + (u.valLen-1)%64 }
func (u *uni) topicLen() int { return 2 + u.valLen%31 }

// data and the module's own topic of the event with the given tag
func (u *uni) evData(tag byte) []byte  { return pad([]byte{tag}, u.dataLen(), tag) }
func (u *uni) evTopic(tag byte) []byte { return pad([]byte{0xE0, tag}, u.topicLen(), tag) }

func prefix6(s int) []byte { return append(append([]byte{}, storePrefix[s][0]...), storePrefix[s][1]...) }

// key of a cell in the state tree: module store prefix (6 bytes) ++ SHA-256(key)
func (u *uni) treeKey(c int) []byte { return append(prefix6(cellStore(c)), hash(u.keys[cellKey(c)])...) }

// key of a cell in the state DB: state prefix ++ module store prefix ++ key
func (u *uni) dbKey(c int) []byte {
	return append(append(append([]byte{}, framework.StateDBPrefixState...), prefix6(cellStore(c))...), u.keys[cellKey(c)]...)
}

func leafHash(key, valueHash []byte) []byte { return hash([]byte{0}, key, valueHash) }
func branchHash(l, r []byte) []byte        { return hash([]byte{1}, l, r) }

// SHA-256 fold of the spec's term
func (u *uni) fold(t *Term) []byte {
	switch t.T {
	case "E":
		return emptyHash
	case "L":
		return leafHash(u.treeKey(t.C), hash(u.value(t.C, t.V)))
	case "B":
		x := branchHash(u.fold(t.L), u.fold(t.R))
		for i := len(t.P) - 1; i >= 0; i-- {
			if t.P[i] == 0 {
				x = branchHash(x, emptyHash)
			} else {
				x = branchHash(emptyHash, x)
			}
		}
		return x
	}
	panic("harness: bad term " + t.T)
}

type leaf struct{ key, val []byte }

func bit(k []byte, d int) int { return int(k[d/8]>>(7-uint(d%8))) & 1 }

// canonical LIP-0039 root of a set of leaves, computed independently of the term and of pkg/trie/smt
func canon(ls []leaf, d int) []byte {
	if len(ls) == 0 {
		return emptyHash
	}
	if len(ls) == 1 {
		return leafHash(ls[0].key, ls[0].val)
	}
	var l, r []leaf
	for _, x := range ls {
		if bit(x.key, d) == 0 {
			l = append(l, x)
		} else {
			r = append(r, x)
		}
	}
	return branchHash(canon(l, d+1), canon(r, d+1))
}

// root of state st; cells in ghosts (absent in st) are kept as leaves whose value is hash("")
func (u *uni) canonRoot(st []int, ghosts map[int]bool) []byte {
	ls := []leaf{}
	for c := 1; c <= ncells(); c++ {
		if st[c-1] != 0 {
			ls = append(ls, leaf{u.treeKey(c), hash(u.value(c, st[c-1]))})
		} else if ghosts[c] {
			ls = append(ls, leaf{u.treeKey(c), emptyHash})
		}
	}
	return canon(ls, 0)
}

func (u *uni) checkMeta() error {
	if meta.NS != len(storePrefix) || meta.NK != len(u.keys) {
		return fmt.Errorf("spec universe %dx%d does not match the harness tables", meta.NS, meta.NK)
	}
	if len(meta.KeyBits) != ncells() {
		return errors.New("keybits table has the wrong size")
	}
	for c := 1; c <= ncells(); c++ {
		k := u.treeKey(c)
		for d, b := range meta.KeyBits[c-1] {
			if bit(k, d) != b {
				return fmt.Errorf("KeyBits of cell %d differ from the real tree key %x at bit %d (key profile %v)", c, k, d, u.keyLens)
			}
		}
	}
	return nil
}

func (u *uni) expectedRoot(s *Step) []byte {
	a, b := u.fold(s.Root), u.canonRoot(s.St, nil)
	if !bytes.Equal(a, b) {
		panic(fmt.Sprintf("harness: fold of the spec term %x differs from the canonical root %x of state %v", a, b, s.St))
	}
	return a
}

// deterministic mixing of a history number (embedding and mode of a history are functions of its position and the seed)
func mix(x uint64) uint64 {
	x += 0x9e3779b97f4a7c15
	x = (x ^ (x >> 30)) * 0xbf58476d1ce4e5b9
	x = (x ^ (x >> 27)) * 0x94d049bb133111eb
	return x ^ (x >> 31)
}
