package main

// Crash points inside the application's Commit / Revert / Init (quantifier "crash_points" of C16).
//
// The state DB is a pebble database on a strict in-memory file system (db.NewDBWithFS + vfs.NewStrictMem, the way
// cmd/c13 does it): what has not been synced when the process dies is lost.  For a history and a target step (the real
// Commit of a block, the Revert of the tip, the Init of a restart with the application ahead) the prefix is replayed,
// the file-system operations of the target CALL are counted, and for every k the history is replayed again with the
// crash at operation k of the call: from then on nothing reaches the disk, the call runs to its end, the database is
// closed, the file system reset to its synced state and reopened.  Then
//   - the state DB must hold exactly the state before or after the call (for a recovery over several blocks: one of
//     the committed states in between) - never a mixture,
//   - an application started against the engine's tip at that moment (the engine commits after the application and
//     removes its block after the application's Revert) must come up, with exactly the state of that tip, and start
//     a second time.

import (
	"fmt"
	"sync/atomic"

	"github.com/cockroachdb/pebble/vfs"

	"github.com/LiskHQ/lisk-engine/pkg/db"
	"github.com/LiskHQ/lisk-engine/pkg/labi"
)

// Crash names the crash point of a crash-point replay: file-system operation K (1-based) of the target call of step Step.
type Crash struct {
	Step int `json:"step"`
	K    int `json:"k"`
}

// ---- counting file system over StrictMem (as cmd/c13)
type cfs struct {
	vfs.FS
	mem     *vfs.MemFS
	count   int64
	crashAt int64
}

func (c *cfs) op() {
	n := atomic.AddInt64(&c.count, 1)
	if at := atomic.LoadInt64(&c.crashAt); at > 0 && n == at {
		c.mem.SetIgnoreSyncs(true)
	}
}

type cfile struct {
	vfs.File
	fs *cfs
}

func (f *cfile) Write(p []byte) (int, error) { f.fs.op(); return f.File.Write(p) }
func (f *cfile) Sync() error                 { f.fs.op(); return f.File.Sync() }

func (c *cfs) wrap(f vfs.File, err error) (vfs.File, error) {
	if err != nil {
		return f, err
	}
	return &cfile{File: f, fs: c}, nil
}
func (c *cfs) Create(name string) (vfs.File, error) { c.op(); return c.wrap(c.FS.Create(name)) }
func (c *cfs) Open(name string, opts ...vfs.OpenOption) (vfs.File, error) {
	return c.wrap(c.FS.Open(name, opts...))
}
func (c *cfs) OpenDir(name string) (vfs.File, error) { return c.wrap(c.FS.OpenDir(name)) }
func (c *cfs) ReuseForWrite(o, n string) (vfs.File, error) {
	c.op()
	return c.wrap(c.FS.ReuseForWrite(o, n))
}
func (c *cfs) Rename(o, n string) error { c.op(); return c.FS.Rename(o, n) }
func (c *cfs) Remove(n string) error    { c.op(); return c.FS.Remove(n) }

func newFS() *cfs {
	mem := vfs.NewStrictMem()
	c := &cfs{FS: mem, mem: mem}
	// the database directory must exist durably before the database is created in it
	if err := mem.MkdirAll("data", 0o755); err != nil {
		panic("harness: " + err.Error())
	}
	if d, err := mem.OpenDir(""); err == nil {
		d.Sync()
		d.Close()
	}
	if d, err := mem.OpenDir("data"); err == nil {
		d.Sync()
		d.Close()
	}
	return c
}

// ---- the crash point inside a replay

type crashNow struct{ call string }
type measured struct{}

type crashState struct {
	fs     *cfs
	target int   // index of the step whose call is the target
	k      int64 // 0: measure only
	done   bool
	ops    int64
	call   string
}

// around wraps the target call of a step (no-op outside crash mode and outside the target step)
func (e *env) around(call string, f func() error) error {
	c := e.cs
	if c == nil || c.done || e.cur != c.target {
		return f()
	}
	c0 := atomic.LoadInt64(&c.fs.count)
	if c.k > 0 {
		atomic.StoreInt64(&c.fs.crashAt, c0+c.k)
	}
	f() //nolint:errcheck // the process dies (or the measurement ends) whatever the call returns
	c.ops = atomic.LoadInt64(&c.fs.count) - c0
	c.done, c.call = true, call
	if c.k > 0 {
		panic(crashNow{call})
	}
	panic(measured{})
}

func (e *env) stateVector() ([]int, []string) {
	seen := make([]int, ncells())
	extra := []string{}
	for k, v := range e.dumpState() {
		found := false
		for c := 1; c <= ncells(); c++ {
			if k == string(e.u.dbKey(c)) {
				seen[c-1] = e.u.valueIndex(c, v)
				found = true
			}
		}
		if !found {
			extra = append(extra, fmt.Sprintf("%x", k))
		}
	}
	return seen, extra
}

// replays the history up to the target call; k = 0 measures the call, k > 0 crashes at its operation k and checks the
// restart.  Returns the number of file-system operations of the call.
func (e *env) crashRun(target int, k int64) int64 {
	fs := newFS()
	var err error
	if e.stateDB, err = db.NewDBWithFS("data", fs); err != nil {
		panic("harness: " + err.Error())
	}
	if e.moduleDB, err = db.NewInMemoryDB(); err != nil {
		panic("harness: " + err.Error())
	}
	defer func() {
		if e.stateDB != nil {
			e.stateDB.Close()
		}
		e.moduleDB.Close()
	}()
	e.reset()
	e.cs = &crashState{fs: fs, target: target, k: k}
	e.crash = &Crash{Step: target, K: int(k)}
	crashed := false
	func() {
		defer func() {
			if x := recover(); x != nil {
				switch x.(type) {
				case crashNow:
					crashed = true
				case measured:
				default:
					panic(x)
				}
			}
		}()
		for i := e.startUp(); i <= target && i < len(e.steps); {
			i = e.doStep(i)
		}
	}()
	cs := e.cs
	e.cs = nil
	if !cs.done {
		panic(fmt.Sprintf("harness: the target call of step %d was never reached", target))
	}
	if !crashed {
		return cs.ops
	}
	// the process dies: what was not synced before operation k is lost
	fs.mem.SetIgnoreSyncs(true)
	e.stateDB.Close()
	e.stateDB = nil
	fs.mem.ResetToSyncedState()
	fs.mem.SetIgnoreSyncs(false)
	atomic.StoreInt64(&fs.crashAt, 0)
	if e.stateDB, err = db.NewDBWithFS("data", fs); err != nil {
		panic("harness: the state database does not reopen after the crash: " + err.Error())
	}
	e.afterCrash(cs.call, &e.steps[target], int(k))
	return cs.ops
}

func same(a, b []int) bool { return fmt.Sprint(a) == fmt.Sprint(b) }

func (e *env) afterCrash(call string, s *Step, k int) {
	e.cur = e.crash.Step
	// heights and states around the call; e.engH / e.roots / e.appStates are those before the call
	var tipH int     // the engine's tip when the process died
	var allowed [][]int // states the state DB may hold
	switch call {
	case "commit":
		tipH = e.engH
		allowed = [][]int{s.Pre, s.St}
	case "revert":
		tipH = e.engH - 1 // the engine removes its block after the application; a start against the lower tip must always work
		allowed = [][]int{s.Pre, s.St}
	default: // init: recovery from engH + ahead down to engH
		tipH = e.engH
		for h := e.engH; h < len(e.appStates); h++ {
			allowed = append(allowed, e.appStates[h])
		}
	}
	got, extra := e.stateVector()
	which := -1
	for i, a := range allowed {
		if same(got, a) && len(extra) == 0 {
			which = i
		}
	}
	e.r.count(func(o *Out) {
		o.CrashPoints[call]++
		switch {
		case which < 0:
			o.CrashOutcomes[call+":mixed"]++
		case same(got, s.St):
			o.CrashOutcomes[call+":after"]++
		case same(got, s.Pre):
			o.CrashOutcomes[call+":before"]++
		default:
			o.CrashOutcomes[call+":between"]++
		}
	})
	if which < 0 {
		e.viol("crash:partial-state:"+call, fmt.Sprintf("step %d (%s), crash at file-system operation %d of %s: the reopened state DB holds %v (unknown keys %v), neither the state before the call %v nor the one after it %v",
			e.cur, s.Op, k, call, got, extra, s.Pre, s.St))
		e.stop()
	}
	initAt := func(h int) error {
		e.newHandler()
		return e.call("Init", func() error {
			_, err := e.handler.Init(&labi.InitRequest{ChainID: chainID, LastBlockHeight: uint32(h), LastStateRoot: e.roots[h]})
			return err
		})
	}
	if call == "revert" && same(got, s.Pre) {
		// the Revert did not reach the disk: the engine still has the block, and the application must start against it
		if err := initAt(e.engH); err != nil {
			e.viol("crash:recovery-fails:"+call, fmt.Sprintf("step %d, crash at file-system operation %d of Revert of height %d: the state DB holds the state before the Revert, but Init against the engine's unchanged tip fails: %v", e.cur, k, e.engH, err))
			e.stop()
		}
		if d := e.diffState(s.Pre); d != "" {
			e.viol("crash:recovered-state:"+call, fmt.Sprintf("step %d, crash at file-system operation %d of Revert of height %d, Init against the unchanged tip: %s", e.cur, k, e.engH, d))
			e.stop()
		}
	}
	if call == "revert" && !same(got, s.Pre) {
		// the Revert reached the disk but the engine still has the block: the application is behind the engine, which is
		// outside this property - but an Init that SUCCEEDS against the engine's tip vouches for that tip's state
		if err := initAt(e.engH); err == nil {
			if d := e.diffState(s.Pre); d != "" {
				e.viol("crash:recovered-state:"+call, fmt.Sprintf("step %d, crash at file-system operation %d of Revert of height %d: Init(lastBlockHeight=%d, lastStateRoot=%x) succeeds, but %s", e.cur, k, e.engH, e.engH, e.roots[e.engH], d))
				e.stop()
			}
		}
	}
	want := e.appStates[tipH]
	if err := initAt(tipH); err != nil {
		e.viol("crash:recovery-fails:"+call, fmt.Sprintf("step %d (%s), crash at file-system operation %d of %s: the state DB holds %v; Init(lastBlockHeight=%d, lastStateRoot=%x) fails: %v",
			e.cur, s.Op, k, call, got, tipH, e.roots[tipH], err))
		e.stop()
	}
	if d := e.diffState(want); d != "" {
		e.viol("crash:recovered-state:"+call, fmt.Sprintf("step %d (%s), crash at file-system operation %d of %s: the state DB held %v; after Init(lastBlockHeight=%d) %s",
			e.cur, s.Op, k, call, got, tipH, d))
		e.stop()
	}
	if err := initAt(tipH); err != nil {
		e.viol("crash:second-init-fails:"+call, fmt.Sprintf("step %d (%s), crash at file-system operation %d of %s: a second Init(lastBlockHeight=%d) fails: %v", e.cur, s.Op, k, call, tipH, err))
		e.stop()
	}
}

// one history: up to three targets (a commit, a removal, a recovery), every crash point of each; a replay file names
// one crash point
func (e *env) crashReplay() {
	if e.crash != nil && e.crash.K > 0 {
		e.crashRun(e.crash.Step, int64(e.crash.K))
		return
	}
	var commits, reverts, recoveries []int
	for i, s := range e.steps {
		switch {
		case s.Op == "commit" || s.Op == "crash":
			commits = append(commits, i)
		case s.Op == "revert":
			reverts = append(reverts, i)
		case s.Op == "restart" && s.Ahead > 0:
			recoveries = append(recoveries, i)
		}
	}
	x := mix(uint64(len(e.steps))*31 + uint64(e.order0))
	for n, set := range [][]int{commits, reverts, recoveries} {
		if len(set) == 0 {
			continue
		}
		t := set[(x>>(8*uint(n)))%uint64(len(set))]
		nops := e.crashRun(t, 0)
		for k := int64(1); k <= nops; k++ {
			e.crashRun(t, k)
		}
	}
	e.crash = nil
}
