package main

import (
	"bytes"
	"errors"
	"fmt"

	"github.com/LiskHQ/lisk-engine/pkg/blockchain"
	"github.com/LiskHQ/lisk-engine/pkg/codec"
	"github.com/LiskHQ/lisk-engine/pkg/db"
	"github.com/LiskHQ/lisk-engine/pkg/log"
	"github.com/LiskHQ/lisk-engine/pkg/statemachine"
)

// ---------------------------------------------------------------- scripted modules
//
// Two modules are registered, in this order: module 0 ("scripted") owns store 0 and the command, module 1 ("second")
// owns store 1.  What they do is written in the transaction (command script + trailer: the writes of the hooks around
// the command), in the block's asset (the writes of the hooks around the transactions) and in the genesis block's asset
// (the genesis state).  A hook that writes cell c is executed by the module owning c and logs one revertible and one
// unrevertible event of that module.

type nolog struct{}

func (nolog) Debug(string, ...interface{})    {}
func (nolog) Info(string, ...interface{})     {}
func (nolog) Error(string, ...interface{})    {}
func (nolog) Debugf(string, ...interface{})   {}
func (nolog) Infof(string, ...interface{})    {}
func (nolog) Errorf(string, ...interface{})   {}
func (nolog) Warning(string, ...interface{})  {}
func (nolog) Warningf(string, ...interface{}) {}
func (n nolog) With(...interface{}) log.Logger { return n }

// rstore is what an observation needs of a module store
type rstore interface {
	Get(key []byte) ([]byte, bool)
	Has(key []byte) bool
	Iterate(prefix []byte, limit int, reverse bool) []db.KeyValue
	Range(start, end []byte, limit int, reverse bool) []db.KeyValue
}

// observation: the cells as seen through the four read accessors of the module stores
type observation struct {
	via   string // "fresh": stores obtained from the context for this read; "held": the handles taken before the command
	get   []int
	has   []int
	iter  []int
	rng   []int
	stray []string
}

var rangeEnd = bytes.Repeat([]byte{0xff}, 72)

// order: which accessor reads first (the first read of a block meets entries the overlay has not cached yet)
func (u *uni) observe(via string, store func(s int) rstore, order int) *observation {
	n := ncells()
	o := &observation{via: via, get: make([]int, n), has: make([]int, n), iter: make([]int, n), rng: make([]int, n)}
	point := func() {
		for c := 1; c <= n; c++ {
			st := store(cellStore(c))
			if order%2 == 0 {
				if v, ok := st.Get(u.key(c)); ok {
					o.get[c-1] = u.valueIndex(c, v)
				}
			}
			if st.Has(u.key(c)) {
				o.has[c-1] = 1
			}
			if order%2 == 1 {
				if v, ok := st.Get(u.key(c)); ok {
					o.get[c-1] = u.valueIndex(c, v)
				}
			}
		}
	}
	collect := func(s int, kvs []db.KeyValue, into []int, what string) {
		for _, kv := range kvs {
			known := false
			for k := range u.keys {
				if bytes.Equal(u.keys[k], kv.Key()) {
					known = true
					c := s*meta.NK + k + 1
					if into[c-1] != 0 {
						o.stray = append(o.stray, fmt.Sprintf("%s returns key %d of store %d twice", what, k+1, s+1))
					}
					into[c-1] = u.valueIndex(c, kv.Value())
				}
			}
			if !known {
				o.stray = append(o.stray, fmt.Sprintf("%s:%d:%x", what, s+1, kv.Key()))
			}
		}
	}
	iterate := func() {
		for s := range storePrefix {
			collect(s, store(s).Iterate([]byte{}, -1, false), o.iter, "iterate")
		}
	}
	ranges := func() {
		for s := range storePrefix {
			collect(s, store(s).Range([]byte{0}, rangeEnd, -1, false), o.rng, "range")
		}
	}
	switch order % 3 {
	case 0:
		point()
		iterate()
		ranges()
	case 1:
		iterate()
		ranges()
		point()
	default:
		ranges()
		point()
		iterate()
	}
	return o
}

// first accessor whose view differs from want ("" if none)
func (o *observation) differs(want []int) string {
	if fmt.Sprint(o.get) != fmt.Sprint(want) {
		return "get"
	}
	for c, w := range want {
		if (w != 0) != (o.has[c] == 1) {
			return "has"
		}
	}
	if fmt.Sprint(o.iter) != fmt.Sprint(want) {
		return "iterate"
	}
	if fmt.Sprint(o.rng) != fmt.Sprint(want) {
		return "range"
	}
	if len(o.stray) > 0 {
		return "iterate"
	}
	return ""
}

func (o *observation) String() string {
	return fmt.Sprintf("get=%v has=%v iterate=%v range=%v (unknown / duplicate entries %v) through %s store handles", o.get, o.has, o.iter, o.rng, o.stray, o.via)
}

type scripted struct {
	idx     int
	e       *env
	held    []statemachine.Store // held mode: the handles taken in BeforeCommandExecute, used until AfterCommandExecute returns
	snap    int
	hasSnap bool
}

type storeCtx interface {
	GetStore(storePrefix, substorePrefix []byte) statemachine.Store
}

func getStore(ctx storeCtx, s int) statemachine.Store {
	return ctx.GetStore(storePrefix[s][0], storePrefix[s][1])
}

func (m *scripted) store(ctx storeCtx, s int) statemachine.Store {
	if m.held != nil {
		return m.held[s]
	}
	return getStore(ctx, s)
}

func (m *scripted) observe(ctx storeCtx) []*observation {
	u := m.e.u
	m.e.nobs++
	order := m.e.nobs + m.e.order0
	fresh := func() *observation { return u.observe("fresh", func(s int) rstore { return getStore(ctx, s) }, order) }
	if m.held == nil {
		return []*observation{fresh()}
	}
	held := u.observe("held", func(s int) rstore { return m.held[s] }, order/2)
	return []*observation{held, fresh()}
}

func (m *scripted) write(st statemachine.Store, cell, v int) {
	u := m.e.u
	if v == 0 {
		st.Del(u.key(cell))
	} else {
		st.Set(u.key(cell), u.value(cell, v))
	}
}

func (m *scripted) emit(q statemachine.EventAdder, name string, tag byte, unrevertible bool) {
	u := m.e.u
	var err error
	if unrevertible {
		err = q.AddUnrevertible(moduleNames[m.idx], name, u.evData(tag), []codec.Hex{u.evTopic(tag)})
	} else {
		err = q.Add(moduleNames[m.idx], name, u.evData(tag), []codec.Hex{u.evTopic(tag)})
	}
	if err != nil {
		// the scripted events are valid by construction (alphanumeric names, data and topics far below the limits)
		m.e.viol("event-rejected", fmt.Sprintf("%s pass, step %d: module %s cannot log its event %s (unrevertible=%v): %v", m.e.pass, m.e.cur, moduleNames[m.idx], name, unrevertible, err))
	}
}

// hook names and tags: index 0 = revertible, 1 = unrevertible
var hookEvents = map[string][2]struct {
	name string
	tag  byte
}{
	"before-command": {{"hookr", 0x81}, {"hooku", 0x84}},
	"after-command":  {{"afterr", 0x82}, {"afteru", 0x83}},
	"before-block":   {{"bbr", 0x85}, {"bbu", 0x86}},
	"after-block":    {{"abr", 0x87}, {"abu", 0x88}},
}

// the hook's share of work: if the cell belongs to this module, write it and log the two events
func (m *scripted) hook(kind string, st func(s int) statemachine.Store, q statemachine.EventAdder, cell, v int) {
	if cell < 1 || cell > ncells() || cellStore(cell) != m.idx {
		return
	}
	m.write(st(cellStore(cell)), cell, v)
	he := hookEvents[kind]
	m.emit(q, he[0].name, he[0].tag, false)
	m.emit(q, he[1].name, he[1].tag, true)
	m.e.r.count(func(o *Out) { o.HookWrites[kind+":"+moduleNames[m.idx]]++ })
}

func (m *scripted) Name() string                     { return moduleNames[m.idx] }
func (m *scripted) Init(cfg []byte) error            { return nil }
func (m *scripted) Endpoint() statemachine.Endpoint  { return endpoint{} }
func (m *scripted) VerifyAssets(*statemachine.VerifyAssetsContext) error { return nil }
func (m *scripted) FinalizeGenesisState(*statemachine.GenesisBlockProcessingContext) error {
	return nil
}
func (m *scripted) VerifyTransaction(*statemachine.TransactionVerifyContext) statemachine.VerifyResult {
	return statemachine.NewVerifyResultOK()
}

// genesis asset of module 0: nw, (cell, value)*: every module writes the cells of its own store
func (m *scripted) InitGenesisState(ctx *statemachine.GenesisBlockProcessingContext) error {
	data, ok := ctx.BlockAssets().GetAsset(moduleNames[0])
	if !ok || len(data) < 1 || len(data) < 1+2*int(data[0]) {
		return nil
	}
	for i := 0; i < int(data[0]); i++ {
		cell, v := int(data[1+2*i]), int(data[2+2*i])
		if cellStore(cell) == m.idx {
			m.write(getStore(ctx, m.idx), cell, v)
		}
	}
	return nil
}

// block asset of module 0: cell and value of the BeforeTransactionsExecute hook, cell and value of the
// AfterTransactionsExecute hook (cell 0: nothing)
func blockScript(assets blockchain.ReadableBlockAssets) []byte {
	data, ok := assets.GetAsset(moduleNames[0])
	if !ok || len(data) != 4 {
		return []byte{0, 0, 0, 0}
	}
	return data
}

// the generator's pass: module 0 puts the block script into the block
func (m *scripted) InsertAssets(ctx *statemachine.InsertAssetsContext) error {
	if m.idx == 0 {
		ctx.SetAsset(moduleNames[0], append([]byte{}, m.e.blockScript...))
	}
	return nil
}

func (m *scripted) BeforeTransactionsExecute(ctx *statemachine.BeforeTransactionsExecuteContext) error {
	bs := blockScript(ctx.BlockAssets())
	m.hook("before-block", func(s int) statemachine.Store { return getStore(ctx, s) }, ctx.EventQueue(), int(bs[0]), int(bs[1]))
	return nil
}

func (m *scripted) AfterTransactionsExecute(ctx *statemachine.AfterTransactionsExecuteContext) error {
	bs := blockScript(ctx.BlockAssets())
	m.hook("after-block", func(s int) statemachine.Store { return getStore(ctx, s) }, ctx.EventQueue(), int(bs[2]), int(bs[3]))
	return nil
}

func trailer(p []byte) []byte {
	if len(p) < 4 {
		return []byte{0, 0, 0, 0}
	}
	return p[len(p)-4:]
}

func (m *scripted) BeforeCommandExecute(ctx *statemachine.TransactionExecuteContext) error {
	if m.e.held {
		// what a module does that keeps its stores in a local variable for the whole transaction
		m.held = []statemachine.Store{getStore(ctx, 0), getStore(ctx, 1)}
	}
	if m.idx == 0 && m.e.prefetch {
		m.e.obsPre = m.observe(ctx)
	}
	// what a fee / nonce hook does: one state write and events before the command runs
	tr := trailer(ctx.Transaction().Params())
	m.hook("before-command", func(s int) statemachine.Store { return m.store(ctx, s) }, ctx.EventQueue(), int(tr[0]), int(tr[1]))
	return nil
}

func (m *scripted) AfterCommandExecute(ctx *statemachine.TransactionExecuteContext) error {
	if m.idx == 0 {
		m.e.obsMid = m.observe(ctx)
	}
	tr := trailer(ctx.Transaction().Params())
	m.hook("after-command", func(s int) statemachine.Store { return m.store(ctx, s) }, ctx.EventQueue(), int(tr[2]), int(tr[3]))
	if m.idx == len(moduleNames)-1 {
		m.e.obsEnd = m.observe(ctx)
	}
	m.held = nil
	return nil
}

func (m *scripted) GetCommand(name string) (statemachine.Command, bool) {
	if m.idx == 0 && name == commandName {
		return &runCmd{m}, true
	}
	return nil, false
}

type endpoint struct{}

func (endpoint) Get() statemachine.EndpointHandlers { return statemachine.EndpointHandlers{} }

// params: ok, nw, (cell, value)*, ne, kind*, trailer: cell and value of the BeforeCommandExecute hook's write, cell and
// value of the AfterCommandExecute hook's write (cell 0: that hook does nothing)
func encodeScript(s *Step) []byte {
	p := []byte{byte(s.Ok), byte(len(s.W))}
	for _, w := range s.W {
		p = append(p, byte(w[0]), byte(w[1]))
	}
	p = append(p, byte(len(s.E)))
	for _, k := range s.E {
		p = append(p, byte(k))
	}
	for _, hw := range [][]int{s.Hw, s.Aw} {
		if len(hw) == 2 {
			p = append(p, byte(hw[0]), byte(hw[1]))
		} else {
			p = append(p, 0, 0)
		}
	}
	return p
}

func eventName(pos, kind int) string {
	if kind == 1 {
		return fmt.Sprintf("u%d", pos)
	}
	return fmt.Sprintf("r%d", pos)
}

type runCmd struct{ m *scripted }

func (c *runCmd) ID() uint32   { return 1 }
func (c *runCmd) Name() string { return commandName }
func (c *runCmd) Verify(*statemachine.TransactionVerifyContext) statemachine.VerifyResult {
	return statemachine.NewVerifyResultOK()
}

// performs exactly the scripted operations through the module store API (write <<cell, value>>, delete <<cell, 0>>,
// <<0, 1>> ctx.Snapshot(), <<0, 2>> ctx.RestoreSnapshot(latest)) and emits the scripted events through the event queue
// (event i right after operation i, the remaining ones at the end), then succeeds or fails
func (c *runCmd) Execute(ctx *statemachine.TransactionExecuteContext) error {
	m := c.m
	p := ctx.Transaction().Params()
	ok := p[0] == 1
	nw := int(p[1])
	ws := p[2 : 2+2*nw]
	ne := int(p[2+2*nw])
	es := p[3+2*nw : 3+2*nw+ne]
	m.hasSnap = false
	for i := 0; i < nw; i++ {
		cell, v := int(ws[2*i]), int(ws[2*i+1])
		switch {
		case cell != 0:
			m.write(m.store(ctx, cellStore(cell)), cell, v)
		case v == 1:
			m.snap, m.hasSnap = ctx.Snapshot(), true
			m.e.r.count(func(o *Out) { o.InnerSnapshots++ })
		case v == 2 && m.hasSnap:
			m.hasSnap = false
			if err := ctx.RestoreSnapshot(m.snap); err != nil {
				m.e.viol("abi-error:RestoreSnapshot", fmt.Sprintf("%s pass, step %d: the command cannot restore the snapshot it has just taken: %v", m.e.pass, m.e.cur, err))
			}
			m.e.r.count(func(o *Out) { o.InnerRestores++ })
		}
		if i < ne {
			m.emit(ctx.EventQueue(), eventName(i+1, int(es[i])), byte(i+1), es[i] == 1)
		}
	}
	for i := nw; i < ne; i++ {
		m.emit(ctx.EventQueue(), eventName(i+1, int(es[i])), byte(i+1), es[i] == 1)
	}
	if !ok {
		return errors.New("scripted failure")
	}
	return nil
}

// ---------------------------------------------------------------- expected events

type wantEvent struct {
	module string
	name   string
	tag    byte
	std    bool
}

func owner(w []int) string {
	if len(w) == 2 && w[0] >= 1 && w[0] <= ncells() {
		return moduleNames[cellStore(w[0])]
	}
	return "?"
}

// the event the spec names n, in the transaction / block step s
func wanted(s *Step, n int) wantEvent {
	hk := func(kind string, unrev int, w []int) wantEvent {
		he := hookEvents[kind][unrev]
		return wantEvent{module: owner(w), name: he.name, tag: he.tag}
	}
	switch n {
	case 0:
		return wantEvent{module: moduleNames[0], name: blockchain.EventNameDefault, std: true}
	case -1:
		return hk("before-command", 0, s.Hw)
	case -4:
		return hk("before-command", 1, s.Hw)
	case -2:
		return hk("after-command", 0, s.Aw)
	case -3:
		return hk("after-command", 1, s.Aw)
	case -5:
		return hk("before-block", 0, s.Bh)
	case -6:
		return hk("before-block", 1, s.Bh)
	case -7:
		return hk("after-block", 0, s.Ah)
	case -8:
		return hk("after-block", 1, s.Ah)
	}
	return wantEvent{module: moduleNames[0], name: eventName(n, s.E[n-1]), tag: byte(n)}
}

func isHookEvent(name string) bool {
	for _, he := range hookEvents {
		if he[0].name == name || he[1].name == name {
			return true
		}
	}
	return false
}
