// c06: certificates. Replays Node scripts on the real Executer and then, on the reached state,
//   - evaluates verifyAggregateCommit on the TLC-generated table of [height, signer set, kind] (+ bitmap tampers),
//   - feeds single commits through singleCommitValidator and checks pool admission,
//   - lets sets of validators certify (Certify + gossiped commits) and requires the node's own GetAggregateCommit to
//     pass the node's own verification.
// usage: c06 <dumps.ndjson> <config.json> <out.json>
package main

import (
	"bufio"
	"bytes"
	"encoding/json"
	"fmt"
	"os"
	"sync"

	"github.com/LiskHQ/lisk-engine/pkg/blockchain"
	"github.com/LiskHQ/lisk-engine/pkg/consensus"
	"github.com/LiskHQ/lisk-engine/pkg/consensus/certificate"

	"verifharness/internal/node"
	"verifharness/internal/tj"
)

type Step struct {
	node.Cand
	Op       string `json:"op"`
	Accepted bool   `json:"accepted"`
	SaveTemp bool   `json:"saveTemp"`
	Ok       bool   `json:"ok"`
}

type VRow struct {
	H       uint32 `json:"h"`
	Signers []int  `json:"signers"`
	Kind    string `json:"kind"`
	Expect  bool   `json:"expect"`
}
type PRow struct {
	Regossip   *bool  `json:"regossip,omitempty"` // replay: force / forbid the gossip tick + second certification
	Certifiers []int  `json:"certifiers"`
	Height     uint32 `json:"height"`
}
type SRow struct {
	V        int    `json:"v"`
	H        uint32 `json:"h"`
	Ref      string `json:"ref"`
	Sig      string `json:"sig"`
	MayEnter bool   `json:"mayEnter"`
}
type Dump struct {
	Script  []Step `json:"script"`
	Verify  []VRow `json:"verify"`
	Pool    []PRow `json:"pool"`
	Singles []SRow `json:"singles"`
	State   struct {
		Tip, Cert, Mhpc, NextParams uint32
	} `json:"state"`
}

type Violation struct {
	Key    string      `json:"key"`
	What   string      `json:"what"`
	Replay interface{} `json:"replay"`
}
type Out struct {
	Dumps        int         `json:"states"`
	VerifyRows   int         `json:"verify_rows"`
	VerifyTrue   int         `json:"verify_rows_accepted"`
	BitTampers   int         `json:"bitmap_tampers_rejected"`
	Singles      int         `json:"single_commits_fed"`
	SinglesIn    int         `json:"single_commits_admitted"`
	PoolCases    int         `json:"pool_cases"`
	PoolNonEmpty int         `json:"own_aggregates_nonempty"`
	Errors       []string    `json:"harness_errors"`
	Violations   []Violation `json:"violations"`
}

var (
	out    = &Out{}
	mu     sync.Mutex
	perKey = map[string]int{}
)

func viol(key, what string, replay interface{}) {
	mu.Lock()
	defer mu.Unlock()
	perKey[key]++
	if perKey[key] <= 2 {
		out.Violations = append(out.Violations, Violation{key, what, replay})
	}
}

func verifyAC(n *node.Node, ac *blockchain.AggregateCommit) (ok bool, pv interface{}) {
	defer func() {
		if e := recover(); e != nil {
			ok, pv = false, e
		}
	}()
	return n.Ex.VerifVerifyAggregateCommit(ac) == nil, nil
}

func replay(cfg *node.Config, d *Dump) {
	n, err := node.New(cfg, nil, 0)
	if err != nil {
		mu.Lock()
		out.Errors = append(out.Errors, err.Error())
		mu.Unlock()
		return
	}
	defer n.Close()
	for i := range d.Script {
		s := &d.Script[i]
		if s.Op != "block" {
			continue
		}
		b := n.Build(&s.Cand)
		if err := n.Ex.VerifProcess(b, "12D3KooWverifpeer"); err != nil || !bytes.Equal(n.Tip().Header.ID, b.Header.ID) {
			if s.Ac.Kind == "valid" {
				// the block is valid by the specification and carries a sound aggregate commit
				viol("rejects-sound-commit", fmt.Sprintf("a valid block carrying a sound aggregate commit (height %d, signers %v) is rejected: %v", s.Ac.H, s.Ac.Signers, err),
					map[string]interface{}{"script": d.Script[:i+1]})
				return
			}
			mu.Lock()
			out.Errors = append(out.Errors, fmt.Sprintf("script block not accepted: %v", err))
			mu.Unlock()
			return
		}
	}
	state := map[string]interface{}{"script": d.Script, "state": d.State}
	// ---- soundness: the verdict table
	for _, r := range d.Verify {
		ac := n.AggregateCommit(r.H, r.Kind, r.Signers)
		ok, pv := verifyAC(n, ac)
		mu.Lock()
		out.VerifyRows++
		if r.Expect {
			out.VerifyTrue++
		}
		mu.Unlock()
		rep := map[string]interface{}{"script": d.Script, "state": d.State, "row": r}
		if pv != nil {
			viol("panic:verifyAggregateCommit", fmt.Sprintf("verifyAggregateCommit panicked: %v", pv), rep)
			continue
		}
		if ok && !r.Expect {
			viol("accepts-unsound-commit:"+classify(d, r), fmt.Sprintf("aggregate commit height=%d signers=%v kind=%s accepted (certified=%d precommitted=%d nextParams=%d)", r.H, r.Signers, r.Kind, d.State.Cert, d.State.Mhpc, d.State.NextParams), rep)
		}
		if !ok && r.Expect {
			viol("rejects-sound-commit", fmt.Sprintf("aggregate commit height=%d signers=%v over the node's own block with sufficient weight is rejected (certified=%d precommitted=%d nextParams=%d)", r.H, r.Signers, d.State.Cert, d.State.Mhpc, d.State.NextParams), rep)
		}
		// bitmap tampers on an acceptable commit: claim another signer set / malformed bitmaps
		if r.Expect && ok {
			for _, t := range []string{"flip0", "flip1", "flip2", "extra-byte", "empty-sigbyte", "short"} {
				tc := &blockchain.AggregateCommit{Height: ac.Height, AggregationBits: append([]byte{}, ac.AggregationBits...), CertificateSignature: append([]byte{}, ac.CertificateSignature...)}
				switch t {
				case "flip0", "flip1", "flip2":
					nkeys := 0
					for _, w := range n.ParamsAt(r.H).W {
						if w > 0 {
							nkeys++
						}
					}
					if int(t[4]-'0') >= nkeys {
						continue // bits beyond the validator list carry no claim
					}
					bit := byte(1) << uint(t[4]-'0')
					tc.AggregationBits[0] ^= bit
					if tc.AggregationBits[0] == 0 {
						continue
					}
				case "extra-byte":
					tc.AggregationBits = append(tc.AggregationBits, 0xff)
				case "empty-sigbyte":
					tc.CertificateSignature[5] ^= 0x40
				case "short":
					tc.AggregationBits = []byte{}
					tc.CertificateSignature = append([]byte{}, ac.CertificateSignature...)
				}
				ok2, pv := verifyAC(n, tc)
				if pv != nil {
					viol("panic:verifyAggregateCommit", fmt.Sprintf("verifyAggregateCommit panicked on a tampered commit (%s): %v", t, pv), rep)
					continue
				}
				if ok2 && t != "extra-byte" {
					viol("accepts-tampered-commit:"+t, fmt.Sprintf("tampered aggregate commit (%s) of height=%d signers=%v accepted", t, r.H, r.Signers), rep)
				} else if !ok2 {
					mu.Lock()
					out.BitTampers++
					mu.Unlock()
				}
			}
		}
	}
	// ---- pool admission
	clear := func() { n.Ex.VerifPool().Cleanup(func(uint32) bool { return false }) }
	for _, r := range d.Singles {
		clear()
		hdr, err := n.Chain.DataAccess().GetBlockHeaderByHeight(r.H)
		if err != nil || r.Ref == "other" {
			hdr = &blockchain.BlockHeader{Height: r.H, Timestamp: 777, StateRoot: make([]byte, 32), ValidatorsHash: make([]byte, 32),
				PreviousBlockID: make([]byte, 32), GeneratorAddress: make([]byte, 20), AggregateCommit: &blockchain.AggregateCommit{}}
			hdr.Init()
		}
		chainID := n.ChainID
		if r.Sig == "bad" {
			chainID = []byte{8, 8, 8, 8}
		}
		v := node.Validator(r.V)
		sc := certificate.NewSingleCommit(hdr, v.Address, chainID, v.BLS.PrivateKey)
		msg := &consensus.EventPostSingleCommits{SingleCommits: []*certificate.SingleCommit{sc}}
		func() {
			defer func() {
				if e := recover(); e != nil {
					viol("panic:singleCommitValidator", fmt.Sprintf("singleCommitValidator panicked: %v", e), map[string]interface{}{"script": d.Script, "single": r})
				}
			}()
			n.Ex.VerifSingleCommitValidator(msg.Encode())
		}()
		in := n.Ex.VerifPool().Size() > 0
		mu.Lock()
		out.Singles++
		if in {
			out.SinglesIn++
		}
		mu.Unlock()
		if in && !r.MayEnter {
			viol("pool-admits-unsound-commit", fmt.Sprintf("single commit by validator %d for height %d (block %s, signature %s) entered the pool", r.V, r.H, r.Ref, r.Sig), map[string]interface{}{"script": d.Script, "state": d.State, "single": r})
		}
	}
	// ---- completeness: the node's own aggregate passes the node's own verification
	poolCase := 0
	for _, r := range d.Pool {
		clear()
		for _, c := range r.Certifiers {
			v := node.Validator(c)
			if err := n.Ex.Certify(d.State.Cert, d.State.Mhpc, v.Address, v.BLS.PrivateKey); err != nil {
				viol("certify-error", "Certify failed: "+err.Error(), state)
			}
			// commits for the other heights of the window arrive through gossip
			for h := d.State.Cert + 1; h <= d.State.Mhpc; h++ {
				hdr, err := n.Chain.DataAccess().GetBlockHeaderByHeight(h)
				if err != nil {
					continue
				}
				sc := certificate.NewSingleCommit(hdr, v.Address, n.ChainID, v.BLS.PrivateKey)
				msg := &consensus.EventPostSingleCommits{SingleCommits: []*certificate.SingleCommit{sc}}
				n.Ex.VerifSingleCommitValidator(msg.Encode())
			}
		}
		// what Certify and the gossip validator let into the pool: a commit for height h only by a validator that is
		// active (positive BFT weight) in the parameters of height h
		for h := d.State.Cert + 1; h <= d.State.Mhpc; h++ {
			ps := n.ParamsAt(h)
			for _, sc := range n.Ex.VerifPool().Get(h) {
				active := false
				for id := 1; id <= cfg.NVal; id++ {
					if bytes.Equal(node.Validator(id).Address, sc.ValidatorAddress()) && id <= len(ps.W) && ps.W[id-1] > 0 {
						active = true
					}
				}
				if !active {
					viol("pool-admits-inactive-validator", fmt.Sprintf("after Certify(%d, %d] by %v the pool holds a single commit for height %d by a validator that is not active at that height", d.State.Cert, d.State.Mhpc, r.Certifiers, h),
						map[string]interface{}{"script": d.Script, "state": d.State, "pool": r})
				}
			}
		}
		regossip := poolCase%2 == 1
		if r.Regossip != nil {
			regossip = *r.Regossip
		}
		if regossip {
			// the gossip tick in between (what broadcastCertificate does to the pool: the selected commits move to the
			// "gossiped" list), then every validator certifies once more and its commits arrive again: nothing may be
			// counted twice
			sel := n.Ex.VerifPool().Select(d.State.Mhpc, cfg.NVal)
			n.Ex.VerifPool().Upgrade(sel)
			for _, c := range r.Certifiers {
				v := node.Validator(c)
				if err := n.Ex.Certify(d.State.Cert, d.State.Mhpc, v.Address, v.BLS.PrivateKey); err != nil {
					viol("certify-error", "Certify failed: "+err.Error(), state)
				}
			}
		}
		poolCase++
		var ac *blockchain.AggregateCommit
		var gerr error
		func() {
			defer func() {
				if e := recover(); e != nil {
					gerr = fmt.Errorf("panic: %v", e)
				}
			}()
			ac, gerr = n.Ex.GetAggregateCommit()
		}()
		rep := map[string]interface{}{"script": d.Script, "state": d.State, "pool": r, "regossip": regossip}
		mu.Lock()
		out.PoolCases++
		mu.Unlock()
		if gerr != nil {
			viol("get-aggregate-error", "GetAggregateCommit failed: "+gerr.Error(), rep)
			continue
		}
		if !ac.Empty() {
			mu.Lock()
			out.PoolNonEmpty++
			mu.Unlock()
		}
		ok, pv := verifyAC(n, ac)
		if pv != nil {
			viol("panic:verifyAggregateCommit", fmt.Sprintf("verifyAggregateCommit panicked on the node's own aggregate: %v", pv), rep)
		} else if !ok {
			viol("own-aggregate-rejected", fmt.Sprintf("the aggregate commit assembled from the pool (certifiers %v, height %d, bits %x) is rejected by the node's own verification", r.Certifiers, ac.Height, ac.AggregationBits), rep)
		}
	}
}

func classify(d *Dump, r VRow) string {
	switch {
	case r.Kind != "valid":
		return r.Kind
	case r.H <= d.State.Cert:
		return "height-not-above-certified"
	case r.H > d.State.Mhpc:
		return "height-above-precommitted"
	case d.State.NextParams != 0 && r.H > d.State.NextParams-1:
		return "height-beyond-next-params"
	}
	return "signers"
}

func main() {
	if len(os.Args) < 4 {
		fmt.Fprintln(os.Stderr, "usage: c06 dumps.ndjson config.json out.json")
		os.Exit(2)
	}
	cfg := &node.Config{}
	cb, err := os.ReadFile(os.Args[2])
	if err == nil {
		err = json.Unmarshal(cb, cfg)
	}
	if err != nil {
		panic(err)
	}
	f, err := os.Open(os.Args[1])
	if err != nil {
		panic(err)
	}
	sc := bufio.NewScanner(f)
	sc.Buffer(make([]byte, 1<<20), 1<<27)
	var dumps []*Dump
	for sc.Scan() {
		d := &Dump{}
		if json.Unmarshal(sc.Bytes(), d) == nil && len(d.Script) > 0 {
			dumps = append(dumps, d)
		}
	}
	out.Dumps = len(dumps)
	var wg sync.WaitGroup
	sem := make(chan struct{}, 14)
	for i, d := range dumps {
		i, d := i, d
		wg.Add(1)
		sem <- struct{}{}
		go func() {
			defer wg.Done()
			defer func() { <-sem }()
			defer func() {
				if e := recover(); e != nil {
					mu.Lock()
					out.Errors = append(out.Errors, fmt.Sprintf("dump %d: harness panic: %v", i, e))
					mu.Unlock()
				}
			}()
			replay(cfg, d)
		}()
	}
	wg.Wait()
	tj.WriteJSON(os.Args[3], out)
}
