// c06: certificates. Replays Node scripts on the real Executer and then, on the reached state,
//   - evaluates verifyAggregateCommit on the TLC-generated table of [height, signer set, kind] (+ bitmap tampers),
//   - feeds single commits through singleCommitValidator and checks pool admission,
//   - lets sets of validators certify (Certify + gossiped commits) and requires the node's own GetAggregateCommit to
//     pass the node's own verification; the same with a different certifier set at every height of the window,
//   - releases concurrent deliveries of the same and of different commits together with Certify and requires the same.
// Scripts of spec/Certificate.tla's CertSpec carry steps of their own ("commits": a hand-encoded gossip message of several
// single commits, "certify", "tick", "assemble"): the pool then lives through blocks that are added, removed and replaced.
// usage: c06 <dumps.ndjson> <config.json> <out.json>
package main

import (
	"bufio"
	"bytes"
	"encoding/json"
	"fmt"
	"os"
	"sort"
	"strconv"
	"sync"
	"time"

	"github.com/LiskHQ/lisk-engine/pkg/blockchain"
	"github.com/LiskHQ/lisk-engine/pkg/codec"
	"github.com/LiskHQ/lisk-engine/pkg/consensus"
	"github.com/LiskHQ/lisk-engine/pkg/consensus/certificate"
	"github.com/LiskHQ/lisk-engine/pkg/crypto"

	"verifharness/internal/node"
	"verifharness/internal/tj"
)

type CRow struct {
	V        int    `json:"v"`
	Signer   int    `json:"signer"`
	H        uint32 `json:"h"`
	Bh       uint32 `json:"bh"`
	Ref      string `json:"ref"`
	Sig      string `json:"sig"`
	Len      string `json:"len"`
	Dev      string `json:"dev"`
	MayEnter bool   `json:"mayEnter"`
	Hot      bool   `json:"hot"`
}

type Step struct {
	node.Cand
	Op       string `json:"op"`
	Accepted bool   `json:"accepted"`
	SaveTemp bool   `json:"saveTemp"`
	Ok       bool   `json:"ok"`
	// steps of a history (CertSpec)
	Commits    []CRow   `json:"commits,omitempty"`
	Certifiers []int    `json:"certifiers,omitempty"`
	Gossip     bool     `json:"gossip,omitempty"`
	Stale      []uint32 `json:"stale,omitempty"`
}

type VRow struct {
	H       uint32 `json:"h"`
	Signers []int  `json:"signers"`
	Kind    string `json:"kind"`
	Ss      bool   `json:"ss"` // the signer set alone would do (validators of the height reaching its threshold)
	Expect  bool   `json:"expect"`
}
type PRow struct {
	Regossip   *bool  `json:"regossip,omitempty"` // replay: force / forbid the gossip tick + second certification
	Certifiers []int  `json:"certifiers"`
	Height     uint32 `json:"height"`
}
type MSet struct {
	H          uint32 `json:"h"`
	Certifiers []int  `json:"certifiers"`
}
type MRow struct {
	Sets   []MSet `json:"sets"`
	Height uint32 `json:"height"`
}
type SRow struct {
	V        int    `json:"v"`
	H        uint32 `json:"h"`
	Ref      string `json:"ref"`
	Sig      string `json:"sig"`
	MayEnter bool   `json:"mayEnter"`
}
type Dump struct {
	Script  []Step `json:"script"`
	Verify  []VRow `json:"verify"`
	Pool    []PRow `json:"pool"`
	MPool   []MRow `json:"mpool"`
	Singles []SRow `json:"singles"`
	Hist    bool   `json:"hist"`
	Conc    int    `json:"conc"` // rounds of concurrent deliveries on the final state
	State   struct {
		Tip, Cert, Mhpc, NextParams uint32
	} `json:"state"`
}

type Violation struct {
	Key    string      `json:"key"`
	What   string      `json:"what"`
	Replay interface{} `json:"replay"`
}
type Out struct {
	Dumps        int            `json:"states"`
	VerifyRows   int            `json:"verify_rows"`
	VerifyTrue   int            `json:"verify_rows_accepted"`
	BitTampers   int            `json:"bitmap_tampers_rejected"`
	Singles      int            `json:"single_commits_fed"`
	SinglesIn    int            `json:"single_commits_admitted"`
	PoolCases    int            `json:"pool_cases"`
	PoolNonEmpty int            `json:"own_aggregates_nonempty"`
	Counts       map[string]int `json:"counts"` // per-class coverage (rows per kind / rejection class / tamper, history steps, ...)
	Errors       []string       `json:"harness_errors"`
	Violations   []Violation    `json:"violations"`
	// violations of the sub-check that is still behind VERIF_EXPERIMENTAL=1 (reported as violations only with it)
	Experimental []Violation `json:"experimental"`
}

var (
	out          = &Out{Counts: map[string]int{}}
	mu           sync.Mutex
	perKey       = map[string]int{}
	experimental = os.Getenv("VERIF_EXPERIMENTAL") == "1"
	seed         = int64(1)
)

const staleKey = "stale-commit-of-replaced-block"

func viol(key, what string, replay interface{}) {
	mu.Lock()
	defer mu.Unlock()
	perKey[key]++
	if perKey[key] <= 2 {
		out.Violations = append(out.Violations, Violation{key, what, replay})
	}
}

// violExp: a violation of the sub-check behind VERIF_EXPERIMENTAL (the pool keeps commits for blocks that were replaced)
func violExp(key, what string, replay interface{}) {
	if experimental {
		viol(key, what, replay)
		return
	}
	mu.Lock()
	defer mu.Unlock()
	perKey["exp:"+key]++
	out.Counts["experimental:"+key]++
	if perKey["exp:"+key] <= 2 {
		out.Experimental = append(out.Experimental, Violation{key, what, replay})
	}
}

func count(k string, d int) {
	mu.Lock()
	out.Counts[k] += d
	mu.Unlock()
}

func herr(format string, a ...interface{}) {
	mu.Lock()
	out.Errors = append(out.Errors, fmt.Sprintf(format, a...))
	mu.Unlock()
}

func verifyAC(n *node.Node, ac *blockchain.AggregateCommit) (ok bool, pv interface{}) {
	defer func() {
		if e := recover(); e != nil {
			ok, pv = false, e
		}
	}()
	return n.Ex.VerifVerifyAggregateCommit(ac) == nil, nil
}

// ---------------------------------------------------------------------------------------------- aggregate commits

// builder makes real BLS aggregate commits for the rows of the verdict table; single signatures are cached per
// (height, kind, signer): the table asks for every signer subset.
type builder struct {
	n    *node.Node
	sigs map[string][]byte
	keys map[uint32][][]byte
}

func newBuilder(n *node.Node) *builder { return &builder{n: n, sigs: map[string][]byte{}, keys: map[uint32][][]byte{}} }

func fakeHeader(h uint32, ts uint32) *blockchain.BlockHeader {
	hdr := &blockchain.BlockHeader{Height: h, Timestamp: ts, StateRoot: make([]byte, 32), ValidatorsHash: make([]byte, 32),
		PreviousBlockID: make([]byte, 32), GeneratorAddress: make([]byte, 20), AggregateCommit: &blockchain.AggregateCommit{}}
	hdr.Init()
	return hdr
}

// keyList: validator keys of the parameter set at height h, ascending by BLS key (the order verification uses)
func (b *builder) keyList(h uint32) [][]byte {
	if k, ok := b.keys[h]; ok {
		return k
	}
	keys := [][]byte{}
	for i, w := range b.n.ParamsAt(h).W {
		if w > 0 {
			keys = append(keys, node.Validator(i+1).BLS.PublicKey)
		}
	}
	sort.Slice(keys, func(i, j int) bool { return bytes.Compare(keys[i], keys[j]) < 0 })
	b.keys[h] = keys
	return keys
}

func (b *builder) sig(h uint32, kind string, signer int) []byte {
	k := fmt.Sprintf("%d/%s/%d", h, kind, signer)
	if s, ok := b.sigs[k]; ok {
		return s
	}
	hdr, err := b.n.Chain.DataAccess().GetBlockHeaderByHeight(h)
	if err != nil || kind == "wrongblock" {
		hdr = fakeHeader(h, 12345) // certificate of a block that is not the node's block at that height
	}
	cert := certificate.NewCertificateFromBlock(hdr)
	switch kind {
	case "wrong-vhash":
		cert.ValidatorsHash = crypto.Hash(append([]byte("other validators"), cert.ValidatorsHash...))
	case "wrong-stateroot":
		cert.StateRoot = crypto.Hash(append([]byte("other state"), cert.StateRoot...))
	case "wrong-timestamp":
		cert.Timestamp++
	}
	chainID := b.n.ChainID
	if kind == "badsig" {
		chainID = []byte{9, 9, 9, 9}
	}
	cert.Sign(chainID, node.Validator(signer).BLS.PrivateKey)
	b.sigs[k] = cert.Signature
	return cert.Signature
}

func (b *builder) build(h uint32, kind string, signers []int) *blockchain.AggregateCommit {
	if kind == "empty" {
		return &blockchain.AggregateCommit{Height: h, AggregationBits: []byte{}, CertificateSignature: []byte{}}
	}
	base := kind
	if kind == "halfempty-nosig" || kind == "halfempty-nobits" {
		base = "valid"
	}
	pairs := []*crypto.BLSPublicKeySignaturePair{}
	for _, s := range signers {
		pairs = append(pairs, &crypto.BLSPublicKeySignaturePair{PublicKey: node.Validator(s).BLS.PublicKey, Signature: b.sig(h, base, s)})
	}
	if len(pairs) == 0 {
		return &blockchain.AggregateCommit{Height: h, AggregationBits: []byte{1}, CertificateSignature: []byte{}}
	}
	bits, sig := crypto.BLSCreateAggSig(b.keyList(h), pairs)
	ac := &blockchain.AggregateCommit{Height: h, AggregationBits: bits, CertificateSignature: sig}
	switch kind {
	case "halfempty-nosig":
		ac.CertificateSignature = []byte{}
	case "halfempty-nobits":
		ac.AggregationBits = []byte{}
	}
	return ac
}

// ownAggregate: what the node itself assembles from the single commits of these signers for its block at height h
// (the last lines of GetAggregateCommit)
func ownAggregate(n *node.Node, h uint32, signers []int) (ac *blockchain.AggregateCommit, err error) {
	defer func() {
		if e := recover(); e != nil {
			err = fmt.Errorf("panic: %v", e)
		}
	}()
	hdr, err := n.Chain.DataAccess().GetBlockHeaderByHeight(h)
	if err != nil {
		return nil, err
	}
	params, err := n.Ex.GetBFTParameters(n.Ex.VerifConsensusStore(), h)
	if err != nil {
		return nil, err
	}
	keypairs := make(certificate.AddressKeyPairs, len(params.Validators()))
	for i, v := range params.Validators() {
		keypairs[i] = &certificate.AddressKeyPair{Address: v.Address(), BLSKey: v.BLSKey()}
	}
	commits := certificate.SingleCommits{}
	for _, s := range signers {
		v := node.Validator(s)
		commits = append(commits, certificate.NewSingleCommit(hdr, v.Address, n.ChainID, v.BLS.PrivateKey))
	}
	return commits.Aggregate(keypairs)
}

// soundRejected decides what the rejection of an aggregate commit that the harness built as sound means: when the node
// accepts the aggregate it assembles ITSELF from the same signers' commits, only the harness's way of laying out bits and
// keys no longer matches the node's (harness error: inconclusive); otherwise the node rejects what it would assemble.
func soundRejected(n *node.Node, h uint32, signers []int) bool {
	own, err := ownAggregate(n, h, signers)
	if err == nil && own != nil {
		if ok, _ := verifyAC(n, own); ok {
			herr("the node rejects the harness-built aggregate commit (height %d, signers %v) but accepts the one it assembles itself from the same commits: the harness's layout of aggregate commits no longer matches the node's", h, signers)
			return false
		}
	}
	return true
}

// ---------------------------------------------------------------------------------------------- the pool

type pent struct {
	h             uint32
	id, addr, sig []byte
}

func poolEntries(n *node.Node, from, to uint32) []pent {
	res := []pent{}
	for h := from; h <= to; h++ {
		for _, sc := range n.Ex.VerifPool().Get(h) {
			res = append(res, pent{h, append([]byte{}, sc.BlockID()...), append([]byte{}, sc.ValidatorAddress()...), append([]byte{}, sc.CertificateSignature()...)})
		}
	}
	return res
}

func ownID(n *node.Node, h uint32) []byte {
	hdr, err := n.Chain.DataAccess().GetBlockHeaderByHeight(h)
	if err != nil {
		return nil
	}
	return hdr.ID
}

type rawCommit []byte

func (r rawCommit) Encode() []byte { return r }

func encodeCommit(id []byte, h uint32, addr, sig []byte) rawCommit {
	w := codec.NewWriter()
	w.WriteBytes(1, id)
	w.WriteUInt32(2, h)
	w.WriteBytes(3, addr)
	w.WriteBytes(4, sig)
	return rawCommit(w.Result())
}

func encodeMsg(cs []rawCommit) []byte {
	w := codec.NewWriter()
	for _, c := range cs {
		w.WriteEncodable(1, c)
	}
	return w.Result()
}

func resize(b []byte, n int) []byte {
	if n <= len(b) {
		return append([]byte{}, b[:n]...)
	}
	return append(append([]byte{}, b...), make([]byte, n-len(b))...)
}

// concrete: the fields of an abstract single commit of a "commits" step
func concrete(n *node.Node, c *CRow) (id []byte, addr, sig []byte) {
	hdr, err := n.Chain.DataAccess().GetBlockHeaderByHeight(c.Bh)
	if err != nil || c.Ref == "other" {
		hdr = fakeHeader(c.Bh, 777)
	}
	chainID := n.ChainID
	if c.Sig == "bad" {
		chainID = []byte{8, 8, 8, 8}
	}
	// the signature is over the certificate of the block whose id is used (height bh); the height FIELD is c.H
	sc := certificate.NewSingleCommit(hdr, node.Validator(c.V).Address, chainID, node.Validator(c.Signer).BLS.PrivateKey)
	id, addr, sig = append([]byte{}, hdr.ID...), append([]byte{}, node.Validator(c.V).Address...), append([]byte{}, sc.CertificateSignature()...)
	switch c.Len {
	case "sig0":
		sig = []byte{}
	case "sig95":
		sig = resize(sig, 95)
	case "sig97":
		sig = resize(sig, 97)
	case "id0":
		id = []byte{}
	case "id31":
		id = resize(id, 31)
	case "id33":
		id = resize(id, 33)
	case "addr0":
		addr = []byte{}
	case "addr19":
		addr = resize(addr, 19)
	case "addr21":
		addr = resize(addr, 21)
	}
	return id, addr, sig
}

func deliver(n *node.Node, data []byte) (pv interface{}) {
	defer func() {
		if e := recover(); e != nil {
			pv = e
		}
	}()
	n.Ex.VerifSingleCommitValidator(data)
	return nil
}

func goodMsg(n *node.Node, v int, heights []uint32) []byte {
	val := node.Validator(v)
	cs := []*certificate.SingleCommit{}
	for _, h := range heights {
		hdr, err := n.Chain.DataAccess().GetBlockHeaderByHeight(h)
		if err != nil {
			continue
		}
		cs = append(cs, certificate.NewSingleCommit(hdr, val.Address, n.ChainID, val.BLS.PrivateKey))
	}
	return (&consensus.EventPostSingleCommits{SingleCommits: cs}).Encode()
}

func bftHeights(n *node.Node) (mhpc, cert uint32) {
	_, mhpc, cert, err := n.Ex.GetBFTHeights(n.Ex.VerifConsensusStore())
	if err != nil {
		herr("GetBFTHeights: %v", err)
	}
	return mhpc, cert
}

func activeAt(n *node.Node, cfg *node.Config, h uint32, addr []byte) bool {
	ps := n.ParamsAt(h)
	for id := 1; id <= cfg.NVal; id++ {
		if bytes.Equal(node.Validator(id).Address, addr) && id <= len(ps.W) && ps.W[id-1] > 0 {
			return true
		}
	}
	return false
}

func getAggregate(n *node.Node) (ac *blockchain.AggregateCommit, gerr error, pv interface{}) {
	defer func() {
		if e := recover(); e != nil {
			pv = e
		}
	}()
	ac, gerr = n.Ex.GetAggregateCommit()
	return
}

// ---------------------------------------------------------------------------------------------- histories

type fed struct {
	h  uint32
	id []byte
}

// histStep executes one step of a history; false = the script cannot be continued
func histStep(n *node.Node, cfg *node.Config, d *Dump, i int, admitted *[]fed) bool {
	s := &d.Script[i]
	rep := map[string]interface{}{"script": d.Script[:i+1], "hist": true}
	tip := n.Tip().Header.Height
	switch s.Op {
	case "commits":
		raws := []rawCommit{}
		type conc struct{ id, addr, sig []byte }
		cc := []conc{}
		for j := range s.Commits {
			id, addr, sig := concrete(n, &s.Commits[j])
			cc = append(cc, conc{id, addr, sig})
			raws = append(raws, encodeCommit(id, s.Commits[j].H, addr, sig))
		}
		if pv := deliver(n, encodeMsg(raws)); pv != nil {
			viol("panic:singleCommitValidator", fmt.Sprintf("singleCommitValidator panicked on a message of %d single commits: %v", len(raws), pv), rep)
			return false
		}
		mhpcNow, _ := bftHeights(n)
		count("hist_messages", 1)
		count(fmt.Sprintf("hist_messages_of_%d", len(raws)), 1)
		for j := range s.Commits {
			c := &s.Commits[j]
			in := false
			for _, e := range poolEntries(n, c.H, c.H) {
				if bytes.Equal(e.id, cc[j].id) && bytes.Equal(e.addr, cc[j].addr) && bytes.Equal(e.sig, cc[j].sig) {
					in = true
				}
			}
			count("hist_commits_fed", 1)
			count("hist_fed:"+c.Dev, 1)
			if in {
				count("hist_commits_admitted", 1)
				if c.MayEnter {
					*admitted = append(*admitted, fed{c.H, cc[j].id})
					if c.H > mhpcNow {
						count("hist_admitted_above_precommitted", 1)
					}
				}
			}
			if in && !c.MayEnter {
				viol("pool-admits-unsound-commit:"+c.Dev, fmt.Sprintf("single commit %d of a message of %d (claimed validator %d, signed by %d, height field %d, block id and certificate of height %d (%s), signature %s, lengths %s) entered the pool",
					j+1, len(s.Commits), c.V, c.Signer, c.H, c.Bh, c.Ref, c.Sig, c.Len), rep)
			}
		}
	case "certify":
		mhpc, cert := bftHeights(n)
		for _, c := range s.Certifiers {
			v := node.Validator(c)
			if err := n.Ex.Certify(cert, mhpc, v.Address, v.BLS.PrivateKey); err != nil {
				count("certify_errors", 1)
			}
			if s.Gossip {
				for _, h := range windowHeights(cert, mhpc) {
					if pv := deliver(n, goodMsg(n, c, []uint32{h})); pv != nil {
						viol("panic:singleCommitValidator", fmt.Sprintf("singleCommitValidator panicked: %v", pv), rep)
						return false
					}
				}
			}
		}
		count("hist_certify_steps", 1)
		// who is in the pool: a commit for the node's CURRENT block at height h only by a validator active at h
		for _, e := range poolEntries(n, 1, tip+1) {
			if !bytes.Equal(e.id, ownID(n, e.h)) {
				continue
			}
			if !activeAt(n, cfg, e.h, e.addr) {
				viol("pool-admits-inactive-validator", fmt.Sprintf("after Certify(%d, %d] by %v the pool holds a single commit for height %d by a validator that is not active at that height", cert, mhpc, s.Certifiers, e.h), rep)
			}
		}
	case "tick":
		func() {
			defer func() {
				if e := recover(); e != nil {
					viol("panic:broadcastCertificate", fmt.Sprintf("the certificate broadcast tick panicked: %v", e), rep)
				}
			}()
			if err := n.Ex.VerifBroadcastCertificate(); err != nil {
				count("tick_errors", 1)
			}
		}()
		count("hist_ticks", 1)
	case "assemble":
		mhpc, cert := bftHeights(n)
		entries := poolEntries(n, 1, tip+1)
		staleAt := map[uint32]bool{}
		for _, e := range entries {
			if !bytes.Equal(e.id, ownID(n, e.h)) && e.h > cert && e.h <= mhpc {
				staleAt[e.h] = true
			}
		}
		scenario := false // a commit that entered the pool is for a block that has been replaced since
		for _, f := range *admitted {
			if !bytes.Equal(f.id, ownID(n, f.h)) {
				scenario = true
			}
		}
		count("hist_assembles", 1)
		if scenario {
			count("hist_assembles_after_replacing_a_block_with_pooled_commit", 1)
		}
		if len(staleAt) > 0 {
			count("hist_assembles_with_commit_of_replaced_block_in_window", 1)
		}
		ac, gerr, pv := getAggregate(n)
		if pv != nil {
			what := fmt.Sprintf("GetAggregateCommit panicked on a pool with history (certified %d, precommitted %d): %v", cert, mhpc, pv)
			if len(staleAt) > 0 {
				violExp("get-aggregate-error:"+staleKey, what+" - the pool holds a single commit for a block that was replaced afterwards", rep)
			} else {
				viol("get-aggregate-error:history", what, rep)
			}
			return true
		}
		if gerr != nil {
			count("get_aggregate_errors", 1)
			return true
		}
		if !ac.Empty() {
			count("hist_assembles_nonempty", 1)
		}
		ok, pv := verifyAC(n, ac)
		if pv != nil || !ok {
			what := fmt.Sprintf("the aggregate commit assembled from a pool with history (height %d, bits %x; certified %d, precommitted %d) is rejected by the node's own verification", ac.Height, []byte(ac.AggregationBits), cert, mhpc)
			if pv != nil {
				what += fmt.Sprintf(" (panic: %v)", pv)
			}
			if staleAt[ac.Height] {
				violExp("own-aggregate-rejected:"+staleKey, what+": the pool mixes single commits for the current block at that height with one for a block that was replaced after the commit had been admitted", rep)
			} else {
				viol("own-aggregate-rejected:history", what, rep)
			}
		}
	}
	return true
}

// windowHeights: the heights of (cert, mhpc] commits are produced for: all of them on a short window; on a long chain the
// top ones (what GetAggregateCommit looks at first), the lowest ones and the neighbourhood of precommitted - 100
func windowHeights(cert, mhpc uint32) []uint32 {
	res := []uint32{}
	for h := cert + 1; h <= mhpc; h++ {
		if mhpc-cert <= 12 || h <= cert+2 || h+2 >= mhpc || (h+102 >= mhpc && h+98 <= mhpc) {
			res = append(res, h)
		}
	}
	return res
}

// ---------------------------------------------------------------------------------------------- replay

func replay(cfg *node.Config, d *Dump) {
	n, err := node.New(cfg, nil, 0)
	if err != nil {
		herr("%v", err)
		return
	}
	defer n.Close()
	admitted := []fed{}
	for i := range d.Script {
		s := &d.Script[i]
		switch s.Op {
		case "block":
			b := n.Build(&s.Cand)
			if err := n.Ex.VerifProcess(b, "12D3KooWverifpeer"); err != nil || !bytes.Equal(n.Tip().Header.ID, b.Header.ID) {
				if s.Ac.Kind == "valid" {
					// the block is valid by the specification and carries a sound aggregate commit
					if soundRejected(n, s.Ac.H, s.Ac.Signers) {
						viol("rejects-sound-commit", fmt.Sprintf("a valid block carrying a sound aggregate commit (height %d, signers %v) is rejected: %v", s.Ac.H, s.Ac.Signers, err),
							map[string]interface{}{"script": d.Script[:i+1]})
					}
					return
				}
				herr("script block not accepted: %v", err)
				return
			}
		case "delete":
			err := n.Ex.VerifDeleteBlock(n.Tip(), s.SaveTemp)
			if (err == nil) != s.Ok {
				herr("script step %d: deleteBlock returned %v, the specification expects ok=%v", i, err, s.Ok)
				return
			}
			count("hist_deletes", 1)
		case "commits", "certify", "tick", "assemble":
			if !histStep(n, cfg, d, i, &admitted) {
				return
			}
		}
	}
	if d.Hist {
		count("hist_scripts", 1)
		return
	}
	b := newBuilder(n)
	// ---- soundness: the verdict table
	for _, r := range d.Verify {
		ac := b.build(r.H, r.Kind, r.Signers)
		ok, pv := verifyAC(n, ac)
		mu.Lock()
		out.VerifyRows++
		if r.Expect {
			out.VerifyTrue++
		}
		out.Counts["rows:"+r.Kind]++
		cl := classify(d, r)
		switch {
		case r.Expect && r.Kind == "valid":
			out.Counts["accept:valid"]++
			if d.State.NextParams != 0 && r.H == d.State.NextParams-1 {
				out.Counts["accept:block-preceding-the-change"]++
			}
			if len(b.keyList(r.H)) < cfg.NVal {
				out.Counts["accept:smaller-validator-set"]++
			}
			if len(ac.AggregationBits) > 1 {
				out.Counts["accept:bitmap-of-several-bytes"]++
			}
		case r.Expect:
			out.Counts["accept:"+r.Kind]++
		case r.Kind == "valid" && r.Ss:
			out.Counts["reject-with-sound-signers:"+cl]++
		case r.Kind == "empty" || r.Ss:
			out.Counts["reject:"+cl]++
		}
		mu.Unlock()
		rep := map[string]interface{}{"script": d.Script, "state": d.State, "row": r}
		if pv != nil {
			viol("panic:verifyAggregateCommit", fmt.Sprintf("verifyAggregateCommit panicked: %v", pv), rep)
			continue
		}
		if ok && !r.Expect {
			viol("accepts-unsound-commit:"+classify(d, r), fmt.Sprintf("aggregate commit height=%d signers=%v kind=%s accepted (certified=%d precommitted=%d nextParams=%d)", r.H, r.Signers, r.Kind, d.State.Cert, d.State.Mhpc, d.State.NextParams), rep)
		}
		if !ok && r.Expect {
			if r.Kind != "valid" || soundRejected(n, r.H, r.Signers) {
				viol("rejects-sound-commit", fmt.Sprintf("aggregate commit height=%d signers=%v kind=%s over the node's own block with sufficient weight is rejected (certified=%d precommitted=%d nextParams=%d)", r.H, r.Signers, r.Kind, d.State.Cert, d.State.Mhpc, d.State.NextParams), rep)
			}
		}
		// bitmap tampers on an acceptable commit: claim another signer set / malformed bitmaps
		if r.Expect && ok && r.Kind == "valid" {
			nkeys := len(b.keyList(r.H))
			for _, t := range []string{"flip0", "flip1", "flip2", "flip8", "flip9", "flip10", "flip-last", "extra-byte", "empty-sigbyte", "short", "drop-last-byte"} {
				tc := &blockchain.AggregateCommit{Height: ac.Height, AggregationBits: append([]byte{}, ac.AggregationBits...), CertificateSignature: append([]byte{}, ac.CertificateSignature...)}
				mustReject := true
				switch t {
				case "flip0", "flip1", "flip2", "flip8", "flip9", "flip10", "flip-last":
					bit := nkeys - 1
					if t != "flip-last" {
						bit, _ = strconv.Atoi(t[4:])
					} else if nkeys <= 3 {
						continue
					}
					if bit >= nkeys || bit/8 >= len(tc.AggregationBits) {
						continue // bits beyond the validator list carry no claim
					}
					tc.AggregationBits[bit/8] ^= byte(1) << uint(bit%8)
					if len(bytes.Trim(tc.AggregationBits, "\x00")) == 0 {
						continue
					}
				case "extra-byte":
					tc.AggregationBits = append(tc.AggregationBits, 0xff)
					mustReject = false // the bits beyond the validator list carry no claim
				case "empty-sigbyte":
					tc.CertificateSignature[5] ^= 0x40
				case "short":
					tc.AggregationBits = []byte{}
				case "drop-last-byte":
					if len(tc.AggregationBits) < 2 {
						continue
					}
					last := tc.AggregationBits[len(tc.AggregationBits)-1]
					tc.AggregationBits = tc.AggregationBits[:len(tc.AggregationBits)-1]
					mustReject = last != 0 // with no signer in the dropped byte the shorter bitmap claims the same signers
				}
				ok2, pv := verifyAC(n, tc)
				if pv != nil {
					viol("panic:verifyAggregateCommit", fmt.Sprintf("verifyAggregateCommit panicked on a tampered commit (%s, bits %x for %d validators): %v", t, []byte(tc.AggregationBits), nkeys, pv), rep)
					continue
				}
				if ok2 && mustReject {
					viol("accepts-tampered-commit:"+t, fmt.Sprintf("tampered aggregate commit (%s) of height=%d signers=%v accepted", t, r.H, r.Signers), rep)
				} else if !ok2 {
					mu.Lock()
					out.BitTampers++
					out.Counts["tamper-rejected:"+t]++
					mu.Unlock()
				}
			}
		}
	}
	// ---- pool admission
	clear := func() { n.Ex.VerifPool().Cleanup(func(uint32) bool { return false }) }
	keyHeights := map[uint32]bool{1: true} // heights that carry new parameters (set by the block below)
	for i := range d.Script {
		if d.Script[i].Op == "block" && d.Script[i].Chg > 0 {
			keyHeights[d.Script[i].H+1] = true
		}
	}
	for _, r := range d.Singles {
		clear()
		hdr, err := n.Chain.DataAccess().GetBlockHeaderByHeight(r.H)
		if err != nil || r.Ref == "other" {
			hdr = fakeHeader(r.H, 777)
		}
		chainID := n.ChainID
		if r.Sig == "bad" {
			chainID = []byte{8, 8, 8, 8}
		}
		v := node.Validator(r.V)
		sc := certificate.NewSingleCommit(hdr, v.Address, chainID, v.BLS.PrivateKey)
		msg := &consensus.EventPostSingleCommits{SingleCommits: []*certificate.SingleCommit{sc}}
		if pv := deliver(n, msg.Encode()); pv != nil {
			viol("panic:singleCommitValidator", fmt.Sprintf("singleCommitValidator panicked: %v", pv), map[string]interface{}{"script": d.Script, "single": r})
		}
		in := n.Ex.VerifPool().Size() > 0
		mu.Lock()
		out.Singles++
		if in {
			out.SinglesIn++
			if !keyHeights[r.H] {
				out.Counts["singles_admitted_at_height_without_new_parameters"]++
			}
		}
		mu.Unlock()
		if in && !r.MayEnter {
			viol("pool-admits-unsound-commit", fmt.Sprintf("single commit by validator %d for height %d (block %s, signature %s) entered the pool", r.V, r.H, r.Ref, r.Sig), map[string]interface{}{"script": d.Script, "state": d.State, "single": r})
		}
	}
	// ---- completeness: the node's own aggregate passes the node's own verification
	assemble := func(rep map[string]interface{}, key, what string) (*blockchain.AggregateCommit, bool) {
		ac, gerr, pv := getAggregate(n)
		if pv != nil {
			viol("get-aggregate-error", fmt.Sprintf("GetAggregateCommit failed: panic: %v", pv), rep)
			return nil, false
		}
		if gerr != nil {
			// nothing was assembled; the statement is about what IS assembled (a node that never assembles anything leaves
			// the run vacuous, see the driver)
			count("get_aggregate_errors", 1)
			return nil, false
		}
		ok, pv := verifyAC(n, ac)
		if pv != nil {
			viol("panic:verifyAggregateCommit", fmt.Sprintf("verifyAggregateCommit panicked on the node's own aggregate: %v", pv), rep)
			return ac, false
		} else if !ok {
			viol(key, fmt.Sprintf("the aggregate commit assembled from the pool (%s, height %d, bits %x) is rejected by the node's own verification", what, ac.Height, []byte(ac.AggregationBits)), rep)
			return ac, false
		}
		return ac, true
	}
	poolCase := 0
	for _, r := range d.Pool {
		clear()
		for _, c := range r.Certifiers {
			v := node.Validator(c)
			if err := n.Ex.Certify(d.State.Cert, d.State.Mhpc, v.Address, v.BLS.PrivateKey); err != nil {
				count("certify_errors", 1)
			}
			// commits for the other heights of the window arrive through gossip
			for _, h := range windowHeights(d.State.Cert, d.State.Mhpc) {
				deliver(n, goodMsg(n, c, []uint32{h}))
			}
		}
		// what Certify and the gossip validator let into the pool: a commit for height h only by a validator that is
		// active (positive BFT weight) in the parameters of height h
		for _, e := range poolEntries(n, d.State.Cert+1, d.State.Mhpc) {
			if !activeAt(n, cfg, e.h, e.addr) {
				viol("pool-admits-inactive-validator", fmt.Sprintf("after Certify(%d, %d] by %v the pool holds a single commit for height %d by a validator that is not active at that height", d.State.Cert, d.State.Mhpc, r.Certifiers, e.h),
					map[string]interface{}{"script": d.Script, "state": d.State, "pool": r})
			}
		}
		regossip := poolCase%2 == 1
		if r.Regossip != nil {
			regossip = *r.Regossip
		}
		if regossip {
			// the gossip tick in between (what broadcastCertificate does to the pool: the selected commits move to the
			// "gossiped" list), then every validator certifies once more and its commits arrive again: nothing may be
			// counted twice
			sel := n.Ex.VerifPool().Select(d.State.Mhpc, cfg.NVal)
			n.Ex.VerifPool().Upgrade(sel)
			for _, c := range r.Certifiers {
				v := node.Validator(c)
				if err := n.Ex.Certify(d.State.Cert, d.State.Mhpc, v.Address, v.BLS.PrivateKey); err != nil {
					count("certify_errors", 1)
				}
			}
		}
		poolCase++
		rep := map[string]interface{}{"script": d.Script, "state": d.State, "pool": r, "regossip": regossip}
		mu.Lock()
		out.PoolCases++
		mu.Unlock()
		ac, _ := assemble(rep, "own-aggregate-rejected", fmt.Sprintf("certifiers %v", r.Certifiers))
		if ac != nil && !ac.Empty() {
			mu.Lock()
			out.PoolNonEmpty++
			if len(ac.AggregationBits) > 1 {
				out.Counts["own_aggregates_with_bitmap_of_several_bytes"]++
			}
			mu.Unlock()
		}
	}
	// ---- the same with a different certifier set at every height of the window.  On a chain of more than 100 blocks
	// the commits take the real door (the gossip validator admits every height in [precommitted - 100, precommitted]);
	// in the first 100 heights that door is closed for heights without new parameters, so they are put into the pool
	// directly.
	for _, r := range d.MPool {
		clear()
		door := "add"
		if d.State.Mhpc > 100 {
			door = "gossip"
		}
		want := 0
		for _, s := range r.Sets {
			hdr, err := n.Chain.DataAccess().GetBlockHeaderByHeight(s.H)
			if err != nil {
				continue
			}
			for _, c := range s.Certifiers {
				v := node.Validator(c)
				want++
				if door == "gossip" {
					deliver(n, goodMsg(n, c, []uint32{s.H}))
				} else {
					n.Ex.VerifPool().Add(certificate.NewSingleCommit(hdr, v.Address, n.ChainID, v.BLS.PrivateKey))
				}
			}
		}
		got := n.Ex.VerifPool().Size()
		rep := map[string]interface{}{"script": d.Script, "state": d.State, "mpool": r}
		count("mpool_cases", 1)
		count("mpool_cases_by_"+door, 1)
		if got == want {
			count("mpool_cases_all_commits_in_pool", 1)
		}
		ac, ok := assemble(rep, "own-aggregate-rejected:per-height-sets", fmt.Sprintf("a certifier set per height: %v", r.Sets))
		if ac != nil && ok && !ac.Empty() {
			count("mpool_nonempty", 1)
			if len(r.Sets) > 0 && ac.Height < r.Sets[0].H {
				count("mpool_aggregate_below_the_top_height", 1)
			}
		}
	}
	// ---- concurrent deliveries: the gossip validator runs on p2p goroutines (check, then add) next to the generator's
	// Certify.  Every round releases, at the same instant, several deliveries of the SAME message, deliveries of different
	// messages and Certify calls of validators whose commits are also in the messages; afterwards the node's own aggregate
	// must pass its own verification whatever the interleaving was.
	for round := 0; round < d.Conc; round++ {
		clear()
		mhpc, cert := bftHeights(n)
		if mhpc <= cert {
			break
		}
		heights := windowHeights(cert, mhpc)
		// one message with everybody's commits, and one per validator
		all := []*certificate.SingleCommit{}
		per := [][]byte{}
		for v := 1; v <= cfg.NVal; v++ {
			val := node.Validator(v)
			for _, h := range heights {
				if hdr, err := n.Chain.DataAccess().GetBlockHeaderByHeight(h); err == nil && activeAt(n, cfg, h, val.Address) {
					all = append(all, certificate.NewSingleCommit(hdr, val.Address, n.ChainID, val.BLS.PrivateKey))
				}
			}
			per = append(per, goodMsg(n, v, heights))
		}
		allMsg := (&consensus.EventPostSingleCommits{SingleCommits: all}).Encode()
		start := make(chan struct{})
		var wg sync.WaitGroup
		var pmu sync.Mutex
		var panics []interface{}
		run := func(f func()) {
			wg.Add(1)
			go func() {
				defer wg.Done()
				defer func() {
					if e := recover(); e != nil {
						pmu.Lock()
						panics = append(panics, e)
						pmu.Unlock()
					}
				}()
				<-start
				f()
			}()
		}
		for k := 0; k < 3; k++ {
			run(func() { n.Ex.VerifSingleCommitValidator(allMsg) })
		}
		for v := 1; v <= cfg.NVal && v <= 6; v++ {
			m := per[v-1]
			run(func() { n.Ex.VerifSingleCommitValidator(m) })
			run(func() { n.Ex.VerifSingleCommitValidator(m) })
		}
		for v := 1; v <= 2 && v <= cfg.NVal; v++ {
			val := node.Validator(v)
			for k := 0; k < 2; k++ {
				run(func() { n.Ex.Certify(cert, mhpc, val.Address, val.BLS.PrivateKey) }) //nolint
			}
		}
		close(start)
		done := make(chan struct{})
		go func() { wg.Wait(); close(done) }()
		select {
		case <-done:
		case <-time.After(300 * time.Second):
			herr("concurrent deliveries did not return within 300 s (certified %d, precommitted %d)", cert, mhpc)
			return
		}
		rep := map[string]interface{}{"script": d.Script, "state": d.State, "conc": 20}
		if len(panics) > 0 {
			viol("panic:concurrent-deliveries", fmt.Sprintf("a concurrent delivery of single commits / Certify panicked: %v", panics[0]), rep)
			continue
		}
		count("conc_rounds", 1)
		seen := map[string]int{}
		gossiped := false
		for _, e := range poolEntries(n, cert+1, mhpc) {
			seen[fmt.Sprintf("%x/%x", e.id, e.addr)]++
			if !bytes.Equal(e.addr, node.Validator(1).Address) && !bytes.Equal(e.addr, node.Validator(2).Address) {
				gossiped = true
			}
		}
		if gossiped {
			count("conc_rounds_with_commits_admitted_from_gossip", 1)
		}
		for _, c := range seen {
			if c > 1 {
				count("conc_duplicates_in_pool", 1)
			}
		}
		ac, ok := assemble(rep, "own-aggregate-rejected:concurrent", "filled by concurrent deliveries of the same and of different commits and by Certify")
		if ac != nil && ok && !ac.Empty() {
			count("conc_nonempty", 1)
		}
	}
}

func classify(d *Dump, r VRow) string {
	switch {
	case r.Kind != "valid":
		return r.Kind
	case r.H <= d.State.Cert:
		return "height-not-above-certified"
	case r.H > d.State.Mhpc:
		return "height-above-precommitted"
	case d.State.NextParams != 0 && r.H > d.State.NextParams-1:
		return "height-beyond-next-params"
	}
	return "signers"
}

// selfTest: the hand encoding of gossip messages equals the generated codec's on a well-formed commit
func selfTest() {
	v := node.Validator(1)
	hdr := fakeHeader(3, 1)
	sc := certificate.NewSingleCommit(hdr, v.Address, []byte{4, 0, 0, 7}, v.BLS.PrivateKey)
	a := (&consensus.EventPostSingleCommits{SingleCommits: []*certificate.SingleCommit{sc, sc}}).Encode()
	r := encodeCommit(sc.BlockID(), sc.Height(), sc.ValidatorAddress(), sc.CertificateSignature())
	if !bytes.Equal(a, encodeMsg([]rawCommit{r, r})) {
		herr("the hand encoding of postSingleCommits differs from the generated codec's")
	}
}

func main() {
	if len(os.Args) < 4 {
		fmt.Fprintln(os.Stderr, "usage: c06 dumps.ndjson config.json out.json")
		os.Exit(2)
	}
	if s, err := strconv.ParseInt(os.Getenv("VERIF_SEED"), 10, 64); err == nil {
		seed = s
	}
	cfg := &node.Config{}
	cb, err := os.ReadFile(os.Args[2])
	if err == nil {
		err = json.Unmarshal(cb, cfg)
	}
	if err != nil {
		panic(err)
	}
	f, err := os.Open(os.Args[1])
	if err != nil {
		panic(err)
	}
	sc := bufio.NewScanner(f)
	sc.Buffer(make([]byte, 1<<20), 1<<27)
	var dumps []*Dump
	for sc.Scan() {
		d := &Dump{}
		if json.Unmarshal(sc.Bytes(), d) == nil && len(d.Script) > 0 {
			dumps = append(dumps, d)
		}
	}
	out.Dumps = len(dumps)
	selfTest()
	var wg sync.WaitGroup
	sem := make(chan struct{}, 14)
	for i, d := range dumps {
		i, d := i, d
		wg.Add(1)
		sem <- struct{}{}
		go func() {
			defer wg.Done()
			defer func() { <-sem }()
			defer func() {
				if e := recover(); e != nil {
					herr("dump %d: harness panic: %v", i, e)
				}
			}()
			replay(cfg, d)
		}()
	}
	wg.Wait()
	tj.WriteJSON(os.Args[3], out)
}
