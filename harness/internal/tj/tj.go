// Package tj: tiny helpers for ndjson traces and result files.
package tj

import (
	"bufio"
	"encoding/json"
	"os"
	"strconv"
)

type Writer struct {
	f *os.File
	w *bufio.Writer
	N int
}

func NewWriter(path string) (*Writer, error) {
	f, err := os.Create(path)
	if err != nil {
		return nil, err
	}
	return &Writer{f: f, w: bufio.NewWriterSize(f, 1<<20)}, nil
}

func (w *Writer) Emit(v interface{}) {
	b, err := json.Marshal(v)
	if err != nil {
		panic(err)
	}
	w.w.Write(b)
	w.w.WriteByte('\n')
	w.N++
}

func (w *Writer) Close() { w.w.Flush(); w.f.Close() }

// Flush hands the buffered lines to the file (a supervisor may watch the file grow as a sign of progress).
func (w *Writer) Flush() { w.w.Flush() }

func WriteJSON(path string, v interface{}) {
	b, _ := json.MarshalIndent(v, "", " ")
	os.WriteFile(path, b, 0o644)
}

func B(b bool) int {
	if b {
		return 1
	}
	return 0
}

func EnvInt(name string, def int) int {
	if s := os.Getenv(name); s != "" {
		if v, err := strconv.Atoi(s); err == nil {
			return v
		}
	}
	return def
}
