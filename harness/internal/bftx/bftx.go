// Package bftx drives the real liskbft.Module on an in-memory store and projects its state
// onto the abstract "votes" record of spec/LiskBFT.tla.
package bftx

import (
	"bytes"
	"crypto/sha256"
	"fmt"
	"sort"

	"github.com/LiskHQ/lisk-engine/pkg/blockchain"
	"github.com/LiskHQ/lisk-engine/pkg/consensus/liskbft"
	"github.com/LiskHQ/lisk-engine/pkg/db"
	"github.com/LiskHQ/lisk-engine/pkg/db/diffdb"
	"github.com/LiskHQ/lisk-engine/pkg/labi"
)

// Addr returns the 20-byte address of abstract validator v (1-based).
func Addr(v int) []byte {
	a := make([]byte, 20)
	a[0] = byte(v)
	a[19] = byte(v)
	return a
}

// ValOf inverts Addr (0 when unknown).
func ValOf(addr []byte) int {
	if len(addr) != 20 {
		return 0
	}
	return int(addr[0])
}

func BLSKey(v int) []byte {
	k := make([]byte, 48)
	k[0] = byte(v)
	k[47] = byte(v)
	return k
}

func GenKey(v int) []byte {
	k := make([]byte, 32)
	k[0] = byte(v)
	return k
}

// Node is a real liskbft.Module with a real diffdb over in-memory pebble.
type Node struct {
	Mod    *liskbft.Module
	DB     *db.DB
	Store  *diffdb.Database
	NVal   int
	PrevID []byte
}

var statePrefix = blockchain.DBPrefixToBytes(blockchain.DBPrefixState)

func NewNode(batch, nval int, genesisHeight uint32) (*Node, error) {
	d, err := db.NewInMemoryDB()
	if err != nil {
		return nil, err
	}
	m := liskbft.NewModule()
	if err := m.Init(batch); err != nil {
		return nil, err
	}
	n := &Node{Mod: m, DB: d, NVal: nval}
	n.Store = diffdb.New(d, statePrefix)
	g := &blockchain.BlockHeader{Version: 0, Height: genesisHeight, PreviousBlockID: make([]byte, 32),
		GeneratorAddress: make([]byte, 20), AggregateCommit: &blockchain.AggregateCommit{}}
	g.Init()
	n.PrevID = g.ID
	if err := m.InitGenesisState(g.Readonly(), n.Store); err != nil {
		return nil, err
	}
	return n, nil
}

// NewNodeWithModule is NewNode on a module that already exists: several stores (chain views of one fork tree) driven
// through ONE liskbft.Module, as a node does when it reverts and re-applies blocks (C01).
func NewNodeWithModule(m *liskbft.Module, nval int, genesisHeight uint32) (*Node, error) {
	d, err := db.NewInMemoryDB()
	if err != nil {
		return nil, err
	}
	n := &Node{Mod: m, DB: d, NVal: nval}
	n.Store = diffdb.New(d, statePrefix)
	g := &blockchain.BlockHeader{Version: 0, Height: genesisHeight, PreviousBlockID: make([]byte, 32),
		GeneratorAddress: make([]byte, 20), AggregateCommit: &blockchain.AggregateCommit{}}
	g.Init()
	n.PrevID = g.ID
	if err := m.InitGenesisState(g.Readonly(), n.Store); err != nil {
		return nil, err
	}
	return n, nil
}

func (n *Node) Close() { n.DB.Close() }

// Flush commits the staged store to the database and reopens a fresh staged store, as the
// engine does after every block (exercises the persisted encoding as well).
func (n *Node) Flush() {
	b := n.DB.NewBatch()
	n.Store.Commit(b)
	n.DB.Write(b)
	n.Store = diffdb.New(n.DB, statePrefix)
}

// SetParams calls API.SetBFTParameters and API.SetGeneratorKeys; w[i] is the weight of validator i+1.
func (n *Node) SetParams(pcT, certT uint64, w []uint64, gens []int) error {
	vals := liskbft.BFTValidators{}
	for i, wt := range w {
		if wt > 0 {
			vals = append(vals, liskbft.NewValidator(Addr(i+1), wt, BLSKey(i+1)))
		}
	}
	if err := n.Mod.API().SetBFTParameters(n.Store, pcT, certT, vals); err != nil {
		return err
	}
	if gens != nil {
		g := liskbft.Generators{}
		for _, v := range gens {
			g = append(g, liskbft.NewGenerator(Addr(v), GenKey(v)))
		}
		return n.Mod.API().SetGeneratorKeys(n.Store, g)
	}
	return nil
}

// LV is one entry of the validator list an application hands to the engine (identity, BFT weight; weight 0 = standby
// validator that only generates).
type LV struct {
	ID int
	W  uint64
}

// SetParamsLabi does what the engine does with the application's answer (Executer.BFTAfterTransactionsExecute /
// abi_caller): labi.Validators in the order given -> liskbft.GetBFTValidatorAndGenerators -> API.SetBFTParameters ->
// API.SetGeneratorKeys.
func (n *Node) SetParamsLabi(pcT, certT uint64, list []LV) error {
	vals := labi.Validators{}
	for _, e := range list {
		vals = append(vals, &labi.Validator{Address: Addr(e.ID), BFTWeight: e.W, GeneratorKey: GenKey(e.ID), BLSKey: BLSKey(e.ID)})
	}
	bv, gens := liskbft.GetBFTValidatorAndGenerators(vals)
	if err := n.Mod.API().SetBFTParameters(n.Store, pcT, certT, bv); err != nil {
		return err
	}
	return n.Mod.API().SetGeneratorKeys(n.Store, gens)
}

// ValidatorsHashLIP computes the validators hash from the rule of LIP-0058 / LIP-0061 with a hand-written encoder (no code
// of lisk-engine): SHA-256 of the Lisk-codec object {1: activeValidators (objects {1: blsKey bytes, 2: bftWeight uint64},
// sorted by blsKey ascending), 2: certificateThreshold uint64}.
func ValidatorsHashLIP(keys [][]byte, weights []uint64, certT uint64) []byte {
	idx := make([]int, len(keys))
	for i := range idx {
		idx[i] = i
	}
	sort.SliceStable(idx, func(a, b int) bool { return bytes.Compare(keys[idx[a]], keys[idx[b]]) < 0 })
	varint := func(b []byte, x uint64) []byte {
		for x >= 0x80 {
			b = append(b, byte(x)|0x80)
			x >>= 7
		}
		return append(b, byte(x))
	}
	out := []byte{}
	for _, i := range idx {
		obj := []byte{0x0a} // field 1, wire type 2
		obj = varint(obj, uint64(len(keys[i])))
		obj = append(obj, keys[i]...)
		obj = append(obj, 0x10) // field 2, wire type 0
		obj = varint(obj, weights[i])
		out = append(out, 0x0a)
		out = varint(out, uint64(len(obj)))
		out = append(out, obj...)
	}
	out = append(out, 0x10)
	out = varint(out, certT)
	h := sha256.Sum256(out)
	return h[:]
}

type Hdr struct {
	H, Gen, Mhg, Mhp uint32
	AcH              uint32
	AcNonEmpty       bool
	// AcKind selects other shapes of the aggregate commit (0 = decided by AcNonEmpty as before):
	// AcBitsOnly: aggregation bits without a signature; AcSigOnly: a signature without bits; AcNil: both slices nil.
	AcKind int
}

const (
	AcLegacy = iota
	AcBitsOnly
	AcSigOnly
	AcNil
)

// AcShape tells which of the two byte fields of the aggregate commit of h are non-empty.
func (h Hdr) AcShape() (bits, sig bool) {
	switch h.AcKind {
	case AcBitsOnly:
		return true, false
	case AcSigOnly:
		return false, true
	case AcNil:
		return false, false
	}
	return h.AcNonEmpty, h.AcNonEmpty
}

func (n *Node) Header(h Hdr) *blockchain.BlockHeader {
	ac := &blockchain.AggregateCommit{Height: h.AcH, AggregationBits: []byte{}, CertificateSignature: []byte{}}
	switch h.AcKind {
	case AcBitsOnly:
		ac.AggregationBits = []byte{1}
	case AcSigOnly:
		ac.CertificateSignature = make([]byte, 96)
	case AcNil:
		ac.AggregationBits, ac.CertificateSignature = nil, nil
	default:
		if h.AcNonEmpty {
			ac.AggregationBits = []byte{1}
			ac.CertificateSignature = make([]byte, 96)
		}
	}
	hdr := &blockchain.BlockHeader{Version: 2, Height: h.H, PreviousBlockID: n.PrevID, GeneratorAddress: Addr(int(h.Gen)),
		MaxHeightGenerated: h.Mhg, MaxHeightPrevoted: h.Mhp, AggregateCommit: ac, Timestamp: h.H * 10,
		Signature: make([]byte, 64)}
	hdr.Init()
	return hdr
}

func (n *Node) Contradicting(hdr *blockchain.BlockHeader) (bool, error) {
	return n.Mod.API().IsHeaderContradictingChain(n.Store, hdr.Readonly())
}

func (n *Node) Apply(hdr *blockchain.BlockHeader) error {
	if err := n.Mod.BeforeTransactionsExecute(hdr.Readonly(), n.Store); err != nil {
		return err
	}
	n.PrevID = hdr.ID
	return nil
}

// DumpDB returns a canonical text dump of all key/value pairs of the database.
func DumpDB(d *db.DB) string {
	s := ""
	for _, kv := range d.Iterate([]byte{}, -1, false) {
		s += fmt.Sprintf("%x=%x\n", kv.Key(), kv.Value())
	}
	return s
}

// Obs is the projection of the real BFT store onto the spec's votes record.
type Obs struct {
	Mhpv  uint32     `json:"mhpv"`
	Mhpc  uint32     `json:"mhpc"`
	Cert  uint32     `json:"cert"`
	Win   [][]uint64 `json:"win"`   // [h, gen, mhg, mhp, pv, pc] newest first
	VInfo [][]uint32 `json:"vinfo"` // per validator 1..N: [active, minActive, lhp]
	PKeys []uint32   `json:"pkeys"`
	GKeys []uint32   `json:"gkeys"`
}

func (n *Node) Observe() (*Obs, error) {
	d, err := liskbft.VerifDumpVotes(n.Store)
	if err != nil {
		return nil, err
	}
	a, b, c, err := n.Mod.API().GetBFTHeights(n.Store)
	if err != nil {
		return nil, err
	}
	if a != d.MaxHeightPrevoted || b != d.MaxHeightPrecommited || c != d.MaxHeightCertified {
		return nil, fmt.Errorf("GetBFTHeights disagrees with the stored votes")
	}
	o := &Obs{Mhpv: a, Mhpc: b, Cert: c, Win: [][]uint64{}, PKeys: []uint32{}, GKeys: []uint32{}}
	for _, i := range d.Infos {
		o.Win = append(o.Win, []uint64{uint64(i.Height), uint64(ValOf(i.Generator)), uint64(i.MaxHeightGenerated),
			uint64(i.MaxHeightPrevoted), i.PrevoteWeight, i.PrecommitWeight})
	}
	o.VInfo = make([][]uint32, n.NVal)
	for i := range o.VInfo {
		o.VInfo[i] = []uint32{0, 0, 0}
	}
	for _, v := range d.Validators {
		id := ValOf(v.Address)
		if id < 1 || id > n.NVal {
			return nil, fmt.Errorf("unknown validator in vote info")
		}
		o.VInfo[id-1] = []uint32{1, v.MinActiveHeight, v.LargestHeightPrecommit}
	}
	o.PKeys = append(o.PKeys, d.ParamsHeights...)
	o.GKeys = append(o.GKeys, d.GeneratorKeysHeights...)
	return o, nil
}

// ObsAPI is the projection of the stored votes together with what API.GetBFTHeights answers, NOT compared with each
// other here (the trace specification compares both with the model). ApiErr is non-empty when the votes store cannot be
// decoded, or GetBFTHeights returns an error; the projection is then empty.
type ObsAPI struct {
	Obs
	Api    []uint32
	ApiErr string
}

func (n *Node) ObserveAPI() *ObsAPI {
	o := &ObsAPI{Obs: Obs{Win: [][]uint64{}, VInfo: make([][]uint32, n.NVal), PKeys: []uint32{}, GKeys: []uint32{}}, Api: []uint32{0, 0, 0}}
	for i := range o.VInfo {
		o.VInfo[i] = []uint32{0, 0, 0}
	}
	a, b, c, err := n.Mod.API().GetBFTHeights(n.Store)
	if err != nil {
		o.ApiErr = "GetBFTHeights: " + err.Error()
		return o
	}
	o.Api = []uint32{a, b, c}
	d, err := liskbft.VerifDumpVotes(n.Store)
	if err != nil {
		o.ApiErr = "votes store: " + err.Error()
		return o
	}
	o.Mhpv, o.Mhpc, o.Cert = d.MaxHeightPrevoted, d.MaxHeightPrecommited, d.MaxHeightCertified
	for _, i := range d.Infos {
		o.Win = append(o.Win, []uint64{uint64(i.Height), uint64(ValOf(i.Generator)), uint64(i.MaxHeightGenerated),
			uint64(i.MaxHeightPrevoted), i.PrevoteWeight, i.PrecommitWeight})
	}
	for _, v := range d.Validators {
		id := ValOf(v.Address)
		if id < 1 || id > n.NVal {
			// not an identity of this world: an extra entry, so that the projection cannot equal any model state
			o.VInfo = append(o.VInfo, []uint32{1, v.MinActiveHeight, v.LargestHeightPrecommit})
			continue
		}
		o.VInfo[id-1] = []uint32{1, v.MinActiveHeight, v.LargestHeightPrecommit}
	}
	o.PKeys = append(o.PKeys, d.ParamsHeights...)
	o.GKeys = append(o.GKeys, d.GeneratorKeysHeights...)
	return o
}
