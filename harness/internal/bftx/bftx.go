// Package bftx drives the real liskbft.Module on an in-memory store and projects its state
// onto the abstract "votes" record of spec/LiskBFT.tla.
package bftx

import (
	"fmt"

	"github.com/LiskHQ/lisk-engine/pkg/blockchain"
	"github.com/LiskHQ/lisk-engine/pkg/consensus/liskbft"
	"github.com/LiskHQ/lisk-engine/pkg/db"
	"github.com/LiskHQ/lisk-engine/pkg/db/diffdb"
)

// Addr returns the 20-byte address of abstract validator v (1-based).
func Addr(v int) []byte {
	a := make([]byte, 20)
	a[0] = byte(v)
	a[19] = byte(v)
	return a
}

// ValOf inverts Addr (0 when unknown).
func ValOf(addr []byte) int {
	if len(addr) != 20 {
		return 0
	}
	return int(addr[0])
}

func BLSKey(v int) []byte {
	k := make([]byte, 48)
	k[0] = byte(v)
	k[47] = byte(v)
	return k
}

func GenKey(v int) []byte {
	k := make([]byte, 32)
	k[0] = byte(v)
	return k
}

// Node is a real liskbft.Module with a real diffdb over in-memory pebble.
type Node struct {
	Mod    *liskbft.Module
	DB     *db.DB
	Store  *diffdb.Database
	NVal   int
	PrevID []byte
}

var statePrefix = blockchain.DBPrefixToBytes(blockchain.DBPrefixState)

func NewNode(batch, nval int, genesisHeight uint32) (*Node, error) {
	d, err := db.NewInMemoryDB()
	if err != nil {
		return nil, err
	}
	m := liskbft.NewModule()
	if err := m.Init(batch); err != nil {
		return nil, err
	}
	n := &Node{Mod: m, DB: d, NVal: nval}
	n.Store = diffdb.New(d, statePrefix)
	g := &blockchain.BlockHeader{Version: 0, Height: genesisHeight, PreviousBlockID: make([]byte, 32),
		GeneratorAddress: make([]byte, 20), AggregateCommit: &blockchain.AggregateCommit{}}
	g.Init()
	n.PrevID = g.ID
	if err := m.InitGenesisState(g.Readonly(), n.Store); err != nil {
		return nil, err
	}
	return n, nil
}

func (n *Node) Close() { n.DB.Close() }

// Flush commits the staged store to the database and reopens a fresh staged store, as the
// engine does after every block (exercises the persisted encoding as well).
func (n *Node) Flush() {
	b := n.DB.NewBatch()
	n.Store.Commit(b)
	n.DB.Write(b)
	n.Store = diffdb.New(n.DB, statePrefix)
}

// SetParams calls API.SetBFTParameters and API.SetGeneratorKeys; w[i] is the weight of validator i+1.
func (n *Node) SetParams(pcT, certT uint64, w []uint64, gens []int) error {
	vals := liskbft.BFTValidators{}
	for i, wt := range w {
		if wt > 0 {
			vals = append(vals, liskbft.NewValidator(Addr(i+1), wt, BLSKey(i+1)))
		}
	}
	if err := n.Mod.API().SetBFTParameters(n.Store, pcT, certT, vals); err != nil {
		return err
	}
	if gens != nil {
		g := liskbft.Generators{}
		for _, v := range gens {
			g = append(g, liskbft.NewGenerator(Addr(v), GenKey(v)))
		}
		return n.Mod.API().SetGeneratorKeys(n.Store, g)
	}
	return nil
}

type Hdr struct {
	H, Gen, Mhg, Mhp uint32
	AcH              uint32
	AcNonEmpty       bool
}

func (n *Node) Header(h Hdr) *blockchain.BlockHeader {
	ac := &blockchain.AggregateCommit{Height: h.AcH, AggregationBits: []byte{}, CertificateSignature: []byte{}}
	if h.AcNonEmpty {
		ac.AggregationBits = []byte{1}
		ac.CertificateSignature = make([]byte, 96)
	}
	hdr := &blockchain.BlockHeader{Version: 2, Height: h.H, PreviousBlockID: n.PrevID, GeneratorAddress: Addr(int(h.Gen)),
		MaxHeightGenerated: h.Mhg, MaxHeightPrevoted: h.Mhp, AggregateCommit: ac, Timestamp: h.H * 10,
		Signature: make([]byte, 64)}
	hdr.Init()
	return hdr
}

func (n *Node) Contradicting(hdr *blockchain.BlockHeader) (bool, error) {
	return n.Mod.API().IsHeaderContradictingChain(n.Store, hdr.Readonly())
}

func (n *Node) Apply(hdr *blockchain.BlockHeader) error {
	if err := n.Mod.BeforeTransactionsExecute(hdr.Readonly(), n.Store); err != nil {
		return err
	}
	n.PrevID = hdr.ID
	return nil
}

// DumpDB returns a canonical text dump of all key/value pairs of the database.
func DumpDB(d *db.DB) string {
	s := ""
	for _, kv := range d.Iterate([]byte{}, -1, false) {
		s += fmt.Sprintf("%x=%x\n", kv.Key(), kv.Value())
	}
	return s
}

// Obs is the projection of the real BFT store onto the spec's votes record.
type Obs struct {
	Mhpv  uint32     `json:"mhpv"`
	Mhpc  uint32     `json:"mhpc"`
	Cert  uint32     `json:"cert"`
	Win   [][]uint64 `json:"win"`   // [h, gen, mhg, mhp, pv, pc] newest first
	VInfo [][]uint32 `json:"vinfo"` // per validator 1..N: [active, minActive, lhp]
	PKeys []uint32   `json:"pkeys"`
	GKeys []uint32   `json:"gkeys"`
}

func (n *Node) Observe() (*Obs, error) {
	d, err := liskbft.VerifDumpVotes(n.Store)
	if err != nil {
		return nil, err
	}
	a, b, c, err := n.Mod.API().GetBFTHeights(n.Store)
	if err != nil {
		return nil, err
	}
	if a != d.MaxHeightPrevoted || b != d.MaxHeightPrecommited || c != d.MaxHeightCertified {
		return nil, fmt.Errorf("GetBFTHeights disagrees with the stored votes")
	}
	o := &Obs{Mhpv: a, Mhpc: b, Cert: c, Win: [][]uint64{}, PKeys: []uint32{}, GKeys: []uint32{}}
	for _, i := range d.Infos {
		o.Win = append(o.Win, []uint64{uint64(i.Height), uint64(ValOf(i.Generator)), uint64(i.MaxHeightGenerated),
			uint64(i.MaxHeightPrevoted), i.PrevoteWeight, i.PrecommitWeight})
	}
	o.VInfo = make([][]uint32, n.NVal)
	for i := range o.VInfo {
		o.VInfo[i] = []uint32{0, 0, 0}
	}
	for _, v := range d.Validators {
		id := ValOf(v.Address)
		if id < 1 || id > n.NVal {
			return nil, fmt.Errorf("unknown validator in vote info")
		}
		o.VInfo[id-1] = []uint32{1, v.MinActiveHeight, v.LargestHeightPrecommit}
	}
	o.PKeys = append(o.PKeys, d.ParamsHeights...)
	o.GKeys = append(o.GKeys, d.GeneratorKeysHeights...)
	return o, nil
}
