// Package node runs the real consensus.Executer + blockchain.Chain + liskbft.Module on a pebble database
// against a small deterministic in-harness application ("toy ABI"), and concretises abstract block
// descriptions from spec/Node.tla into real signed blocks.
package node

import (
	"bytes"
	"context"
	"crypto/sha256"
	"encoding/binary"
	"fmt"
	"sort"
	"strings"
	"sync"
	"time"

	"github.com/LiskHQ/lisk-engine/pkg/blockchain"
	"github.com/LiskHQ/lisk-engine/pkg/codec"
	"github.com/LiskHQ/lisk-engine/pkg/consensus"
	"github.com/LiskHQ/lisk-engine/pkg/consensus/certificate"
	"github.com/LiskHQ/lisk-engine/pkg/consensus/validator"
	"github.com/LiskHQ/lisk-engine/pkg/crypto"
	"github.com/LiskHQ/lisk-engine/pkg/db"
	"github.com/LiskHQ/lisk-engine/pkg/db/diffdb"
	"github.com/LiskHQ/lisk-engine/pkg/labi"
	"github.com/LiskHQ/lisk-engine/pkg/log"
	"github.com/LiskHQ/lisk-engine/pkg/p2p"
	"github.com/LiskHQ/lisk-engine/pkg/trie/rmt"
)

var BlockTime = uint32(100000) // seconds per slot: real time stays mid-slot for the whole run (cmd/recv sets a few seconds: moving clock)

// tsOffset: seconds past the start of its slot at which a built block is stamped
func tsOffset() uint32 {
	if BlockTime/2 < 7 {
		return BlockTime / 2
	}
	return 7
}

type Val struct {
	ID      int
	Address []byte
	PubKey  []byte
	PrivKey []byte
	BLS     *crypto.BLSKeyPair
}

type ParamSet struct {
	PcT   uint64   `json:"pcT"`
	CertT uint64   `json:"certT"`
	W     []uint64 `json:"w"`
	Gens  []int    `json:"gens"`
}

type Config struct {
	NVal    int        `json:"nval"`
	Batch   int        `json:"batch"`
	Init    ParamSet   `json:"init"`
	Choices []ParamSet `json:"choices"`
	Now     int        `json:"now"` // slot in which real time lies
	MaxTxs  uint32     `json:"maxTxs"`
	Network bool       `json:"network"` // start the libp2p connection (needed when a block may be routed into sync)
	// AfterEvent (C15, optional, default off): the toy application also emits one event from AfterTransactionsExecute
	// (generation and validation), and Build covers it in the event root
	AfterEvent bool `json:"afterEvent,omitempty"`
	// CacheSize (C19, optional): blocks kept in the chain's block cache (0 = 515, the engine's default); a small value makes
	// lookups below the cache window go to the database
	CacheSize int `json:"cacheSize,omitempty"`
	// KeepEvents (C13, optional): blockchain.ChainConfig.KeepEventsForHeights; nil = -1 (events are never pruned: what
	// every check ran with before the field existed)
	KeepEvents *int `json:"keepEvents,omitempty"`
	// GenesisHeight (C04/C05, optional, default 0): height of the genesis block (a chain started from a snapshot). The
	// heights of a Cand and of Obs stay ABSTRACT (0 = genesis): Build adds the offset, Observe subtracts it.
	GenesisHeight uint32 `json:"genesisHeight,omitempty"`
	// NoBeforeEvent (C03, optional, default off): the toy application emits no "before" event: a block without
	// transactions has NO events at all (the event root of the empty list)
	NoBeforeEvent bool `json:"noBeforeEvent,omitempty"`
}

// ErrNetwork wraps a failure to start the libp2p connection (an environment problem, never a verdict about the engine).
var ErrNetwork = fmt.Errorf("network set-up failed")

var (
	vals   = map[int]*Val{}
	valsMu sync.Mutex
	// blsSigCache: certificate signing bytes + chain id + signer -> BLS signature (see AggregateCommit)
	blsSigCache sync.Map
)

// Validator returns the deterministic key material of abstract validator id (1-based).
func Validator(id int) *Val {
	valsMu.Lock()
	defer valsMu.Unlock()
	if v, ok := vals[id]; ok {
		return v
	}
	name := fmt.Sprintf("verif-validator-%d", id)
	pk, sk, err := crypto.GetKeys(name)
	if err != nil {
		panic(err)
	}
	h := sha256.Sum256([]byte(name))
	v := &Val{ID: id, Address: crypto.GetAddress(pk), PubKey: pk, PrivKey: sk, BLS: crypto.BLSKeyGen(h[:])}
	vals[id] = v
	return v
}

func (p ParamSet) Labi() []*labi.Validator {
	res := []*labi.Validator{}
	seen := map[int]bool{}
	for _, g := range p.Gens {
		v := Validator(g)
		seen[g] = true
		res = append(res, &labi.Validator{Address: v.Address, GeneratorKey: v.PubKey, BFTWeight: p.W[g-1], BLSKey: v.BLS.PublicKey})
	}
	for i, w := range p.W {
		if w > 0 && !seen[i+1] {
			v := Validator(i + 1)
			res = append(res, &labi.Validator{Address: v.Address, GeneratorKey: v.PubKey, BFTWeight: w, BLSKey: v.BLS.PublicKey})
		}
	}
	return res
}

func (p ParamSet) Hash() []byte {
	hv := []validator.HashValidator{}
	for i, w := range p.W {
		if w > 0 {
			hv = append(hv, validator.NewHashValidator(Validator(i+1).BLS.PublicKey, w))
		}
	}
	h, err := validator.ComputeValidatorsHash(hv, p.CertT)
	if err != nil {
		panic(err)
	}
	return h
}

// ---------------------------------------------------------------------------------------------- toy ABI

// Toy is a deterministic application: its state root is a hash chain over the executed blocks.
type Toy struct {
	// Lenient: the application does not check heights itself (probes of the engine's own height rules)
	Lenient bool
	cfg     *Config
	roots   [][]byte // roots[i] = state root after the block of height i
	cur     *blockchain.BlockHeader
	pending []byte
	Calls   []string
	FailAt  string // name of an ABI call that must fail (fault injection), "" = none
	Panic   bool   // panic instead of returning an error at FailAt
}

var GenesisRoot = crypto.Hash([]byte("toy-genesis-state"))

func NextRoot(prev []byte, height uint32, txs []*blockchain.Transaction, assets []*blockchain.BlockAsset) []byte {
	h := sha256.New()
	h.Write(prev)
	var b [4]byte
	binary.BigEndian.PutUint32(b[:], height)
	h.Write(b[:])
	for _, tx := range txs {
		h.Write(tx.ID)
	}
	for _, a := range assets {
		h.Write([]byte(a.Module))
		h.Write(a.Data)
	}
	return h.Sum(nil)
}

func (t *Toy) call(name string) error {
	t.Calls = append(t.Calls, name)
	if t.FailAt == name {
		if t.Panic {
			panic("toy: injected crash at " + name)
		}
		return fmt.Errorf("toy: injected failure at %s", name)
	}
	return nil
}

// Height: abstract height (0 = genesis) the application is at
func (t *Toy) Height() int { return len(t.roots) - 1 }

// rel: abstract height of a real block height
func (t *Toy) rel(h uint32) int {
	if t.cfg == nil {
		return int(h)
	}
	return int(h) - int(t.cfg.GenesisHeight)
}

func (t *Toy) Init(req *labi.InitRequest) (*labi.InitResponse, error) { return &labi.InitResponse{}, nil }
func (t *Toy) InitStateMachine(req *labi.InitStateMachineRequest) (*labi.InitStateMachineResponse, error) {
	if err := t.call("InitStateMachine"); err != nil {
		return nil, err
	}
	t.cur = req.Header
	t.pending = nil
	return &labi.InitStateMachineResponse{ContextID: []byte{1}}, nil
}
func (t *Toy) InitGenesisState(req *labi.InitGenesisStateRequest) (*labi.InitGenesisStateResponse, error) {
	return &labi.InitGenesisStateResponse{Events: []*blockchain.Event{}, PreCommitThreshold: t.cfg.Init.PcT,
		CertificateThreshold: t.cfg.Init.CertT, NextValidators: t.cfg.Init.Labi()}, nil
}
func (t *Toy) InsertAssets(req *labi.InsertAssetsRequest) (*labi.InsertAssetsResponse, error) {
	return &labi.InsertAssetsResponse{}, nil
}
func (t *Toy) VerifyAssets(req *labi.VerifyAssetsRequest) (*labi.VerifyAssetsResponse, error) {
	if err := t.call("VerifyAssets"); err != nil {
		return nil, err
	}
	return &labi.VerifyAssetsResponse{}, nil
}

// BlockEvents is what the toy application emits for a block (the builder derives the event root from it).
func BlockEvents(height uint32, txs []*blockchain.Transaction) []*blockchain.Event {
	return BlockEventsWith(height, txs, false)
}

// FailCommand: a transaction with this command executes with result Fail (it stays in the block, its event says "failed").
const FailCommand = "fail"

// AfterEvent is the event the toy application emits from AfterTransactionsExecute when Config.AfterEvent is set.
func AfterEvent(height uint32) *blockchain.Event {
	return blockchain.NewEventFromValues("toy", "after", []byte{2}, []codec.Hex{[]byte("after")}, height, 0)
}

// BlockEventsWith: BlockEvents, optionally followed by the event of the after-transactions hook.
func BlockEventsWith(height uint32, txs []*blockchain.Transaction, after bool) []*blockchain.Event {
	evs := blockchain.Events{}
	evs = append(evs, blockchain.NewEventFromValues("toy", "before", []byte{1}, []codec.Hex{[]byte("before")}, height, 0))
	for _, tx := range txs {
		evs = append(evs, blockchain.NewEventFromValues("toy", blockchain.EventNameDefault,
			blockchain.NewStandardTransactionEventData(tx.Command != FailCommand), []codec.Hex{tx.ID}, height, 0))
	}
	if after {
		evs = append(evs, AfterEvent(height))
	}
	evs.UpdateIndex()
	return evs
}

func (t *Toy) BeforeTransactionsExecute(req *labi.BeforeTransactionsExecuteRequest) (*labi.BeforeTransactionsExecuteResponse, error) {
	if err := t.call("BeforeTransactionsExecute"); err != nil {
		return nil, err
	}
	if t.cfg != nil && t.cfg.NoBeforeEvent {
		return &labi.BeforeTransactionsExecuteResponse{Events: []*blockchain.Event{}}, nil
	}
	return &labi.BeforeTransactionsExecuteResponse{Events: BlockEvents(t.cur.Height, nil)}, nil
}
func (t *Toy) AfterTransactionsExecute(req *labi.AfterTransactionsExecuteRequest) (*labi.AfterTransactionsExecuteResponse, error) {
	if err := t.call("AfterTransactionsExecute"); err != nil {
		return nil, err
	}
	resp := &labi.AfterTransactionsExecuteResponse{Events: []*blockchain.Event{}}
	if t.cfg != nil && t.cfg.AfterEvent {
		resp.Events = append(resp.Events, AfterEvent(t.cur.Height))
	}
	for _, a := range req.Assets {
		if a.Module == "toy" && len(a.Data) == 1 && a.Data[0] > 0 && int(a.Data[0]) <= len(t.cfg.Choices) {
			c := t.cfg.Choices[a.Data[0]-1]
			resp.PreCommitThreshold, resp.CertificateThreshold, resp.NextValidators = c.PcT, c.CertT, c.Labi()
		}
	}
	h := t.rel(t.cur.Height)
	if h >= 1 && h == len(t.roots) {
		t.pending = NextRoot(t.roots[h-1], t.cur.Height, req.Transactions, req.Assets)
	}
	if t.Lenient && len(t.roots) > 0 {
		t.pending = NextRoot(t.roots[len(t.roots)-1], t.cur.Height, req.Transactions, req.Assets)
	}
	return resp, nil
}
func (t *Toy) VerifyTransaction(req *labi.VerifyTransactionRequest) (*labi.VerifyTransactionResponse, error) {
	if req.Transaction.Command == "invalid" {
		return &labi.VerifyTransactionResponse{Result: labi.TxVerifyResultInvalid}, nil
	}
	return &labi.VerifyTransactionResponse{Result: labi.TxVerifyResultOk}, nil
}
func (t *Toy) ExecuteTransaction(req *labi.ExecuteTransactionRequest) (*labi.ExecuteTransactionResponse, error) {
	if req.Transaction.Command == FailCommand {
		// executed and failed: the transaction stays in the block, its event reports the failure
		ev := blockchain.NewEventFromValues("toy", blockchain.EventNameDefault, blockchain.NewStandardTransactionEventData(false),
			[]codec.Hex{req.Transaction.ID}, t.cur.Height, 0)
		return &labi.ExecuteTransactionResponse{Events: []*blockchain.Event{ev}, Result: labi.TxExecuteResultFail}, nil
	}
	ev := blockchain.NewEventFromValues("toy", blockchain.EventNameDefault, blockchain.NewStandardTransactionEventData(true),
		[]codec.Hex{req.Transaction.ID}, t.cur.Height, 0)
	return &labi.ExecuteTransactionResponse{Events: []*blockchain.Event{ev}, Result: labi.TxExecuteResultSuccess}, nil
}
func (t *Toy) Commit(req *labi.CommitRequest) (*labi.CommitResponse, error) {
	if err := t.call("Commit"); err != nil {
		return nil, err
	}
	h := t.rel(t.cur.Height)
	if h == 0 {
		t.roots = [][]byte{append([]byte{}, req.ExpectedStateRoot...)}
		return &labi.CommitResponse{StateRoot: req.ExpectedStateRoot}, nil
	}
	if t.Lenient {
		// an application that executes whatever the engine hands it: the engine's own rules are all there is
		if t.pending == nil || !bytes.Equal(req.ExpectedStateRoot, t.pending) {
			return nil, fmt.Errorf("toy: state root of the block does not match the execution result")
		}
		t.roots = append(t.roots, t.pending)
		return &labi.CommitResponse{StateRoot: req.ExpectedStateRoot}, nil
	}
	if h != len(t.roots) {
		return nil, fmt.Errorf("toy: commit for height %d but application is at height %d", h, len(t.roots)-1)
	}
	if !bytes.Equal(req.StateRoot, t.roots[h-1]) {
		return nil, fmt.Errorf("toy: previous state root mismatch")
	}
	if t.pending == nil || !bytes.Equal(req.ExpectedStateRoot, t.pending) {
		return nil, fmt.Errorf("toy: state root of the block does not match the execution result")
	}
	t.roots = append(t.roots, t.pending)
	return &labi.CommitResponse{StateRoot: req.ExpectedStateRoot}, nil
}
func (t *Toy) Revert(req *labi.RevertRequest) (*labi.RevertResponse, error) {
	if err := t.call("Revert"); err != nil {
		return nil, err
	}
	h := t.rel(t.cur.Height)
	if h != len(t.roots)-1 || h == 0 {
		return nil, fmt.Errorf("toy: revert of height %d but application is at height %d", h, len(t.roots)-1)
	}
	if !bytes.Equal(req.ExpectedStateRoot, t.roots[h-1]) {
		return nil, fmt.Errorf("toy: revert target root mismatch")
	}
	t.roots = t.roots[:h]
	return &labi.RevertResponse{StateRoot: req.ExpectedStateRoot}, nil
}
func (t *Toy) Clear(req *labi.ClearRequest) (*labi.ClearResponse, error) { return &labi.ClearResponse{}, nil }
func (t *Toy) Finalize(req *labi.FinalizeRequest) (*labi.FinalizeResponse, error) {
	return &labi.FinalizeResponse{}, nil
}
func (t *Toy) GetMetadata(req *labi.MetadataRequest) (*labi.MetadataResponse, error) {
	return &labi.MetadataResponse{}, nil
}
func (t *Toy) Query(req *labi.QueryRequest) (*labi.QueryResponse, error) { return &labi.QueryResponse{}, nil }
func (t *Toy) Prove(req *labi.ProveRequest) (*labi.ProveResponse, error) { return &labi.ProveResponse{}, nil }

// ---------------------------------------------------------------------------------------------- node

type Event struct {
	Kind string `json:"kind"`
	A    uint32 `json:"a"`
	B    uint32 `json:"b"`
}

type Node struct {
	stopped bool
	Cfg       *Config
	Ex        *consensus.Executer
	Chain     *blockchain.Chain
	DB        *db.DB
	Toy       *Toy
	ChainID   []byte
	GenesisTS uint32
	Genesis   *blockchain.Block
	Slot      *validator.BlockSlot
	Conn      *p2p.Connection
	evChs     []chan interface{}
	started   bool
}

func genesisBlock(cfg *Config, ts uint32) *blockchain.Block {
	eventRoot, err := blockchain.CalculateEventRoot([]*blockchain.Event{})
	if err != nil {
		panic(err)
	}
	g := &blockchain.Block{
		Header: &blockchain.BlockHeader{
			Version: 0, Timestamp: ts, Height: cfg.GenesisHeight, PreviousBlockID: make([]byte, 32), GeneratorAddress: make([]byte, 20),
			TransactionRoot: crypto.Hash([]byte{}), AssetRoot: blockchain.BlockAssets{}.GetRoot(), EventRoot: eventRoot,
			StateRoot: GenesisRoot, ValidatorsHash: cfg.Init.Hash(), AggregateCommit: &blockchain.AggregateCommit{
				AggregationBits: []byte{}, CertificateSignature: []byte{}}, Signature: []byte{},
		},
		Transactions: []*blockchain.Transaction{}, Assets: []*blockchain.BlockAsset{},
	}
	g.Init()
	return g
}

// New creates a node on database d (nil = fresh in-memory pebble). When d already holds a chain (restart) the
// application state is rebuilt from the stored headers.
func New(cfg *Config, d *db.DB, genesisTS uint32) (*Node, error) {
	if cfg.MaxTxs == 0 {
		cfg.MaxTxs = 15 * 1024
	}
	n := &Node{Cfg: cfg, ChainID: []byte{4, 0, 0, 7}}
	if genesisTS == 0 {
		genesisTS = uint32(time.Now().Unix()) - uint32(cfg.Now)*BlockTime - BlockTime/2
	}
	n.GenesisTS = genesisTS
	n.Slot = validator.NewBlockSlot(genesisTS, BlockTime)
	var err error
	if d == nil {
		if d, err = db.NewInMemoryDB(); err != nil {
			return nil, err
		}
	}
	n.DB = d
	n.Genesis = genesisBlock(cfg, genesisTS)
	n.Toy = &Toy{cfg: cfg}
	cacheSize := 515
	if cfg.CacheSize > 0 {
		cacheSize = cfg.CacheSize
	}
	keepEvents := -1
	if cfg.KeepEvents != nil {
		keepEvents = *cfg.KeepEvents
	}
	n.Chain = blockchain.NewChain(&blockchain.ChainConfig{ChainID: n.ChainID, MaxTransactionsLength: cfg.MaxTxs, MaxBlockCache: cacheSize, KeepEventsForHeights: keepEvents})
	n.Chain.Init(n.Genesis, d)
	logger, err := log.NewSilentLogger()
	if err != nil {
		return nil, err
	}
	n.Conn = p2p.NewConnection(logger, &p2p.Config{ChainID: n.ChainID, Addresses: []string{"/ip4/127.0.0.1/tcp/0"}})
	n.Ex = consensus.NewExecuter(&consensus.ExecuterConfig{CTX: context.Background(), ABI: n.Toy, Chain: n.Chain, Conn: n.Conn,
		BlockTime: BlockTime, BatchSize: cfg.Batch})
	// restart: rebuild the application state (the toy keeps it in memory) from the stored chain
	if _, err := n.Chain.DataAccess().GetBlockHeaderByHeight(cfg.GenesisHeight); err == nil {
		n.Toy.roots = [][]byte{GenesisRoot}
		for h := cfg.GenesisHeight + 1; ; h++ {
			hdr, err := n.Chain.DataAccess().GetBlockHeaderByHeight(h)
			if err != nil {
				break
			}
			n.Toy.roots = append(n.Toy.roots, hdr.StateRoot)
		}
	}
	if err := n.Ex.Init(&consensus.ExecuterInitParam{CTX: context.Background(), Logger: logger, Database: d, GenesisBlock: n.Genesis}); err != nil {
		return nil, err
	}
	if cfg.Network {
		// handlers are registered by Init; the connection must be started afterwards
		if err := n.Conn.Start(crypto.RandomBytes(32)); err != nil {
			return nil, fmt.Errorf("%w: %v", ErrNetwork, err)
		}
		n.started = true
	}
	n.evChs = nil
	for _, topic := range []string{consensus.EventBlockFinalize, consensus.EventBlockNew, consensus.EventValidatorsChange, consensus.EventBlockDelete} {
		ch := make(chan interface{}, 4096)
		n.evChs = append(n.evChs, ch)
		n.Ex.VerifEvents().On(topic, ch)
	}
	return n, nil
}

func (n *Node) Close() {
	n.StopExecuter()
	n.DB.Close()
}

// StopExecuter stops consensus and networking but leaves the database open (restart on the same database).
func (n *Node) StopExecuter() {
	if n.stopped {
		return
	}
	n.stopped = true
	n.Ex.Stop() //nolint
	if n.started {
		n.Conn.Stop() //nolint
		n.started = false
	}
}

// Drain returns the events published since the last call (grouped by topic). Every topic is attached to a
// buffered channel, so Publish never blocks and no receiver goroutine is needed.
func (n *Node) Drain() []Event {
	res := []Event{}
	for _, ch := range n.evChs {
		res = append(res, drainOne(ch)...)
	}
	return res
}

func drainOne(ch chan interface{}) []Event {
	res := []Event{}
	for {
		select {
		case m, ok := <-ch:
			if !ok {
				return res
			}
			switch v := m.(type) {
			case *consensus.EventBlockNewMessage:
				res = append(res, Event{"new", v.Block.Header.Height, 0})
			case *consensus.EventBlockDeleteMessage:
				res = append(res, Event{"delete", v.Block.Header.Height, 0})
			case *consensus.EventBlockFinalizeMessage:
				res = append(res, Event{"finalize", v.Original, v.Next})
			case *consensus.EventChangeValidator:
				res = append(res, Event{"validators", 0, 0})
			}
		default:
			return res
		}
	}
}

// ---------------------------------------------------------------------------------------------- blocks

// Cand is the abstract candidate of spec/Node.tla.
type Cand struct {
	Version int    `json:"version"`
	H       uint32 `json:"h"`
	Prev    string `json:"prev"`
	Slot    int    `json:"slot"`
	Gen     int    `json:"gen"`
	Signer  int    `json:"signer"`
	Sig     string `json:"sig"`
	Mhp     uint32 `json:"mhp"`
	Mhg     uint32 `json:"mhg"`
	Ac      struct {
		H       uint32 `json:"h"`
		Kind    string `json:"kind"`
		Signers []int  `json:"signers"`
	} `json:"ac"`
	TxRoot    string `json:"txRoot"`
	AssetRoot string `json:"assetRoot"`
	EventRoot string `json:"eventRoot"`
	StateRoot string `json:"stateRoot"`
	VHash     string `json:"vhash"`
	TxStatic  string `json:"txStatic"`
	Payload   string `json:"payload"`
	Chg       int    `json:"chg"`
	Ntx       int    `json:"ntx"`
	Mut       string `json:"mut"`
	// Asset (optional): the block carries an asset that is not a validator change
	Asset bool `json:"asset,omitempty"`
	// Ts (optional): where inside its slot the block is stamped: "" / "mid" (default), "last" / "first" second of the slot
	Ts string `json:"ts,omitempty"`
}

func (n *Node) Tip() *blockchain.Block { return n.Chain.LastBlock() }

// CurrentParams returns the parameter set in force for blocks above the current tip.
func (n *Node) CurrentParams() ParamSet {
	p := n.Cfg.Init
	tip := n.Tip().Header.Height
	for h := n.Cfg.GenesisHeight + 1; h <= tip; h++ {
		b, err := n.Chain.DataAccess().GetBlockByHeight(h)
		if err != nil {
			break
		}
		for _, a := range b.Assets {
			if a.Module == "toy" && len(a.Data) == 1 && a.Data[0] > 0 && int(a.Data[0]) <= len(n.Cfg.Choices) {
				p = n.Cfg.Choices[a.Data[0]-1]
			}
		}
	}
	return p
}

func bad(b []byte) []byte {
	c := append([]byte{}, b...)
	if len(c) == 0 {
		return []byte{1}
	}
	c[0] ^= 0xff
	return c
}

func toyTx(nonce uint64, command string, paramLen int) *blockchain.Transaction {
	v := Validator(1)
	tx := &blockchain.Transaction{Module: "toy", Command: command, Nonce: nonce, Fee: 1000, SenderPublicKey: v.PubKey,
		Params: bytes.Repeat([]byte{7}, paramLen), Signatures: []codec.Hex{bytes.Repeat([]byte{9}, 64)}}
	tx.Init()
	return tx
}

// AggregateCommit builds a real BLS aggregate commit for the node's own block at height h.
func (n *Node) AggregateCommit(h uint32, kind string, signers []int) *blockchain.AggregateCommit {
	if kind == "empty" {
		return &blockchain.AggregateCommit{Height: h, AggregationBits: []byte{}, CertificateSignature: []byte{}}
	}
	hdr, err := n.Chain.DataAccess().GetBlockHeaderByHeight(h)
	if err != nil || kind == "wrongblock" {
		// certificate of a block that is not the node's block at that height
		hdr = &blockchain.BlockHeader{Height: h, Timestamp: 12345, StateRoot: make([]byte, 32), ValidatorsHash: make([]byte, 32),
			PreviousBlockID: make([]byte, 32), GeneratorAddress: make([]byte, 20), AggregateCommit: &blockchain.AggregateCommit{}}
		hdr.Init()
	}
	cert := certificate.NewCertificateFromBlock(hdr)
	switch kind {
	case "wrong-vhash":
		cert.ValidatorsHash = crypto.Hash(append([]byte("other validators"), cert.ValidatorsHash...))
	case "wrong-stateroot":
		cert.StateRoot = crypto.Hash(append([]byte("other state"), cert.StateRoot...))
	case "wrong-timestamp":
		cert.Timestamp++
	}
	// validator keys of the parameter set at height h, ascending by BLS key (the order verification uses)
	p := n.ParamsAt(h)
	type kv struct {
		id  int
		key []byte
	}
	keys := []kv{}
	for i, w := range p.W {
		if w > 0 {
			keys = append(keys, kv{i + 1, Validator(i + 1).BLS.PublicKey})
		}
	}
	sort.Slice(keys, func(i, j int) bool { return bytes.Compare(keys[i].key, keys[j].key) < 0 })
	keyList := [][]byte{}
	for _, k := range keys {
		keyList = append(keyList, k.key)
	}
	pairs := []*crypto.BLSPublicKeySignaturePair{}
	chainID := n.ChainID
	if kind == "badsig" {
		chainID = []byte{9, 9, 9, 9}
	}
	for _, s := range signers {
		// BLS signatures are deterministic: one validator's signature of one certificate is computed once per process
		ck := fmt.Sprintf("%x/%x/%d/%d/%x/%x/%d", chainID, cert.BlockID, cert.Height, cert.Timestamp, cert.StateRoot, cert.ValidatorsHash, s)
		sig, ok := blsSigCache.Load(ck)
		if !ok {
			c := *cert
			c.Sign(chainID, Validator(s).BLS.PrivateKey)
			sig = append([]byte{}, c.Signature...)
			blsSigCache.Store(ck, sig)
		}
		pairs = append(pairs, &crypto.BLSPublicKeySignaturePair{PublicKey: Validator(s).BLS.PublicKey, Signature: sig.([]byte)})
	}
	if len(pairs) == 0 {
		return &blockchain.AggregateCommit{Height: h, AggregationBits: []byte{1}, CertificateSignature: []byte{}}
	}
	bits, sig := crypto.BLSCreateAggSig(keyList, pairs)
	ac := &blockchain.AggregateCommit{Height: h, AggregationBits: bits, CertificateSignature: sig}
	if kind == "halfempty" {
		ac.CertificateSignature = []byte{}
	}
	return ac
}

// ParamsAt: parameter set in force AT height h (set by a block below h).
func (n *Node) ParamsAt(h uint32) ParamSet {
	p := n.Cfg.Init
	for x := n.Cfg.GenesisHeight + 1; x < h; x++ {
		b, err := n.Chain.DataAccess().GetBlockByHeight(x)
		if err != nil {
			break
		}
		for _, a := range b.Assets {
			if a.Module == "toy" && len(a.Data) == 1 && a.Data[0] > 0 && int(a.Data[0]) <= len(n.Cfg.Choices) {
				p = n.Cfg.Choices[a.Data[0]-1]
			}
		}
	}
	return p
}

// Build concretises an abstract candidate on top of the current tip.
func (n *Node) Build(c *Cand) *blockchain.Block {
	if g := n.Cfg.GenesisHeight; g != 0 {
		// the candidate's heights are abstract (0 = genesis): from here on c carries the real ones
		cc := *c
		cc.H, cc.Mhp, cc.Ac.H = cc.H+g, cc.Mhp+g, cc.Ac.H+g
		if cc.Mhg > 0 {
			cc.Mhg += g
		}
		c = &cc
	}
	tip := n.Tip()
	if c.Prev == "parent" && tip.Header.Height > n.Cfg.GenesisHeight {
		// a competitor of the tip: built on the tip's parent
		if pb, err := n.Chain.DataAccess().GetBlockByHeight(tip.Header.Height - 1); err == nil {
			tip = pb
		}
	}
	prev := tip.Header.ID
	if c.Prev != "tip" && c.Prev != "parent" {
		prev = crypto.Hash([]byte("some other block"))
	}
	txs := n.buildTxs(c) // build_c03.go: c.Ntx transactions, a statically invalid one (c.TxStatic) LAST; c.Payload: size classes
	assets := blockchain.BlockAssets{}
	if c.Chg > 0 {
		assets = append(assets, &blockchain.BlockAsset{Module: "toy", Data: []byte{byte(c.Chg)}})
	}
	if c.Asset {
		// an asset that is no validator change (module names sorted: "toy" < "toz")
		assets = append(assets, &blockchain.BlockAsset{Module: "toz", Data: []byte{0xa5, byte(c.H), byte(c.Slot)}})
	}
	assets = append(assets, extraAssets(c)...) // c.AssetRoot "unsorted" / "duplicate": an invalid list under a matching root
	txIDs := [][]byte{}
	for _, tx := range txs {
		txIDs = append(txIDs, tx.ID)
	}
	current := n.ParamsAt(tip.Header.Height + 1)
	next := current
	if c.Chg > 0 {
		next = n.Cfg.Choices[c.Chg-1]
	}
	// c.EventRoot: "ok", "bad" (a flipped byte), "altered-*" (the root over truly different events); c.VHash: "ok", "bad",
	// "other-set" / "old" (the hash of another well-formed validator set); c.Ts: where inside the slot
	hdr := &blockchain.BlockHeader{
		Version: uint32(c.Version), Timestamp: n.timestamp(c), Height: c.H, PreviousBlockID: prev,
		GeneratorAddress: Validator(c.Gen).Address, TransactionRoot: rmt.CalculateRoot(txIDs), AssetRoot: assets.GetRoot(),
		EventRoot: eventRoot(c, n.blockEvents(c.H, txs)), StateRoot: NextRoot(tip.Header.StateRoot, c.H, txs, assets), MaxHeightPrevoted: c.Mhp, MaxHeightGenerated: c.Mhg,
		ImpliesMaxPrevotes: true, ValidatorsHash: n.validatorsHash(c, current, next), AggregateCommit: n.AggregateCommit(c.Ac.H, c.Ac.Kind, c.Ac.Signers),
	}
	// the flag LIP-0058 prescribes (the engine does not check it today; a valid block carries the right value anyway)
	hdr.ImpliesMaxPrevotes = n.impliesMaxPrevotes(hdr, c.Prev == "tip")
	if c.TxRoot == "bad" {
		hdr.TransactionRoot = bad(hdr.TransactionRoot)
	}
	if c.AssetRoot == "bad" {
		hdr.AssetRoot = bad(hdr.AssetRoot)
	}
	if c.StateRoot == "bad" {
		hdr.StateRoot = bad(hdr.StateRoot)
	}
	chainID := n.ChainID
	if c.Sig == "wrongchain" {
		chainID = []byte{1, 2, 3, 4}
	}
	hdr.Sign(chainID, Validator(c.Signer).PrivKey)
	switch c.Sig {
	case "stale":
		// a field is edited after signing
		hdr.ImpliesMaxPrevotes = !hdr.ImpliesMaxPrevotes
		hdr.Init()
	case "stale-mhg":
		// no other rule constrains this value: a header that claims nothing (maxHeightGenerated = height) casts no votes
		hdr.MaxHeightGenerated = hdr.Height
		if c.Mhg == c.H {
			hdr.MaxHeightGenerated = hdr.Height + 1
		}
		hdr.Init()
	case "stale-ts":
		hdr.Timestamp++ // same slot
		hdr.Init()
	case "stale-stateroot":
		// signed over a wrong state root, then the correct one put back: every root check passes
		good := hdr.StateRoot
		hdr.StateRoot = bad(good)
		hdr.Sign(chainID, Validator(c.Signer).PrivKey)
		hdr.StateRoot = good
		hdr.Init()
	case "stale-ac":
		// signed while carrying another aggregate commit (stripped / added afterwards)
		resignWithOtherAC(hdr, chainID, Validator(c.Signer).PrivKey)
	}
	return &blockchain.Block{Header: hdr, Transactions: txs, Assets: assets}
}

// ---------------------------------------------------------------------------------------------- observation

type Obs struct {
	TipH uint32   `json:"tipH"`
	Fin  uint32   `json:"fin"`
	Mhpv uint32   `json:"mhpv"`
	Mhpc uint32   `json:"mhpc"`
	Cert uint32   `json:"cert"`
	Temp []uint32 `json:"temp"`
}

func (n *Node) Observe() (*Obs, error) {
	o := &Obs{Temp: []uint32{}}
	o.TipH = n.Tip().Header.Height
	f, err := n.Chain.DataAccess().GetFinalizedHeight()
	if err != nil {
		return nil, err
	}
	o.Fin = f
	a, b, c, err := n.Ex.GetBFTHeights(n.Ex.VerifConsensusStore())
	if err != nil {
		return nil, err
	}
	o.Mhpv, o.Mhpc, o.Cert = a, b, c
	if g := n.Cfg.GenesisHeight; g != 0 {
		o.TipH, o.Fin, o.Mhpv, o.Mhpc, o.Cert = o.TipH-g, o.Fin-g, o.Mhpv-g, o.Mhpc-g, o.Cert-g
	}
	tb, err := n.Chain.DataAccess().GetTempBlocks()
	if err == nil {
		for _, x := range tb {
			o.Temp = append(o.Temp, x.Header.Height-n.Cfg.GenesisHeight)
		}
	}
	sort.Slice(o.Temp, func(i, j int) bool { return o.Temp[i] < o.Temp[j] })
	return o, nil
}

// Dump is the full sorted content of the node database (hex "key=value" lines).
func (n *Node) Dump() []string { return DumpDB(n.DB) }

// DumpDB is Dump for a database no node runs on (C13: what a crash left behind, before a restart touches it).
func DumpDB(d *db.DB) []string {
	res := []string{}
	for _, kv := range d.Iterate([]byte{}, -1, false) {
		if len(kv.Key()) > 0 && kv.Key()[0] == 51 {
			// state diff: the order of its entries follows Go map iteration; compare it as a set
			d := &diffdb.Diff{}
			if err := d.Decode(kv.Value()); err == nil {
				parts := []string{}
				for _, a := range d.Added {
					parts = append(parts, fmt.Sprintf("A:%x", a))
				}
				for _, u := range d.Updated {
					parts = append(parts, fmt.Sprintf("U:%x:%x", u.Key, u.Value))
				}
				for _, u := range d.Deleted {
					parts = append(parts, fmt.Sprintf("D:%x:%x", u.Key, u.Value))
				}
				sort.Strings(parts)
				res = append(res, fmt.Sprintf("%x=diff{%s}", kv.Key(), strings.Join(parts, ",")))
				continue
			}
		}
		res = append(res, fmt.Sprintf("%x=%x", kv.Key(), kv.Value()))
	}
	return res
}

// ---------------------------------------------------------------------------------------------- helpers for multi-node scenarios

// AutoCand returns the abstract description of a valid successor of the current tip in the given slot,
// computed from the real node state (generator by slot, current prevoted height, honest maxHeightGenerated).
func (n *Node) AutoCand(slot int, ntx int) (*Cand, error) {
	tip := n.Tip()
	h := tip.Header.Height + 1
	store := n.Ex.VerifConsensusStore()
	gens, err := n.Ex.GetGeneratorKeys(store, h)
	if err != nil {
		return nil, err
	}
	g := gens[slot%len(gens)]
	gen := 0
	for id := 1; id <= n.Cfg.NVal; id++ {
		if bytes.Equal(Validator(id).Address, g.Address()) {
			gen = id
		}
	}
	if gen == 0 {
		return nil, fmt.Errorf("generator of slot %d unknown", slot)
	}
	mhpv, _, cert, err := n.Ex.GetBFTHeights(store)
	if err != nil {
		return nil, err
	}
	mhg := uint32(0)
	for x := tip.Header.Height; x >= 1; x-- {
		hd, err := n.Chain.DataAccess().GetBlockHeaderByHeight(x)
		if err != nil {
			break
		}
		if bytes.Equal(hd.GeneratorAddress, g.Address()) {
			mhg = x
			break
		}
	}
	c := &Cand{Version: 2, H: h, Prev: "tip", Slot: slot, Gen: gen, Signer: gen, Sig: "ok", Mhp: mhpv, Mhg: mhg,
		TxRoot: "ok", AssetRoot: "ok", EventRoot: "ok", StateRoot: "ok", VHash: "ok", TxStatic: "ok", Payload: "ok", Ntx: ntx, Mut: "none"}
	c.Ac.H, c.Ac.Kind, c.Ac.Signers = cert, "empty", []int{}
	n.toAbstract(c)
	return c, nil
}

// CompetitorCand returns the abstract description of a valid competitor of the current tip (same height, same parent,
// same maxHeightPrevoted) generated in the given slot by that slot's generator - the block LIP-0014's tie break is about.
func (n *Node) CompetitorCand(slot int) (*Cand, error) {
	tip := n.Tip()
	if tip.Header.Height == 0 {
		return nil, fmt.Errorf("the genesis block has no competitor")
	}
	h := tip.Header.Height
	store := n.Ex.VerifConsensusStore()
	gens, err := n.Ex.GetGeneratorKeys(store, h)
	if err != nil {
		return nil, err
	}
	g := gens[slot%len(gens)]
	gen := 0
	for id := 1; id <= n.Cfg.NVal; id++ {
		if bytes.Equal(Validator(id).Address, g.Address()) {
			gen = id
		}
	}
	if gen == 0 {
		return nil, fmt.Errorf("generator of slot %d unknown", slot)
	}
	mhg := uint32(0)
	for x := h - 1; x >= 1; x-- {
		hd, err := n.Chain.DataAccess().GetBlockHeaderByHeight(x)
		if err != nil {
			break
		}
		if bytes.Equal(hd.GeneratorAddress, g.Address()) {
			mhg = x
			break
		}
	}
	c := &Cand{Version: 2, H: h, Prev: "parent", Slot: slot, Gen: gen, Signer: gen, Sig: "ok", Mhp: tip.Header.MaxHeightPrevoted, Mhg: mhg,
		TxRoot: "ok", AssetRoot: "ok", EventRoot: "ok", StateRoot: "ok", VHash: "ok", TxStatic: "ok", Payload: "ok", Ntx: 0, Mut: "none"}
	c.Ac.H, c.Ac.Kind, c.Ac.Signers = tip.Header.AggregateCommit.Height, "empty", []int{}
	n.toAbstract(c)
	return c, nil
}

// toAbstract: the heights of a candidate computed from the real node state become abstract ones (Build adds the offset again)
func (n *Node) toAbstract(c *Cand) {
	if g := n.Cfg.GenesisHeight; g != 0 {
		c.H, c.Mhp, c.Ac.H = c.H-g, c.Mhp-g, c.Ac.H-g
		if c.Mhg >= g {
			c.Mhg -= g
		}
	}
}

// Extend applies a valid block in the given slot and returns it.
func (n *Node) Extend(slot int, ntx int) (*blockchain.Block, error) {
	c, err := n.AutoCand(slot, ntx)
	if err != nil {
		return nil, err
	}
	b := n.Build(c)
	if err := n.Ex.VerifProcess(b, "12D3KooWverifpeer"); err != nil {
		return nil, err
	}
	if !bytes.Equal(n.Tip().Header.ID, b.Header.ID) {
		return nil, fmt.Errorf("valid block at height %d slot %d not accepted", c.H, slot)
	}
	return b, nil
}

// AddrInfo of the node's started connection.
func (n *Node) AddrInfo() (*p2p.AddrInfo, error) {
	addrs, err := n.Conn.MultiAddress()
	if err != nil || len(addrs) == 0 {
		return nil, fmt.Errorf("no listen address: %v", err)
	}
	return p2p.AddrInfoFromMultiAddr(addrs[0])
}
