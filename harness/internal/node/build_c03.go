package node

// Helpers of Build for the candidate shapes of spec/Node.tla that C03 added: every static rule of a transaction on its
// own (the malformed transaction is the LAST of the payload), asset lists that are not sorted / not unique, payloads of
// exactly the maximal size and one byte more, event roots over truly different events, hashes of other well-formed
// validator sets, timestamps at the second-resolution boundaries of a slot, the ImpliesMaxPrevotes flag LIP-0058
// prescribes, and an aggregate commit swapped after signing.

import (
	"bytes"
	"crypto/sha256"
	"fmt"
	"sync"

	"github.com/LiskHQ/lisk-engine/pkg/blockchain"
	"github.com/LiskHQ/lisk-engine/pkg/codec"
	"github.com/LiskHQ/lisk-engine/pkg/crypto"
)

var eventRootCache sync.Map // encoded event list -> event root

// badTx returns a transaction that violates exactly one static rule of Transaction.Validate (kind = Cand.TxStatic).
func badTx(nonce uint64, kind string) *blockchain.Transaction {
	tx := toyTx(nonce, "ok", 10)
	switch kind {
	case "bad-command":
		tx.Command = "not alphanumeric!"
	case "bad-params-size":
		tx.Params = bytes.Repeat([]byte{7}, blockchain.MaxTransactionParamsSize+1)
	case "bad-sender-len":
		tx.SenderPublicKey = tx.SenderPublicKey[:len(tx.SenderPublicKey)-1]
	case "no-sigs":
		tx.Signatures = []codec.Hex{}
	case "short-sig":
		tx.Signatures = []codec.Hex{bytes.Repeat([]byte{9}, 63)}
	default: // "bad": the module name
		tx.Module = "toy module!"
	}
	tx.Init()
	return tx
}

// exactPayload returns valid transactions whose sizes add up to exactly target bytes.
func exactPayload(nonce uint64, target int) []*blockchain.Transaction {
	txs := []*blockchain.Transaction{}
	remaining := target
	minSize := toyTx(nonce, "ok", 0).Size()
	for {
		big := toyTx(nonce+uint64(len(txs)), "ok", 14000)
		if remaining-big.Size() < minSize+300 {
			break
		}
		txs = append(txs, big)
		remaining -= big.Size()
	}
	// the last transaction takes what is left: its size is overhead + length prefix + params
	for p := remaining - minSize; p >= 0 && p >= remaining-minSize-8; p-- {
		if p > blockchain.MaxTransactionParamsSize {
			continue
		}
		tx := toyTx(nonce+uint64(len(txs)), "ok", p)
		if tx.Size() == remaining {
			return append(txs, tx)
		}
	}
	panic(fmt.Sprintf("harness: no payload of exactly %d bytes", target))
}

// buildTxs: the payload of a candidate.
func (n *Node) buildTxs(c *Cand) []*blockchain.Transaction {
	switch c.Payload {
	case "max":
		return exactPayload(uint64(c.H)*10, int(n.Cfg.MaxTxs))
	case "max+1":
		return exactPayload(uint64(c.H)*10, int(n.Cfg.MaxTxs)+1)
	}
	txs := []*blockchain.Transaction{}
	for i := 0; i < c.Ntx; i++ {
		switch {
		case c.TxStatic != "" && c.TxStatic != "ok" && i == c.Ntx-1:
			txs = append(txs, badTx(uint64(c.H)*10+uint64(i), c.TxStatic))
		case c.Payload == "toolarge" && i == 0:
			// two transactions whose total size exceeds MaxTransactionsLength (each params <= 14 KiB)
			txs = append(txs, toyTx(uint64(c.H)*10, "ok", int(n.Cfg.MaxTxs)/2+200), toyTx(uint64(c.H)*10+1, "ok", int(n.Cfg.MaxTxs)/2+200))
		case c.Payload == "big":
			// a valid block with a payload of megabytes (needs a node configured with a large MaxTransactionsLength)
			txs = append(txs, toyTx(uint64(c.H)*1000+uint64(i), "ok", 14000))
		default:
			txs = append(txs, toyTx(uint64(c.H)*10+uint64(i), "ok", 10))
		}
	}
	return txs
}

// extraAssets: asset lists BlockAssets.Valid() rejects although the asset root of the header covers them.
func extraAssets(c *Cand) []*blockchain.BlockAsset {
	switch c.AssetRoot {
	case "unsorted":
		return []*blockchain.BlockAsset{{Module: "zz", Data: []byte{1}}, {Module: "aa", Data: []byte{2}}}
	case "duplicate":
		return []*blockchain.BlockAsset{{Module: "zz", Data: []byte{1}}, {Module: "zz", Data: []byte{2}}}
	}
	return nil
}

// blockEvents is what the toy application of THIS node emits for a block.
func (n *Node) blockEvents(height uint32, txs []*blockchain.Transaction) blockchain.Events {
	evs := blockchain.Events(BlockEventsWith(height, txs, n.Cfg.AfterEvent))
	if n.Cfg.NoBeforeEvent {
		evs = evs[1:]
		evs.UpdateIndex()
	}
	return evs
}

// eventRoot: the root over the true events, or ("altered-data" / "altered-topic") over the same events with one data byte
// / one topic of the last event changed, or ("bad") the true root with a byte flipped.
func eventRoot(c *Cand, evs blockchain.Events) []byte {
	list := append(blockchain.Events{}, evs...)
	if len(list) > 0 && (c.EventRoot == "altered-data" || c.EventRoot == "altered-topic") {
		e := *list[len(list)-1]
		if c.EventRoot == "altered-data" {
			e.Data = bad(e.Data)
		} else {
			topics := append([]codec.Hex{}, e.Topics...)
			topics[0] = crypto.Hash(topics[0])
			e.Topics = topics
		}
		e.UpdateID()
		list[len(list)-1] = &e
	}
	// the root is a function of the encoded events (CalculateEventRoot opens a database of its own each time)
	kh := sha256.New()
	for _, e := range list {
		kh.Write(e.Encode())
		kh.Write([]byte{0xff})
	}
	key := string(kh.Sum(nil))
	var root []byte
	if v, ok := eventRootCache.Load(key); ok {
		root = append([]byte{}, v.([]byte)...)
	} else {
		r, err := blockchain.CalculateEventRoot(list)
		if err != nil {
			panic(err)
		}
		eventRootCache.Store(key, append([]byte{}, r...))
		root = r
	}
	if c.EventRoot == "bad" || (len(list) == 0 && c.EventRoot != "ok" && c.EventRoot != "") {
		return bad(root)
	}
	return root
}

// validatorsHash: the hash the block must carry (of `next`), or the hash of ANOTHER well-formed set: "other-set" = a
// parameter choice the block does not switch to, "old" = the set in force before the block's own change.
func (n *Node) validatorsHash(c *Cand, current, next ParamSet) []byte {
	good := next.Hash()
	switch c.VHash {
	case "bad":
		return bad(good)
	case "other-set":
		for _, ch := range n.Cfg.Choices {
			if h := ch.Hash(); !bytes.Equal(h, good) {
				return h
			}
		}
		return bad(good)
	case "old":
		if h := current.Hash(); !bytes.Equal(h, good) {
			return h
		}
		return bad(good)
	}
	return good
}

// timestamp of a block of the given slot: mid-slot by default, Cand.Ts = "last" / "first": the last / first second of it.
func (n *Node) timestamp(c *Cand) uint32 {
	switch c.Ts {
	case "last":
		return n.Slot.GetSlotTime(c.Slot+1) - 1
	case "first":
		return n.Slot.GetSlotTime(c.Slot)
	}
	return n.Slot.GetSlotTime(c.Slot) + tsOffset()
}

// impliesMaxPrevotes: the value LIP-0058 prescribes for the header. For a successor of the tip it is computed by the
// engine's own API on a scratch (never committed) copy of the consensus store to which the header was applied; for
// other candidates (competitors of the tip, mutants the BFT module refuses) by the same rule on the stored headers.
func (n *Node) impliesMaxPrevotes(hdr *blockchain.BlockHeader, onTip bool) (res bool) {
	defer func() {
		if e := recover(); e != nil {
			res = n.impliesByRule(hdr)
		}
	}()
	if onTip {
		store := n.Ex.VerifConsensusStore()
		if err := n.Ex.VerifLiskBFT().BeforeTransactionsExecute(hdr.Readonly(), store); err == nil {
			if v, err := n.Ex.ImpliesMaximalPrevotes(store, hdr.Readonly()); err == nil {
				return v
			}
		}
	}
	return n.impliesByRule(hdr)
}

func (n *Node) impliesByRule(hdr *blockchain.BlockHeader) bool {
	if hdr.MaxHeightGenerated >= hdr.Height {
		return false
	}
	if hdr.MaxHeightGenerated+1 == hdr.Height || hdr.Height-hdr.MaxHeightGenerated-1 >= uint32(3*n.Cfg.Batch) {
		return true
	}
	prev, err := n.Chain.DataAccess().GetBlockHeaderByHeight(hdr.MaxHeightGenerated + 1)
	if err != nil {
		return true
	}
	return bytes.Equal(prev.GeneratorAddress, hdr.GeneratorAddress)
}

// resignWithOtherAC: the header is signed while it carries a DIFFERENT aggregate commit (an empty one if it has a
// certificate, a non-empty one if it has none), then the original is put back: the signature is stale only with
// respect to the aggregate commit.
func resignWithOtherAC(hdr *blockchain.BlockHeader, chainID, privKey []byte) {
	y := hdr.AggregateCommit
	if y.Empty() {
		hdr.AggregateCommit = &blockchain.AggregateCommit{Height: y.Height, AggregationBits: []byte{1}, CertificateSignature: bytes.Repeat([]byte{7}, 96)}
	} else {
		hdr.AggregateCommit = &blockchain.AggregateCommit{Height: y.Height, AggregationBits: []byte{}, CertificateSignature: []byte{}}
	}
	hdr.Sign(chainID, privKey)
	hdr.AggregateCommit = y
	hdr.Init()
}
