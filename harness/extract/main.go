// Command extract reads the CURRENT sources under $VERIF_REPO (default /repo) with go/ast and prints, as
// JSON, the lock program of every method of the types anchored by property C20: the sequence of
// Lock/RLock/Unlock/RUnlock sites, accesses to receiver fields and to local variables captured by goroutines
// (Read/Write, ARead/AWrite for `x = append(x, ..)`, SlotWrite for `x[i] = ..`), channel Send/Close and Call
// of opaque collaborators.  For synchronisation objects that are LOCAL to the function (declared in its body):
// sync.WaitGroup Add/Done/Wait become WgAddN (added by the spawning function: one per child) / WgAdd1 (added inside
// the goroutine itself) / WgDone / WgWait, `for .. range ch` becomes RecvLoop and `<-ch` Recv on channels made with
// make(chan T); a send into a channel made with a capacity is an opaque step.  Calls to methods whose body is in the same package are inlined (so a nested RLock
// taken through a helper is visible); goroutines started by `go func` / `<group>.Go(func)` become child
// programs "<name>$go<i>".  Control flow is linearised (every statement in source order, deferred calls at
// the end).  Whatever cannot be followed is listed under "unknown" of that program - the check then reports
// INCONCLUSIVE for the scenarios using it, never a violation.
package main

import (
	"encoding/json"
	"fmt"
	"go/ast"
	"go/parser"
	"go/token"
	"os"
	"path/filepath"
	"sort"
	"strings"
)

type Op struct {
	Op   string `json:"op"`
	Obj  string `json:"obj"`
	Line int    `json:"line,omitempty"`
	Fn   string `json:"fn,omitempty"` // function whose body contains the site (differs from the program name for inlined callees)
}

type Prog struct {
	File    string   `json:"file"`
	Line    int      `json:"line"`
	Ops     []Op     `json:"ops"`
	Unknown []string `json:"unknown"`
	Multi   bool     `json:"multi,omitempty"` // child program started inside a loop (several concurrent instances)
}

// only plain accesses are merged when repeated back to back; lock operations never are (a nested RLock must stay visible)
var dedupable = map[string]bool{"Read": true, "Write": true, "Call": true}

type target struct {
	dir, typ string
	methods  []string // nil = every method of the type
}

var targets = []target{
	{"pkg/blockchain", "blockCache", nil},
	{"pkg/blockchain", "DataAccess", []string{"CachedLastBlock", "Cache", "RemoveCache", "Cached", "GetBlockHeader", "GetBlockHeaderByHeight",
		"GetLastBlock", "GetBlock", "GetBlockByHeight", "GetBlockHeaders", "GetBlockHeadersByHeights", "GetTransactions", "GetBlocksBetweenHeight"}},
	{"pkg/blockchain", "Chain", []string{"LastBlock"}},
	{"pkg/consensus/certificate", "Pool", nil},
	{"pkg/event", "EventEmitter", nil},
	{"pkg/db/diffdb", "Database", nil},
	{"pkg/consensus/sync", "blockSyncer", []string{"Sync"}},
	// the P2P handlers that serve chain data while the consensus goroutine changes the chain (the returned closure is inlined)
	{"pkg/consensus/sync", "Syncer", []string{"HandleRPCEndpointGetLastBlock", "HandleRPCEndpointGetHighestCommonBlock", "HandleRPCEndpointGetBlocksFromID"}},
}

type pkgInfo struct {
	fset    *token.FileSet
	fields  map[string]map[string]string // struct type -> field -> type name ("" = not a type of this package)
	embeds  map[string][]string
	isStruc map[string]bool
	methods map[string]map[string]*ast.FuncDecl
	file    map[*ast.FuncDecl]string
}

func typeName(e ast.Expr) string {
	switch t := e.(type) {
	case *ast.StarExpr:
		return typeName(t.X)
	case *ast.Ident:
		return t.Name
	case *ast.SelectorExpr:
		return exprText(t.X) + "." + t.Sel.Name
	}
	return ""
}

func exprText(e ast.Expr) string {
	switch t := e.(type) {
	case *ast.Ident:
		return t.Name
	case *ast.SelectorExpr:
		return exprText(t.X) + "." + t.Sel.Name
	case *ast.StarExpr:
		return exprText(t.X)
	case *ast.ParenExpr:
		return exprText(t.X)
	case *ast.IndexExpr:
		return exprText(t.X) + "[]"
	case *ast.CallExpr:
		return exprText(t.Fun) + "()"
	}
	return "?"
}

func load(root, dir string) (*pkgInfo, error) {
	p := &pkgInfo{fset: token.NewFileSet(), fields: map[string]map[string]string{}, embeds: map[string][]string{}, isStruc: map[string]bool{},
		methods: map[string]map[string]*ast.FuncDecl{}, file: map[*ast.FuncDecl]string{}}
	names, err := filepath.Glob(filepath.Join(root, dir, "*.go"))
	if err != nil || len(names) == 0 {
		return nil, fmt.Errorf("no sources in %s", dir)
	}
	for _, fn := range names {
		if strings.HasSuffix(fn, "_test.go") || strings.HasSuffix(fn, "_verif.go") || strings.Contains(filepath.Base(fn), "hooks_o") {
			continue
		}
		f, err := parser.ParseFile(p.fset, fn, nil, 0)
		if err != nil {
			return nil, err
		}
		for _, d := range f.Decls {
			switch x := d.(type) {
			case *ast.GenDecl:
				for _, s := range x.Specs {
					ts, ok := s.(*ast.TypeSpec)
					if !ok {
						continue
					}
					p.fields[ts.Name.Name] = map[string]string{}
					if st, ok := ts.Type.(*ast.StructType); ok {
						p.isStruc[ts.Name.Name] = true
						for _, fl := range st.Fields.List {
							if len(fl.Names) == 0 {
								p.embeds[ts.Name.Name] = append(p.embeds[ts.Name.Name], typeName(fl.Type))
							}
							for _, n := range fl.Names {
								p.fields[ts.Name.Name][n.Name] = typeName(fl.Type)
							}
						}
					}
				}
			case *ast.FuncDecl:
				if x.Recv != nil && len(x.Recv.List) == 1 && x.Body != nil {
					t := typeName(x.Recv.List[0].Type)
					if p.methods[t] == nil {
						p.methods[t] = map[string]*ast.FuncDecl{}
					}
					p.methods[t][x.Name.Name] = x
					rel, _ := filepath.Rel(root, fn)
					p.file[x] = rel
				}
			}
		}
	}
	return p, nil
}

// lookup finds method m of type t or of a type embedded in t.
func (p *pkgInfo) lookup(t, m string) (*ast.FuncDecl, string) {
	if fd := p.methods[t][m]; fd != nil {
		return fd, t
	}
	for _, e := range p.embeds[t] {
		if fd, et := p.lookup(e, m); fd != nil {
			return fd, et
		}
	}
	return nil, ""
}

type extractor struct {
	p     *pkgInfo
	progs map[string]*Prog
}

// frame = one (possibly inlined) function body being walked
type frame struct {
	x        *extractor
	prog     *Prog
	name     string // program name (for child naming and local variable names)
	recv     string // receiver identifier
	typ      string // receiver type
	fn       string // Type.method of this frame
	depth    int
	defers   [][]Op
	pending  int             // locks taken in this frame not yet released explicitly or by a registered defer
	shared   map[string]bool // local variables assigned inside goroutine closures of the root function
	closures []*ast.FuncLit  // enclosing goroutine closures
	loop     int
	nchild   *int
	last     ast.Stmt // final statement of the function body
	child    bool              // this frame is the body of a goroutine closure
	locals   map[string]string // local synchronisation objects of the root function: name -> "wg" | "chan" | "bufchan"
}

func (f *frame) emit(op, obj string, pos token.Pos) {
	o := Op{op, obj, f.x.p.fset.Position(pos).Line, f.fn}
	if n := len(f.prog.Ops); n > 0 && f.prog.Ops[n-1].Op == op && f.prog.Ops[n-1].Obj == obj && dedupable[op] {
		return
	}
	f.prog.Ops = append(f.prog.Ops, o)
}

func (f *frame) unknown(format string, a ...interface{}) {
	f.prog.Unknown = append(f.prog.Unknown, fmt.Sprintf(format, a...))
}

// fieldOf: e is `recv.f` -> ("T.f", "f")
func (f *frame) fieldOf(e ast.Expr) (string, string) {
	if se, ok := e.(*ast.SelectorExpr); ok {
		if id, ok := se.X.(*ast.Ident); ok && id.Name == f.recv && f.recv != "" {
			return f.typ + "." + se.Sel.Name, se.Sel.Name
		}
	}
	return "", ""
}

func (f *frame) isMutexField(field string) bool {
	return strings.Contains(f.x.p.fields[f.typ][field], "Mutex")
}

// sharedLocal: identifier of a variable declared outside the innermost goroutine closure and assigned inside one
func (f *frame) sharedLocal(e ast.Expr) string {
	id, ok := e.(*ast.Ident)
	if !ok || id.Obj == nil || !f.shared[id.Name] {
		return ""
	}
	return "local:" + f.name + "." + id.Name
}

func (f *frame) varOf(e ast.Expr) string {
	if v, fl := f.fieldOf(e); v != "" && !f.isMutexField(fl) {
		return v
	}
	return f.sharedLocal(e)
}

// base strips index/selector/star down to `recv.f` or a shared local: the variable an lvalue belongs to
func (f *frame) base(e ast.Expr) (string, bool) {
	indexed := false
	if se, ok := e.(*ast.SelectorExpr); ok { // recv.f.g where f has a struct type of this package: the variable is FT.g
		if _, fl := f.fieldOf(se.X); fl != "" && f.x.p.isStruc[f.x.p.fields[f.typ][fl]] {
			return f.x.p.fields[f.typ][fl] + "." + se.Sel.Name, false
		}
	}
	for {
		if v := f.varOf(e); v != "" {
			return v, indexed
		}
		switch t := e.(type) {
		case *ast.IndexExpr:
			e, indexed = t.X, true
		case *ast.SelectorExpr:
			e, indexed = t.X, true
		case *ast.StarExpr:
			e = t.X
		case *ast.ParenExpr:
			e = t.X
		default:
			return "", false
		}
	}
}

// scanLocals finds the synchronisation objects declared inside a function body (closures included): sync.WaitGroup
// variables and channels made with make(chan T) ("chan") or make(chan T, n) ("bufchan").
func scanLocals(body *ast.BlockStmt) map[string]string {
	res := map[string]string{}
	isWG := func(e ast.Expr) bool {
		se, ok := e.(*ast.SelectorExpr)
		return ok && exprText(se.X) == "sync" && se.Sel.Name == "WaitGroup"
	}
	kind := func(e ast.Expr) string {
		switch v := e.(type) {
		case *ast.CompositeLit:
			if isWG(v.Type) {
				return "wg"
			}
		case *ast.UnaryExpr:
			if cl, ok := v.X.(*ast.CompositeLit); ok && v.Op == token.AND && isWG(cl.Type) {
				return "wg"
			}
		case *ast.CallExpr:
			id, ok := v.Fun.(*ast.Ident)
			if !ok || len(v.Args) == 0 {
				return ""
			}
			if id.Name == "new" && isWG(v.Args[0]) {
				return "wg"
			}
			if _, isChan := v.Args[0].(*ast.ChanType); isChan && id.Name == "make" {
				if len(v.Args) > 1 {
					return "bufchan"
				}
				return "chan"
			}
		}
		return ""
	}
	if body == nil {
		return res
	}
	ast.Inspect(body, func(n ast.Node) bool {
		switch s := n.(type) {
		case *ast.ValueSpec:
			for i, nm := range s.Names {
				if s.Type != nil && isWG(s.Type) {
					res[nm.Name] = "wg"
				} else if i < len(s.Values) {
					if k := kind(s.Values[i]); k != "" {
						res[nm.Name] = k
					}
				}
			}
		case *ast.AssignStmt:
			if len(s.Lhs) == len(s.Rhs) {
				for i, l := range s.Lhs {
					if id, ok := l.(*ast.Ident); ok {
						if k := kind(s.Rhs[i]); k != "" {
							res[id.Name] = k
						}
					}
				}
			}
		}
		return true
	})
	return res
}

func lockOp(call *ast.CallExpr) (string, ast.Expr) {
	se, ok := call.Fun.(*ast.SelectorExpr)
	if !ok || len(call.Args) != 0 {
		return "", nil
	}
	op, x := se.Sel.Name, se.X
	if op != "Lock" && op != "Unlock" && op != "RLock" && op != "RUnlock" {
		return "", nil
	}
	if inner, ok := x.(*ast.CallExpr); ok {
		if is, ok := inner.Fun.(*ast.SelectorExpr); ok && is.Sel.Name == "RLocker" && (op == "Lock" || op == "Unlock") {
			return "R" + op, is.X
		}
		return "", nil
	}
	return op, x
}

func (f *frame) mutexName(e ast.Expr) string {
	if v, _ := f.fieldOf(e); v != "" {
		return v
	}
	if id, ok := e.(*ast.Ident); ok {
		return "local:" + f.name + "." + id.Name
	}
	return "expr:" + exprText(e)
}

func (f *frame) call(c *ast.CallExpr, deferred bool) {
	if op, mx := lockOp(c); op != "" {
		if strings.HasSuffix(op, "Unlock") {
			f.pending--
		} else {
			f.pending++
		}
		f.emit(op, f.mutexName(mx), c.Pos())
		return
	}
	for _, a := range c.Args {
		if _, isLit := a.(*ast.FuncLit); !isLit {
			f.expr(a)
		}
	}
	switch fn := c.Fun.(type) {
	case *ast.Ident:
		switch fn.Name {
		case "delete":
			if v, _ := f.base(c.Args[0]); v != "" {
				f.emit("Write", v, c.Pos())
			}
		case "close":
			f.emit("Close", "chan:"+exprText(c.Args[0]), c.Pos())
		}
	case *ast.SelectorExpr:
		m := fn.Sel.Name
		if id, ok := fn.X.(*ast.Ident); ok && f.locals[id.Name] == "wg" {
			obj := "wg:" + f.name + "." + id.Name
			switch m {
			case "Add":
				if f.child {
					f.emit("WgAdd1", obj, c.Pos()) // registered by the goroutine itself: a Wait may run before it
				} else {
					f.emit("WgAddN", obj, c.Pos()) // registered by the spawning function: one per child
				}
			case "Done":
				f.emit("WgDone", obj, c.Pos())
			case "Wait":
				f.emit("WgWait", obj, c.Pos())
			}
			return
		}
		isGo := false
		for _, a := range c.Args {
			if lit, ok := a.(*ast.FuncLit); ok && m == "Go" {
				f.spawn(lit, c.Pos())
				isGo = true
			}
		}
		if isGo {
			return
		}
		if id, ok := fn.X.(*ast.Ident); ok && id.Name == f.recv && f.recv != "" { // recv.m(..)
			if fd, t := f.x.p.lookup(f.typ, m); fd != nil {
				f.inline(fd, t, c)
			} else if _, isField := f.x.p.fields[f.typ][m]; isField {
				f.emit("Call", f.typ+"."+m, c.Pos()) // function-valued field
			} else {
				f.unknown("call of %s.%s not resolved (line %d)", f.typ, m, f.x.p.fset.Position(c.Pos()).Line)
			}
		} else if v, fl := f.fieldOf(fn.X); v != "" { // recv.f.m(..)
			ft := f.x.p.fields[f.typ][fl]
			if fd, t := f.x.p.lookup(ft, m); fd != nil {
				f.emit("Read", v, c.Pos())
				if t != ft {
					f.emit("Read", ft+"."+t, c.Pos()) // method promoted from an embedded field
				}
				if _, ptr := fd.Recv.List[0].Type.(*ast.StarExpr); ptr && !f.x.p.isStruc[t] {
					f.emit("Write", v, c.Pos()) // pointer method on a named slice/map field may replace it
				}
				f.inline(fd, t, c)
			} else {
				f.emit("Call", v+"."+m, c.Pos()) // collaborator without a body in this package: opaque, assumed thread-safe
			}
		} else {
			f.expr(fn.X)
		}
	default:
		f.expr(c.Fun)
	}
	for _, a := range c.Args { // synchronous callbacks (sort.Slice less, ..) run inside the call
		if lit, ok := a.(*ast.FuncLit); ok {
			f.stmts(lit.Body.List)
		}
	}
}

func (f *frame) inline(fd *ast.FuncDecl, typ string, at *ast.CallExpr) {
	if f.depth >= 8 {
		f.unknown("inlining depth exceeded at %s.%s (recursion?)", typ, fd.Name.Name)
		return
	}
	recv := ""
	if len(fd.Recv.List[0].Names) == 1 {
		recv = fd.Recv.List[0].Names[0].Name
	}
	g := &frame{x: f.x, prog: f.prog, name: f.name, recv: recv, typ: typ, fn: typ + "." + fd.Name.Name, depth: f.depth + 1, shared: map[string]bool{}, nchild: f.nchild, loop: f.loop,
		child: f.child, locals: scanLocals(fd.Body)}
	g.body(fd.Body)
}

func (f *frame) body(b *ast.BlockStmt) {
	if n := len(b.List); n > 0 {
		f.last = b.List[n-1]
	}
	f.stmts(b.List)
	for i := len(f.defers) - 1; i >= 0; i-- {
		for _, o := range f.defers[i] {
			f.prog.Ops = append(f.prog.Ops, o)
		}
	}
}

func (f *frame) spawn(lit *ast.FuncLit, pos token.Pos) {
	name := fmt.Sprintf("%s$go%d", f.name, *f.nchild)
	*f.nchild++
	child := &Prog{File: f.prog.File, Line: f.x.p.fset.Position(pos).Line, Ops: []Op{}, Unknown: []string{}, Multi: f.loop > 0}
	f.x.progs[name] = child
	f.emit("Spawn", name, pos)
	// variables assigned inside the closure but declared outside it are shared with the parent and the siblings
	shared := map[string]bool{}
	mark := func(e ast.Expr) {
		for {
			switch t := e.(type) {
			case *ast.IndexExpr:
				e = t.X
				continue
			case *ast.StarExpr:
				e = t.X
				continue
			}
			break
		}
		if id, ok := e.(*ast.Ident); ok && id.Obj != nil && (id.Obj.Pos() < lit.Pos() || id.Obj.Pos() > lit.End()) {
			shared[id.Name] = true
		}
	}
	ast.Inspect(lit.Body, func(n ast.Node) bool {
		switch s := n.(type) {
		case *ast.AssignStmt:
			if s.Tok != token.DEFINE {
				for _, l := range s.Lhs {
					mark(l)
				}
			}
		case *ast.IncDecStmt:
			mark(s.X)
		}
		return true
	})
	g := &frame{x: f.x, prog: child, name: f.name, recv: f.recv, typ: f.typ, fn: f.fn, depth: f.depth, shared: shared, nchild: f.nchild, child: true, locals: f.locals}
	g.body(lit.Body)
}

func (f *frame) expr(e ast.Expr) {
	if e == nil {
		return
	}
	ast.Inspect(e, func(n ast.Node) bool {
		switch t := n.(type) {
		case *ast.CallExpr:
			f.call(t, false)
			return false
		case *ast.FuncLit:
			f.stmts(t.Body.List)
			return false
		case *ast.UnaryExpr:
			if id, ok := t.X.(*ast.Ident); ok && t.Op == token.ARROW && f.locals[id.Name] == "chan" {
				f.emit("Recv", "chan:"+id.Name, t.Pos())
				return false
			}
		case *ast.SelectorExpr:
			if v := f.varOf(t); v != "" {
				f.emit("Read", v, t.Pos())
				return false
			}
		case *ast.Ident:
			if v := f.sharedLocal(t); v != "" {
				f.emit("Read", v, t.Pos())
			}
		}
		return true
	})
}

func (f *frame) assign(lhs ast.Expr, rhs ast.Expr, pos token.Pos) {
	v, indexed := f.base(lhs)
	if ix, ok := lhs.(*ast.IndexExpr); ok {
		f.expr(ix.Index)
	}
	if v == "" {
		return
	}
	if c, ok := rhs.(*ast.CallExpr); ok {
		if id, ok := c.Fun.(*ast.Ident); ok && id.Name == "append" && len(c.Args) > 0 {
			if b, _ := f.base(c.Args[0]); b == v {
				f.emit("ARead", v, pos) // read-modify-write of an accumulator
				f.emit("AWrite", v, pos)
				return
			}
		}
	}
	if indexed && strings.HasPrefix(v, "local:") {
		f.emit("SlotWrite", v, pos) // distinct pre-allocated slot per goroutine
		return
	}
	f.emit("Write", v, pos)
}

func (f *frame) stmts(list []ast.Stmt) {
	for _, s := range list {
		f.stmt(s)
	}
}

func (f *frame) stmt(s ast.Stmt) {
	switch t := s.(type) {
	case nil:
	case *ast.ExprStmt:
		f.expr(t.X)
	case *ast.AssignStmt:
		for i, r := range t.Rhs {
			isAppend := false
			if c, ok := r.(*ast.CallExpr); ok && len(t.Lhs) == len(t.Rhs) {
				if id, ok := c.Fun.(*ast.Ident); ok && id.Name == "append" && len(c.Args) > 0 {
					if b, _ := f.base(c.Args[0]); b != "" {
						if l, _ := f.base(t.Lhs[i]); l == b {
							isAppend = true
							for _, a := range c.Args[1:] {
								f.expr(a)
							}
						}
					}
				}
			}
			if !isAppend {
				f.expr(r)
			}
		}
		for i, l := range t.Lhs {
			var r ast.Expr
			if len(t.Lhs) == len(t.Rhs) {
				r = t.Rhs[i]
			}
			if t.Tok != token.DEFINE && t.Tok != token.ASSIGN { // += etc.
				f.expr(l)
			}
			f.assign(l, r, t.Pos())
		}
	case *ast.IncDecStmt:
		f.expr(t.X)
		f.assign(t.X, nil, t.Pos())
	case *ast.DeferStmt:
		sub := &Prog{Ops: []Op{}}
		g := *f
		g.prog = sub
		g.call(t.Call, true)
		f.pending, f.prog.Unknown = g.pending, append(f.prog.Unknown, sub.Unknown...)
		f.defers = append(f.defers, sub.Ops)
	case *ast.GoStmt:
		if lit, ok := t.Call.Fun.(*ast.FuncLit); ok {
			for _, a := range t.Call.Args {
				f.expr(a)
			}
			f.spawn(lit, t.Pos())
		} else {
			f.emit("Spawn", "opaque:"+exprText(t.Call.Fun), t.Pos())
			f.unknown("go statement target %s not followed (line %d)", exprText(t.Call.Fun), f.x.p.fset.Position(t.Pos()).Line)
		}
	case *ast.SendStmt:
		f.expr(t.Value)
		if id, ok := t.Chan.(*ast.Ident); ok && f.locals[id.Name] == "bufchan" {
			f.emit("Call", "chan:"+id.Name+".send", t.Pos()) // channel with a capacity: the send is not a rendezvous
		} else {
			f.emit("Send", "chan:"+exprText(t.Chan), t.Pos())
		}
	case *ast.ReturnStmt:
		for _, r := range t.Results {
			f.expr(r)
		}
		if f.pending > 0 && s != f.last {
			f.unknown("return at line %d while a lock taken in %s is released only by a later explicit unlock", f.x.p.fset.Position(t.Pos()).Line, f.typ)
		}
	case *ast.IfStmt:
		f.stmt(t.Init)
		f.expr(t.Cond)
		f.stmts(t.Body.List)
		f.stmt(t.Else)
	case *ast.ForStmt:
		f.stmt(t.Init)
		f.loop++
		f.expr(t.Cond)
		f.stmts(t.Body.List)
		f.stmt(t.Post)
		f.loop--
	case *ast.RangeStmt:
		if id, ok := t.X.(*ast.Ident); ok && f.locals[id.Name] == "chan" {
			f.emit("RecvLoop", "chan:"+id.Name, t.Pos()) // receives until the channel is closed
		} else {
			f.expr(t.X)
		}
		f.loop++
		f.stmts(t.Body.List)
		f.loop--
	case *ast.BlockStmt:
		f.stmts(t.List)
	case *ast.SwitchStmt:
		f.stmt(t.Init)
		f.expr(t.Tag)
		f.stmts(t.Body.List)
	case *ast.TypeSwitchStmt:
		f.stmt(t.Init)
		f.stmts(t.Body.List)
	case *ast.CaseClause:
		for _, e := range t.List {
			f.expr(e)
		}
		f.stmts(t.Body)
	case *ast.SelectStmt:
		f.unknown("select statement at line %d not modelled", f.x.p.fset.Position(t.Pos()).Line)
	case *ast.DeclStmt:
		if gd, ok := t.Decl.(*ast.GenDecl); ok {
			for _, sp := range gd.Specs {
				if vs, ok := sp.(*ast.ValueSpec); ok {
					for _, v := range vs.Values {
						f.expr(v)
					}
				}
			}
		}
	case *ast.LabeledStmt:
		f.stmt(t.Stmt)
	case *ast.BranchStmt, *ast.EmptyStmt:
	default:
		f.unknown("statement %T not modelled", s)
	}
}

func main() {
	root := os.Getenv("VERIF_REPO")
	if root == "" {
		root = "/repo"
	}
	if len(os.Args) > 1 {
		root = os.Args[1]
	}
	out := struct {
		Programs map[string]*Prog `json:"programs"`
		Missing  []string         `json:"missing"`
		Errors   []string         `json:"errors"`
	}{map[string]*Prog{}, []string{}, []string{}}
	pkgs := map[string]*pkgInfo{}
	for _, tg := range targets {
		p := pkgs[tg.dir]
		if p == nil {
			var err error
			if p, err = load(root, tg.dir); err != nil {
				out.Errors = append(out.Errors, err.Error())
				continue
			}
			pkgs[tg.dir] = p
		}
		ms := tg.methods
		if ms == nil {
			for m := range p.methods[tg.typ] {
				ms = append(ms, m)
			}
			sort.Strings(ms)
			if len(ms) == 0 {
				out.Missing = append(out.Missing, tg.typ)
			}
		}
		x := &extractor{p: p, progs: out.Programs}
		for _, m := range ms {
			fd := p.methods[tg.typ][m]
			if fd == nil {
				out.Missing = append(out.Missing, tg.typ+"."+m)
				continue
			}
			name := tg.typ + "." + m
			prog := &Prog{File: p.file[fd], Line: p.fset.Position(fd.Pos()).Line, Ops: []Op{}, Unknown: []string{}}
			out.Programs[name] = prog
			recv := ""
			if len(fd.Recv.List[0].Names) == 1 {
				recv = fd.Recv.List[0].Names[0].Name
			}
			n := 0
			fr := &frame{x: x, prog: prog, name: name, recv: recv, typ: tg.typ, fn: name, shared: map[string]bool{}, nchild: &n, locals: scanLocals(fd.Body)}
			fr.body(fd.Body)
		}
	}
	// reads of fields that no extracted program ever writes (set once by the constructor) carry no information
	written := map[string]bool{}
	for _, p := range out.Programs {
		for _, o := range p.Ops {
			if o.Op == "Write" || o.Op == "AWrite" || o.Op == "SlotWrite" {
				written[o.Obj] = true
			}
		}
	}
	for _, p := range out.Programs {
		kept := []Op{}
		for _, o := range p.Ops {
			if (o.Op == "Read" || o.Op == "ARead") && !written[o.Obj] {
				continue
			}
			if n := len(kept); n > 0 && kept[n-1].Op == o.Op && kept[n-1].Obj == o.Obj && dedupable[o.Op] {
				continue
			}
			kept = append(kept, o)
		}
		p.Ops = kept
	}
	enc := json.NewEncoder(os.Stdout)
	enc.SetIndent("", " ")
	if err := enc.Encode(out); err != nil {
		fmt.Fprintln(os.Stderr, err)
		os.Exit(2)
	}
}
