"""Shared machinery for /verif checks: scratch dirs, TLC runner, Go harness builder,
evidence writer, known-findings logic.  Standard library only."""
import json, os, re, shutil, subprocess, sys, tempfile, time, hashlib, atexit

VERIF = os.path.dirname(os.path.dirname(os.path.abspath(__file__)))
REPO = os.environ.get("VERIF_REPO", "/repo")
SPEC = os.path.join(VERIF, "spec")
GOENV = dict(GOFLAGS="-mod=mod", GOPROXY="off", GOSUMDB="off", GOTOOLCHAIN="local")

EXIT_OK, EXIT_VIOLATION, EXIT_INCONCLUSIVE = 0, 1, 2


class Inconclusive(Exception):
    pass


def log(*a):
    print(*a, flush=True)


def unwrap_tuples(out):
    """TLC's pretty printer breaks a printed tuple that is wider than its page into one element per line
    (`<< "TAG",` / `   5,` / `   "..." >>`): join such blocks back into the one-line form `<<"TAG", 5, "...">>`
    every parser of PrintT output expects (a wrapped MISMATCH line would otherwise be dropped silently)."""
    lines = out.split("\n")
    res = []
    i = 0
    while i < len(lines):
        l = lines[i]
        if l.startswith('<< "') and not l.rstrip().endswith(">>"):
            parts = [l.strip()]
            j = i + 1
            closed = False
            while j < len(lines) and j < i + 200:
                parts.append(lines[j].strip())
                if lines[j].rstrip().endswith(">>"):
                    closed = True
                    break
                j += 1
            if closed:
                joined = " ".join(parts)
                res.append("<<" + joined[2:-2].strip() + ">>")
                i = j + 1
                continue
        res.append(l)
        i += 1
    return "\n".join(res)


class Ctx:
    def __init__(self, pid, tier, seed):
        self.pid, self.tier, self.seed = pid, tier, seed
        self.t0 = time.time()
        base = os.environ.get("VERIF_SCRATCH_BASE") or tempfile.gettempdir()
        self.scratch = tempfile.mkdtemp(prefix="verif_%s_" % pid, dir=base)
        if not os.environ.get("VERIF_KEEP"):
            atexit.register(shutil.rmtree, self.scratch, True)
        self.violations = []   # (key, what, replay_obj)
        self.known_hits = []
        self.states = 0
        self.transitions = 0
        self.tlc_runs = []
        self.cov = {}
        self.assumptions = []
        self._harness = None

    # ------------------------------------------------------------------ TLC
    def tlc(self, module, cfg, workers="auto", timeout=600, simulate=None, depth=None,
            extra=None, specdir=None, files=None, deadlock=False, coverage=False, java_opts=None,
            seed=None, check=True):
        """Run TLC on spec/<module>.tla with spec/cfg/<cfg>.cfg in a scratch copy.
        Returns dict(out, ok, states, distinct, violation(bool), dumps(list))."""
        wd = tempfile.mkdtemp(prefix="tlc_", dir=self.scratch)
        src = specdir or SPEC
        for f in os.listdir(src):
            if f.endswith(".tla"):
                shutil.copy(os.path.join(src, f), wd)
        tr = os.path.join(src, "trace")
        if os.path.isdir(tr):
            for f in os.listdir(tr):
                if f.endswith(".tla"):
                    shutil.copy(os.path.join(tr, f), wd)
        cfgsrc = cfg if os.path.isabs(cfg) else os.path.join(SPEC, "cfg", cfg + ".cfg")
        shutil.copy(cfgsrc, os.path.join(wd, "run.cfg"))
        for name, content in (files or {}).items():
            if isinstance(content, str) and os.path.isabs(content) and os.path.exists(content):
                os.symlink(content, os.path.join(wd, name))
            else:
                with open(os.path.join(wd, name), "w") as fh:
                    fh.write(content)
        cmd = ["tlc", "-config", "run.cfg", "-metadir", os.path.join(wd, "meta"),
               "-workers", str(workers), "-noGenerateSpecTE"]
        if not deadlock:
            cmd.append("-deadlock")   # -deadlock disables deadlock checking
        if coverage:
            cmd += ["-coverage", "1"]
        if simulate is not None:
            cmd += ["-simulate", "num=%d" % simulate]
            if depth:
                cmd += ["-depth", str(depth)]
        if seed is not None:
            cmd += ["-seed", str(seed)]
        cmd += (extra or [])
        cmd.append(module + ".tla")
        env = dict(os.environ)
        # TLC's own temporary directories (tlc-*) go to the scratch directory of this run, not to /tmp
        env["JAVA_TOOL_OPTIONS"] = ((java_opts + " ") if java_opts else "") + "-Djava.io.tmpdir=" + wd
        t = time.time()
        outpath = os.path.join(wd, "tlc.out")
        with open(outpath, "w") as fh:
            try:
                p = subprocess.run(["timeout", str(timeout)] + cmd, cwd=wd, stdout=fh,
                                   stderr=subprocess.STDOUT, env=env)
                rc = p.returncode
            except Exception as e:  # pragma: no cover
                raise Inconclusive("tlc failed to start: %s" % e)
        out = unwrap_tuples(open(outpath, errors="replace").read())
        res = dict(rc=rc, out=out, wall=time.time() - t, wd=wd, outpath=outpath)
        m = re.findall(r"(\d+) states generated, (\d+) distinct states found", out)
        if m:
            res["generated"], res["distinct"] = int(m[-1][0]), int(m[-1][1])
        else:
            res["generated"] = res["distinct"] = 0
        if simulate is not None:
            m2 = re.findall(r"The number of states generated: (\d+)", out.replace(",", ""))
            if m2:
                # simulation mode: states visited along the generated behaviours
                res["generated"] = res["distinct"] = int(m2[-1])
        res["violation"] = bool(re.search(r"Error: Invariant .* is violated|Error: Action property .* is violated|"
                                          r"Error: Temporal properties were violated|Error: Deadlock reached|"
                                          r"is violated by the initial state|Error: The postcondition|"
                                          r"Assumption .* is false|Evaluating assumption", out)) or rc in (12, 13, 10, 11)
        res["error"] = None
        if rc == 124:
            res["error"] = "timeout"
        elif rc != 0 and not res["violation"]:
            res["error"] = "tlc exit %d" % rc
        self.states += res["distinct"]
        self.transitions += res["generated"]
        self.tlc_runs.append(dict(module=module, cfg=os.path.basename(cfgsrc), rc=rc, generated=res["generated"],
                                  distinct=res["distinct"], wall=round(res["wall"], 1), simulate=simulate))
        log("[tlc] %s/%s rc=%d generated=%d distinct=%d %.1fs" % (module, os.path.basename(cfgsrc), rc,
                                                                   res["generated"], res["distinct"], res["wall"]))
        if check:
            if res["error"]:
                tail = "\n".join(out.splitlines()[-25:])
                raise Inconclusive("TLC %s/%s: %s\n%s" % (module, cfg, res["error"], tail))
        return res

    @staticmethod
    def dumps(out, tag="DUMP"):
        """Yield the JSON payloads printed by PrintT(<<tag, ToJson(x)>>)."""
        pat = re.compile(r'^<<"%s", "(.*)">>$' % re.escape(tag))
        for line in out.splitlines():
            m = pat.match(line.strip())
            if m:
                s = m.group(1).replace('\\"', '"').replace("\\\\", "\\")
                try:
                    yield json.loads(s)
                except Exception:
                    pass

    # ------------------------------------------------------------------ Go
    def harness(self):
        """Copy /verif/harness to scratch and generate go.mod against /repo's current tree."""
        if self._harness:
            return self._harness
        dst = os.path.join(self.scratch, "harness")
        shutil.copytree(os.path.join(VERIF, "harness"), dst)
        gen_gomod(dst)
        self._harness = dst
        return dst

    def go_build(self, pkg, race=False, tags="verif", timeout=1500):
        h = self.harness()
        out = os.path.join(self.scratch, "bin_" + pkg.replace("/", "_").replace(".", "") + ("_race" if race else ""))
        cmd = ["go", "build", "-tags", tags, "-o", out]
        if race:
            cmd.append("-race")
        cmd.append(pkg)
        env = dict(os.environ); env.update(GOENV)
        t = time.time()
        p = subprocess.run(cmd, cwd=h, env=env, stdout=subprocess.PIPE, stderr=subprocess.STDOUT, text=True, timeout=timeout)
        log("[go] build %s rc=%d %.1fs" % (pkg, p.returncode, time.time() - t))
        if p.returncode != 0:
            raise Inconclusive("go build %s failed (hooks/exports no longer fit the tree?):\n%s" % (pkg, p.stdout[-4000:]))
        return out

    def run(self, argv, timeout=1800, stdin=None, env=None, cwd=None):
        e = dict(os.environ); e.update(GOENV)
        e["VERIF_SEED"] = str(self.seed); e["VERIF_TIER"] = self.tier
        if env:
            e.update(env)
        t = time.time()
        try:
            p = subprocess.run(argv, cwd=cwd or self.scratch, env=e, input=stdin, stdout=subprocess.PIPE,
                               stderr=subprocess.PIPE, text=True, timeout=timeout)
        except subprocess.TimeoutExpired as ex:
            raise Inconclusive("harness timeout: %s" % " ".join(argv[:3]))
        log("[run] %s rc=%d %.1fs" % (os.path.basename(argv[0]), p.returncode, time.time() - t))
        if p.returncode != 0 and p.stderr:
            rp = real_code_panic(p.stderr)
            if rp:
                self.real_panic = (rp[0], rp[1], list(argv), p.stderr[:1500])
        return p

    # ------------------------------------------------------------------ verdicts
    def violation(self, key, what, replay=None):
        self.violations.append((key, what, replay))

    def path(self, name):
        return os.path.join(self.scratch, name)


def gen_gomod(dst):
    src = open(os.path.join(REPO, "go.mod")).read()
    lines = src.splitlines()
    out = ["module verifharness", ""]
    gover = [l for l in lines if l.startswith("go ")]
    out.append(gover[0] if gover else "go 1.21")
    out.append("")
    out.append("require github.com/LiskHQ/lisk-engine v0.0.0")
    out.append("require pgregory.net/rapid v1.3.0")
    out.append("")
    inreq = False
    for l in lines:
        s = l.strip()
        if s.startswith("require ("):
            inreq = True; out.append(l); continue
        if inreq:
            out.append(l)
            if s == ")":
                inreq = False
            continue
        if s.startswith("require ") or s.startswith("replace ") or s.startswith("exclude "):
            out.append(l)
    out.append("")
    out.append("replace github.com/LiskHQ/lisk-engine => " + REPO)
    with open(os.path.join(dst, "go.mod"), "w") as fh:
        fh.write("\n".join(out) + "\n")
    shutil.copy(os.path.join(REPO, "go.sum"), os.path.join(dst, "go.sum"))


# ---------------------------------------------------------------------- findings
def load_findings():
    p = os.path.join(VERIF, "known_findings.json")
    if not os.path.exists(p):
        return []
    return json.load(open(p)).get("findings", [])


def real_code_panic(stderr):
    """The harness process died of a Go panic that the harness could not recover (it happened on a goroutine the code under
    test started).  If the panicking goroutine was running code of lisk-engine - its first frames lie in
    github.com/LiskHQ/lisk-engine/pkg/... and not in the harness - return (package/function, message); else None."""
    m = re.search(r"(panic: [^\n]*|fatal error: [^\n]*)", stderr)
    if not m:
        return None
    rest = stderr[m.end():]
    g = re.search(r"goroutine \d+ \[running\]:\n((?:.+\n)+?)(?:\n|$)", rest)
    if not g:
        return None
    frames = [l for l in g.group(1).splitlines() if not l.startswith("\t")]
    frames = [f for f in frames if not f.startswith(("runtime.", "panic(", "runtime/"))]
    if not frames or "github.com/LiskHQ/lisk-engine/pkg/" not in frames[0] or "verifharness" in frames[0]:
        return None
    fn = frames[0].rsplit("(", 1)[0].replace("github.com/LiskHQ/lisk-engine/", "")
    return fn, m.group(1)


def merge_results(a, b):
    """merge two harness result objects: numbers add up, dicts merge recursively, lists concatenate"""
    if a is None:
        return b
    if b is None:
        return a
    if isinstance(a, bool) or isinstance(b, bool):
        return a or b
    if isinstance(a, (int, float)) and isinstance(b, (int, float)):
        return a + b
    if isinstance(a, dict) and isinstance(b, dict):
        out = dict(a)
        for k, v in b.items():
            out[k] = merge_results(out.get(k), v) if k in out else v
        return out
    if isinstance(a, list) and isinstance(b, list):
        return a + b
    return a


def run_chunked(ctx, scripts_file, chunk, argv_for, timeout=3000):
    """Run a replay harness on a script file in pieces of <chunk> lines, one process per piece (every real node a script
    creates costs file descriptors and goroutines that libp2p only gives back at process exit), and merge the results.
    argv_for(piece_path, out_path) -> argv.  Returns (merged result or None, last CompletedProcess)."""
    lines = open(scripts_file).read().splitlines()
    merged = None; last = None
    for i in range(0, max(len(lines), 1), chunk):
        piece = "%s.part%d" % (scripts_file, i // chunk)
        with open(piece, "w") as fh:
            fh.write("\n".join(lines[i:i + chunk]) + ("\n" if lines[i:i + chunk] else ""))
        of = piece + ".res.json"
        if os.path.exists(of):
            os.remove(of)
        last = ctx.run(argv_for(piece, of), timeout=timeout)
        if not os.path.exists(of):
            return None, last
        merged = merge_results(merged, json.load(open(of)))
    return merged, last


def finish(ctx, level, coverage, assumptions=None):
    """Classify violations against known findings, write evidence, print verdict lines, exit."""
    findings = [f for f in load_findings() if f["property"] == ctx.pid]
    open_keys = {f["key"]: f for f in findings if f.get("status") == "open"}
    new = []
    seen_known = {}
    for key, what, replay in ctx.violations:
        if key in open_keys:
            if key not in seen_known and os.environ.get("VERIF_SAVE_FINDINGS"):
                # maintenance aid: (re)write the witness of a listed finding; never adds to known_findings.json
                wp = os.path.join(VERIF, open_keys[key].get("witness") or "findings/%s_%s.json" % (ctx.pid, hashlib.sha1(key.encode()).hexdigest()[:8]))
                os.makedirs(os.path.dirname(wp), exist_ok=True)
                json.dump(dict(property=ctx.pid, key=key, what=what, replay=replay), open(wp, "w"), indent=1, default=str)
            seen_known.setdefault(key, what)
        else:
            new.append((key, what, replay))
    for key, what in seen_known.items():
        log("KNOWN-FINDING: property=%s %s [%s]" % (ctx.pid, open_keys[key]["what"], key))
    # a run against a scratch worktree (seeded change) must not overwrite the evidence of the real tree
    evdir = os.environ.get("VERIF_EVIDENCE_DIR") or os.path.join(VERIF, "evidence")
    os.makedirs(os.path.join(evdir, "replay"), exist_ok=True)
    coverage = dict(coverage)
    coverage.setdefault("states", ctx.states)
    coverage.setdefault("transitions", ctx.transitions)
    coverage["tlc_runs"] = ctx.tlc_runs
    coverage["known_findings_reproduced"] = sorted(seen_known)
    ev = dict(property_id=ctx.pid, tier=ctx.tier, seed=ctx.seed, level=level, coverage=coverage,
              assumptions=assumptions or ctx.assumptions, wall_s=round(time.time() - ctx.t0, 2),
              violations=len(new))
    with open(os.path.join(evdir, ctx.pid + ".json"), "w") as fh:
        json.dump(ev, fh, indent=1, default=str)
        fh.write("\n")
    if new:
        shown = set()
        for i, (key, what, replay) in enumerate(new):
            if key in shown:
                continue
            shown.add(key)
            rp = os.path.join(evdir, "replay", "%s_%s.json" % (ctx.pid, hashlib.sha1(key.encode()).hexdigest()[:10]))
            with open(rp, "w") as fh:
                json.dump(dict(property=ctx.pid, key=key, what=what, replay=replay), fh, indent=1, default=str)
            log("VIOLATION property=%s replay=%s key=%s :: %s" % (ctx.pid, rp, key, what))
        sys.exit(EXIT_VIOLATION)
    log("OK property=%s tier=%s seed=%d wall=%.1fs" % (ctx.pid, ctx.tier, ctx.seed, time.time() - ctx.t0))
    sys.exit(EXIT_OK)
