"""C12 staged store reads = database with staged writes applied.
Seeded driver runs operation sequences on the real diffdb.Database (several prefix views, snapshots through the root and
through views, commit / revert through the root and through views, raw db scans through DB and Reader incl. the key-only
variants, pebble with close + reopen, the store over a snapshot Reader) and logs every call with its result; TLC replays the
log on StagedStore.tla and compares every read with the same read on the model, the db dump after Commit with eff, after
RevertDiff with the previous contents.  Directed phases: commits through batchdb, the Range consumers of
pkg/consensus/liskbft on a real module, two goroutines on two sibling views in a -race build.  Every byte slice the API
hands out is overwritten after it was logged.  A driver whose trace does not grow for BOUND seconds is sent SIGQUIT and its
goroutine dump is searched for a goroutine parked on a lock inside pkg/db for at least a minute (deadlock:<fn>)."""
import json, os, re, signal, subprocess, time
from concurrent.futures import ThreadPoolExecutor
import common
from common import Inconclusive, finish, log

LEVEL = "model_checking"
BOUND = 120          # seconds a recorder may go without writing to its trace (a whole run normally takes about one second)
EXP_KEYS = {"range-value": "returned-value-aliased:range-iterate", "set-argument": "set-argument-aliased"}


def classify(e, op):
    if e.get("exp") in EXP_KEYS and op in ("get", "has", "range", "iter", "commit-dump", "revert-dump", "commit-diff-reversal", "restore-state"):
        # a sequence that overwrites handed-out slices: a differing READ there shows the aliasing; other mismatch kinds keep their name
        return EXP_KEYS[e["exp"]]
    if e.get("stale"):
        return "stale-view-after-restore"
    if e.get("tag") in ("bft-prune", "restore-state"):
        return e["tag"]
    if e.get("tag") == "concurrent-views":
        return "concurrent-views:" + op
    return op


# ------------------------------------------------------------------------------------------------ bounded runs, hangs
def short_fn(frame):
    fn = frame.rsplit("(", 1)[0] if frame.endswith(")") else frame
    fn = fn.rsplit("/", 1)[-1]
    fn = fn.split(".", 1)[1] if "." in fn else fn
    return fn.replace("(*", "").replace(")", "")


def hang_keys(stderr):
    """goroutines of a SIGQUIT dump that have been parked on a mutex inside lisk-engine's pkg/db for at least a minute:
    -> {key: stack}.  The key names the outermost pkg/db function of the blocked call chain (the one that was called
    from outside and never returned).  A wait shorter than a minute is not a verdict (loaded machine)."""
    keys = {}
    for blk in re.split(r"\n\s*\n", stderr):
        lines = blk.strip("\n").split("\n")
        m = re.match(r"goroutine \d+[^\[]*\[([^\]]*)\]:", lines[0]) if lines else None
        if not m:
            continue
        state = m.group(1)
        if not re.match(r"(sync\.(RW)?Mutex\.R?Lock|semacquire)", state) or "minutes" not in state:
            continue
        frames = [x for x in lines[1:] if not x.startswith("\t") and not x.startswith("created by")]
        idx = [i for i, f in enumerate(frames) if "github.com/LiskHQ/lisk-engine/pkg/db" in f]
        if not idx:
            continue
        i0 = idx[0]
        if any(not f.startswith(("sync.", "runtime.", "internal/")) for f in frames[:i0]):
            continue     # parked inside something pkg/db called (pebble): not a lock of the store
        j = i0
        while j + 1 < len(frames) and "github.com/LiskHQ/lisk-engine/pkg/db" in frames[j + 1]:
            j += 1
        keys["deadlock:" + short_fn(frames[j])] = dict(state=state, stack=frames[i0:j + 2])
    return keys


def bounded(ctx, argv, env, progress, bound=BOUND, cap=1500):
    """run a recorder until it ends; if the file `progress` (its trace) has not grown for `bound` seconds (or after `cap`
    seconds in all) it is sent SIGQUIT -> (returncode or None when it had to be stopped, stdout, stderr)"""
    e = dict(os.environ); e.update(common.GOENV)
    e["VERIF_SEED"] = str(ctx.seed); e["VERIF_TIER"] = ctx.tier; e["GOTRACEBACK"] = "all"
    e.update(env or {})
    t = time.time()
    fo, fe = open(progress + ".stdout", "w+"), open(progress + ".stderr", "w+")
    p = subprocess.Popen(argv, cwd=ctx.scratch, env=e, stdout=fo, stderr=fe, text=True)
    size, since, rc = -1, time.time(), None
    while True:
        try:
            rc = p.wait(timeout=2)
            break
        except subprocess.TimeoutExpired:
            pass
        sz = os.path.getsize(progress) if os.path.exists(progress) else 0
        if sz != size:
            size, since = sz, time.time()
        if time.time() - since > bound or time.time() - t > cap:
            p.send_signal(signal.SIGQUIT)      # the Go runtime prints every goroutine with its wait time and exits
            try:
                p.wait(timeout=60)
            except subprocess.TimeoutExpired:
                p.kill(); p.wait()
            rc = None
            break
    fo.seek(0); fe.seek(0)
    out, err = fo.read(), fe.read()
    fo.close(); fe.close()
    log("[run] %s %s rc=%s %.1fs" % (os.path.basename(argv[0]), argv[4] if len(argv) > 4 else "", rc, time.time() - t))
    return rc, out, err


def record(ctx, binp, nseq, seed, tag, mode=None, env=None):
    """one recorder run -> (meta, trace path, stderr).  A hang is a violation of C12 (reported by the C12 check only)."""
    tr = ctx.path("c12_%s.ndjson" % tag); meta = ctx.path("c12_%s.json" % tag)
    for f in (tr, meta):
        if os.path.exists(f):
            os.remove(f)
    argv = [binp, tr, meta, str(nseq)] + ([mode] if mode else [])
    en = {"VERIF_SEED": str(seed)}
    en.update(env or {})
    rc, out, err = bounded(ctx, argv, en, tr)
    if rc is None:
        hk = hang_keys(err)
        if hk and ctx.pid == "C12":
            for k, d in hk.items():
                ctx.violation(k, "the recorder (%s) made no progress for %d s: a goroutine is parked on a lock inside pkg/db (%s) at %s" % (
                    mode or "sequences", BOUND, d["state"], " <- ".join(short_fn(f) for f in d["stack"][:6])),
                    dict(seed=seed, sequences=nseq, mode=mode or "sequences", stack=d["stack"]))
            raise Inconclusive("recorder hung (reported as %s)" % sorted(hk))
        raise Inconclusive("recorder made no progress for %d s and no goroutine is parked on a pkg/db lock for a minute: no verdict\n%s" % (BOUND, err[-1500:]))
    if rc != 0:
        rp = common.real_code_panic(err)
        if rp:
            ctx.real_panic = (rp[0], rp[1], list(argv), err[:1500])
        raise Inconclusive("driver failed: " + err[-1500:])
    return json.load(open(meta)), tr, err


def check_trace(ctx, traces, tag):
    """validate the concatenation of recorded traces -> (lines, mismatches, havoc count)"""
    tr = ctx.path("c12_%s_all.ndjson" % tag)
    with open(tr, "w") as fh:
        for t in traces:
            fh.write(open(t).read())
    lines = open(tr).read().splitlines()
    r = ctx.tlc("StagedStoreTrace", "StagedStoreTrace", workers=1, timeout=3000, files={"trace.ndjson": tr})
    if r["violation"]:
        raise Inconclusive("StagedStoreTrace failed at spec level: %s" % r["outpath"])
    if r["distinct"] - 1 != len(lines):
        raise Inconclusive("monitor consumed %d of %d lines" % (r["distinct"] - 1, len(lines)))
    mm = re.findall(r'<<"MISMATCH", (\d+), "([a-z-]+)", "(.*)">>', r["out"])
    res = []
    for ln, op, exp in mm:
        ln = int(ln)
        e = json.loads(lines[ln - 1])
        start = max(i for i in range(ln) if '"op":"reset"' in lines[i])
        res.append(dict(line=ln, key=classify(e, op), observed=e, expected=exp.replace("\\", "")[:600],
                        history=[json.loads(x) for x in lines[start:ln]]))
    return lines, res, len(re.findall(r'<<"HAVOC", \d+>>', r["out"]))


def validate(ctx, binp, nseq, seed, tag):
    """recorded sequences of the normal build, validated (also used by C05 for the commit / revert steps)"""
    m, tr, _ = record(ctx, binp, nseq, seed, tag)
    lines, res, havoc = check_trace(ctx, [tr], tag)
    m["havoc"] = havoc
    return m, lines, res


# ------------------------------------------------------------------------------------------------ race build
def parse_races(stderr):
    """reports of the race detector -> list of (key, text, in_repo); key = race:<innermost lisk-engine function>"""
    res = []
    repo = common.REPO.rstrip("/") + "/"
    for blk in re.split(r"={18}\n", stderr):
        if "WARNING: DATA RACE" not in blk:
            continue
        fns = []
        for sec in re.split(r"\n\s*\n", blk):
            ls = sec.strip("\n").split("\n")
            while ls and not re.match(r"^(Read|Write|Previous read|Previous write|Atomic \w+|Previous atomic \w+) at ", ls[0]):
                ls = ls[1:]
            for i in range(1, len(ls) - 1, 2):
                loc = ls[i + 1].strip()
                if loc.startswith(repo) or "github.com/LiskHQ/lisk-engine/pkg/" in ls[i]:
                    fns.append(short_fn(re.sub(r"\(\)$", "", ls[i].strip())))
                    break
        if fns:
            res.append(("race:" + "|".join(sorted(set(fns))), blk[:1500], True))
        else:
            res.append(("race:harness", blk[:1500], False))
    return res


def race_round(ctx, bin_race, rounds, seed, tag):
    m, tr, err = record(ctx, bin_race, rounds, seed, tag, mode="race", env={"GORACE": "exitcode=0 halt_on_error=0"})
    races = parse_races(err)
    if any(not r[2] for r in races):
        raise Inconclusive("the race detector reports a race inside the harness itself:\n%s" % [r[1] for r in races if not r[2]][0])
    shown = set()
    for k, text, _ in races:
        if k in shown or len(shown) >= 3:     # one report per pair of functions, three pairs are enough to locate the cause
            continue
        shown.add(k)
        ctx.violation(k, "two goroutines working on two sibling views of one staged store (-race build): %s" % " ".join(text.split())[:600],
                      dict(seed=seed, rounds=rounds, mode="race"))
    m["races"] = len(races)
    return m, tr


# ------------------------------------------------------------------------------------------------ driver
def one_round(ctx, binp, bin_race, nseq, rounds, seed, tag):
    exp = {"VERIF_EXPERIMENTAL": os.environ.get("VERIF_EXPERIMENTAL", "")}
    with ThreadPoolExecutor(2) as ex:     # the two recorders are independent processes
        fr = ex.submit(race_round, ctx, bin_race, rounds, seed, tag + "race") if bin_race else None
        try:
            m, tr, _ = record(ctx, binp, nseq, seed, tag, env=exp)
        finally:
            rr = None
            if fr:
                try:
                    rr = fr.result()
                except Inconclusive as e:
                    rr = e
    if isinstance(rr, Inconclusive):
        raise rr
    traces = [tr]
    if rr:
        mr, trr = rr
        for k, v in mr.items():
            m[k] = m.get(k, 0) + v
        traces.append(trr)
    lines, res, havoc = check_trace(ctx, traces, tag)
    m["havoc"] = havoc
    return m, lines, res


WHAT = "read through the staged store differs from the model at trace line %d: observed %s expected %s"

# non-vacuity: (counter, minimum per 1500 sequences, what it counts)
GUARDS = [("range", 2000, "range reads"), ("restore_ok", 150, "successful restores"), ("commit", 500, "commits"),
          ("dbiterkey", 300, "key-only raw scans"), ("dbiter_reader", 150, "Reader.Iterate scans"),
          ("scan255_nonempty", 50, "non-empty scans of prefixes without an upper bound"),
          ("commit_view", 200, "commits through a view"), ("revert_view", 50, "reverts through a view"),
          ("snap_view", 150, "snapshots through a view"), ("restore_view_ok", 20, "successful restores through a view"),
          ("scribble_get", 120, "Get results overwritten"), ("scribble_scan", 500, "raw scan results overwritten"),
          ("multibyte_reads", 30, "values of 2-3 bytes read"), ("reopen", 50, "close + reopen of the database"),
          ("reader_seq", 100, "sequences with the store over a Reader"), ("bcommit", 50, "commits through batchdb"),
          ("bget", 150, "batchdb reads"), ("bft_get_multi", 100, "liskbft lookups with at least two candidates"),
          ("bft_prune_removed", 100, "blocks after which liskbft pruned an entry"), ("bft_flush", 100, "liskbft flushes"),
          ("race_calls", 600, "calls made by two concurrent goroutines")]


def run(ctx):
    ctx.harness()
    with ThreadPoolExecutor(2) as ex:     # the two builds share nothing but the Go build cache
        fr = ex.submit(ctx.go_build, "./cmd/c12", True)
        binp = ctx.go_build("./cmd/c12")
        bin_race = fr.result()
    if ctx.replay:
        d = json.load(open(ctx.replay))["replay"]
        nseq = d.get("sequences") or 1500
        m, lines, res = one_round(ctx, binp, bin_race, nseq, d.get("rounds") or max(20, nseq // 15), d["seed"], "replay")
        for x in res:
            ctx.violation(x["key"], "read through the staged store differs from the model: observed %s expected %s" % (
                json.dumps(x["observed"])[:300], x["expected"][:300]), dict(d, line=x["line"]))
        finish(ctx, LEVEL, dict(traces_validated_against_impl=m["sequences"], samples=[json.loads(l) for l in lines[:3]]))
    nseq = 1500 if ctx.tier == "quick" else 6000
    rounds = 1 if ctx.tier == "quick" else 6
    tot = {}
    samples = []
    for i in range(rounds):
        seed = ctx.seed * 100 + i
        m, lines, res = one_round(ctx, binp, bin_race, nseq, nseq // 15, seed, "r%d" % i)
        for k, v in m.items():
            tot[k] = tot.get(k, 0) + v
        for x in res:
            ctx.violation(x["key"], WHAT % (x["line"], json.dumps(x["observed"])[:400], x["expected"][:300]),
                          dict(seed=seed, sequences=nseq, rounds=nseq // 15, line=x["line"], history=x["history"][-40:]))
        log("[c12] round %d: %d events, %d mismatches %s" % (i, len(lines), len(res), sorted(set(x["key"] for x in res))))
        if not samples:
            samples = [json.loads(l) for l in lines[1:6]]
    if not ctx.violations:
        scale = rounds * nseq / 1500.0
        low = ["%s (%d < %d)" % (what, tot.get(k, 0), int(n * scale)) for k, n, what in GUARDS if tot.get(k, 0) < int(n * scale)]
        if low:
            raise Inconclusive("driver did not exercise enough: vacuous: " + "; ".join(low))
        if tot.get("havoc", 0) or tot.get("bft_apply_err", 0) > tot.get("bft_seq", 0) // 10:
            raise Inconclusive("parts of the trace could not be judged (restores of deleted snapshots that succeeded: %d, liskbft "
                               "sequences cut short: %d)" % (tot.get("havoc", 0), tot.get("bft_apply_err", 0)))
    cov = dict(traces_validated_against_impl=tot["sequences"], samples=samples, recorded_calls=tot["events"],
               range_reads=tot.get("range", 0), prefix_iterations=tot.get("iter", 0), raw_db_scans=tot.get("dbscan", 0),
               snapshot_restores=tot.get("restore", 0), commits=tot.get("commit", 0), reverts=tot.get("revert", 0),
               counters={k: v for k, v in sorted(tot.items())},
               experimental=bool(os.environ.get("VERIF_EXPERIMENTAL") == "1"),
               rule="one TLC state per recorded call; every read result compared with the same read on eff = db + staged ops")
    finish(ctx, LEVEL, cov, assumptions=["keys over the byte alphabet {0,1,2,255}, length <= 5 (liskbft phase: 4-byte big-endian heights under the module's own prefixes); values of 0-3 bytes",
                                         "limit 0 is not generated (the statement does not fix its meaning)",
                                         "snapshot ids are per store object; whether an id can be restored a second time, and whether snapshots "
                                         "younger than a restored one survive, is left open (both accepted); a restore of a live snapshot must succeed",
                                         "two goroutines work on DISJOINT views (production: one goroutine per store); their calls are validated in the order A then B",
                                         "callers that overwrite the values returned by staged Range / Iterate, or the slice handed to Set, are checked "
                                         "only with VERIF_EXPERIMENTAL=1 (candidate finding: the overlay keeps those slices)"])
