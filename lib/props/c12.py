"""C12 staged store reads = database with staged writes applied.
Seeded driver runs operation sequences on the real diffdb.Database (several prefix views, snapshots, commit,
revert, raw db scans) and logs every call with its result; TLC replays the log on StagedStore.tla and compares
every read with the same read on the model, the db dump after Commit with eff, after RevertDiff with the
previous contents."""
import json, os, re
import common
from common import Inconclusive, finish, log

LEVEL = "model_checking"

def classify(e, op):
    if e.get("stale"):
        return "stale-view-after-restore"
    return op

def validate(ctx, binp, nseq, seed, tag):
    tr = ctx.path("c12_%s.ndjson" % tag); meta = ctx.path("c12_%s.json" % tag)
    p = ctx.run([binp, tr, meta, str(nseq)], env={"VERIF_SEED": str(seed)})
    if p.returncode != 0:
        raise Inconclusive("driver failed: " + p.stderr[-1500:])
    m = json.load(open(meta))
    lines = open(tr).read().splitlines()
    r = ctx.tlc("StagedStoreTrace", "StagedStoreTrace", workers=1, timeout=3000, files={"trace.ndjson": tr})
    if r["violation"]:
        raise Inconclusive("StagedStoreTrace failed at spec level: %s" % r["outpath"])
    if r["distinct"] - 1 != len(lines):
        raise Inconclusive("monitor consumed %d of %d lines" % (r["distinct"] - 1, len(lines)))
    mm = re.findall(r'<<"MISMATCH", (\d+), "([a-z-]+)", "(.*)">>', r["out"])
    res = []
    for ln, op, exp in mm:
        ln = int(ln)
        e = json.loads(lines[ln - 1])
        start = max(i for i in range(ln) if '"op":"reset"' in lines[i])
        res.append(dict(line=ln, key=classify(e, op), observed=e, expected=exp.replace("\\", "")[:600],
                        history=[json.loads(x) for x in lines[start:ln]]))
    return m, lines, res

def run(ctx):
    binp = ctx.go_build("./cmd/c12")
    if ctx.replay:
        d = json.load(open(ctx.replay))["replay"]
        m, lines, res = validate(ctx, binp, d["sequences"], d["seed"], "replay")
        for x in res:
            ctx.violation(x["key"], "read through the staged store differs from the model: observed %s expected %s" % (
                json.dumps(x["observed"])[:300], x["expected"][:300]), dict(d, line=x["line"]))
        finish(ctx, LEVEL, dict(traces_validated_against_impl=m["sequences"], samples=[json.loads(l) for l in lines[:3]]))
    nseq = 1500 if ctx.tier == "quick" else 6000
    rounds = 1 if ctx.tier == "quick" else 6
    tot = {}
    samples = []
    for i in range(rounds):
        seed = ctx.seed * 100 + i
        m, lines, res = validate(ctx, binp, nseq, seed, "r%d" % i)
        for k, v in m.items():
            tot[k] = tot.get(k, 0) + v
        for x in res:
            ctx.violation(x["key"], "read through the staged store differs from the model at trace line %d: observed %s expected %s" % (
                x["line"], json.dumps(x["observed"])[:400], x["expected"][:300]),
                dict(seed=seed, sequences=nseq, line=x["line"], history=x["history"][-40:]))
        log("[c12] round %d: %d events, %d mismatches %s" % (i, len(lines), len(res), sorted(set(x["key"] for x in res))))
        if not samples:
            samples = [json.loads(l) for l in lines[1:6]]
    if not ctx.violations and (tot.get("range", 0) < 100 or tot.get("restore", 0) < 10 or tot.get("commit", 0) < 10):
        raise Inconclusive("driver did not exercise range/restore/commit: vacuous")
    cov = dict(traces_validated_against_impl=tot["sequences"], samples=samples, recorded_calls=tot["events"],
               range_reads=tot.get("range", 0), prefix_iterations=tot.get("iter", 0), raw_db_scans=tot.get("dbscan", 0),
               snapshot_restores=tot.get("restore", 0), commits=tot.get("commit", 0), reverts=tot.get("revert", 0),
               rule="one TLC state per recorded call; every read result compared with the same read on eff = db + staged ops")
    finish(ctx, LEVEL, cov, assumptions=["keys over the byte alphabet {0,1,2,255}, length <= 5; values empty or one byte",
                                         "limit 0 is not generated (the statement does not fix its meaning)",
                                         "snapshots are taken/restored on the root store as pkg/statemachine does"])
