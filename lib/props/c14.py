"""C14 transaction pool: indexes consistent, sizes bounded, every operation returns.

1. TLC checks the invariants of spec/TxPool.tla exhaustively (complete reachable state graph, every verifier
   answer) for several configurations of a small universe (2 senders x nonces x 2 fee levels, limits 1..3).
2. Binding (trace validation): harness/cmd/c14 drives the REAL txpool.TransactionPool (stub ABI with scripted
   verifier answers, stub connection) and records after every call the result, the verifier calls and
   VerifSnapshot(); every call runs under a watchdog.  spec/trace/TxPoolTrace.tla checks every recorded
   post-state against the invariants and against the set of results TxPool.tla permits for that call.
   Driver modes: seq (sequential random sequences; conn.Publish answers ok / failed as scripted, transactions also
   arrive as announcements from a peer, values returned by reads are looked at again after later calls), ilv (a
   promotion step suspended inside the verifier while other calls run; the resumed step is checked as a partial step:
   what it promoted was asked in THIS step and not answered invalid - identity, not nonce - and what it dropped belongs
   to the run it read, from the first invalid answer on), conc (N goroutines; what every goroutine was told - accepted
   adds, removes issued, verdicts, every read result - is checked against the state at quiescence; also run from a
   -race build: a report of the race detector with a frame in /repo is an observation), life (the real
   Start()/ticker/End() with live, sometimes slow subscribers of both event topics; the promotion steps are the pool's own).
   seq is repeated with every nonce shifted to 2^63 and to 2^64 (VERIF_C14_NONCE_BASE; the trace keeps small ranks).
Violation keys are <kind>[:<detail>] as printed by the monitor (index-disagree:<which>, over-capacity:pool|sender,
duplicate-nonce:<where>, stale-after-replacement:<index>, stale-after-sender-eviction:<index>, processable-gap,
processable-unverified, not-a-successor:<op>:<diagnosis>, operation-blocked:<what>, panic:<op>:<site>,
returned-value-mutated:<read>, read-result:<read>-<what>, data-race:<functions>);
reports on the state after a suspended promotion step resumed are prefixed "interleaved:", reports on the quiescent
state of a concurrent run "concurrent:" (profile mixed) or "concurrent-plain:" (profile plain: no limit reachable, no
two candidates share sender and nonce - neither eviction nor replacement can happen, only the interleaving is left),
reports of a run with the pool's own Start()/ticker/End() "lifecycle:", of the runs with shifted nonces "nonce-2^63:" /
"nonce-2^64:";
the Add -> evict* -> RLock self-deadlock is operation-blocked:Add-when-full in every mode.
Reports made while the previously observed state already had disagreeing indexes are consequences of the
report that broke them; they are counted (coverage.secondary_reports) but are not violations of their own."""
import json, os, re
import common
from common import Inconclusive, finish, log

LEVEL = "model_checking"
JAVA = "-Xms4g -Xmx4g -XX:ParallelGCThreads=4"
JAVA_MC = "-Xms4g -Xmx4g"   # fixed heap: the default sizing makes the monitor GC-bound
MM = re.compile(r'<<\s*"MISMATCH",\s*(\d+),\s*"([^"]*)",\s*"([^"]*)",\s*(\d)\s*>>')
NOTE = re.compile(r'<<\s*"NOTE",\s*(\d+),\s*"([^"]*)",\s*"([^"]*)"\s*>>')
FN = re.compile(r'txpool\.\(\*(TransactionPool|addressTransactions)\)\.([A-Za-z0-9_]+)')

# a more specific report on the same line makes these redundant
COVERED_BY = {
    "index-disagree:allTransactions-entry-not-in-one-sender-list": ("stale-after-",),
    "not-a-successor:add:replaced-still-pooled": ("stale-after-replacement",),
    "not-a-successor:add:evicted-still-pooled": ("stale-after-",),
}


def model_cfg(txs, senders, mx, acc, diff, minp):
    """spec/cfg/TxPool_q.cfg with the constants of one configuration"""
    s = open(os.path.join(common.SPEC, "cfg", "TxPool_q.cfg")).read()
    for k, v in (("Txs", txs), ("Senders", senders), ("MaxTransactions", mx), ("MaxTransactionsPerAccount", acc),
                 ("MinReplacementFeeDifference", diff), ("MinEntranceFeePriority", minp)):
        s, n = re.subn(r"(?m)^(\s*%s\s*(=|<-)\s*).*$" % k, lambda m: m.group(1) + str(v), s)
        if n != 1:
            raise Inconclusive("cfg key %s not found in TxPool_q.cfg" % k)
    return s


# floors of the scenarios added for the audit's gaps G1-G4, G6, G8 (about a third of the smallest value seen over seeds)
NEED_QUICK = dict(
    # G1/G6: promotion steps really suspended inside the verifier, resumed and checked as partial steps, with the list changed
    # under them (a member of the run removed, a not yet promoted transaction replaced), some with an invalid answer
    reorg_steps_suspended_in_verifier=50, ilv_steps_resumed_and_checked=40, ilv_promotable_replaced_while_suspended=8,
    ilv_run_member_removed_while_suspended=15, ilv_steps_resumed_with_invalid_answer=8,
    replacements_accepted=50, adds_evicting_a_processable=5, adds_evicting_from_the_sender_list=3,
    adds_at_full_pool_on_occupied_nonce_without_fee_increase=30, sequences_with_shifted_nonces=60,
    # G4: conn.Publish failed / transactions delivered by the announcement handler
    adds_with_publish_failure=50, adds_by_announcement_accepted=20,
    # G8: values returned by reads looked at again after later calls
    returned_values_looked_at_again_nonempty=200,
    # concurrent runs (normal and -race build): what the goroutines were told was checked
    conc_add=500, conc_reorg=200, conc_read_results_checked=50, note_conc_must_stay=5, race_conc_add=200, race_conc_reorg=80,
    # G3/G4: the pool's own Start()/ticker/End() with subscribers
    life_scenarios_clean=1, life_promotions_by_the_ticker=1, life_events_received=3, life_start_returned_after_end=1)
NEED_THOROUGH = {k: (3 * v if not k.startswith("life_") else 2 * v) for k, v in NEED_QUICK.items()}


def run_models(ctx):
    if ctx.tier == "quick":
        confs = [("Tx12", "S2", 1, 1, 2, 0), ("Tx12", "S2", 1, 2, 1, 1), ("Tx12", "S2", 2, 1, 2, 1), ("Tx12", "S2", 2, 2, 2, 1),
                 ("Tx12", "S2", 2, 3, 3, 2), ("Tx12", "S2", 3, 2, 2, 1)]
    else:
        dm = [(1, 0), (2, 1), (3, 2)]
        confs = [("Tx12", "S2", mx, acc) + dm[(mx + acc) % 3] for mx in (1, 2, 3) for acc in (1, 2, 3)]
        confs += [("Tx12", "S2", 3, 1, 1, 0), ("Tx12", "S2", 3, 2, 2, 1), ("Tx12", "S2", 3, 3, 2, 1), ("Tx12", "S2", 2, 2, 1, 0),
                  ("Tx16", "S2", 2, 2, 1, 0), ("Tx16", "S2", 3, 2, 2, 1), ("Tx18", "S3", 2, 2, 2, 1)]
    confs = [c for i, c in enumerate(confs) if c not in confs[:i]]
    done = []
    for c in confs:
        p = ctx.path("TxPool_%s_%d_%d_%d_%d.cfg" % (c[0], c[2], c[3], c[4], c[5]))
        open(p, "w").write(model_cfg(*c))
        r = ctx.tlc("MCTxPool", p, workers=16, timeout=900, java_opts=JAVA_MC)
        if r["violation"]:
            # the abstract pool itself breaks an invariant: a mistake in the specification, not an observation of the code
            raise Inconclusive("TLC reports an invariant violation in spec/TxPool.tla for %s (spec-level): %s" % (c, r["outpath"]))
        if "Model checking completed. No error has been found." not in r["out"]:
            raise Inconclusive("TLC did not complete for %s: %s" % (c, r["outpath"]))
        done.append(dict(universe=c[0], max=c[2], per_account=c[3], min_replacement_diff=c[4], min_fee_priority=c[5],
                         distinct=r["distinct"], generated=r["generated"]))
    return done


def describe(e, U):
    """one recorded line, readable"""
    t = e.get("t")
    d = U[t - 1] if t else None
    s = e["op"]
    if e.get("via") and e["via"] != "api":
        s += "[" + e["via"] + "]"
    if d:
        s += "(tx%d: sender %d nonce %d fee %d prio %d)" % (t, d["sender"], d["nonce"], d["fee"], d["fee"] // d["size"])
    if e["op"] == "verdict":
        s += " := " + e["v"]
    if e["op"] == "ilv":
        s = ("reorg STARTS and is suspended inside verifier call %d" % e.get("pause", 0)) if e.get("phase") == "suspended" \
            else "the suspended reorg RESUMES and completes"
    if e["op"] == "recheck":
        s = "the value returned by the earlier %s held %s, the same value now holds %s" % (e.get("of"), e.get("was"), e.get("now"))
    if e["op"] == "end":
        s = "End()"
    if e["op"] == "startexit":
        s = "Start() returns after End()"
    if e.get("pub") == "fail":
        s += " [conn.Publish fails]"
    if e.get("disturbed"):
        s += " [a ticker step ran meanwhile]"
    if e.get("in_ilv"):
        s += " [while the reorg is suspended]"
    if "res" in e and e["op"] in ("add", "remove", "get"):
        s += " -> %s" % bool(e["res"])
    if e.get("blocked"):
        s += " -> DOES NOT RETURN"
    if e.get("panic"):
        s += " -> PANIC"
    return s


def to_ops(hist):
    ops = []
    cur = None    # the interleaved step being assembled
    for e in hist:
        o = None
        if e["op"] in ("add", "remove", "get"):
            o = dict(op=e["op"], t=e["t"], via=e.get("via", ""))
            if e.get("pub"):
                o["pub"] = e["pub"]
        elif e["op"] in ("reorg", "getall", "getprocessable"):
            o = dict(op=e["op"])
        elif e["op"] == "verdict":
            o = dict(op="verdict", t=e["t"], v=e["v"])
        elif e["op"] == "ilv":
            if e.get("phase") == "suspended":
                cur = dict(op="ilv", pause=e.get("pause", 1), during=[])
                ops.append(cur)
            else:
                cur = None
            continue
        if o is None:
            continue
        if e.get("in_ilv") and cur is not None:
            cur["during"].append(o)
        else:
            ops.append(o)
    return ops


def panic_site(msg):
    fns = FN.findall(msg or "")
    return "%s.%s" % fns[0] if fns else "unknown"


def parse_races(stderr):
    """reports of the race detector -> list of dict(fns=[function of the first /repo frame of each access], text)"""
    repo = common.REPO.rstrip("/") + "/"
    res = []
    for blk in re.split(r"={18}\n", stderr):
        if "WARNING: DATA RACE" not in blk:
            continue
        fns = []
        for sec in re.split(r"\n\s*\n", blk):
            lines = sec.strip("\n").split("\n")
            while lines and not re.match(r"^(Read|Write|Previous read|Previous write|Atomic \w+|Previous atomic \w+) at ", lines[0]):
                lines = lines[1:]
            if not lines:
                continue
            hit = None
            for i in range(1, len(lines) - 1, 2):
                loc = re.match(r"\s*(\S+):(\d+)", lines[i + 1])
                if loc and loc.group(1).startswith(repo):
                    fn = re.sub(r"\(\)$", "", lines[i].strip()).rsplit("/", 1)[-1]
                    fn = fn.split(".", 1)[1] if "." in fn else fn
                    hit = re.sub(r"(\.func\d+)+$", "", fn.replace("(*", "").replace(")", ""))
                    break
            fns.append(hit)
        if len(fns) >= 2:
            res.append(dict(fns=fns[:2], text=blk[:1800]))
    return res


def validate(ctx, binp, mode, arg, seed, tag, stats, race=False, nonce_base=None, prefix="", fee_base=None):
    """run the driver, validate its trace with TLC; returns (lines, reports) with
    report = dict(key, secondary, line, event, history)"""
    tr = ctx.path("c14_%s.ndjson" % tag); meta = ctx.path("c14_%s.json" % tag)
    env = {"VERIF_SEED": str(seed)}
    if race:
        env["GORACE"] = "exitcode=0"
    if nonce_base is not None:
        env["VERIF_C14_NONCE_BASE"] = str(nonce_base)
    if fee_base is not None:
        env["VERIF_C14_FEE_BASE"] = str(fee_base)
    p = ctx.run([binp, mode, tr, meta, str(arg)], env=env, timeout=900)
    crashed = None
    if p.returncode != 0:
        if "goroutine " in p.stderr and ("panic:" in p.stderr or "fatal error:" in p.stderr):
            crashed = p.stderr   # a panic in a goroutine started by the pool itself kills the driver: an observation
        else:
            raise Inconclusive("c14 driver failed (rc=%d): %s" % (p.returncode, p.stderr[-1500:]))
    raw = open(tr).read().splitlines()
    while raw and not raw[-1].endswith("}"):
        raw.pop()
    if len(raw) < 2:
        raise Inconclusive("c14 driver produced no trace")
    if crashed:
        open(tr, "w").write("\n".join(raw) + "\n")
    evs = [json.loads(x) for x in raw]
    U = evs[0]["txs"]
    r = ctx.tlc("TxPoolTrace", "TxPoolTrace", workers=1, timeout=1500, files={"trace.ndjson": tr}, java_opts=JAVA)
    if r["violation"]:
        raise Inconclusive("TxPoolTrace failed at spec level: %s" % r["outpath"])
    if r["distinct"] - 1 != len(evs):
        raise Inconclusive("monitor consumed %d of %d lines: %s" % (r["distinct"] - 1, len(evs), r["outpath"]))
    starts = [i for i, e in enumerate(evs) if e["op"] == "reset"]

    def reset_of(ln):   # the reset line of the pool instance line ln (1-based) belongs to
        c = [i for i in starts if i < ln]
        return evs[max(c)] if c else {}

    def prefix_of(ln):
        e = evs[ln - 1]
        if reset_of(ln).get("mode") == "life":
            return prefix + "lifecycle:"
        if e["op"] == "ilv":
            return prefix + "interleaved:"
        if e["op"] == "concurrent" or (e["op"] == "snapshot" and mode == "conc"):
            return prefix + ("concurrent-plain:" if e.get("profile") == "plain" else "concurrent:")
        return prefix

    def history(ln):   # events of the pool instance up to line ln (1-based)
        s0 = max(i for i in starts if i < ln)
        return evs[s0], [e for e in evs[s0 + 1:ln - 1] if e["op"] not in ("intent", "recheck")]

    for ln, kind, detail in NOTE.findall(r["out"]):
        k = "note_" + kind.replace("-", "_")
        stats[k] = stats.get(k, 0) + (int(detail) if detail.isdigit() else 1)
    byline = {}
    for ln, kind, detail, sec in MM.findall(r["out"]):
        ln = int(ln); e = evs[ln - 1]
        if kind == "panic" and e["op"] in ("concurrent", "ilv"):
            detail = panic_site(e.get("panic"))
        elif kind == "panic":
            detail = "%s:%s" % (e["op"] if e["op"] != "snapshot" else "snapshot-after-" + e.get("after", ""), panic_site(e.get("panic")))
        if kind == "operation-blocked" and (e["op"] in ("concurrent", "ilv", "snapshot") or reset_of(ln).get("mode") == "life"):
            chains = e.get("blockedin") or []
            if any(re.search(r"evict(Unp|P)rocessable<Add", c) for c in chains):
                detail = "Add-when-full"   # Add -> evict* -> RLock on the mutex Add holds: the sequential self-deadlock
            else:
                # (a goroutine parked in Start's select is not stuck)
                detail += ":" + "+".join(sorted(set(c.split("] ")[-1] for c in chains if c != "[select] Start")))[:120]
        key = kind + (":" + detail if detail else "")
        # "accepted although the result exceeds the limit" is the over-capacity violation itself
        key = {"not-a-successor:add:over-capacity-pool": "over-capacity:pool",
               "not-a-successor:add:over-capacity-sender": "over-capacity:sender"}.get(key, key)
        if (key, int(sec)) in byline.get(ln, []):
            continue
        byline.setdefault(ln, []).append((key, int(sec)))
    reports = []
    for ln, ks in sorted(byline.items()):
        keys = [k for k, _ in ks]
        for key, sec in ks:
            cov = COVERED_BY.get(key)
            if cov and any(o != key and o.startswith(c) for o in keys for c in cov):
                continue
            reset, hist = history(ln)
            full = prefix_of(ln) + key if not key.startswith("operation-blocked:Add-when-full") else key
            reports.append(dict(key=full, secondary=sec, line=ln, event=evs[ln - 1], reset=reset, history=hist, mode=mode, seed=seed, arg=arg,
                                race=race, nonce_base=nonce_base, fee_base=fee_base))
    if crashed:
        site = panic_site(crashed[crashed.find("goroutine "):]) if "goroutine " in crashed else "unknown"
        reset, hist = history(len(evs) + 1)
        pf = prefix + ("concurrent:" if mode == "conc" else "lifecycle:" if mode == "life" else "")
        reports.append(dict(key=pf + "crash:" + site, secondary=0 if not any(x["line"] > starts[-1] for x in reports) else 1,
                            line=len(evs), event=dict(op="crash", panic=crashed[-1500:]), reset=reset, history=hist, mode=mode, seed=seed, arg=arg,
                            race=race, nonce_base=nonce_base, fee_base=fee_base))
    if race:
        races = parse_races(p.stderr)
        stats["race_reports_parsed"] = stats.get("race_reports_parsed", 0) + len(races)
        for rc in races:
            fns = sorted(set(f for f in rc["fns"] if f))
            if not fns:
                raise Inconclusive("the race detector reports a race inside the harness itself:\n%s" % rc["text"])
            reset, hist = history(len(evs) + 1)
            reports.append(dict(key=prefix + "concurrent:data-race:" + "+".join(fns), secondary=0, line=len(evs),
                                event=dict(op="race", panic=rc["text"]), reset=reset, history=[], mode=mode, seed=seed, arg=arg,
                                race=True, nonce_base=nonce_base))
    # ---- coverage statistics of this trace
    m = json.load(open(meta)) if os.path.exists(meta) else {}
    for k, v in m.items():
        if race and k.startswith("conc_"):
            k = "race_" + k
        stats[k] = stats.get(k, 0) + v
    if nonce_base is not None:
        stats["sequences_with_shifted_nonces"] = stats.get("sequences_with_shifted_nonces", 0) + m.get("sequences", 0)
    if fee_base is not None:
        stats["sequences_with_shifted_fees"] = stats.get("sequences_with_shifted_fees", 0) + m.get("sequences", 0)
    bump = lambda k: stats.__setitem__(k, stats.get(k, 0) + 1)
    pre = None; cfg = None
    susp = None   # the suspended step: dict(sender, proc nonces, promotable nonces, calls)
    for e in evs:
        if e["op"] == "reset":
            cfg = e; pre = dict(all=[], acc=[]); susp = None
            continue
        if e["op"] == "recheck":
            bump("returned_values_looked_at_again")
            if e["was"]:
                bump("returned_values_looked_at_again_nonempty")
        if "snap" not in e:
            continue
        sn = e["snap"]
        if any(a["proc"] for a in sn["acc"]):
            bump("states_with_processables")
        if any(len(a["proc"]) >= 2 for a in sn["acc"]):
            bump("states_with_run_of_2_or_more")
        if e["op"] == "add" and pre is not None:
            d = U[e["t"] - 1]
            full = len(pre["all"]) >= cfg["max"]
            if full:
                bump("adds_at_full_pool")
                if e.get("res") and pre["all"] and all(len(a["proc"]) == len(a["txs"]) for a in pre["acc"]) \
                        and set(pre["all"]) - set(sn["all"]):
                    bump("adds_evicting_a_processable")
            if e.get("via") == "announce":
                bump("adds_by_announcement")
                if e.get("res"):
                    bump("adds_by_announcement_accepted")
            for a in pre["acc"]:
                if a["s"] == d["sender"]:
                    occupied = any(x[0] == d["nonce"] and x[1] != e["t"] for x in a["txs"])
                    if len(a["txs"]) >= cfg["acc"]:
                        bump("adds_at_full_sender")
                        if e.get("res") and not occupied and not full:
                            bump("adds_evicting_from_the_sender_list")
                    if occupied and full and any(x[0] == d["nonce"] and U[x[1] - 1]["fee"] + cfg["diff"] > d["fee"] for x in a["txs"]):
                        bump("adds_at_full_pool_on_occupied_nonce_without_fee_increase")   # G5: the victim must not be the occupant
                    if occupied:
                        bump("adds_on_occupied_nonce")
                        if e.get("res"):
                            bump("replacements_accepted")
            if e.get("pub") == "fail" and e["t"] in sn["all"] and e["t"] not in pre["all"]:
                bump("adds_kept_although_publish_failed")
            if susp and e.get("in_ilv") and e.get("res") and d["sender"] == susp["s"]:
                if d["nonce"] in susp["promotable"] and any(x[0] == d["nonce"] and x[1] != e["t"] for a in pre["acc"] if a["s"] == d["sender"] for x in a["txs"]):
                    bump("ilv_promotable_replaced_while_suspended")
                elif d["nonce"] in susp["proc"]:
                    bump("ilv_processable_replaced_while_suspended")
        if e["op"] == "remove" and susp and e.get("in_ilv") and e.get("res"):
            d = U[e["t"] - 1]
            if d["sender"] == susp["s"] and d["nonce"] in susp["proc"] + susp["promotable"]:
                bump("ilv_run_member_removed_while_suspended")
        if e["op"] == "reorg" and any(c["v"] == "invalid" for c in e.get("calls", [])):
            bump("reorg_steps_with_invalid_answer")
        if e["op"] == "reorg" and any(c["v"] == "pending" for c in e.get("calls", [])):
            bump("reorg_steps_with_pending_answer")
        if e["op"] == "ilv" and e.get("phase") == "suspended":
            bump("reorg_steps_suspended_in_verifier")
            susp = None
            cs = e.get("calls", [])
            if 1 <= e.get("pause", 0) <= len(cs) and pre is not None:
                sp = U[cs[e["pause"] - 1]["t"] - 1]["sender"]
                for a in pre["acc"]:
                    if a["s"] == sp:
                        ns = sorted(x[0] for x in a["txs"])
                        nxt = a["proc"][-1] + 1 if a["proc"] else (ns[0] if ns else 0)
                        prom = []
                        while nxt in ns:
                            prom.append(nxt); nxt += 1
                        susp = dict(s=sp, proc=list(a["proc"]), promotable=prom, calls=cs)
        if e["op"] == "ilv" and e.get("phase") == "resumed":
            if e.get("merged"):
                bump("ilv_steps_recorded_merged")
            elif susp:
                bump("ilv_steps_resumed_and_checked")
                if any(c["v"] == "invalid" for c in susp["calls"] + e.get("calls", [])):
                    bump("ilv_steps_resumed_with_invalid_answer")
            susp = None
        pre = sn
    stats["lines_validated"] = stats.get("lines_validated", 0) + len(evs) - 1
    return evs, reports


def replay_obj(x):
    if x["mode"] in ("conc", "life"):
        d = dict(mode=x["mode"], seed=x["seed"], runs=x["arg"],
                 note="goroutine schedules / ticker instants are not reproducible exactly; rerun the same seed")
        if x.get("race"):
            d["build"] = "race"
        return d
    c = x["reset"]
    ops = to_ops(x["history"] + ([x["event"]] if x["event"]["op"] not in ("crash", "snapshot", "recheck", "race") else []))
    d = dict(mode="script", sequences=[dict(cfg=dict(max=c["max"], acc=c["acc"], diff=c["diff"], minp=c["minp"]), ops=ops)])
    if x.get("nonce_base") is not None:
        d["nonce_base"] = str(x["nonce_base"])
    if x.get("fee_base") is not None:
        d["fee_base"] = str(x["fee_base"])
    return d


def what_text(x, U):
    c = x["reset"]
    steps = [describe(e, U) for e in x["history"]] + [describe(x["event"], U) if x["event"]["op"] not in ("crash", "race") else
                                                      "process crash" if x["event"]["op"] == "crash" else "report of the race detector (-race build)"]
    extra = ""
    ev = x["event"]
    if ev.get("blockedin"):
        extra = " stuck in: %s" % "; ".join(ev["blockedin"][:4])
    if ev.get("panic"):
        extra = " panic: %s" % ev["panic"][:400]
    if "snap" in ev:
        extra += " observed: %s" % json.dumps(ev["snap"])[:500]
    if x.get("nonce_base") is not None:
        extra += " [every nonce shifted by %s inside the pool]" % x["nonce_base"]
    if x.get("fee_base") is not None:
        extra += " [every fee shifted by %s inside the pool: the fees of the universe are %s + the fee shown]" % (x["fee_base"], x["fee_base"])
    return "%s at trace line %d. Pool(max=%d, perAccount=%d, minReplacementDiff=%d, minFeePriority=%d): %s.%s" % (
        x["key"], x["line"], c["max"], c["acc"], c["diff"], c["minp"], " ; ".join(steps[-40:]), extra)


def minimize(ctx, binp, x, rounds=5):
    """shrink the witness of a report by removing chunks of operations (all candidates of a round are
    executed in one driver run and validated by one monitor run)"""
    rp = replay_obj(x)
    if rp.get("mode") != "script":
        return x
    cfg = rp["sequences"][0]["cfg"]; ops = rp["sequences"][0]["ops"]
    best = x
    for rnd in range(rounds):
        n = len(ops)
        if n <= 2:
            break
        cands = []; size = n // 2
        while size >= 1 and len(cands) < 60:
            for st in range(0, n, size):
                c = ops[:st] + ops[st + size:]
                if c and c not in cands:
                    cands.append(c)
            size //= 2
        sp = ctx.path("min_%d.json" % rnd); json.dump([dict(cfg=cfg, ops=c) for c in cands[:60]], open(sp, "w"))
        try:
            evs, reports = validate(ctx, binp, "script", sp, ctx.seed, "min%d" % rnd, {}, nonce_base=x.get("nonce_base"),
                                    fee_base=x.get("fee_base"), prefix=x.get("prefix", ""))
        except Inconclusive:
            break
        ok = [y for y in reports if y["key"] == x["key"] and not y["secondary"]]
        if not ok:
            break
        y = min(ok, key=lambda z: len(z["history"]))
        if len(y["history"]) >= len(best["history"]):
            break
        best = y
        ops = replay_obj(y)["sequences"][0]["ops"]
    return best


# the universe shifted inside the real pool (the trace keeps small numbers): nonce ranks 0..4 straddle 2^63 / rank 7 is
# 2^64 - 1; the largest fee is 2^64 - 1
SHIFTS = (("nonce-2^63:", dict(nonce_base=2 ** 63 - 3)), ("nonce-2^64:", dict(nonce_base=2 ** 64 - 8)),
          ("fee-2^64:", dict(fee_base=2 ** 64 - 1 - 600)))


def run(ctx):
    import threading
    stats = {}
    if ctx.replay:
        d = json.load(open(ctx.replay))["replay"]
        binp = ctx.go_build("./cmd/c14", race=d.get("build") == "race")
        if d.get("mode") in ("conc", "life"):
            evs, reports = validate(ctx, binp, d["mode"], d["runs"], d["seed"], "replay", stats, race=d.get("build") == "race")
        else:
            sp = ctx.path("replay_script.json"); json.dump(d["sequences"], open(sp, "w"))
            sh = {k: int(d[k]) for k in ("nonce_base", "fee_base") if d.get(k)}
            pf = next((p for p, b in SHIFTS if b == sh), "")
            evs, reports = validate(ctx, binp, "script", sp, ctx.seed, "replay", stats, prefix=pf, **sh)
        U = evs[0]["txs"]
        for x in reports:
            if not x["secondary"]:
                ctx.violation(x["key"], what_text(x, U), replay_obj(x))
        finish(ctx, LEVEL, dict(traces_validated_against_impl=stats.get("sequences", 0), samples=evs[1:6], **stats))

    binp = ctx.go_build("./cmd/c14")
    # the -race build (link time ~ 40 s) is made while TLC works on the models
    race_build = {}

    def build_race():
        try:
            race_build["bin"] = ctx.go_build("./cmd/c14", race=True)
        except Inconclusive as e:
            race_build["err"] = e
        except Exception as e:   # pragma: no cover
            race_build["err"] = Inconclusive("race build failed: %s" % e)
    th = threading.Thread(target=build_race); th.start()
    try:
        models = run_models(ctx)
    finally:
        th.join()
    if "err" in race_build:
        raise race_build["err"]
    bin_race = race_build["bin"]

    quick = ctx.tier == "quick"
    # (mode, n per round, rounds, race build, (key prefix, shift of the universe))
    if quick:
        plan = [("seq", 320, 1, False, None), ("seq", 40, 1, False, SHIFTS[0]), ("seq", 40, 1, False, SHIFTS[1]),
                ("ilv", 200, 1, False, None), ("conc", 40, 1, False, None), ("conc", 16, 1, True, None), ("life", 3, 1, False, None)]
    else:
        plan = [("seq", 1200, 2, False, None), ("seq", 300, 1, False, SHIFTS[0]), ("seq", 300, 1, False, SHIFTS[1]),
                ("ilv", 800, 1, False, None), ("conc", 150, 2, False, None), ("conc", 100, 2, True, None), ("ilv", 200, 1, True, None),
                ("life", 12, 1, False, None)]
    if os.environ.get("VERIF_EXPERIMENTAL") == "1":
        # fees next to 2^64: on the pinned tree the sum `existing fee + MinReplacementFeeDifference` wraps around and a
        # replacement with a LOWER fee is accepted (reported as fee-2^64:not-a-successor:add:replacement-without-fee-increase);
        # kept out of the default run until the finding is triaged
        plan.append(("seq", 60 if quick else 300, 1, False, SHIFTS[2]))
    best = {}       # key -> shortest witness
    counts = {}
    secondary = {}
    samples = []
    U = None
    for pi, (mode, n, rounds, race, nb) in enumerate(plan):
        for i in range(rounds):
            seed = ctx.seed * 1000 + i + 17 * pi
            tag = "%s%d_%d" % (mode, pi, i)
            evs, reports = validate(ctx, bin_race if race else binp, mode, n, seed, tag, stats, race=race,
                                    prefix=nb[0] if nb else "", **(nb[1] if nb else {}))
            U = evs[0]["txs"]
            for x in reports:
                x["prefix"] = nb[0] if nb else ""
                if x["secondary"]:
                    secondary[x["key"]] = secondary.get(x["key"], 0) + 1
                    continue
                counts[x["key"]] = counts.get(x["key"], 0) + 1
                rank = lambda y: (y["mode"] in ("conc", "life"), len(y["history"]))
                if x["key"] not in best or rank(x) < rank(best[x["key"]]):
                    best[x["key"]] = x
            log("[c14] %s%s%s round %d: %d lines, reports: %s" % (mode, " (-race)" if race else "", " (%s)" % nb[0] if nb else "", i, len(evs) - 1,
                sorted(set(x["key"] for x in reports if not x["secondary"]))))
            if mode == "seq" and not samples:
                k = next((j for j, e in enumerate(evs) if e["op"] == "add" and e.get("res") == 1), 1)
                samples = evs[k:k + 4]
    known = set(f["key"] for f in common.load_findings() if f["property"] == ctx.pid and f.get("status") == "open")
    budget = 2 if quick else 6
    for key in sorted(best):
        x = best[key]
        if key not in known and len(x["history"]) > 6 and x["mode"] not in ("conc", "life") and not x.get("race") and budget > 0:
            budget -= 1
            n0 = len(x["history"])
            x = minimize(ctx, binp, x)
            log("[c14] witness of %s minimised from %d to %d preceding operations" % (key, n0, len(x["history"])))
        ctx.violation(key, what_text(x, U) + " [%d occurrences in this run]" % counts[key], replay_obj(x))
    # non-vacuity of the binding: a run in which one of the scenarios never happened proves nothing about it
    need = dict(states_with_processables=50, states_with_run_of_2_or_more=10, adds_at_full_pool=20, adds_at_full_sender=10,
                adds_on_occupied_nonce=20, reorg_steps_with_invalid_answer=5, op_remove=20)
    need.update(NEED_QUICK if quick else NEED_THOROUGH)
    low = {k: stats.get(k, 0) for k, v in need.items() if stats.get(k, 0) < v}
    if not ctx.violations and (low):
        raise Inconclusive("driver did not exercise the interesting cases (vacuous): %s" % low)
    cov = dict(traces_validated_against_impl=stats.get("sequences", 0), samples=samples,
               model_configurations=models, violation_counts=counts, secondary_reports=secondary,
               exhaustive=True,
               rule="TLC explores the complete reachable state graph of TxPool.tla for each listed configuration; "
                    "every recorded call of the real pool = one monitor state, its snapshot checked against the invariants "
                    "and against the permitted results of that call in the previously observed state", **stats)
    finish(ctx, LEVEL, cov, assumptions=[
        "model universe: 2-3 senders, nonces 0..3, 2 fee levels, limits 1..3 (complete state graph, no depth bound)",
        "harness universe: 3 senders x nonces {0,1,2,3,4,7} x 5 fees x 2 variants; limits 1..6 and large",
        "a verifier answer 'pending' may promote or keep (the statement does not fix it); ABI errors count as invalid",
        "transaction expiry (config field without code) and p2p announcement handling are outside the property",
        "concurrent mode checks the state at quiescence and every value a read returned; goroutine schedules are sampled, "
        "not enumerated; promotion steps never overlap each other (the pool runs them from one ticker goroutine)",
        "not demanded (the statement is silent; counted as note_* in the coverage): that a transaction is accepted, that a "
        "promotion step promotes as far as it could or drops more than the invalid transaction, the order and the stored "
        "priority of the fee queue",
        "life mode: the promotion steps are those of the pool's own 500 ms ticker; a call during which such a step asked the "
        "verifier is checked against the invariants only"])
