"""C14 transaction pool: indexes consistent, sizes bounded, every operation returns.

1. TLC checks the invariants of spec/TxPool.tla exhaustively (complete reachable state graph, every verifier
   answer) for several configurations of a small universe (2 senders x nonces x 2 fee levels, limits 1..3).
2. Binding (trace validation): harness/cmd/c14 drives the REAL txpool.TransactionPool (stub ABI with scripted
   verifier answers, stub connection) and records after every call the result, the verifier calls and
   VerifSnapshot(); every call runs under a watchdog.  spec/trace/TxPoolTrace.tla checks every recorded
   post-state against the invariants and against the set of results TxPool.tla permits for that call.
   Three driver modes: seq (sequential random sequences), ilv (a promotion step suspended inside the verifier
   while other calls run), conc (N goroutines, snapshot at quiescence).
Violation keys are <kind>[:<detail>] as printed by the monitor (index-disagree:<which>, over-capacity:pool|sender,
duplicate-nonce:<where>, stale-after-replacement:<index>, stale-after-sender-eviction:<index>, processable-gap,
processable-unverified, not-a-successor:<op>:<diagnosis>, operation-blocked:<what>, panic:<op>:<site>);
reports on the state after a suspended promotion step resumed are prefixed "interleaved:", reports on the quiescent
state of a concurrent run "concurrent:" (profile mixed) or "concurrent-plain:" (profile plain: no limit reachable, no
two candidates share sender and nonce - neither eviction nor replacement can happen, only the interleaving is left);
the Add -> evict* -> RLock self-deadlock is operation-blocked:Add-when-full in every mode.
Reports made while the previously observed state already had disagreeing indexes are consequences of the
report that broke them; they are counted (coverage.secondary_reports) but are not violations of their own."""
import json, os, re
import common
from common import Inconclusive, finish, log

LEVEL = "model_checking"
JAVA = "-Xms4g -Xmx4g -XX:ParallelGCThreads=4"
JAVA_MC = "-Xms4g -Xmx4g"   # fixed heap: the default sizing makes the monitor GC-bound
MM = re.compile(r'<<\s*"MISMATCH",\s*(\d+),\s*"([^"]*)",\s*"([^"]*)",\s*(\d)\s*>>')
FN = re.compile(r'txpool\.\(\*(TransactionPool|addressTransactions)\)\.([A-Za-z0-9_]+)')

# a more specific report on the same line makes these redundant
COVERED_BY = {
    "index-disagree:allTransactions-entry-not-in-one-sender-list": ("stale-after-",),
    "not-a-successor:add:replaced-still-pooled": ("stale-after-replacement",),
    "not-a-successor:add:evicted-still-pooled": ("stale-after-",),
}


def model_cfg(txs, senders, mx, acc, diff, minp):
    """spec/cfg/TxPool_q.cfg with the constants of one configuration"""
    s = open(os.path.join(common.SPEC, "cfg", "TxPool_q.cfg")).read()
    for k, v in (("Txs", txs), ("Senders", senders), ("MaxTransactions", mx), ("MaxTransactionsPerAccount", acc),
                 ("MinReplacementFeeDifference", diff), ("MinEntranceFeePriority", minp)):
        s, n = re.subn(r"(?m)^(\s*%s\s*(=|<-)\s*).*$" % k, lambda m: m.group(1) + str(v), s)
        if n != 1:
            raise Inconclusive("cfg key %s not found in TxPool_q.cfg" % k)
    return s


def run_models(ctx):
    if ctx.tier == "quick":
        confs = [("Tx12", "S2", 1, 1, 2, 0), ("Tx12", "S2", 1, 2, 1, 1), ("Tx12", "S2", 2, 1, 2, 1), ("Tx12", "S2", 2, 2, 2, 1),
                 ("Tx12", "S2", 2, 3, 3, 2), ("Tx12", "S2", 3, 2, 2, 1)]
    else:
        dm = [(1, 0), (2, 1), (3, 2)]
        confs = [("Tx12", "S2", mx, acc) + dm[(mx + acc) % 3] for mx in (1, 2, 3) for acc in (1, 2, 3)]
        confs += [("Tx12", "S2", 3, 1, 1, 0), ("Tx12", "S2", 3, 2, 2, 1), ("Tx12", "S2", 3, 3, 2, 1), ("Tx12", "S2", 2, 2, 1, 0),
                  ("Tx16", "S2", 2, 2, 1, 0), ("Tx16", "S2", 3, 2, 2, 1), ("Tx18", "S3", 2, 2, 2, 1)]
    confs = [c for i, c in enumerate(confs) if c not in confs[:i]]
    done = []
    for c in confs:
        p = ctx.path("TxPool_%s_%d_%d_%d_%d.cfg" % (c[0], c[2], c[3], c[4], c[5]))
        open(p, "w").write(model_cfg(*c))
        r = ctx.tlc("MCTxPool", p, workers=16, timeout=900, java_opts=JAVA_MC)
        if r["violation"]:
            # the abstract pool itself breaks an invariant: a mistake in the specification, not an observation of the code
            raise Inconclusive("TLC reports an invariant violation in spec/TxPool.tla for %s (spec-level): %s" % (c, r["outpath"]))
        if "Model checking completed. No error has been found." not in r["out"]:
            raise Inconclusive("TLC did not complete for %s: %s" % (c, r["outpath"]))
        done.append(dict(universe=c[0], max=c[2], per_account=c[3], min_replacement_diff=c[4], min_fee_priority=c[5],
                         distinct=r["distinct"], generated=r["generated"]))
    return done


def describe(e, U):
    """one recorded line, readable"""
    t = e.get("t")
    d = U[t - 1] if t else None
    s = e["op"]
    if e.get("via") and e["via"] != "api":
        s += "[" + e["via"] + "]"
    if d:
        s += "(tx%d: sender %d nonce %d fee %d prio %d)" % (t, d["sender"], d["nonce"], d["fee"], d["fee"] // d["size"])
    if e["op"] == "verdict":
        s += " := " + e["v"]
    if e["op"] == "ilv":
        s = ("reorg STARTS and is suspended inside verifier call %d" % e.get("pause", 0)) if e.get("phase") == "suspended" \
            else "the suspended reorg RESUMES and completes"
    if e.get("in_ilv"):
        s += " [while the reorg is suspended]"
    if "res" in e and e["op"] in ("add", "remove", "get"):
        s += " -> %s" % bool(e["res"])
    if e.get("blocked"):
        s += " -> DOES NOT RETURN"
    if e.get("panic"):
        s += " -> PANIC"
    return s


def to_ops(hist):
    ops = []
    cur = None    # the interleaved step being assembled
    for e in hist:
        o = None
        if e["op"] in ("add", "remove", "get"):
            o = dict(op=e["op"], t=e["t"], via=e.get("via", ""))
        elif e["op"] in ("reorg", "getall", "getprocessable"):
            o = dict(op=e["op"])
        elif e["op"] == "verdict":
            o = dict(op="verdict", t=e["t"], v=e["v"])
        elif e["op"] == "ilv":
            if e.get("phase") == "suspended":
                cur = dict(op="ilv", pause=e.get("pause", 1), during=[])
                ops.append(cur)
            else:
                cur = None
            continue
        if o is None:
            continue
        if e.get("in_ilv") and cur is not None:
            cur["during"].append(o)
        else:
            ops.append(o)
    return ops


def panic_site(msg):
    fns = FN.findall(msg or "")
    return "%s.%s" % fns[0] if fns else "unknown"


def validate(ctx, binp, mode, arg, seed, tag, stats):
    """run the driver, validate its trace with TLC; returns (lines, reports) with
    report = dict(key, secondary, line, event, history)"""
    tr = ctx.path("c14_%s.ndjson" % tag); meta = ctx.path("c14_%s.json" % tag)
    p = ctx.run([binp, mode, tr, meta, str(arg)], env={"VERIF_SEED": str(seed)}, timeout=900)
    crashed = None
    if p.returncode != 0:
        if "goroutine " in p.stderr and ("panic:" in p.stderr or "fatal error:" in p.stderr):
            crashed = p.stderr   # a panic in a goroutine started by the pool itself kills the driver: an observation
        else:
            raise Inconclusive("c14 driver failed (rc=%d): %s" % (p.returncode, p.stderr[-1500:]))
    raw = open(tr).read().splitlines()
    while raw and not raw[-1].endswith("}"):
        raw.pop()
    if len(raw) < 2:
        raise Inconclusive("c14 driver produced no trace")
    if crashed:
        open(tr, "w").write("\n".join(raw) + "\n")
    evs = [json.loads(x) for x in raw]
    U = evs[0]["txs"]
    r = ctx.tlc("TxPoolTrace", "TxPoolTrace", workers=1, timeout=1500, files={"trace.ndjson": tr}, java_opts=JAVA)
    if r["violation"]:
        raise Inconclusive("TxPoolTrace failed at spec level: %s" % r["outpath"])
    if r["distinct"] - 1 != len(evs):
        raise Inconclusive("monitor consumed %d of %d lines: %s" % (r["distinct"] - 1, len(evs), r["outpath"]))
    def prefix_of(e):
        if e["op"] == "ilv":
            return "interleaved:"
        if e["op"] == "concurrent" or (e["op"] == "snapshot" and mode == "conc"):
            return "concurrent-plain:" if e.get("profile") == "plain" else "concurrent:"
        return ""
    starts = [i for i, e in enumerate(evs) if e["op"] == "reset"]

    def history(ln):   # events of the pool instance up to line ln (1-based)
        s0 = max(i for i in starts if i < ln)
        return evs[s0], [e for e in evs[s0 + 1:ln - 1] if e["op"] != "intent"]

    byline = {}
    for ln, kind, detail, sec in MM.findall(r["out"]):
        ln = int(ln); e = evs[ln - 1]
        if kind == "panic" and e["op"] in ("concurrent", "ilv"):
            detail = panic_site(e.get("panic"))
        elif kind == "panic":
            detail = "%s:%s" % (e["op"] if e["op"] != "snapshot" else "snapshot-after-" + e.get("after", ""), panic_site(e.get("panic")))
        if kind == "operation-blocked" and e["op"] in ("concurrent", "ilv", "snapshot"):
            chains = e.get("blockedin") or []
            if any(re.search(r"evict(Unp|P)rocessable<Add", c) for c in chains):
                detail = "Add-when-full"   # Add -> evict* -> RLock on the mutex Add holds: the sequential self-deadlock
            else:
                detail += ":" + "+".join(sorted(set(c.split("] ")[-1] for c in chains)))[:120]
        key = kind + (":" + detail if detail else "")
        # "accepted although the result exceeds the limit" is the over-capacity violation itself
        key = {"not-a-successor:add:over-capacity-pool": "over-capacity:pool",
               "not-a-successor:add:over-capacity-sender": "over-capacity:sender"}.get(key, key)
        if (key, int(sec)) in byline.get(ln, []):
            continue
        byline.setdefault(ln, []).append((key, int(sec)))
    reports = []
    for ln, ks in sorted(byline.items()):
        keys = [k for k, _ in ks]
        for key, sec in ks:
            cov = COVERED_BY.get(key)
            if cov and any(o != key and o.startswith(c) for o in keys for c in cov):
                continue
            reset, hist = history(ln)
            full = prefix_of(evs[ln - 1]) + key if not key.startswith("operation-blocked:Add-when-full") else key
            reports.append(dict(key=full, secondary=sec, line=ln, event=evs[ln - 1], reset=reset, history=hist, mode=mode, seed=seed, arg=arg))
    if crashed:
        site = panic_site(crashed[crashed.find("goroutine "):]) if "goroutine " in crashed else "unknown"
        reset, hist = history(len(evs) + 1)
        reports.append(dict(key=("concurrent:" if mode == "conc" else "") + "crash:" + site, secondary=0 if not any(x["line"] > starts[-1] for x in reports) else 1,
                            line=len(evs), event=dict(op="crash", panic=crashed[-1500:]), reset=reset, history=hist, mode=mode, seed=seed, arg=arg))
    # ---- coverage statistics of this trace
    m = json.load(open(meta)) if os.path.exists(meta) else {}
    for k, v in m.items():
        stats[k] = stats.get(k, 0) + v
    pre = None; cfg = None
    for e in evs:
        if e["op"] == "reset":
            cfg = e; pre = dict(all=[], acc=[])
            continue
        if "snap" not in e:
            continue
        sn = e["snap"]
        if any(a["proc"] for a in sn["acc"]):
            stats["states_with_processables"] = stats.get("states_with_processables", 0) + 1
        if any(len(a["proc"]) >= 2 for a in sn["acc"]):
            stats["states_with_run_of_2_or_more"] = stats.get("states_with_run_of_2_or_more", 0) + 1
        if e["op"] == "add" and pre is not None:
            d = U[e["t"] - 1]
            if len(pre["all"]) >= cfg["max"]:
                stats["adds_at_full_pool"] = stats.get("adds_at_full_pool", 0) + 1
            for a in pre["acc"]:
                if a["s"] == d["sender"]:
                    if len(a["txs"]) >= cfg["acc"]:
                        stats["adds_at_full_sender"] = stats.get("adds_at_full_sender", 0) + 1
                    if any(x[0] == d["nonce"] and x[1] != e["t"] for x in a["txs"]):
                        stats["adds_on_occupied_nonce"] = stats.get("adds_on_occupied_nonce", 0) + 1
                        if e.get("res"):
                            stats["replacements_accepted"] = stats.get("replacements_accepted", 0) + 1
        if e["op"] == "reorg" and any(c["v"] == "invalid" for c in e.get("calls", [])):
            stats["reorg_steps_with_invalid_answer"] = stats.get("reorg_steps_with_invalid_answer", 0) + 1
        if e["op"] == "reorg" and any(c["v"] == "pending" for c in e.get("calls", [])):
            stats["reorg_steps_with_pending_answer"] = stats.get("reorg_steps_with_pending_answer", 0) + 1
        if e["op"] == "ilv" and e.get("phase") == "suspended":
            stats["reorg_steps_suspended_in_verifier"] = stats.get("reorg_steps_suspended_in_verifier", 0) + 1
        pre = sn
    stats["lines_validated"] = stats.get("lines_validated", 0) + len(evs) - 1
    return evs, reports


def replay_obj(x):
    if x["mode"] == "conc":
        return dict(mode="conc", seed=x["seed"], runs=x["arg"], note="goroutine schedules are not reproducible exactly; rerun the same seed")
    c = x["reset"]
    ops = to_ops(x["history"] + ([x["event"]] if x["event"]["op"] not in ("crash", "snapshot") else []))
    return dict(mode="script", sequences=[dict(cfg=dict(max=c["max"], acc=c["acc"], diff=c["diff"], minp=c["minp"]), ops=ops)])


def what_text(x, U):
    c = x["reset"]
    steps = [describe(e, U) for e in x["history"]] + [describe(x["event"], U) if x["event"]["op"] != "crash" else "process crash"]
    extra = ""
    ev = x["event"]
    if ev.get("blockedin"):
        extra = " stuck in: %s" % "; ".join(ev["blockedin"][:4])
    if ev.get("panic"):
        extra = " panic: %s" % ev["panic"][:400]
    if "snap" in ev:
        extra += " observed: %s" % json.dumps(ev["snap"])[:500]
    return "%s at trace line %d. Pool(max=%d, perAccount=%d, minReplacementDiff=%d, minFeePriority=%d): %s.%s" % (
        x["key"], x["line"], c["max"], c["acc"], c["diff"], c["minp"], " ; ".join(steps[-40:]), extra)


def minimize(ctx, binp, x, rounds=5):
    """shrink the witness of a report by removing chunks of operations (all candidates of a round are
    executed in one driver run and validated by one monitor run)"""
    rp = replay_obj(x)
    if rp.get("mode") != "script":
        return x
    cfg = rp["sequences"][0]["cfg"]; ops = rp["sequences"][0]["ops"]
    best = x
    for rnd in range(rounds):
        n = len(ops)
        if n <= 2:
            break
        cands = []; size = n // 2
        while size >= 1 and len(cands) < 60:
            for st in range(0, n, size):
                c = ops[:st] + ops[st + size:]
                if c and c not in cands:
                    cands.append(c)
            size //= 2
        sp = ctx.path("min_%d.json" % rnd); json.dump([dict(cfg=cfg, ops=c) for c in cands[:60]], open(sp, "w"))
        try:
            evs, reports = validate(ctx, binp, "script", sp, ctx.seed, "min%d" % rnd, {})
        except Inconclusive:
            break
        ok = [y for y in reports if y["key"] == x["key"] and not y["secondary"]]
        if not ok:
            break
        y = min(ok, key=lambda z: len(z["history"]))
        if len(y["history"]) >= len(best["history"]):
            break
        best = y
        ops = replay_obj(y)["sequences"][0]["ops"]
    return best


def run(ctx):
    binp = ctx.go_build("./cmd/c14")
    stats = {}
    if ctx.replay:
        d = json.load(open(ctx.replay))["replay"]
        if d.get("mode") == "conc":
            evs, reports = validate(ctx, binp, "conc", d["runs"], d["seed"], "replay", stats)
        else:
            sp = ctx.path("replay_script.json"); json.dump(d["sequences"], open(sp, "w"))
            evs, reports = validate(ctx, binp, "script", sp, ctx.seed, "replay", stats)
        U = evs[0]["txs"]
        for x in reports:
            if not x["secondary"]:
                ctx.violation(x["key"], what_text(x, U), replay_obj(x))
        finish(ctx, LEVEL, dict(traces_validated_against_impl=stats.get("sequences", 0), samples=evs[1:6], **stats))

    models = run_models(ctx)

    quick = ctx.tier == "quick"
    plan = []   # (mode, n per round, rounds)
    if quick:
        plan = [("seq", 400, 1), ("ilv", 150, 1), ("conc", 40, 1)]
    else:
        plan = [("seq", 1200, 2), ("ilv", 800, 1), ("conc", 150, 2)]
    best = {}       # key -> shortest witness
    counts = {}
    secondary = {}
    samples = []
    U = None
    for mode, n, rounds in plan:
        for i in range(rounds):
            seed = ctx.seed * 1000 + i
            evs, reports = validate(ctx, binp, mode, n, seed, "%s%d" % (mode, i), stats)
            U = evs[0]["txs"]
            for x in reports:
                if x["secondary"]:
                    secondary[x["key"]] = secondary.get(x["key"], 0) + 1
                    continue
                counts[x["key"]] = counts.get(x["key"], 0) + 1
                rank = lambda y: (y["mode"] == "conc", len(y["history"]))
                if x["key"] not in best or rank(x) < rank(best[x["key"]]):
                    best[x["key"]] = x
            log("[c14] %s round %d: %d lines, reports: %s" % (mode, i, len(evs) - 1,
                sorted(set(x["key"] for x in reports if not x["secondary"]))))
            if mode == "seq" and not samples:
                k = next((j for j, e in enumerate(evs) if e["op"] == "add" and e.get("res") == 1), 1)
                samples = evs[k:k + 4]
    known = set(f["key"] for f in common.load_findings() if f["property"] == ctx.pid and f.get("status") == "open")
    budget = 2 if quick else 6
    for key in sorted(best):
        x = best[key]
        if key not in known and len(x["history"]) > 6 and x["mode"] != "conc" and budget > 0:
            budget -= 1
            n0 = len(x["history"])
            x = minimize(ctx, binp, x)
            log("[c14] witness of %s minimised from %d to %d preceding operations" % (key, n0, len(x["history"])))
        ctx.violation(key, what_text(x, U) + " [%d occurrences in this run]" % counts[key], replay_obj(x))
    # non-vacuity of the binding
    need = dict(states_with_processables=50, states_with_run_of_2_or_more=10, adds_at_full_pool=20, adds_at_full_sender=10,
                adds_on_occupied_nonce=20, reorg_steps_with_invalid_answer=5, op_remove=20)
    low = {k: stats.get(k, 0) for k, v in need.items() if stats.get(k, 0) < v}
    if not ctx.violations and (low):
        raise Inconclusive("driver did not exercise the interesting cases (vacuous): %s" % low)
    cov = dict(traces_validated_against_impl=stats.get("sequences", 0), samples=samples,
               model_configurations=models, violation_counts=counts, secondary_reports=secondary,
               exhaustive=True,
               rule="TLC explores the complete reachable state graph of TxPool.tla for each listed configuration; "
                    "every recorded call of the real pool = one monitor state, its snapshot checked against the invariants "
                    "and against the permitted results of that call in the previously observed state", **stats)
    finish(ctx, LEVEL, cov, assumptions=[
        "model universe: 2-3 senders, nonces 0..3, 2 fee levels, limits 1..3 (complete state graph, no depth bound)",
        "harness universe: 3 senders x nonces {0,1,2,3,4,7} x 5 fees x 2 variants; limits 1..6 and large",
        "a verifier answer 'pending' may promote or keep (the statement does not fix it); ABI errors count as invalid",
        "transaction expiry (config field without code) and p2p announcement handling are outside the property",
        "concurrent mode checks the state at quiescence only; goroutine schedules are sampled, not enumerated"])
