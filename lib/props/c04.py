"""C04 finalized blocks are irreversible and the finalized height never decreases.
(i) Node.tla: TLC checks FinalMonotone / FinalizedIrreversible / FinalSane over all behaviours (valid blocks, LIP-0014 tie
breaks, deletes incl. at/below the finalized height, restarts); the scripts are replayed on the real Executer: the stored
finalized height, the finalize events and the refusal to delete/replace a finalized tip are compared after every step.
(ii) Sync scenarios of C19 (fast sync, block sync, corrupting / truncating peers, failed sync): SyncTrace.tla checks that the
finalized height never decreases and the ids served for finalized heights never change.
(iii) Net.tla: a network of honest real nodes (forging, announcing tips, fork choice, tie break, fast sync): per node the
stored finalized height follows the model and blocks at finalized heights are never replaced."""
import common
from common import finish
from props import c03, c19

C04_NODE = ("accepts-invalid-via-sync:height", "reject-changes-state-via-sync:height", "state-mismatch:finalized", "delete-finalized", "tiebreak-replaces-finalized-tip", "events-mismatch", "restart-fails", "tiebreak-refused")
C04_SYNC = ("finalized-height-decreased", "finalized-block-replaced")

C04_NET = ("net:finalized-mismatch", "net:finalized-block-replaced", "net:finalized-block-missing")

def sync_part(ctx):
    cov = c19.run_sync(ctx, lambda k: k.startswith(C04_SYNC))
    res = dict(sync_offer_scenarios=cov["offer_scenarios"], sync_outcomes=cov["outcomes"])
    # (iii) network of honest real nodes (spec/Net.tla): stored finalized height and finalized ids per node under forks,
    # tie breaks and fast syncs
    from props import net
    res.update(net.run_net(ctx, lambda k: k.startswith(C04_NET), parts=("honest_exh", "honest_sim", "byz_sim", "chg_sim")))
    return res

def run(ctx):
    from props import net as _net
    _net.maybe_replay(ctx, c03.LEVEL)
    c03.run_node(ctx, lambda k: k.startswith(C04_NODE), extra=sync_part)
