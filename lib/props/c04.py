"""C04 finalized blocks are irreversible and the finalized height never decreases.
(i) Node.tla: TLC checks FinalMonotone / FinalizedIrreversible / FinalSane over all behaviours (valid blocks, LIP-0014 tie
breaks, deletes incl. at/below the finalized height, restarts); the scripts are replayed on the real Executer: the stored
finalized height, the finalize events and the refusal to delete/replace a finalized tip are compared after every step.
(ii) Sync scenarios of C19 (fast sync, block sync, corrupting / truncating peers, failed sync): SyncTrace.tla checks that the
finalized height never decreases and the ids served for finalized heights never change.
(iii) Net.tla: a network of honest real nodes (forging, announcing tips, fork choice, tie break, fast sync): per node the
stored finalized height follows the model and blocks at finalized heights are never replaced.
(iv) crash points inside the application of every finality-raising block (machinery of C13, CrashTrace.tla): the marker moves
with the block's one atomic write or not at all."""
import common
from common import finish
from props import c03, c19

C04_NODE = ("finalized-raise-not-atomic", "accepts-invalid-via-sync:height", "reject-changes-state-via-sync:height", "state-mismatch:finalized", "delete-finalized", "tiebreak-replaces-finalized-tip",
            # finalize events only (one event per raise, or several that lead from the old to the new height): the other events belong to C03
            "events-mismatch:finalize",
            # the block served at a height that was ever reported finalized (read after every step, before anything else is judged)
            "finalized-block-replaced", "finalized-block-missing", "finalized-height-decreased", "observe:finalized",
            # a node with finalized blocks that does not come back serves none of them
            "restart-fails:finalized", "tiebreak-refused",
            # VERIF_EXPERIMENTAL=1 only: genesis block at a height > 0
            "genesis-height:")
C04_SYNC = ("finalized-height-decreased", "finalized-block-replaced", "finalize-events:sync", "finalized-behind-precommit:sync")

C04_NET = ("net:finalized-mismatch", "net:finalized-block-replaced", "net:finalized-block-missing", "net:finalize-events", "net:finalized-height-decreased", "net:observe:finalized")

def sync_part(ctx):
    cov = c19.run_sync(ctx, lambda k: k.startswith(C04_SYNC))
    res = dict(sync_offer_scenarios=cov["offer_scenarios"], sync_outcomes=cov["outcomes"])
    # (iii) network of honest real nodes (spec/Net.tla): stored finalized height and finalized ids per node under forks,
    # tie breaks and fast syncs
    from props import net
    res.update(net.run_net(ctx, lambda k: k.startswith(C04_NET), parts=("honest_exh", "honest_sim", "byz_sim", "chg_sim")))
    common.log("[net] finality raises whose finalize events were compared: %d (of which reached through a synchronisation: %d), finalize events: %d" % (
        res.get("net_finality_raises_with_events_compared", 0), res.get("net_finality_raises_through_sync_with_events_compared", 0), res.get("net_finalize_events_compared", 0)))
    if not ctx.violations and (res.get("net_finality_raises_with_events_compared", 0) < 5 or res.get("net_finality_raises_through_sync_with_events_compared", 0) < 3):
        raise common.Inconclusive("network replay: too few finality raises (in all / through a synchronisation) whose finalize events were compared: vacuous for the events on the sync / fork-choice paths")
    res.update(crash_part(ctx))
    return res

def crash_part(ctx):
    # (iv) the raise is part of the block's one atomic step (Crash.tla / CrashTrace.tla, machinery of C13): every file-system
    # operation of an applied block that raises the finalized height is used as a crash point; after the restart the stored
    # finalized height must have moved together with the block or not at all, and must not exceed the recovered tip
    from props import c13
    def report(key, what, replay):
        if key.startswith("partial-step:") and "finalized" not in what:
            return
        if key.startswith("recovery:") and "finalized" not in what:
            return
        ctx.violation("finalized-raise-not-atomic:" + key.split(":")[0], what, replay)
    traces, maxs, maxp = (200, 150, 40) if ctx.tier == "quick" else (1500, 800, 60)
    res, lines, _ = c13.crash_part(ctx, "fin13", traces, maxs, maxp, mode="fin", report=report)
    import json
    n = sum(1 for l in lines if "finalized" in json.loads(l)["effects"])
    if not ctx.violations and (n < 20 or res["recovered_pre_state"] == 0 or res["recovered_post_state"] == 0):
        raise common.Inconclusive("crash points on finality-raising blocks: %d (pre %d post %d): vacuous" % (n, res["recovered_pre_state"], res["recovered_post_state"]))
    return dict(crash_points_on_finality_raising_blocks=n, crash_recovered_pre=res["recovered_pre_state"], crash_recovered_post=res["recovered_post_state"])

def run(ctx):
    from props import net as _net
    _net.maybe_replay(ctx, c03.LEVEL)
    if ctx.replay:
        import json
        d = json.load(open(ctx.replay)).get("replay")
        if isinstance(d, dict) and "k" in d:
            finish(ctx, c03.LEVEL, crash_part(ctx))
    c03.run_node(ctx, lambda k: k.startswith(C04_NODE), extra=sync_part)
