"""C09 untrusted input never crashes or hangs the node.

spec/WireFuzz.tla instantiates the wire grammar of spec/Wire.tla for every network-facing schema: the harness exports
the valid messages of a real node state (cmd/c09 bases: schema, abstract value, bytes) and TLC enumerates one state per
(message, field path, deviation class, truncation point) plus one state per argument shape of the verifiers (aggregation
bitmap vs key list, BLS / Ed25519 key and signature lengths and non-points, Merkle proof sibling counts, indexes, sizes,
key lengths, query counts).  The specification maps every case to ok | reject (total function); the invariant also
checks that the reference encoder reproduces the real bytes of every valid message and accepts it.
Binding (A): cmd/c09 run gives every printed case to every entry point that takes the schema (decoders of all generated
codecs, NewBlock / NewBlockHeader / NewTransaction, the gossip validators and handlers behind the p2p envelope, the
request / response stream handlers, the sync RPC handlers and response decoders, verifyAggregateCommit, process(),
smt.Verify, rmt.VerifyProof, BLS and Ed25519 verification) under recover(), a per-call deadline and an allocation
ceiling, then its own structure-aware mutations of every valid message, decodable-but-odd blocks, and ALL byte strings
up to length 3.  The run is a child process: a fatal runtime error is caught by the parent, attributed and the run goes on.
A panic / hang / blow-up / crash is a violation keyed <kind>:<entry point>[:<top non-runtime frame>] with the input.

Beside the fuzzing run a second supervised child (`c09 scen`) executes what needs state, a second node, time or several
goroutines: cases of WireFuzz.tla with ScenOn (tag SC: the synchronisation client against a scripted peer, single commits and
transactions KEPT in their pools before the consumers run, bursts of 16 goroutines, repeated fields repeated 10^k times) and
the sequences of RpcFuzz.tla (tag RQ: key types x KDF / cipher shapes, post block -> get block on a node whose consensus loop
runs, subscribe -> server push to live / closed / non-reading clients), plus batches of 1 000 calls per stateful entry
point with goroutines and live heap read before and after (leak:<entry>).  Sub-checks that are red on the unchanged tree
(defect candidates) run with VERIF_EXPERIMENTAL=1 only and have keys of their own."""
import atexit, json, os, re, signal, subprocess, time
import common
from common import Inconclusive, finish, log
from props import c08

LEVEL = "exploration"
PAT = re.compile(r'^<<"(FZ|SH)", "(.*)">>$')


def prepare(ctx):
    h = ctx.harness()
    src, ntypes = c08.registry_source(common.REPO)
    if ntypes < 20:
        raise Inconclusive("only %d generated-codec types found in the tree" % ntypes)
    with open(os.path.join(h, "cmd", "c09", "types.go"), "w") as fh:
        fh.write(src)
    return ctx.go_build("./cmd/c09"), ntypes


def load(path, what, p=None):
    if not os.path.exists(path):
        raise Inconclusive("c09 harness wrote no result (%s, rc=%s): %s" % (what, p.returncode if p else "?", ((p.stderr or "") if p else "")[-1500:]))
    return json.load(open(path))


def scen_start(ctx, binp, cases, of, gts, rq_cases):
    """the scenario run as a background process (own supervisor, own child): wall time = the longer of the two runs"""
    e = dict(os.environ); e.update(common.GOENV)
    e.update({"VERIF_SEED": str(ctx.seed), "VERIF_TIER": ctx.tier, "C09_GENESIS_TS": gts, "C09_RPC_SEQ_CASES": rq_cases})
    err = open(ctx.path("c09_scen.stderr"), "w")
    proc = subprocess.Popen([binp, "scen", cases, of], cwd=ctx.scratch, env=e, stdout=subprocess.DEVNULL, stderr=err, start_new_session=True)

    def reap():
        # whatever ends the check early (inconclusive TLC run, ...) must not leave the supervisor and its child behind
        if proc.poll() is None:
            try:
                os.killpg(proc.pid, signal.SIGKILL)
            except OSError:
                pass
    atexit.register(reap)
    return proc


def scen_wait(ctx, proc, of, t0):
    try:
        rc = proc.wait(timeout=3600)
    except subprocess.TimeoutExpired:
        os.killpg(proc.pid, signal.SIGKILL)
        raise Inconclusive("the scenario run did not finish")
    log("[run] c09 scen rc=%d %.1fs (in parallel)" % (rc, time.time() - t0))
    if not os.path.exists(of):
        tail = open(ctx.path("c09_scen.stderr"), errors="replace").read()[-1500:]
        raise Inconclusive("c09 scenario run wrote no result (rc=%d): %s" % (rc, tail))
    return json.load(open(of))


def merge_scen(res, scen):
    """one result object: counters add up, violations / errors / samples are joined, the scenario run's info is kept apart"""
    for k in ("evaluations", "distinct_nontrivial", "distinct_hashed", "distinct_exhaustive"):
        res[k] = res.get(k, 0) + scen.get(k, 0)
    for k in ("per_entry", "per_origin", "violation_counts"):
        for kk, v in (scen.get(k) or {}).items():
            res[k][kk] = res[k].get(kk, 0) + v
    for kk, v in (scen.get("verdicts") or {}).items():
        d = res["verdicts"].setdefault(kk, {})
        for t, c in v.items():
            d[t] = d.get(t, 0) + c
    res["violations"] = (res.get("violations") or []) + (scen.get("violations") or [])
    res["harness_errors"] = (res.get("harness_errors") or []) + (scen.get("harness_errors") or [])
    res["disabled"] = dict(res.get("disabled") or {}, **(scen.get("disabled") or {}))
    res["samples"] = (res.get("samples") or []) + (scen.get("samples") or [])
    res["scen"] = scen.get("info") or {}
    res["scen_incomplete"] = bool(scen.get("incomplete"))
    return res


def scen_guards(ctx, res, n_sc, n_rq):
    """non-vacuity of the scenario run: a run in which a scenario never happened is inconclusive, not a pass"""
    sc = res["scen"]
    if res.get("scen_incomplete"):
        raise Inconclusive("the scenario run did not complete: %s" % sc.get("incomplete"))
    exp = os.environ.get("VERIF_EXPERIMENTAL") == "1"
    def need(cond, what):
        if not cond:
            raise Inconclusive("scenario run vacuous: " + what)
    s = sc.get("sync_client") or {}
    need((s.get("reached") or {}).get("fast", 0) >= 8 and (s.get("reached") or {}).get("block", 0) >= 8, "the scripted peer was hardly asked: %s" % s.get("reached"))
    need((s.get("outcomes") or {}).get("ok", 0) >= 2, "the honest scripts did not end on the peer's chain: %s" % s.get("outcomes"))
    need(sum((s.get("outcomes") or {}).values()) + len(s.get("gated_behind_VERIF_EXPERIMENTAL") or []) >= n_sc.get("syncc", 0), "sync client cases not run")
    c = sc.get("commit_scenarios") or {}
    need(c.get("admitted_to_the_pool", 0) >= 50 and c.get("aggregates_built_from_the_pool", 0) >= 5 and c.get("next_block_with_that_aggregate_applied", 0) >= 3,
         "single commits were not kept / aggregated / carried by a block: %s" % c)
    t = sc.get("txpool_scenarios") or {}
    need(t.get("in_the_pool_after_feeding", 0) >= 50 and t.get("removed_by_reorg", 0) >= 5 and t.get("processable_after_reorg", 0) >= 20, "transaction pool scenarios: %s" % t)
    b = sc.get("burst_calls") or {}
    need(len(b) >= 5 and min(b.values()) >= 1000, "bursts: %s" % b)
    l = sc.get("leak_batches") or {}
    need(l.get("entries_measured", 0) >= 15, "leak batches: %s entries" % l.get("entries_measured"))
    a = sc.get("amplification") or {}
    need(a.get("calls", 0) >= 100 and a.get("growth_ratios_judged", 0) >= 5 and a.get("largest_input_bytes", 0) >= 1 << 20, "amplification: %s" % a)
    q = sc.get("rpc_sequences") or {}
    need(q.get("cases", 0) == n_rq and q.get("posted_blocks_applied_by_the_consensus_loop", 0) >= 1 and q.get("pushes_received_by_live_clients", 0) >= 10
         and q.get("kdf_runs_on_stored_parameters", 0) >= 5, "RPC sequences: %s" % {k: v for k, v in q.items() if k != "outcomes"})
    hv = (res["verdicts"].get("p2p.onRequest") or {})
    need(hv.get("handled", 0) >= 20 and hv.get("banned", 0) >= 20, "the request stream handler never ran a handler / never banned: %s" % hv)


def run(ctx):
    binp, ntypes = prepare(ctx)
    if ctx.replay:
        return replay(ctx, binp)
    quick = ctx.tier == "quick"

    # ---- valid messages of the real node state -> TLC
    bf = ctx.path("bases.json")
    p = ctx.run([binp, "bases", bf], timeout=300)
    bases = load(bf, "bases", p)
    gts = str(bases["genesis_ts"])
    # ---- scenario cases (WireFuzz.tla with ScenOn: a few hundred states) and the RPC surface (RpcFuzz.tla, methods read from
    #      the node): both small; the scenario run starts now and works while TLC enumerates the wire cases
    rs = ctx.tlc("WireFuzz", "WireFuzz_scen" if quick else "WireFuzz_scenfull", workers=4, timeout=600, files={"bases.json": bf}, java_opts="-Xss64m")
    if rs["violation"]:
        raise Inconclusive("WireFuzz.tla (scenario cases) fails at spec level: %s" % rs["outpath"])
    scen_cases = ctx.path("scen_cases.ndjson")
    n_sc = {}
    with open(scen_cases, "w") as fh:
        for d in ctx.dumps(rs["out"], "SC"):
            d["t"] = "SC"
            n_sc[d["s"]] = n_sc.get(d["s"], 0) + 1
            fh.write(json.dumps(d, separators=(",", ":")) + "\n")
    for fam, least in (("syncc", 40), ("commits", 100), ("txpool", 60), ("burst", 10), ("amp", 30)):
        if n_sc.get(fam, 0) < least:
            raise Inconclusive("TLC printed %d scenario cases of family %s: vacuous (%s)" % (n_sc.get(fam, 0), fam, n_sc))
    # the surface of an RPC client (spec/RpcFuzz.tla): one state per (transport, envelope, method, params shape, field), methods
    # as registered on the real router (bases file), and the sequences (tag RQ)
    rr = ctx.tlc("RpcFuzz", "RpcFuzz", workers=4, timeout=300, files={"bases.json": bf})
    if rr["violation"]:
        raise Inconclusive("RpcFuzz.tla fails at spec level: %s" % rr["outpath"])
    rpc_cases = ctx.path("rpc_cases.ndjson")
    n_rpc = 0
    with open(rpc_cases, "w") as fh:
        for d in ctx.dumps(rr["out"], "RP"):
            fh.write(json.dumps(d, separators=(",", ":")) + "\n"); n_rpc += 1
    if n_rpc < 1000:
        raise Inconclusive("RpcFuzz.tla printed %d cases only" % n_rpc)
    rq_cases = ctx.path("rq_cases.ndjson")
    n_rq = 0
    with open(rq_cases, "w") as fh:
        for d in ctx.dumps(rr["out"], "RQ"):
            fh.write(json.dumps(d, separators=(",", ":")) + "\n"); n_rq += 1
    if n_rq < 200:
        raise Inconclusive("RpcFuzz.tla printed %d sequence cases only" % n_rq)
    methods = [m["m"] for m in bases.get("methods") or []]
    if len(methods) < 10:
        raise Inconclusive("only %d RPC methods were found on the router" % len(methods))
    scen_of = ctx.path("c09_scen.json")
    scen_t0 = time.time()
    scen_proc = scen_start(ctx, binp, scen_cases, scen_of, gts, rq_cases)

    r = ctx.tlc("WireFuzz", "WireFuzz_all", workers=16, timeout=900, files={"bases.json": bf}, java_opts="-Xss64m")
    if r["violation"]:
        tail = "\n".join(l for l in r["out"].splitlines() if not l.startswith('<<"'))[-1500:]
        raise Inconclusive("WireFuzz.tla fails at spec level (a valid message of the real node is not reproduced / accepted by the "
                           "reference codec, or a case has no verdict): %s\n%s" % (r["outpath"], tail))
    cases = ctx.path("cases.ndjson")
    n = dict(FZ=0, SH=0)
    classes, fams, schemas = set(), set(), set()
    with open(cases, "w") as fh:
        for line in r["out"].splitlines():
            m = PAT.match(line.strip())
            if not m:
                continue
            try:
                d = json.loads(m.group(2).replace('\\"', '"').replace("\\\\", "\\"))
            except ValueError:
                raise Inconclusive("unparsable case line in TLC output: %s" % line[:200])
            d["t"] = m.group(1)
            n[d["t"]] += 1
            if d["t"] == "FZ":
                classes.add(d["c"]); schemas.add(d["s"])
            else:
                fams.add(d["s"])
            fh.write(json.dumps(d, separators=(",", ":")) + "\n")
    if not ctx.violations and (n["FZ"] < 5000 or n["SH"] < 5000 or len(schemas) < 15 or len(fams) < 7):
        raise Inconclusive("TLC printed too few cases %s (%d schemas, %d families): vacuous" % (n, len(schemas), len(fams)))
    if "lenp1m" not in classes or "len2p63p5" not in classes:
        raise Inconclusive("no packed repeated field among the valid messages: the classes 'length prefix announces far more than present' are vacuous")

    # ---- the real code: the fuzzing run (the scenario run has been working beside TLC since the start)
    of = ctx.path("c09_out.json")
    p = ctx.run([binp, "run", cases, of], timeout=2400, env={"C09_GENESIS_TS": gts, "C09_RPC_CASES": rpc_cases})
    scen = scen_wait(ctx, scen_proc, scen_of, scen_t0)
    if p.returncode != 0:
        if scen and scen.get("violations"):
            # the scenario run saw the property violated on the real code: that verdict does not depend on the fuzzing run
            for v in scen["violations"]:
                ctx.violation(v["key"], v["what"], v["replay"])
            finish(ctx, LEVEL, dict(evaluations=scen.get("evaluations", 0), distinct_nontrivial=scen.get("distinct_nontrivial", 0),
                                    rule="scenario run only: the fuzzing run failed (rc=%d)" % p.returncode, samples=[]))
        raise Inconclusive("c09 harness failed (rc=%d): %s" % (p.returncode, (p.stderr or p.stdout)[-2000:]))
    res = load(of, "run", p)
    res = merge_scen(res, scen)
    if res.get("harness_errors") and not res.get("violations"):
        raise Inconclusive("c09 harness: %s" % res["harness_errors"][:3])
    info = res["info"]
    if info["tlc_wire_cases"] != n["FZ"] or info["tlc_shape_cases"] != n["SH"]:
        raise Inconclusive("harness consumed %s/%s of %s TLC cases" % (info["tlc_wire_cases"], info["tlc_shape_cases"], n))
    if info["nominal_shape_calls"] < 5 or info["nominal_shapes_accepted"] != info["nominal_shape_calls"]:
        raise Inconclusive("the nominal argument shapes are not accepted by the verifiers: the shape model does not bind")
    for v in res.get("violations") or []:
        ctx.violation(v["key"], v["what"] + " (%d inputs with this key)" % res["violation_counts"].get(v["key"], 1), v["replay"])
    if not ctx.violations and info.get("rpc_cases_run", 0) < n_rpc * 0.9:
        raise Inconclusive("only %s of %d RPC cases were run" % (info.get("rpc_cases_run"), n_rpc))
    bs = info.get("block_sequences") or {}
    if not ctx.violations and bs.get("applied", 0) + bs.get("second-rejected", 0) < 5:
        raise Inconclusive("block sequences never reach the second block of the same generator: %s" % bs)
    if not ctx.violations:
        scen_guards(ctx, res, n_sc, n_rq)
    per_entry = {k: v for k, v in sorted(res["per_entry"].items()) if v}
    silent = [k for k, v in res["per_entry"].items() if not v and k not in res.get("disabled", {})]
    if silent:
        raise Inconclusive("entry points that were never called: %s" % silent[:5])
    log("[c09] TLC cases wire=%d shape=%d; evaluations=%d (exhaustive %d, mutants %d, odd blocks %d); entries=%d; "
        "spec/strict-decoder agreement %d/%d; disabled: %s; violations: %d keys" % (
            n["FZ"], n["SH"], res["evaluations"], info["exhaustive_calls"], info["mutants"], info["odd_blocks"], info["entries"],
            info["spec_vs_strict_decoder_agree"], info["spec_vs_strict_decoder_agree"] + info["spec_vs_strict_decoder_disagree"],
            res.get("disabled"), len(res.get("violations") or [])))
    by_site = {}
    for v in res.get("violations") or []:
        parts = v["key"].split(":")
        by_site.setdefault(parts[0] + ":" + (parts[-1] if parts[0] == "panic" else ":".join(parts[1:])), []).append(":".join(parts[1:-1]) if parts[0] == "panic" else "")
    for k, es in sorted(by_site.items()):
        log("[c09]   %s <- %d entry points%s" % (k, len(es), (" e.g. " + ", ".join(sorted(es)[:4])) if es[0] else ""))

    groups = {}
    for k, v in per_entry.items():
        g = k.split(":")[0] if k.startswith(("decode:", "strict:")) else k
        groups[g] = groups.get(g, 0) + v
    # a dozen real inputs: at most two per generator kind, network-facing entry points first
    pick, per_kind = [], {}
    for s in sorted(res["samples"], key=lambda s: (s["entry"].startswith(("decode:", "strict:")), len(s["input_hex"]))):
        kind = s["origin"].split(":")[0]
        if per_kind.get(kind, 0) >= 2 or len(s["input_hex"]) < 2:
            continue
        per_kind[kind] = per_kind.get(kind, 0) + 1
        pick.append(s)
    cov = dict(evaluations=res["evaluations"], distinct_nontrivial=res["distinct_nontrivial"],
               distinct_by_hash_set=res["distinct_hashed"], distinct_by_exhaustive_enumeration=res["distinct_exhaustive"],
               rule="a case is a pair (entry point, input). TLC cases: one state per (valid message of the real node, field path, deviation "
                    "class, truncation point) and per argument-shape tuple, each given to every entry point that takes the schema; harness "
                    "cases: truncation at every offset (outer, and nested with consistent length prefixes), every bit flipped, bytes set to "
                    "00/7f/80/ff, edits of every key / length prefix / varint, fields dropped / doubled / swapped, seeded splices and chunk "
                    "edits of two valid messages, struct-level odd blocks (unsigned and re-signed), every valid message to every decoder, and "
                    "ALL byte strings of length <= L per entry (exhaustive_len). Distinct = distinct (entry, input) pairs: pairs with "
                    "len(input) <= L are counted by the enumeration itself, longer ones by a 64-bit hash set; non-trivial = the input is "
                    "not the unmodified valid message of that entry point.",
               samples=pick[:12], per_entry_point=groups, per_generator=res["per_origin"], entry_points=info["entries"],
               exhaustive_len={k: v for k, v in res["exhaustive_len"].items() if not k.startswith(("decode:", "strict:"))},
               exhaustive_len_generated_codecs="all byte strings up to length %d for every generated codec (3 for the front-line decoders)" % (2 if quick else 3),
               alphabet_sweep=dict(alphabet_hex=info.get("sweep_alphabet"), rule="in addition all strings over this alphabet (key bytes of fields 1..15, "
                                   "small numbers, varint boundary bytes) up to the given length",
                                   length={k: v for k, v in res.get("alphabet_len", {}).items() if not k.startswith(("decode:", "strict:")) and v > 0}),
               exhaustive=False, tlc_wire_cases=n["FZ"], tlc_shape_cases=n["SH"], deviation_classes=sorted(classes),
               schemas_from_real_node=sorted(schemas), shape_families=sorted(fams), registry_types=ntypes,
               verdicts={k: v for k, v in res["verdicts"].items() if not k.startswith(("decode:", "strict:"))},
               spec_vs_strict_decoder=dict(agree=info["spec_vs_strict_decoder_agree"], disagree=info["spec_vs_strict_decoder_disagree"]),
               malformed_shapes_accepted=info["malformed_shapes_accepted_by"], odd_blocks=info["odd_blocks"], block_sequences=info.get("block_sequences"), rpc_cases=n_rpc, rpc_cases_run=info.get("rpc_cases_run"), rpc_outcomes=info.get("rpc_outcomes"), mutants=info["mutants"],
               entry_points_disabled_after_findings=res.get("disabled"), violation_input_counts=res["violation_counts"],
               phase_seconds=info["phase_seconds"], exhaustive_alloc_per_call=info["exhaustive_alloc_per_call"],
               scenario_cases=n_sc, rpc_sequence_cases=n_rq, rpc_methods_from_router=methods,
               rpc_methods_without_params_model=[m["m"] for m in bases.get("methods") or [] if not m["f"] and not m["m"].startswith(("chain_getLast", "system_", "network_", "generator_getStatus", "generator_getAllKeys"))],
               scenario_run=res["scen"], experimental=os.environ.get("VERIF_EXPERIMENTAL") == "1")
    finish(ctx, LEVEL, cov, assumptions=[
        "absence of panics / hangs / blow-ups is established for the enumerated cases only: all strings up to length 3 (2 for non-network "
        "generated codecs in the quick tier), the TLC deviation classes on the valid messages of one node state, seeded mutations beyond",
        "valid messages come from one real node state (9 validators, 130 blocks, toy application); verifiers see the keys of that state",
        "deadline 2 s per call (10 s for process(), 5 s for the request stream handler); allocation ceiling 512 KiB + 1024 x input "
        "(up to 8 MiB constant for entry points that touch the database or answer with stored blocks); the allocation of a call is read "
        "from runtime/metrics and re-measured with runtime.ReadMemStats three times before it counts; the sweep over short strings is "
        "checked for allocation as a whole",
        "the gossip / stream entry points are reached through add-only exports (pkg/p2p/export_verif_fuzz.go, pkg/consensus/sync/"
        "export_verif.go) that call the unexported handlers libp2p would call; libp2p itself is not fuzzed",
        "agreement of accept / reject with the reference codec is reported, not judged (C08)",
        "scenario run: a loop of the synchronisation client is a hang only when the scripted peer counted >= 80 answers to one procedure "
        "(an expired box with fewer answers is inconclusive); leaks are judged on growth proportional to the calls in two consecutive batches "
        "after waiting for what ends by itself; growth with the input size is judged on thread CPU time (getrusage) in three agreeing rounds; "
        "deadlines of RPC sequences are 50 x the measured valid sequence, at least 10 s",
        "sub-checks that are red on the unchanged tree run with VERIF_EXPERIMENTAL=1 only (listed under scenario_run.*.gated_behind_VERIF_EXPERIMENTAL)"])


def replay(ctx, binp):
    rp = os.path.abspath(ctx.replay)
    rec = json.load(open(rp))
    of = ctx.path("c09_replay.json")
    p = ctx.run([binp, "replay", rp, of], timeout=300)
    key = rec.get("key", "")
    if p.returncode not in (0, 3) and not os.path.exists(of):
        # the stored input kills the process (fatal runtime error): that IS the recorded behaviour
        ctx.violation(key if key.startswith(("crash:", "alloc:")) else "crash:" + rec["replay"]["entry"],
                      "replaying the input kills the process: %s" % (p.stderr or "")[-300:].strip().splitlines()[-1:], rec["replay"])
        finish(ctx, LEVEL, dict(evaluations=1, distinct_nontrivial=1, rule="one stored (entry point, input) pair", samples=[rec["replay"]]))
    res = load(of, "replay", p)
    for v in res.get("violations") or []:
        ctx.violation(v["key"], v["what"], v["replay"])
    log("[c09] replay %s on %d bytes: verdict %s, violations %s" % (rec["replay"]["entry"], len(rec["replay"]["input_hex"]) // 2,
                                                                   res["info"].get("verdict"), [v["key"] for v in res.get("violations") or []]))
    finish(ctx, LEVEL, dict(evaluations=res["evaluations"], distinct_nontrivial=res["distinct_nontrivial"],
                            rule="the stored (entry point, input) pair and the empty input to the same entry point as a control",
                            samples=[rec["replay"]], verdict=res["info"].get("verdict")))
