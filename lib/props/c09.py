"""C09 untrusted input never crashes or hangs the node.

spec/WireFuzz.tla instantiates the wire grammar of spec/Wire.tla for every network-facing schema: the harness exports
the valid messages of a real node state (cmd/c09 bases: schema, abstract value, bytes) and TLC enumerates one state per
(message, field path, deviation class, truncation point) plus one state per argument shape of the verifiers (aggregation
bitmap vs key list, BLS / Ed25519 key and signature lengths and non-points, Merkle proof sibling counts, indexes, sizes,
key lengths, query counts).  The specification maps every case to ok | reject (total function); the invariant also
checks that the reference encoder reproduces the real bytes of every valid message and accepts it.
Binding (A): cmd/c09 run gives every printed case to every entry point that takes the schema (decoders of all generated
codecs, NewBlock / NewBlockHeader / NewTransaction, the gossip validators and handlers behind the p2p envelope, the
request / response stream handlers, the sync RPC handlers and response decoders, verifyAggregateCommit, process(),
smt.Verify, rmt.VerifyProof, BLS and Ed25519 verification) under recover(), a per-call deadline and an allocation
ceiling, then its own structure-aware mutations of every valid message, decodable-but-odd blocks, and ALL byte strings
up to length 3.  The run is a child process: a fatal runtime error is caught by the parent, attributed and the run goes on.
A panic / hang / blow-up / crash is a violation keyed <kind>:<entry point>[:<top non-runtime frame>] with the input."""
import json, os, re
import common
from common import Inconclusive, finish, log
from props import c08

LEVEL = "exploration"
PAT = re.compile(r'^<<"(FZ|SH)", "(.*)">>$')


def prepare(ctx):
    h = ctx.harness()
    src, ntypes = c08.registry_source(common.REPO)
    if ntypes < 20:
        raise Inconclusive("only %d generated-codec types found in the tree" % ntypes)
    with open(os.path.join(h, "cmd", "c09", "types.go"), "w") as fh:
        fh.write(src)
    return ctx.go_build("./cmd/c09"), ntypes


def load(path, what, p=None):
    if not os.path.exists(path):
        raise Inconclusive("c09 harness wrote no result (%s, rc=%s): %s" % (what, p.returncode if p else "?", ((p.stderr or "") if p else "")[-1500:]))
    return json.load(open(path))


def run(ctx):
    binp, ntypes = prepare(ctx)
    if ctx.replay:
        return replay(ctx, binp)
    quick = ctx.tier == "quick"

    # ---- valid messages of the real node state -> TLC
    bf = ctx.path("bases.json")
    p = ctx.run([binp, "bases", bf], timeout=300)
    bases = load(bf, "bases", p)
    gts = str(bases["genesis_ts"])
    r = ctx.tlc("WireFuzz", "WireFuzz_all", workers=16, timeout=900, files={"bases.json": bf}, java_opts="-Xss64m")
    if r["violation"]:
        tail = "\n".join(l for l in r["out"].splitlines() if not l.startswith('<<"'))[-1500:]
        raise Inconclusive("WireFuzz.tla fails at spec level (a valid message of the real node is not reproduced / accepted by the "
                           "reference codec, or a case has no verdict): %s\n%s" % (r["outpath"], tail))
    cases = ctx.path("cases.ndjson")
    n = dict(FZ=0, SH=0)
    classes, fams, schemas = set(), set(), set()
    with open(cases, "w") as fh:
        for line in r["out"].splitlines():
            m = PAT.match(line.strip())
            if not m:
                continue
            try:
                d = json.loads(m.group(2).replace('\\"', '"').replace("\\\\", "\\"))
            except ValueError:
                raise Inconclusive("unparsable case line in TLC output: %s" % line[:200])
            d["t"] = m.group(1)
            n[d["t"]] += 1
            if d["t"] == "FZ":
                classes.add(d["c"]); schemas.add(d["s"])
            else:
                fams.add(d["s"])
            fh.write(json.dumps(d, separators=(",", ":")) + "\n")
    if not ctx.violations and (n["FZ"] < 5000 or n["SH"] < 5000 or len(schemas) < 15 or len(fams) < 6):
        raise Inconclusive("TLC printed too few cases %s (%d schemas, %d families): vacuous" % (n, len(schemas), len(fams)))

    # ---- the surface of an RPC client (spec/RpcFuzz.tla): one state per (transport, envelope, method, params shape, field)
    rr = ctx.tlc("RpcFuzz", "RpcFuzz", workers=4, timeout=300)
    if rr["violation"]:
        raise Inconclusive("RpcFuzz.tla fails at spec level: %s" % rr["outpath"])
    rpc_cases = ctx.path("rpc_cases.ndjson")
    n_rpc = 0
    with open(rpc_cases, "w") as fh:
        for d in ctx.dumps(rr["out"], "RP"):
            fh.write(json.dumps(d, separators=(",", ":")) + "\n"); n_rpc += 1
    if n_rpc < 1000:
        raise Inconclusive("RpcFuzz.tla printed %d cases only" % n_rpc)

    # ---- the real code
    of = ctx.path("c09_out.json")
    p = ctx.run([binp, "run", cases, of], timeout=2400, env={"C09_GENESIS_TS": gts, "C09_RPC_CASES": rpc_cases})
    if p.returncode != 0:
        raise Inconclusive("c09 harness failed (rc=%d): %s" % (p.returncode, (p.stderr or p.stdout)[-2000:]))
    res = load(of, "run", p)
    if res.get("harness_errors"):
        raise Inconclusive("c09 harness: %s" % res["harness_errors"][:3])
    info = res["info"]
    if info["tlc_wire_cases"] != n["FZ"] or info["tlc_shape_cases"] != n["SH"]:
        raise Inconclusive("harness consumed %s/%s of %s TLC cases" % (info["tlc_wire_cases"], info["tlc_shape_cases"], n))
    if info["nominal_shape_calls"] < 5 or info["nominal_shapes_accepted"] != info["nominal_shape_calls"]:
        raise Inconclusive("the nominal argument shapes are not accepted by the verifiers: the shape model does not bind")
    for v in res.get("violations") or []:
        ctx.violation(v["key"], v["what"] + " (%d inputs with this key)" % res["violation_counts"].get(v["key"], 1), v["replay"])
    if not ctx.violations and info.get("rpc_cases_run", 0) < n_rpc * 0.9:
        raise Inconclusive("only %s of %d RPC cases were run" % (info.get("rpc_cases_run"), n_rpc))
    bs = info.get("block_sequences") or {}
    if not ctx.violations and bs.get("applied", 0) + bs.get("second-rejected", 0) < 5:
        raise Inconclusive("block sequences never reach the second block of the same generator: %s" % bs)
    per_entry = {k: v for k, v in sorted(res["per_entry"].items()) if v}
    silent = [k for k, v in res["per_entry"].items() if not v and k not in res.get("disabled", {})]
    if silent:
        raise Inconclusive("entry points that were never called: %s" % silent[:5])
    log("[c09] TLC cases wire=%d shape=%d; evaluations=%d (exhaustive %d, mutants %d, odd blocks %d); entries=%d; "
        "spec/strict-decoder agreement %d/%d; disabled: %s; violations: %d keys" % (
            n["FZ"], n["SH"], res["evaluations"], info["exhaustive_calls"], info["mutants"], info["odd_blocks"], info["entries"],
            info["spec_vs_strict_decoder_agree"], info["spec_vs_strict_decoder_agree"] + info["spec_vs_strict_decoder_disagree"],
            res.get("disabled"), len(res.get("violations") or [])))
    by_site = {}
    for v in res.get("violations") or []:
        parts = v["key"].split(":")
        by_site.setdefault(parts[0] + ":" + (parts[-1] if parts[0] == "panic" else ":".join(parts[1:])), []).append(":".join(parts[1:-1]) if parts[0] == "panic" else "")
    for k, es in sorted(by_site.items()):
        log("[c09]   %s <- %d entry points%s" % (k, len(es), (" e.g. " + ", ".join(sorted(es)[:4])) if es[0] else ""))

    groups = {}
    for k, v in per_entry.items():
        g = k.split(":")[0] if k.startswith(("decode:", "strict:")) else k
        groups[g] = groups.get(g, 0) + v
    # a dozen real inputs: at most two per generator kind, network-facing entry points first
    pick, per_kind = [], {}
    for s in sorted(res["samples"], key=lambda s: (s["entry"].startswith(("decode:", "strict:")), len(s["input_hex"]))):
        kind = s["origin"].split(":")[0]
        if per_kind.get(kind, 0) >= 2 or len(s["input_hex"]) < 2:
            continue
        per_kind[kind] = per_kind.get(kind, 0) + 1
        pick.append(s)
    cov = dict(evaluations=res["evaluations"], distinct_nontrivial=res["distinct_nontrivial"],
               distinct_by_hash_set=res["distinct_hashed"], distinct_by_exhaustive_enumeration=res["distinct_exhaustive"],
               rule="a case is a pair (entry point, input). TLC cases: one state per (valid message of the real node, field path, deviation "
                    "class, truncation point) and per argument-shape tuple, each given to every entry point that takes the schema; harness "
                    "cases: truncation at every offset (outer, and nested with consistent length prefixes), every bit flipped, bytes set to "
                    "00/7f/80/ff, edits of every key / length prefix / varint, fields dropped / doubled / swapped, seeded splices and chunk "
                    "edits of two valid messages, struct-level odd blocks (unsigned and re-signed), every valid message to every decoder, and "
                    "ALL byte strings of length <= L per entry (exhaustive_len). Distinct = distinct (entry, input) pairs: pairs with "
                    "len(input) <= L are counted by the enumeration itself, longer ones by a 64-bit hash set; non-trivial = the input is "
                    "not the unmodified valid message of that entry point.",
               samples=pick[:12], per_entry_point=groups, per_generator=res["per_origin"], entry_points=info["entries"],
               exhaustive_len={k: v for k, v in res["exhaustive_len"].items() if not k.startswith(("decode:", "strict:"))},
               exhaustive_len_generated_codecs="all byte strings up to length %d for every generated codec (3 for the front-line decoders)" % (2 if quick else 3),
               alphabet_sweep=dict(alphabet_hex=info.get("sweep_alphabet"), rule="in addition all strings over this alphabet (key bytes of fields 1..15, "
                                   "small numbers, varint boundary bytes) up to the given length",
                                   length={k: v for k, v in res.get("alphabet_len", {}).items() if not k.startswith(("decode:", "strict:")) and v > 0}),
               exhaustive=False, tlc_wire_cases=n["FZ"], tlc_shape_cases=n["SH"], deviation_classes=sorted(classes),
               schemas_from_real_node=sorted(schemas), shape_families=sorted(fams), registry_types=ntypes,
               verdicts={k: v for k, v in res["verdicts"].items() if not k.startswith(("decode:", "strict:"))},
               spec_vs_strict_decoder=dict(agree=info["spec_vs_strict_decoder_agree"], disagree=info["spec_vs_strict_decoder_disagree"]),
               malformed_shapes_accepted=info["malformed_shapes_accepted_by"], odd_blocks=info["odd_blocks"], block_sequences=info.get("block_sequences"), rpc_cases=n_rpc, rpc_cases_run=info.get("rpc_cases_run"), rpc_outcomes=info.get("rpc_outcomes"), mutants=info["mutants"],
               entry_points_disabled_after_findings=res.get("disabled"), violation_input_counts=res["violation_counts"],
               phase_seconds=info["phase_seconds"], exhaustive_alloc_per_call=info["exhaustive_alloc_per_call"])
    finish(ctx, LEVEL, cov, assumptions=[
        "absence of panics / hangs / blow-ups is established for the enumerated cases only: all strings up to length 3 (2 for non-network "
        "generated codecs in the quick tier), the TLC deviation classes on the valid messages of one node state, seeded mutations beyond",
        "valid messages come from one real node state (9 validators, 130 blocks, toy application); verifiers see the keys of that state",
        "deadline 2 s per call (10 s for process(), 5 s for the request stream handler); allocation ceiling 64 KiB + 256 x input "
        "(512 KiB - 8 MiB constant for entry points that touch the database or answer with stored blocks); the allocation of a call is read "
        "from runtime/metrics and re-measured with runtime.ReadMemStats three times before it counts; the sweep over short strings is "
        "checked for allocation as a whole",
        "the gossip / stream entry points are reached through add-only exports (pkg/p2p/export_verif_fuzz.go, pkg/consensus/sync/"
        "export_verif.go) that call the unexported handlers libp2p would call; libp2p itself is not fuzzed",
        "agreement of accept / reject with the reference codec is reported, not judged (C08)"])


def replay(ctx, binp):
    rp = os.path.abspath(ctx.replay)
    rec = json.load(open(rp))
    of = ctx.path("c09_replay.json")
    p = ctx.run([binp, "replay", rp, of], timeout=300)
    key = rec.get("key", "")
    if p.returncode not in (0, 3) and not os.path.exists(of):
        # the stored input kills the process (fatal runtime error): that IS the recorded behaviour
        ctx.violation(key if key.startswith("crash:") else "crash:" + rec["replay"]["entry"],
                      "replaying the input kills the process: %s" % (p.stderr or "")[-300:].strip().splitlines()[-1:], rec["replay"])
        finish(ctx, LEVEL, dict(evaluations=1, distinct_nontrivial=1, rule="one stored (entry point, input) pair", samples=[rec["replay"]]))
    res = load(of, "replay", p)
    for v in res.get("violations") or []:
        ctx.violation(v["key"], v["what"], v["replay"])
    log("[c09] replay %s on %d bytes: verdict %s, violations %s" % (rec["replay"]["entry"], len(rec["replay"]["input_hex"]) // 2,
                                                                   res["info"].get("verdict"), [v["key"] for v in res.get("violations") or []]))
    finish(ctx, LEVEL, dict(evaluations=res["evaluations"], distinct_nontrivial=res["distinct_nontrivial"],
                            rule="the stored (entry point, input) pair and the empty input to the same entry point as a control",
                            samples=[rec["replay"]], verdict=res["info"].get("verdict")))
