"""C08 codec: lossless round trip, canonical strict decoding, stable IDs, Lisk32.

spec/Wire.tla is a reference codec for the LIP-0027/0064 wire grammar over an abstract schema (numbers are
base-128 digit sequences, so the whole uint64 range is representable) plus the LIP-0018 Lisk32 checksum.
TLC (spec/MCWire.tla) checks on a small universe: Decode(Encode v) = v, StrictAccept(Encode v), and exhaustively
for all short byte strings StrictAccept(b) => b = Encode(Decode b) (canonicity).
Binding to the real code:
 (B) cmd/c08 gen: seeded values of every exported generated-codec type (found by scanning *_codec.go of the
     current tree; schema read from the fieldNumber tags by reflection) through the real Encode / Decode /
     DecodeStrict; round trip, determinism, ID stability (re-encoding, NewBlock, DataAccess save+load) are
     asserted directly on the real results; every (schema, value, bytes, decoded) record is validated by TLC
     against the reference codec (spec/trace/WireTrace.tla, monitor style), as are Lisk32 texts and verdicts.
 (A) TLC prints deviant encodings of a transaction (product of per-field deviation classes) with the verdict of
     StrictAccept; cmd/c08 feed gives each to the real blockchain.NewTransaction; verdicts must agree, and an
     accepted byte string must re-encode to itself and hash to the ID.  Same for Lisk32 single-symbol corruptions.
     The same deviants wrapped in a block go to NewBlock; deviants of two more strictly decoded schemas (S2: the
     parameters of a transaction as a module decodes them, and a synthetic schema with every field kind whose codec the
     tree's own generator produces) go to the DecodeStrict of the real types.
 Sub-checks that are red on the pinned tree (candidate defects, not triaged) are observed in every run and listed in the
 evidence, but are violations only with VERIF_EXPERIMENTAL=1 (CANDIDATE_* below)."""
import json, os, re, subprocess, concurrent.futures as cf
import common
from common import Inconclusive, finish, log

LEVEL = "model_checking"
EXPERIMENTAL = os.environ.get("VERIF_EXPERIMENTAL") == "1"

# Types whose bytes are hashed into IDs / roots or signed: their wire form is fixed by the protocol (LIP-0027 reference
# encoding demanded).  For every other type the statement asks for lossless, deterministic, strict-accepts-own only - a
# self-consistent change of its wire form is not a violation.
ID_TYPES = ("blockchain.Transaction", "blockchain.SigningTransaction", "blockchain.BlockHeader", "blockchain.signingBlockHeader",
            "blockchain.Block", "blockchain.RawBlock", "blockchain.BlockAsset", "blockchain.AggregateCommit",
            "certificate.", "consensus.ValidatorsHash", "validator.")
def id_type(name):
    return any(name == t or (t.endswith(".") and name.startswith(t)) for t in ID_TYPES)

# ---------------------------------------------------------------------------------------- candidate defects (pinned tree)
# (kind of the deviating field, deviation class) pairs of the S2 deviants that the strict decoders of the pinned tree accept
# although they are not canonical.  Three root causes, one key each per type (reported with VERIF_EXPERIMENTAL=1 only):
#  nested-decoded-leniently  Reader.ReadDecodable(s) decodes a nested message with the LENIENT DecodeFromReader also in strict
#                            mode, never checks that the message ends where its length prefix says, and continues after it
#                            wherever the sub-reader stopped
#  packed-array-bounds       ReadUInts / ReadUInt32s / ReadInts / ReadBools accept an empty packed array (written as nothing
#                            by the encoder), a length the items overrun, and a length of 2^64-1
#  uint32-narrowed           ReadUInt32 / ReadUInt32s narrow a varint above 2^32 to 32 bits without an error
NESTED_LENIENT = {"emptyelem", "inmissing", "inswap", "lenhi32", "lenpast", "lenshort", "inlenpast"}
PACKED_BOUNDS = {"emptypacked", "lenhuge", "lenshort", "trunc"}
def dv2_family(kind, cls):
    if kind in ("nested", "rnested") and cls in NESTED_LENIENT:
        return "nested-decoded-leniently"
    if kind in ("ruint", "ruint32", "rsint", "rbool") and cls in PACKED_BOUNDS:
        return "packed-array-bounds"
    if (kind, cls) in (("uint32", "over32"), ("ruint32", "itembad")):
        return "uint32-narrowed"
    return None
CANDIDATE_KEYS = {"lisk32:prefix-not-checked", "roundtrip:int64-min"}

def dv2_key(key):
    """strict-accepts-noncanonical:<type>:<kind>:<cls> of a candidate family -> (family key, True); else (key, False)"""
    m = re.match(r"^strict-accepts-noncanonical:([\w.]+):(\w+):([\w+]+)$", key)
    if m:
        fam = dv2_family(m.group(2), m.group(3))
        if fam:
            return "strict-accepts-noncanonical:%s:%s" % (m.group(1), fam), True
    return key, key in CANDIDATE_KEYS

class Reporter:
    """violations, with the candidate keys held back unless VERIF_EXPERIMENTAL=1"""
    def __init__(self, ctx, always=False):
        self.ctx, self.held, self.always, self.alias = ctx, {}, always, set()
    def __call__(self, key, what, replay=None):
        if key.startswith("aliases-input:"):
            # one defect of the shared reader shows under every type: the first few types keep their own key, the rest is counted
            self.alias.add(key)
            if len(self.alias) > 4:
                return
        key2, cand = dv2_key(key)
        if cand and key2 != key:
            what = "[%s] %s" % (key.rsplit(":", 2)[-2] + ":" + key.rsplit(":", 1)[-1], what)
        # Triage (DESIGN 8.3): the Lisk32 prefix is inside the statement and was repaired in /repo (2b7a3c1) - it is an ordinary
        # violation now.  The other candidate families are OUTSIDE the statement (no generated type has an int64 field; headers keep
        # their ID = hash of their own encoding when a uint32 is narrowed; nested / packed fields do not occur in the transaction
        # schema whose canonical form the statement fixes): observed and listed in the evidence, never violations.
        if cand and key2 != "lisk32:prefix-not-checked":
            self.held[key2] = self.held.get(key2, 0) + 1
            return
        self.ctx.violation(key2, what, replay)

# ---------------------------------------------------------------------------------------- registry
def scan_unexported(repo):
    """Unexported generated-codec types per package, and what the package offers through VerifCodecTypes() (a file with the
    build tag verif, hook for C08): {rel: dict(pkg, types, importable, offers)}.  Packages main / internal cannot be imported."""
    res = {}
    for root, dirs, files in os.walk(repo):
        dirs[:] = [d for d in dirs if not d.startswith(".") and d not in ("node_modules", "vendor", "testdata")]
        rel = os.path.relpath(root, repo).replace(os.sep, "/")
        types, pkg, offers = [], None, None
        for f in sorted(files):
            if not f.endswith(".go") or f.endswith("_test.go"):
                continue
            src = open(os.path.join(root, f), errors="replace").read()
            if "func VerifCodecTypes()" in src and re.search(r"^//go:build .*\bverif\b", src, re.M):
                offers = sorted(set(re.findall(r'"(\w+)":\s*func\(\)', src)))
            elif f.endswith("_codec.go"):
                m = re.search(r"^package (\w+)", src, re.M)
                pkg = m.group(1) if m else pkg
                types += re.findall(r"^func \(e \*([a-z_]\w*)\) Encode\(\)", src, re.M)
                if pkg == "main" or "/internal" in "/" + rel or rel.split("/")[0] not in ("pkg", "cmd"):
                    types += re.findall(r"^func \(e \*([A-Z]\w*)\) Encode\(\)", src, re.M)      # not importable at all
        if types:
            importable = not (pkg == "main" or "/internal" in "/" + rel or rel.split("/")[0] not in ("pkg", "cmd"))
            res[rel] = dict(pkg=pkg, types=sorted(set(types)), importable=importable, offers=offers if importable else None)
    return res

def scan_types(repo):
    """Exported types with a generated codec in importable, non-main packages of the current tree."""
    res = []
    for root, dirs, files in os.walk(repo):
        dirs[:] = [d for d in dirs if not d.startswith(".") and d not in ("node_modules", "vendor", "testdata")]
        rel = os.path.relpath(root, repo)
        if "/internal" in "/" + rel or rel.split(os.sep)[0] not in ("pkg", "cmd"):
            continue
        for f in sorted(files):
            if not f.endswith("_codec.go"):
                continue
            src = open(os.path.join(root, f), errors="replace").read()
            m = re.search(r"^package (\w+)", src, re.M)
            if not m or m.group(1) == "main":
                continue
            for t in re.findall(r"^func \(e \*([A-Z]\w*)\) Encode\(\)", src, re.M):
                res.append((rel.replace(os.sep, "/"), m.group(1), t))
    return sorted(set(res))

def registry_source(repo):
    types = scan_types(repo)
    exp = {rel: d for rel, d in scan_unexported(repo).items() if d["offers"] is not None}
    pkgs = sorted(set((p, n) for p, n, _ in types) | set((rel, d["pkg"]) for rel, d in exp.items()))
    alias = {p: "p%d" % i for i, (p, n) in enumerate(pkgs)}
    out = ["// Code generated by lib/props/c08.py from the *_codec.go files of the checked tree; DO NOT EDIT.", "",
           "package main", "", "import ("]
    for p, n in pkgs:
        out.append('\t%s "github.com/LiskHQ/lisk-engine/%s"' % (alias[p], p))
    out += [")", "", "var registry = []entry{"]
    for p, n, t in types:
        out.append('\t{"%s.%s", func() msg { return &%s.%s{} }},' % (n, t, alias[p], t))
    out += ["}", ""]
    if exp:     # constructors of unexported types offered by the packages (build tag verif)
        out += ["func init() {"] + ['\taddExported("%s", %s.VerifCodecTypes())' % (d["pkg"], alias[rel]) for rel, d in sorted(exp.items())] + ["}", ""]
    return "\n".join(out), len(types)

def regen_synth(h):
    """Produce cmd/c08/synth_codec.go with the code generator OF THE CHECKED TREE (the committed file is its output for the
    pinned tree).  Returns (how, snapshot): how = "regenerated" | "snapshot" (generator could not be run / gave nothing)."""
    d = os.path.join(h, "cmd", "c08")
    path = os.path.join(d, "synth_codec.go")
    snap = open(path).read()
    env = dict(os.environ); env.update(common.GOENV); env["GOFILE"] = "synth.go"
    ok = False
    try:
        p = subprocess.run(["go", "run", "github.com/LiskHQ/lisk-engine/pkg/codec/gen"], cwd=d, env=env, stdout=subprocess.PIPE,
                           stderr=subprocess.STDOUT, text=True, timeout=900)
        ok = p.returncode == 0 and "func (e *SynthAll) DecodeStrict(" in open(path).read()
    except Exception:
        ok = False
    if not ok:
        with open(path, "w") as fh:
            fh.write(snap)
    return ("regenerated" if ok else "snapshot"), snap

def count_codec_structs(repo):
    n = files = 0
    for root, dirs, fs in os.walk(repo):
        for f in fs:
            if f.endswith("_codec.go"):
                files += 1
                n += len(re.findall(r"^func \(e \*\w+\) Encode\(\)", open(os.path.join(root, f), errors="replace").read(), re.M))
    return files, n

# ---------------------------------------------------------------------------------------- TLC helpers
def write_cfg(ctx, name, mode, **consts):
    c = dict(Mode='"%s"' % mode, MaxLen=5, Alpha='"A"', MaxDev=2, NBase=4, NAddr=40, NCorrupt=3)
    c.update(consts)
    p = ctx.path("Wire_%s.cfg" % name)
    with open(p, "w") as fh:
        fh.write("SPECIFICATION Spec\nCONSTANTS\n")
        for k, v in c.items():
            fh.write("  %s = %s\n" % (k, v))
        fh.write("INVARIANTS Canon RoundTrip Deviant Deviant2 Lisk\n")
    return p

def spec_ok(r, what):
    if r["violation"]:
        tail = "\n".join(l for l in r["out"].splitlines() if not l.startswith('<<"'))[-1500:]
        raise Inconclusive("Wire.tla fails at spec level (%s): %s\n%s" % (what, r["outpath"], tail))

def tagged(out, tags):
    """Parse PrintT(<<tag, ToJson(x)>>) lines into dicts with a 'tag' field."""
    pat = re.compile(r'^<<"(%s)", "(.*)">>$' % "|".join(tags))
    for line in out.splitlines():
        m = pat.match(line)
        if m:
            d = json.loads(m.group(2).replace('\\"', '"').replace("\\\\", "\\"))
            d["tag"] = m.group(1)
            yield d

def run_harness(ctx, argv, of):
    p = ctx.run(argv, timeout=1500)
    if p.returncode != 0 or not os.path.exists(of):
        raise Inconclusive("c08 harness failed (%s): %s" % (argv[1], (p.stderr or p.stdout)[-1500:]))
    return json.load(open(of))

def validate_trace(ctx, tr, tag):
    lines = open(tr).read().splitlines()
    r = ctx.tlc("WireTrace", "WireTrace", workers=1, timeout=1500, files={"trace.ndjson": tr},
                java_opts="-Xss64m")
    if r["violation"]:
        raise Inconclusive("WireTrace failed at spec level: %s" % r["outpath"])
    if r["distinct"] - 1 != len(lines):
        raise Inconclusive("monitor consumed %d of %d lines (%s)" % (r["distinct"] - 1, len(lines), r["outpath"]))
    res = []
    for ln, what, exp in re.findall(r'<<"MISMATCH", (\d+), "([a-z0-9-]+)", "(.*)">>', r["out"]):
        e = json.loads(lines[int(ln) - 1])
        res.append((int(ln), what, exp.replace("\\", ""), e))
    return lines, res

def monitor_findings(res, tot):
    """MISMATCH lines of the WireTrace monitor -> (key, what, replay).  The lines of one record are judged together: for a type
    whose bytes are not hashed or signed, bytes that differ from the reference encoding are counted, not reported, and what
    the reference parser then says about these bytes ('strict', 'decode') says nothing about the real code - lossless round
    trip, determinism and strict-accepts-own are asserted on the real results by the harness itself."""
    by_line = {}
    for ln, what, exp, e in res:
        by_line.setdefault(ln, []).append((what, exp, e))
    for ln in sorted(by_line):
        items = by_line[ln]
        e = items[0][2]
        whats = [w for w, _, _ in items]
        if "untyped" in whats:
            raise Inconclusive("harness abstraction does not fit its schema at trace line %d: %s" % (ln, json.dumps(e)[:400]))
        if e.get("op") == "enc" and "wire" in whats and not id_type(e["type"]):
            d = tot.setdefault("wire_differs", {})
            d[e["type"]] = d.get(e["type"], 0) + 1
            continue
        for what, exp, _ in items:
            key = {"wire": "wire-mismatch:", "strict": "strict-rejects-own-encoding:", "decode": "roundtrip:"}.get(what)
            if key:
                yield (key + e["type"], "real %s of %s differs from the reference codec at trace line %d: observed %s, reference %s" % (
                    what, e["type"], ln, json.dumps({k: e[k] for k in ("value", "bytes", "strict", "dec")})[:500], exp[:300]), dict(line=ln, record=e))
            elif what == "lisk32-textverdict" and e.get("probe") == "prefix" and e.get("ok") == 1:
                yield ("lisk32:prefix-not-checked", "Lisk32ToBytes accepts %r, whose prefix is not \"lsk\" (the prefix is never compared); it converts to bytes and back "
                       "to %r: text -> bytes -> text is lossy (candidate defect (ii); trace line %d)" % (e.get("str"), e.get("back"), ln), dict(line=ln, record=e))
            elif what == "lisk32-textverdict":
                yield ("lisk32", "Lisk32ToBytes(%r) accepted=%s, but a text converts to bytes and back without loss only if it is exactly what BytesToLisk32 produces "
                       "(reference verdict %s; the real code converts it back to %r; %s probe, trace line %d)" % (
                           e.get("str"), e.get("ok"), exp[:20], e.get("back"), e.get("probe"), ln), dict(line=ln, record=e))
            else:
                yield ("lisk32", "real Lisk32 result differs from LIP-0018 at trace line %d: observed %s, reference %s" % (
                    ln, json.dumps(e)[:300], exp[:200]), dict(line=ln, record=e))


# ---------------------------------------------------------------------------------------- main
def run(ctx):
    quick = ctx.tier == "quick"
    h = ctx.harness()
    src, ntypes = registry_source(common.REPO)
    with open(os.path.join(h, "cmd", "c08", "types.go"), "w") as fh:
        fh.write(src)
    nfiles, nstructs = count_codec_structs(common.REPO)
    if ntypes < 20:
        raise Inconclusive("only %d generated-codec types found in the tree" % ntypes)
    # unexported generated-codec types: driven through VerifCodecTypes() of their package where the tree offers it
    unexp = scan_unexported(common.REPO)
    expected, undriven = set("%s.%s" % (n, t) for _, n, t in scan_types(common.REPO)), []
    for rel, d in sorted(unexp.items()):
        for t in d["types"]:
            if d["offers"] is None:
                undriven.append("%s.%s (%s)" % (d["pkg"], t, "package cannot be imported" if not d["importable"] else "unexported, no VerifCodecTypes in " + rel))
            elif t not in d["offers"]:
                raise Inconclusive("%s offers VerifCodecTypes() without the generated-codec type %s: the registry would silently miss it" % (rel, t))
            else:
                expected.add("%s.%s" % (d["pkg"], t))
    synth_how, synth_snap = regen_synth(h)

    if ctx.replay:
        return replay(ctx)

    # ---- TLC side (independent of the Go build): run in parallel with it
    jobs = {}
    ex = cf.ThreadPoolExecutor(max_workers=6)
    def tlc(name, mode, workers, timeout=1500, **consts):
        cfg = write_cfg(ctx, name, mode, **consts)
        jobs[name] = ex.submit(ctx.tlc, "MCWire", cfg, workers=workers, timeout=timeout, java_opts="-Xss64m")
    tlc("canon", "canon", 6, MaxLen=5 if quick else 6)
    if not quick:
        tlc("canonB", "canon", 4, MaxLen=7, Alpha='"B"')
    tlc("roundtrip", "roundtrip", 2)
    tlc("dev2", "deviants", 1, MaxDev=2, NBase=3 if quick else 4)
    if not quick:
        tlc("dev3", "deviants", 1, MaxDev=3, NBase=2)
    tlc("lisk32", "lisk32", 3, NAddr=40 if quick else 120, NCorrupt=3 if quick else 16)
    binf = ex.submit(ctx.go_build, "./cmd/c08")

    # ---- binding B: generated values through the real codecs, trace validated by TLC
    try:
        binp = binf.result()
    except Inconclusive:
        if synth_how != "regenerated":
            raise
        # what the tree's generator made of synth.go does not compile: a build failure is no verdict on the property; go
        # on with the committed output of the pinned generator
        with open(os.path.join(h, "cmd", "c08", "synth_codec.go"), "w") as fh:
            fh.write(synth_snap)
        synth_how = "snapshot (regenerated code did not compile)"
        binp = ctx.go_build("./cmd/c08")
    report = Reporter(ctx)
    per_type = 25 if quick else 60
    rounds = 1 if quick else 3
    gen_tot, samples, traces = {}, [], 0
    mism = []
    for i in range(rounds):
        seed = ctx.seed * 100 + i
        tr, of = ctx.path("c08_gen%d.ndjson" % i), ctx.path("c08_gen%d.json" % i)
        p = ctx.run([binp, "gen", tr, of, str(per_type)], env={"VERIF_SEED": str(seed)}, timeout=1500)
        if p.returncode != 0 or not os.path.exists(of):
            raise Inconclusive("c08 gen failed: " + (p.stderr or p.stdout)[-1500:])
        g = json.load(open(of))
        for v in g.get("violations") or []:
            report(v["key"], v["what"], dict(v.get("replay") or {}, mode="gen", seed=seed, per_type=per_type))
        for k, v in g["counts"].items():
            gen_tot[k] = gen_tot.get(k, 0) + v
        gen_tot["types"] = g["types"]; gen_tot["types_skipped"] = g["types_skipped"]
        missing = sorted(expected - set((g.get("extra") or {}).get("driven") or []))
        if missing and not ctx.violations:
            raise Inconclusive("generated-codec types of the tree that the harness did not drive: %s" % missing[:10])
        gen_tot["kinds"] = sorted(set(gen_tot.get("kinds", [])) | set(g["kinds"]))
        samples = samples or g["samples"]
        lines, res = validate_trace(ctx, tr, "gen%d" % i)
        traces += len(lines)
        for key, what, rp in monitor_findings(res, gen_tot):
            report(key, what, dict(rp, mode="gen", seed=seed, per_type=per_type))
        log("[c08] gen round %d: %d records (%d types, %d skipped), %d go-side violations, %d monitor mismatches" % (
            i, len(lines), g["types"], len(g["types_skipped"]), len(g.get("violations") or []), len(res)))
    if not ctx.violations and (gen_tot.get("enc", 0) < 200 or gen_tot["types"] < 20 or len(gen_tot["kinds"]) < 10):
        raise Inconclusive("generator exercised too little (%s): vacuous" % gen_tot)
    # the scenarios added for the audit gaps happened at all (per round: the counts are sums over the rounds)
    need = dict(ids_by_sign=5, ids_by_values=5, temp_blocks=1, input_overwritten=500, concurrent_decodes=50,
                l32t_valid=5, l32t_case=20, l32t_prefix=10, header_variants_accepted=1)
    short = {k: gen_tot.get(k, 0) for k, n in need.items() if gen_tot.get(k, 0) < n * rounds}
    nokind = sorted({"rsint", "rbool", "rstring", "ruint32", "sint", "nested", "rnested", "ruint"} - set(gen_tot["kinds"]))
    if not ctx.violations and (short or nokind):
        raise Inconclusive("scenarios that never happened in the generator run (vacuous): %s; field kinds never driven: %s" % (short, nokind))

    # ---- spec-level results
    res = {k: f.result() for k, f in jobs.items()}
    for k, r in res.items():
        spec_ok(r, k)
    acc = sum(len(re.findall(r'^<<"ACC"', res[k]["out"], re.M)) for k in ("canon", "canonB") if k in res)
    if not ctx.violations and (acc < 100 or res["roundtrip"]["distinct"] < 1000):
        raise Inconclusive("canonicity search accepted only %d strings / %d round-trip values: vacuous" % (acc, res["roundtrip"]["distinct"]))

    # ---- binding A: TLC-generated deviants and Lisk32 tables on the real code
    feed = ctx.path("c08_feed.ndjson")
    n = {}
    with open(feed, "w") as fh:
        seen_str = seen_s2 = False
        for k in ("dev2", "dev3", "lisk32"):
            if k not in res:
                continue
            tags = ("DV",) if k.startswith("dev") else ("L32", "L32C")
            if not seen_str:
                tags += ("STR",); seen_str = True
            if k.startswith("dev") and not seen_s2:      # the S2 cases do not depend on MaxDev / NBase: once
                tags += ("DV2", "SCH"); seen_s2 = True
            for d in tagged(res[k]["out"], tags):
                n[d["tag"]] = n.get(d["tag"], 0) + 1
                if d["tag"] == "DV":
                    if d.get("glob") == "first":
                        n["first"] = n.get("first", 0) + 1
                    if set(d.get("cls") or []) & {"keyhi32", "keyhi35", "lenhi32"}:
                        n["hi"] = n.get("hi", 0) + 1
                elif d["tag"] == "DV2":
                    kk = "DV2:%s:%s" % (d.get("type"), d.get("kind"))
                    n[kk] = n.get(kk, 0) + 1
                    if d.get("cls") in ("boolbad", "boolpad", "over32", "itempad", "inmissing"):
                        n["DV2:" + d["cls"]] = n.get("DV2:" + d["cls"], 0) + 1
                fh.write(json.dumps(d, separators=(",", ":")) + "\n")
    if not ctx.violations and (n.get("DV", 0) < 1000 or n.get("L32", 0) < 20 or n.get("L32C", 0) < 38 or n.get("STR", 0) < 5):
        raise Inconclusive("TLC printed too few cases %s: vacuous" % n)
    s2need = ["DV2:mock.DataSetParams:bool", "DV2:mock.DataSetParams:rnested", "DV2:synth.SynthAll:bool", "DV2:synth.SynthAll:uint32",
              "DV2:synth.SynthAll:nested", "DV2:synth.SynthAll:ruint", "DV2:synth.SynthAll:rbool", "DV2:synth.SynthAll:sint",
              "DV2:boolbad", "DV2:boolpad", "DV2:over32", "DV2:itempad", "DV2:inmissing", "first", "hi"]
    if not ctx.violations and (n.get("DV2", 0) < 500 or n.get("SCH", 0) < 2 or [k for k in s2need if n.get(k, 0) < 2]):
        raise Inconclusive("TLC printed too few cases of the added deviation classes / schemas (vacuous): %s" % {k: n.get(k, 0) for k in ["DV2", "SCH"] + s2need})
    of = ctx.path("c08_feed.json")
    f = run_harness(ctx, [binp, "feed", feed, of], of)
    fv = f.get("violations") or []
    pre = ("strict-accepts-noncanonical:", "strict-accepts-noncanonical-in-block:")
    singles = {p: set(v["key"][len(p):] for v in fv if v["key"].startswith(p) and "+" not in v["key"]) for p in pre}
    for v in fv:
        p = next((p for p in pre if v["key"].startswith(p)), None)
        if p and "+" in v["key"] and set(v["key"][len(p):].split("+")) & singles[p]:
            continue       # subsumed by a single-deviation finding
        report(v["key"], v["what"], dict(v.get("replay") or {}, mode="feed"))
    if f.get("spec_disagreements") and not ctx.violations:
        # only what the property does not talk about ends here: the classification of a string as UTF-8 / NFC by the trusted
        # base, and the S2 schemas the specification assumes against the schemas of the real types
        raise Inconclusive("specification and harness disagree outside the property (string classification / schema of an S2 type): %s" %
                           json.dumps(f["spec_disagreements"][:3])[:800])
    fc = f.get("counts") or {}
    if not ctx.violations and (fc.get("deviants_in_block", 0) < n.get("DV", 0) or fc.get("dv2", 0) < n.get("DV2", 0) or fc.get("dv2_real_accept", 0) < 20
                               or fc.get("deviants_in_block_accepted", 0) < 20):
        raise Inconclusive("feed run exercised too little of the added paths (vacuous): %s" % fc)
    if report.held:
        log("[c08] candidate defects observed on this tree, NOT reported (VERIF_EXPERIMENTAL=1 reports them): %s" % json.dumps(report.held, sort_keys=True))
    log("[c08] deviants=%d (spec accepts %d, real accepts %d) lisk32 addresses=%d corruption rows=%d; violations: %s" % (
        f["deviants"], f["deviants_spec_accept"], f["deviants_real_accept"], f["lisk32_addresses"], f["lisk32_corruptions"],
        sorted(set(v["key"] for v in f.get("violations") or [] if EXPERIMENTAL or not dv2_key(v["key"])[1]))[:8]))

    cov = dict(traces_validated_against_impl=traces + f["deviants"] + f["lisk32_addresses"] + f["lisk32_corruptions"],
               samples=samples[:3] + f["samples"][:3],
               codec_files_in_tree=nfiles, codec_structs_in_tree=nstructs, codec_types_driven=gen_tot["types"],
               codec_types_driven_synthetic=2, codec_types_undriven=undriven, synthetic_codec=synth_how,
               codec_types_skipped=gen_tot["types_skipped"], field_kinds_seen=gen_tot["kinds"],
               wire_differs_from_reference_not_judged=gen_tot.get("wire_differs", {}),
               ids_by_sign=gen_tot.get("ids_by_sign", 0), ids_by_new_header_with_values=gen_tot.get("ids_by_values", 0),
               temp_blocks_saved_and_loaded=gen_tot.get("temp_blocks", 0), inputs_overwritten_after_decoding=gen_tot.get("input_overwritten", 0),
               concurrent_decodes=gen_tot.get("concurrent_decodes", 0), lisk32_text_probes=gen_tot.get("l32t", 0),
               header_wire_variants_accepted=gen_tot.get("header_variants_accepted", 0), blocks_not_loaded=gen_tot.get("blocks_not_loaded", 0),
               deviants_in_block=fc.get("deviants_in_block", 0), deviants_in_block_accepted=fc.get("deviants_in_block_accepted", 0),
               s2_deviants=fc.get("dv2", 0), s2_deviants_accepted_by_spec=fc.get("dv2_spec_accept", 0), s2_deviants_accepted_by_real=fc.get("dv2_real_accept", 0),
               s2_cases=f.get("dv2", {}), rawblock_trailing_variants=fc.get("rawblock_trailing", 0), rawblock_trailing_rejected=fc.get("rawblock_trailing_rejected", 0),
               experimental=EXPERIMENTAL, candidate_defects_observed_not_reported=report.held,
               encode_records=gen_tot.get("enc", 0), lisk32_records=gen_tot.get("l32", 0) + gen_tot.get("l32v", 0),
               blocks_saved_and_loaded=gen_tot.get("blocks_stored", 0), transactions_saved_and_loaded=gen_tot.get("txs_stored", 0),
               nil_nested_probes=gen_tot.get("nil_nested", 0), nil_nested_strict_rejected=gen_tot.get("nil_nested_rejected", 0),
               deviant_encodings=f["deviants"], deviant_classes=f["classes"], deviants_accepted_by_spec=f["deviants_spec_accept"],
               deviants_accepted_by_real=f["deviants_real_accept"], lisk32_addresses_from_spec=f["lisk32_addresses"],
               lisk32_single_symbol_corruptions=f["lisk32_corruptions"],
               canon_strings_enumerated=sum(res[k]["distinct"] for k in ("canon", "canonB") if k in res), canon_strings_accepted=acc,
               roundtrip_values=res["roundtrip"]["distinct"], exhaustive=True,
               rule="one TLC state per byte string / value / deviant / address; one monitor state per recorded call of the real code")
    finish(ctx, LEVEL, cov, assumptions=[
        "numbers are base-128 digit sequences in the specification; field numbers and lengths stay below 2^28",
        "NFC-ness is taken from golang.org/x/text (trusted base): the harness normalises before logging and checks the specification's classification of every string TLC generates",
        "values are well-formed LIP-0027 objects: nested messages are present (nil pointers are probed and counted, not judged), strings are valid UTF-8",
        "canonical strict decoding is demanded of transactions (statement) - as NewTransaction and NewBlock decode them, and of the parameters of a transaction as a module decodes them strictly (S2); for the other types strict decoding must accept the type's own encodings",
        "the LIP-0027 reference bytes are demanded only of types whose bytes are hashed into IDs / roots or signed (%s); for the others: lossless, deterministic, strict accepts own" % ", ".join(ID_TYPES),
        "candidate defects of the pinned tree (nested messages decoded leniently in strict mode, packed-array bounds, uint32 narrowing, Lisk32 prefix, int64 minimum) are observed but reported only with VERIF_EXPERIMENTAL=1",
        "exhaustive canonicity: byte strings over a 13-symbol alphabet up to length %s for 6 schemas; everything else is sampled (seeded)" % (
            "5" if quick else "6 and over an 8-symbol alphabet up to length 7")])


def replay(ctx):
    d = json.load(open(ctx.replay))["replay"]
    binp = ctx.go_build("./cmd/c08")
    report = Reporter(ctx, always=True)
    if d.get("mode") == "feed":
        feed, of = ctx.path("replay.ndjson"), ctx.path("replay.json")
        with open(feed, "w") as fh:
            fh.write(json.dumps(d["record"]) + "\n")
        f = run_harness(ctx, [binp, "feed", feed, of], of)
        for v in f.get("violations") or []:
            report(v["key"], v["what"], dict(v.get("replay") or {}, mode="feed"))
        finish(ctx, LEVEL, dict(traces_validated_against_impl=1, samples=[d["record"]]))
    tr, of = ctx.path("replay.ndjson"), ctx.path("replay.json")
    p = ctx.run([binp, "gen", tr, of, str(d["per_type"])], env={"VERIF_SEED": str(d["seed"])}, timeout=1500)
    if p.returncode != 0 or not os.path.exists(of):
        raise Inconclusive("c08 gen failed: " + (p.stderr or p.stdout)[-1500:])
    g = json.load(open(of))
    for v in g.get("violations") or []:
        report(v["key"], v["what"], dict(v.get("replay") or {}, mode="gen", seed=d["seed"], per_type=d["per_type"]))
    lines, res = validate_trace(ctx, tr, "replay")
    for key, what, rp in monitor_findings(res, {}):
        report(key, what, dict(d, line=rp["line"]))
    finish(ctx, LEVEL, dict(traces_validated_against_impl=len(lines), samples=g["samples"][:3]))
