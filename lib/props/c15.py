"""C15 generated blocks are valid; a generator never contradicts itself.

spec/Generator.tla (on top of Node.tla / LiskBFT.tla):
 (a) Select: admissible payloads for a pool, verify/execute outcomes and a size limit. TLC enumerates every pool of
     <= 3 senders with <= SelMaxTx transactions (2 fee ranks, sizes 1-2, outcome ok / verification invalid / pending /
     execution invalid per transaction), every pool of <= 2 transactions with all seven outcomes (also: executed with
     result Fail = stays in the block; the verification / execution call itself returns an error) and evaluates larger
     pools drawn from VERIF_SEED (3 senders x 3 transactions; 5-6 senders, 6 fee ranks, limits 1..9); the harness runs
     the real selectTransactionsByFee (+ limitTransactionsWithSize) on every case and limit, under two concretisations of
     the fee ranks (rank * 1000; the boundary table 0, 1, 999, 1000, 2^31, 2^40 with a non-integer fee/size quotient)
     and with the byte limit exactly / one byte below / one byte above a whole number of units.
     Where the statement is silent the specification is nondeterministic: equal priorities (any order), a candidate that
     does not fit (stop, or leave that sender out and go on).
 (b) forge / recv / recv-with-validator-set-change / switch (to a better, possibly shorter chain) / crash / restart
     behaviours, checked exhaustively by TLC for NoSelfContradiction, MhgLargestEver, PersistedBeforeHandoff,
     ForgeOutputAccepted; the scripts TLC prints are replayed on the real generator.Generator wired to the real
     consensus.Executer (last Forge of every script through the unmodified forge(), then the generator is restarted and
     signs one more header whose maxHeightGenerated the specification fixes), generator database on a strict in-memory
     file system.  Prefixes that end with a Forge below the largest height ever put the unmodified forge() there.
 (c) every block produced in (b) and in three directed scenarios (validator-set change, aggregate commit of all / of a
     subset of the validators) is processed by the same node and must be accepted.  The application returns two block
     assets in descending module order in every third forge, emits events from the before-, transaction- and
     after-transactions hooks, and pools are chosen so that payloads of 1..4 transactions fill the limit to the byte.
 A static guard (go/ast) compares VerifForgeOnce with forge(): a drift makes the run inconclusive.
 The generator declining to generate (or a selection that fails) is no violation - the statement is about the blocks that
 are produced - but makes the run inconclusive.  VERIF_EXPERIMENTAL=1 (the default bin/check sets for C15 since the finding
 was repaired in /repo, bc0cbed): the application's state root depends on the ORDER in which the hooks receive the block
 assets (key generated-block-rejected:hooks-see-unsorted-assets); with 0 the application reads its assets by module name.
Two control runs (implementation-shape constants MhgRule = "last", PersistFirst = FALSE) must make TLC report a
self-contradiction, otherwise the model is vacuous (exit 2)."""
import json, os, random, re
from concurrent.futures import ThreadPoolExecutor
import common
from common import Inconclusive, finish, log
from props import c01

LEVEL = "model_checking"
# afterEvent: the toy application also emits an event from the after-transactions hook (generation and validation)
NODE1 = dict(nval=3, batch=3, init=dict(pcT=5, certT=5, w=[1, 3, 3], gens=[1, 2, 3]), choices=[], now=0, network=False, afterEvent=True)
NODE12 = dict(nval=3, batch=3, init=dict(pcT=5, certT=5, w=[1, 1, 5], gens=[1, 2, 3]), choices=[], now=0, network=False)
# validator-set changes: MCGenerator.tla ChoiceA / ChoiceB (other weights, permuted generator list)
NODE1C = dict(NODE1, choices=[dict(pcT=5, certT=5, w=[1, 2, 4], gens=[3, 1, 2])])
NODE12C = dict(NODE12, choices=[dict(pcT=5, certT=5, w=[1, 2, 5], gens=[2, 1, 3])], afterEvent=True)


def _dumps_sorted(ctx, out):
    seen = set()
    for d in ctx.dumps(out):
        seen.add(json.dumps(d, sort_keys=True))
    return sorted(seen)


def _no_violation(r, what):
    if r["violation"]:
        raise Inconclusive("TLC reports a violation in %s (specification level, nothing observed on the real code): %s" % (what, r["outpath"]))


# ---------------------------------------------------------------------------------------------- part (a)
def tla_pool(pool):
    return "<<" + ", ".join("<<" + ", ".join('[r |-> %d, z |-> %d, o |-> "%s"]' % (t["r"], t["z"], t["o"]) for t in s) + ">>" for s in pool) + ">>"


BAD = ["vf", "vp", "xf", "ve", "xr"]     # the sender is dropped; "xe" (executed, result Fail) stays in the block like "ok"


def _outcome(rnd, fail):
    x = rnd.random()
    if x < fail:
        return rnd.choice(BAD)
    if x < fail + 0.12:
        return "xe"
    return "ok"


def random_pools(seed, n, ranks=3):
    rnd = random.Random(seed * 7919 + 15)
    pools = []
    while len(pools) < n:
        lens = sorted([rnd.choice([0, 1, 2, 3, 3]), rnd.choice([1, 2, 3, 3]), rnd.choice([2, 3, 3])], reverse=True)
        fail = rnd.choice([0.0, 0.15, 0.35])
        pool = [[dict(r=rnd.randint(1, ranks), z=rnd.randint(1, 2), o=_outcome(rnd, fail)) for _ in range(k)] for k in lens]
        if sum(lens) >= 5:
            pools.append(pool)
    return pools


def random_wide_pools(seed, n, ranks=6):
    """5-6 senders (a candidate heap three levels deep), 6 fee ranks (the harness concretises them through a table of
    boundary priorities as well), 7-13 transactions, every outcome"""
    rnd = random.Random(seed * 104729 + 15)
    pools = []
    while len(pools) < n:
        lens = [rnd.choice([1, 1, 2, 2, 3]) for _ in range(rnd.choice([5, 6]))]
        if not 7 <= sum(lens) <= 13:
            continue
        fail = rnd.choice([0.0, 0.0, 0.1, 0.25])
        pools.append([[dict(r=rnd.randint(1, ranks), z=rnd.choice([1, 1, 2]), o=_outcome(rnd, fail)) for _ in range(k)] for k in lens])
    return pools


def select_cases(ctx, quick):
    maxtx = 3 if quick else 4
    cfg = c01.write_cfg(ctx, "gen_select", c01.cfg_text("Generator_select", SelMaxTx=maxtx))
    r = ctx.tlc("MCGenerator", cfg, workers=6 if quick else 8, timeout=1500)
    _no_violation(r, "Generator.tla part (a) (SelSoundInv: Select does not satisfy the statement's own constraints)")
    cases = _dumps_sorted(ctx, r["out"])
    # every outcome (incl. executed-with-result-Fail and failing application calls) exhaustively on pools of <= 2 transactions
    cfg7 = c01.write_cfg(ctx, "gen_select_out7", c01.cfg_text("Generator_select", SelMaxTx=2 if quick else 3, SelOutcomes="Out7"))
    r7 = ctx.tlc("MCGenerator", cfg7, workers=2 if quick else 6, timeout=1500)
    _no_violation(r7, "Generator.tla part (a) with all outcomes")
    have = set(cases)
    cases7 = [c for c in _dumps_sorted(ctx, r7["out"]) if c not in have]
    # drawn pools: 3 senders x <= 3 transactions, and 5-6 senders with 6 fee ranks (limits 1..9)
    pools = random_pools(ctx.seed, 500 if quick else 3000) + random_wide_pools(ctx.seed, 300 if quick else 3000)
    mod = "---- MODULE MCGeneratorGiven ----\nEXTENDS MCGenerator\nGivenPools == <<\n" + ",\n".join(tla_pool(p) for p in pools) + "\n>>\n====\n"
    cfg2 = c01.write_cfg(ctx, "gen_select_given", c01.cfg_text("Generator_select", SelGiven="GivenPools", SelRanks=6, SelMaxTx=13, SelMaxLimit=9, SelOutcomes="Out7"))
    r2 = ctx.tlc("MCGeneratorGiven", cfg2, workers=4, timeout=1500, files={"MCGeneratorGiven.tla": mod})
    _no_violation(r2, "Generator.tla part (a) on the drawn pools")
    big = _dumps_sorted(ctx, r2["out"])
    if len(cases) < 5000 or len(cases7) < 500 or len(big) < 0.9 * len(pools):
        raise Inconclusive("TLC printed only %d + %d + %d selection cases" % (len(cases), len(cases7), len(big)))
    path = ctx.path("cases.ndjson")
    with open(path, "w") as fh:
        fh.write("\n".join(cases + cases7 + big) + "\n")
    return path, len(cases) + len(cases7), len(big), maxtx


# ---------------------------------------------------------------------------------------------- part (b)
def exhaustive(ctx, name, workers, **kw):
    cfg = c01.write_cfg(ctx, name, c01.cfg_text("Generator_exh", DumpPick=ctx.seed, **kw))
    r = ctx.tlc("MCGenerator", cfg, workers=workers, timeout=2400)
    _no_violation(r, "Generator.tla part (b) %s (the specified generator contradicts itself / is rejected in the model)" % name)
    return r


def control(ctx, name, **kw):
    """implementation-shape variant: TLC must find a self-contradiction, else the model cannot see the defect class"""
    text = c01.cfg_text("Generator_exh", **kw)
    text = re.sub(r"(?m)^INVARIANTS.*$", "INVARIANTS NoSelfContradiction", text)
    r = ctx.tlc("MCGenerator", c01.write_cfg(ctx, name, text), workers=4, timeout=1200)
    if not ctx.violations and (not re.search(r"Invariant NoSelfContradiction is violated", r["out"])):
        raise Inconclusive("control run %s: TLC finds no self-contradiction for the defective generator shape - model vacuous (%s)" % (name, r["outpath"]))
    return r


def pick_scripts(ctx, lines, cap, tag, prefer='"critical": true'):
    """all scripts are deterministic in VERIF_SEED (sorted, then a seeded sample); critical ones are preferred"""
    rnd = random.Random(ctx.seed * 31 + len(tag))
    crit = [l for l in lines if prefer in l]
    rest = [l for l in lines if prefer not in l]
    rnd.shuffle(crit); rnd.shuffle(rest)
    take = crit[: (2 * cap) // 3]
    take += rest[: cap - len(take)]
    return take


def low_last(ctx, lines, cap, nval=3):
    """Prefixes of printed scripts that END with a Forge below the largest height the generator ever generated (the
    statement's scenario: generating at a lower height after a move to a shorter chain).  The harness runs the last Forge of
    a script through the unmodified forge() and then restarts the generator and lets it sign one more header, so these
    prefixes put the production path exactly there.  `next` (the maxHeightGenerated of that next header) is what the
    specification's Forge step recorded as persisted: max(info.h, info.mhg)."""
    rnd = random.Random(ctx.seed * 131 + 7)
    res, seen = [], set()
    lines = list(lines); rnd.shuffle(lines)
    for l in lines:
        if len(res) >= cap:
            break
        sc = json.loads(l)["script"]
        idx = [i for i, st in enumerate(sc[:-1]) if st["op"] == "forge" and not st["crash"] and st["h"] < st["mhg"]]
        if not idx:
            continue
        i = idx[rnd.randrange(len(idx))]
        pre = sc[:i + 1]
        key = json.dumps(pre, sort_keys=True)
        if key in seen:
            continue
        seen.add(key)
        nxt = [0] * nval
        nxt[pre[-1]["gen"] - 1] = max(pre[-1]["info"]["h"], pre[-1]["info"]["mhg"])
        res.append(json.dumps(dict(script=pre, critical=False, chgforge=False, next=nxt, lowlast=True), sort_keys=True))
    return res


def forge_replay(ctx, binp, lines, hcfg, cases, name, extras):
    sf = ctx.path(name + "_scripts.ndjson")
    open(sf, "w").write("\n".join(lines) + ("\n" if lines else ""))
    cf = ctx.path(name + "_cfg.json"); json.dump(hcfg, open(cf, "w"))
    of = ctx.path(name + "_res.json")
    p = ctx.run([binp, "forge", sf, cases or "-", cf, of], timeout=3000, env={"C15_EXTRAS": "1" if extras else "0"})
    if not os.path.exists(of):
        raise Inconclusive("c15 forge harness failed (rc=%d): %s" % (p.returncode, p.stderr[-1500:]))
    res = json.load(open(of))
    if res.get("harness_errors"):
        raise Inconclusive("c15 forge harness error: %s" % res["harness_errors"][:2])
    return res


def select_replay(ctx, binp, cases, name):
    of = ctx.path(name + "_res.json")
    p = ctx.run([binp, "select", cases, of], timeout=3000)
    if not os.path.exists(of):
        raise Inconclusive("c15 select harness failed (rc=%d): %s" % (p.returncode, p.stderr[-1500:]))
    res = json.load(open(of))
    if res.get("harness_errors"):
        raise Inconclusive("c15 select harness error: %s" % res["harness_errors"][:2])
    return res


HO_NODE = dict(nval=3, batch=3, init=dict(pcT=2, certT=2, w=[1, 1, 1], gens=[1, 2, 3]), choices=[], now=0, network=False)

def handover(ctx, binp=None, only=None):
    """spec/Handover.tla: the operator interface of block generation (setKeys / getStatus / setStatus / updateStatus of
    pkg/engine/endpoint + the generator's persisted info) on two nodes.  TLC: NoContradiction for every behaviour in which
    the operator follows the protocol (exhaustive, small bounds), a control without the protocol (contradiction reachable)
    and a reachability control (the validator does generate on two nodes).  Binding: TLC behaviours (all hand-overs of the
    focus configuration + random ones) drive two real nodes with the real endpoint; trace/HandoverTrace.tla validates every
    answer, generated header and the generator's own stored info."""
    quick = ctx.tier == "quick"
    binp = binp or ctx.go_build("./cmd/c15")
    stats = {}
    if only is None:
        r = ctx.tlc("MCHandover", c01.write_cfg(ctx, "ho_exh", c01.cfg_text("Handover_exh", MaxSteps=9 if quick else 10)), workers=12, timeout=1800)
        if r["violation"]:
            raise Inconclusive("Handover.tla violates NoContradiction / InfoCoversSigned / AtMostOneEnabled at spec level: %s" % r["outpath"])
        stats["exhaustive_states"] = r["distinct"]
        rc = ctx.tlc("MCHandover", "Handover_control", workers=8, timeout=600, check=False)
        rr = ctx.tlc("MCHandover", "Handover_reach", workers=8, timeout=900, check=False)
        if not rc["violation"] or not rr["violation"]:
            raise Inconclusive("Handover.tla controls: contradiction without the protocol reachable=%s, generation on two nodes reachable=%s: the model is vacuous" % (rc["violation"], rr["violation"]))
        ctx.states -= rc["distinct"] + rr["distinct"]; ctx.transitions -= rc["generated"] + rr["generated"]
        rf = ctx.tlc("MCHandover", c01.write_cfg(ctx, "ho_focus", c01.cfg_text("Handover_focus", DumpEvery=60 if quick else 6)), workers=12, timeout=1800)
        if rf["violation"]:
            raise Inconclusive("Handover.tla (focus) violates an invariant at spec level: %s" % rf["outpath"])
        rs = ctx.tlc("MCHandover", "Handover_sim", workers=1, timeout=900, simulate=40 if quick else 400, depth=24, seed=ctx.seed + 3)
        if rs["violation"]:
            raise Inconclusive("Handover.tla (simulation) violates an invariant at spec level: %s" % rs["outpath"])
        prelude = [dict(op="setkeys", n=1, type="plain"), dict(op="setkeys", n=2, type="plain")]
        scripts = []
        seen = set()
        cap_f, cap_s = (150, 150) if quick else (1500, 1500)
        for out, pre, cap in ((rf["out"], prelude, cap_f), (rs["out"], [], cap_s)):
            n = 0
            for d in ctx.dumps(out):
                k = json.dumps(d["script"], sort_keys=True)
                if k in seen or n >= cap:
                    continue
                seen.add(k); n += 1
                scripts.append(dict(script=pre + d["script"], followed=d["followed"]))
    else:
        scripts = [only]
    sf = ctx.path("ho_scripts.ndjson")
    with open(sf, "w") as fh:
        for d in scripts:
            fh.write(json.dumps(d) + "\n")
    cf = ctx.path("ho_cfg.json"); json.dump(dict(node=HO_NODE, own=[]), open(cf, "w"))
    tf = ctx.path("ho_trace.ndjson"); of = ctx.path("ho_res.json")
    p = ctx.run([binp, "handover", sf, cf, tf, of], timeout=2400)
    if not os.path.exists(of):
        raise Inconclusive("c15 handover harness failed (rc=%d): %s" % (p.returncode, p.stderr[-1500:]))
    res = json.load(open(of))
    if res.get("harness_errors"):
        raise Inconclusive("c15 handover harness error: %s" % res["harness_errors"][:2])
    for v in res.get("violations") or []:
        ctx.violation(v["key"], v["what"], v.get("replay"))
    lines = open(tf).read().splitlines()
    t = ctx.tlc("HandoverTrace", "HandoverTrace", workers=1, timeout=1800, files={"trace.ndjson": tf}, check=False)
    evs = [json.loads(l) for l in lines]
    def script_of(ln):
        i = ln - 1
        while i >= 0 and evs[i]["ev"] != "reset":
            i -= 1
        sc = scripts[evs[i]["script"]]
        e = evs[ln - 1]
        return dict(mode="handover", script=sc["script"][:e.get("step", len(sc["script"]) - 1) + 1], followed=sc["followed"])
    for ln, tag, detail in re.findall(r'<<"MISMATCH", (\d+), "([a-z-]+)", "(.*)">>', t["out"]):
        e = evs[int(ln) - 1]
        ctx.violation("handover:" + tag, "node %s, step %s (%s): the real node answers / stores %s; Handover.tla: %s" % (
            e.get("n"), e.get("step"), e["ev"], json.dumps({k: e[k] for k in e if k in ("res", "hdr", "info", "stored", "en", "present", "enabled", "strays", "haskeys", "listed", "forged", "tip", "newtip")})[:400],
            detail.replace("\\", "")[:300]), script_of(int(ln)))
    consumed = t["distinct"] - 1
    if t["violation"]:
        inv = [l for l in t["out"].splitlines() if "is violated" in l][:1]
        ctx.violation("handover:contradicting-headers" if "NoContradiction" in "".join(inv) else "handover:invariant",
                      "a state reached by the real nodes violates %s (trace line %d)" % (inv, consumed + 1), script_of(min(consumed + 1, len(lines))))
    elif consumed < len(lines):
        e = evs[consumed]
        ctx.violation("handover:trace-rejected:" + e["ev"], "the real nodes took a step Handover.tla does not allow: line %d %s" % (consumed + 1, json.dumps(e)[:400]), script_of(consumed + 1))
    ops = {}
    for e in evs:
        ops[e["ev"]] = ops.get(e["ev"], 0) + 1
    results = {}
    two = 0
    cur = set()
    for e in evs:
        if e["ev"] == "reset":
            two += len(cur) == 2; cur = set()
        if e["ev"] == "enable":
            results[e["res"]] = results.get(e["res"], 0) + 1
        if e["ev"] == "forge" and e.get("forged") == 1:
            cur.add(e["n"])
    two += len(cur) == 2
    log("[c15] handover: scripts=%d events=%d ops=%s enable results=%s scripts generating on both nodes=%d" % (len(scripts), len(evs), ops, results, two))
    if only is None and not ctx.violations and (two < 20 or results.get("ok", 0) < 50 or len(results) < 4 or ops.get("restart", 0) < 10):
        raise Inconclusive("hand-over scripts did not exercise enough (both-node generations %d, enable results %s): vacuous" % (two, results))
    stats.update(handover_scripts=len(scripts), handover_events_validated=len(evs), handover_ops=ops, handover_enable_results=results,
                 handover_scripts_generating_on_both_nodes=two)
    return stats


def report(ctx, res):
    for v in res.get("violations") or []:
        ctx.violation(v["key"], v["what"], v.get("replay"))


def run(ctx):
    quick = ctx.tier == "quick"
    if ctx.replay:
        d = json.load(open(ctx.replay))["replay"]
        if isinstance(d, dict) and ("pool" in d or "row" in d or "single" in d):
            # found by the shared certificate pool cases
            from props import c06
            res, _ = c06.run_cert(ctx, lambda k: k.startswith("own-aggregate-rejected"))
            finish(ctx, LEVEL, dict(traces_validated_against_impl=res["states"], samples=[str(d)[:300]]))
        binp = ctx.go_build("./cmd/c15")
        if d.get("mode") == "handover":
            st = handover(ctx, binp, only=dict(script=d["script"], followed=d.get("followed", False)))
            finish(ctx, LEVEL, dict(traces_validated_against_impl=1, samples=[str(d)[:300]], **st))
        if d.get("mode") == "select":
            cf = ctx.path("replay_cases.ndjson"); open(cf, "w").write(json.dumps(d["case"]) + "\n")
            res = select_replay(ctx, binp, cf, "replay")
            n = res["cases"]
        else:
            hcfg = dict(node=d.get("node") or (NODE12 if d.get("own") == [1, 2] else NODE1), own=d.get("own") or [1])
            line = json.dumps(dict(script=d["script"], idx=d.get("idx"), cases=d.get("cases"), extra=d.get("extra") or "", signers=d.get("signers"), critical=False,
                                   next=d.get("next")))
            res = forge_replay(ctx, binp, [line], hcfg, None, "replay", False)
            n = res["scripts"]
        report(ctx, res)
        finish(ctx, LEVEL, dict(traces_validated_against_impl=n, samples=[str(d)[:300]]))

    # the Go build, the selection cases and the behaviours are independent: run them side by side
    with ThreadPoolExecutor(max_workers=8) as ex:
        f_b3 = None
        f_bin = ex.submit(ctx.go_build, "./cmd/c15")
        f_sel = ex.submit(select_cases, ctx, quick)
        if quick:
            f_b1 = ex.submit(exhaustive, ctx, "gen_exh_own1", 6, MaxSteps=7, MaxLen=5, MaxRecv=2, DumpEvery=40)
            f_b2 = ex.submit(exhaustive, ctx, "gen_exh_own12", 3, MaxSteps=5, MaxLen=5, MaxRecv=2, DumpEvery=12, InitW="W115", Own="Own12")
            f_c1 = ex.submit(control, ctx, "gen_ctl_last", MaxSteps=7, MaxLen=5, MaxRecv=2, MhgRule='"last"')
        else:
            f_b1 = ex.submit(exhaustive, ctx, "gen_exh_own1", 9, MaxSteps=8, MaxLen=6, MaxRecv=2, DumpEvery=90)
            f_b3 = ex.submit(exhaustive, ctx, "gen_exh_own1_recv3", 4, MaxSteps=7, MaxLen=5, MaxRecv=3, DumpEvery=40)
            f_b2 = ex.submit(exhaustive, ctx, "gen_exh_own12", 3, MaxSteps=7, MaxLen=5, MaxRecv=2, DumpEvery=40, InitW="W115", Own="Own12")
            f_c1 = ex.submit(control, ctx, "gen_ctl_last", MaxSteps=7, MaxLen=5, MaxRecv=2, MhgRule='"last"')
        f_c2 = ex.submit(control, ctx, "gen_ctl_persist", MaxSteps=6, MaxLen=5, MaxRecv=2, PersistFirst="FALSE")
        # a block of another validator changes the validator set (weights, permuted generator list) before the generator
        # under test generates: RecvChg, one change per behaviour
        d = 5 if quick else 6
        f_g1 = ex.submit(exhaustive, ctx, "gen_exh_chg_own1", 3, MaxSteps=d, MaxLen=5, MaxRecv=2, DumpEvery=3 if quick else 8, ParamChoices="ChoiceA", MaxChg=1)
        f_g2 = ex.submit(exhaustive, ctx, "gen_exh_chg_own12", 3, MaxSteps=d, MaxLen=5, MaxRecv=2, DumpEvery=3 if quick else 8, InitW="W115", Own="Own12", ParamChoices="ChoiceB", MaxChg=1)
        binp = f_bin.result()
        cases, n_exh, n_big, maxtx = f_sel.result()
        b1, b2, c1, c2 = f_b1.result(), f_b2.result(), f_c1.result(), f_c2.result()
        b3 = f_b3.result() if f_b3 else None
        g1, g2 = f_g1.result(), f_g2.result()

    # ---- is VerifForgeOnce (all forges but one per script) still forge()?  (verdict at the end: never a violation)
    gp = ctx.run([binp, "guard", os.path.join(common.REPO, "pkg/generator/generator.go"), os.path.join(common.REPO, "pkg/generator/export_verif.go")], timeout=300)
    try:
        guard = json.loads(gp.stdout)
    except Exception:
        guard = dict(equal=False, error="guard output unreadable: %s" % (gp.stdout[-300:] + gp.stderr[-300:]))

    # ---- (a) on the real selection
    rs = select_replay(ctx, binp, cases, "select")
    report(ctx, rs)
    log("[c15] select: cases=%d selections=%d ambiguous=%d violations=%s" % (rs["cases"], rs["selections"],
        rs["selections_with_several_admissible_payloads"], rs.get("violations_per_key")))
    if rs["cases"] < n_exh + n_big or rs["selections"] + rs["selections_aborted_with_error"] < 12 * rs["cases"]:
        raise Inconclusive("the select harness evaluated only %d of %d cases" % (rs["cases"], n_exh + n_big))
    oc = rs["selection_cases_per_outcome"]
    if (rs["selections_with_boundary_rank_table"] < rs["selections"] // 3 or rs["selections_with_5_or_more_senders"] < 2000
            or rs["selections_with_7_or_more_transactions_taken"] < 100 or min(oc.get(o, 0) for o in ("xe", "ve", "xr")) < 150):
        raise Inconclusive("the selection cases did not exercise enough (boundary priorities / 5-6 senders / deep payloads / outcomes %s): vacuous" % oc)

    # ---- (b) + (c) on the real generator
    cap = 700 if quick else 5000
    d1, d2 = _dumps_sorted(ctx, b1["out"]), _dumps_sorted(ctx, b2["out"])
    s1 = pick_scripts(ctx, d1, cap, "own1")
    if b3:
        s1 = sorted(set(s1 + pick_scripts(ctx, _dumps_sorted(ctx, b3["out"]), cap // 4, "own1r3")))
    s2 = pick_scripts(ctx, d2, cap // 3, "own12")
    s1 = s1 + low_last(ctx, d1, cap // 6)
    s2 = s2 + low_last(ctx, d2, cap // 12)
    s3 = pick_scripts(ctx, _dumps_sorted(ctx, g1["out"]), cap // 5, "chg1", prefer='"chgforge": true')
    s4 = pick_scripts(ctx, _dumps_sorted(ctx, g2["out"]), cap // 5, "chg12", prefer='"chgforge": true')
    with ThreadPoolExecutor(max_workers=4) as ex:
        fs = [ex.submit(forge_replay, ctx, binp, s1, dict(node=NODE1, own=[1]), cases, "forge_own1", True),
              ex.submit(forge_replay, ctx, binp, s2, dict(node=NODE12, own=[1, 2]), cases, "forge_own12", False),
              ex.submit(forge_replay, ctx, binp, s3, dict(node=NODE1C, own=[1]), cases, "forge_chg_own1", False),
              ex.submit(forge_replay, ctx, binp, s4, dict(node=NODE12C, own=[1, 2]), cases, "forge_chg_own12", False)]
        r1, r2, r3, r4 = [f.result() for f in fs]
    runs = ((r1, [1], NODE1), (r2, [1, 2], NODE12), (r3, [1], NODE1C), (r4, [1, 2], NODE12C))
    for r, own, nd in runs:
        for v in r.get("violations") or []:
            if isinstance(v.get("replay"), dict):
                v["replay"]["own"] = own
                v["replay"]["node"] = nd
        report(ctx, r)
    tot = lambda k: sum(r[k] for r, _, _ in runs)
    def totd(k):
        m = {}
        for r, _, _ in runs:
            for kk, v in (r.get(k) or {}).items():
                m[kk] = m.get(kk, 0) + v
        return m
    fill, fill_real = totd("generated_blocks_filling_the_limit_to_the_byte_by_transactions"), totd("of_these_through_unmodified_forge")
    log("[c15] forge: scripts=%d forges=%d (unmodified forge(): %d) crashes=%d restarts=%d switches=%d (shorter %d) lower-forges=%d accepted=%d rejected=%d with-txs=%d aggregate-commits=%d pairs=%d violations=%s / %s" % (
        tot("scripts"), tot("forges"), tot("forges_through_unmodified_forge"), tot("crash_forges"), tot("restarts"), tot("switches"),
        tot("switches_to_shorter_chain"), tot("forges_below_largest_height_ever"), tot("generated_blocks_accepted"), tot("generated_blocks_rejected"),
        tot("generated_blocks_with_transactions"), tot("generated_blocks_with_aggregate_commit"), tot("header_pairs_checked_for_contradiction"),
        r1.get("violations_per_key"), [r.get("violations_per_key") for r in (r2, r3, r4)]))
    log("[c15] forge: restart + next header after the unmodified forge()=%d (after a forge below the largest height ever: %d) after a validator-set change=%d (%d on the changing block) "
        "two unsorted assets=%d after-hook events=%d failed-but-included=%d application errors in the pool=%d declined=%d info records in another layout=%d guard=%s" % (
        tot("restart_and_next_header_after_unmodified_forge"), tot("of_these_after_a_forge_below_the_largest_height_ever"), tot("forges_after_validator_set_change"),
        tot("forges_directly_after_the_changing_block"), tot("generated_blocks_with_two_unsorted_assets"), tot("generated_blocks_with_after_hook_event"),
        tot("generated_blocks_with_failed_but_included_transaction"), tot("forges_with_abi_error_in_pool"), tot("forges_declined_or_failed_without_block"),
        tot("generator_info_records_not_in_todays_layout"), guard.get("equal")))
    log("[c15] forge: accepted blocks whose payload fills the byte limit exactly, by number of transactions: %s (through the unmodified forge(): %s); blocks per limit delta (bytes): %s" % (
        fill, fill_real, totd("generated_blocks_per_limit_delta_bytes")))
    if ctx.violations:
        open_keys = {f["key"] for f in common.load_findings() if f["property"] == ctx.pid and f.get("status") == "open"}
        if any(k not in open_keys for k, _, _ in ctx.violations):
            # the verdict is decided: the shared certificate cases and the hand-over part (minutes) would not change it
            finish(ctx, LEVEL, dict(traces_validated_against_impl=tot("scripts"), samples=[str(ctx.violations[0][1])[:300]],
                                    note="violation observed in parts (a)-(c); the certificate pool cases and the hand-over part were not run"))
    # the aggregate commit a generated block carries is whatever GetAggregateCommit assembles from the pool: for every set
    # of certifying validators on chains with finality and validator-set changes (the C06 pool cases) it must pass the
    # node's own verification, or the node rejects its own block
    from props import c06
    cres, _ = c06.run_cert(ctx, lambda k: k.startswith("own-aggregate-rejected"), replay_ok=False)
    # moving the validator to another node (the operator interface of pkg/engine/endpoint): spec/Handover.tla
    ho = handover(ctx)
    if not ctx.violations:
        # the statement is about the blocks that ARE produced: a generator that declines (or a selection that fails) violates
        # nothing, but the behaviours of the specification could not be followed - no verdict
        if tot("forges_declined_or_failed_without_block") or rs["selections_aborted_with_error"]:
            notes = [n for r, _, _ in runs for n in (r.get("declined_notes") or [])]
            raise Inconclusive("the generator produced no block in %d slots in which the specification generates / %d selections failed with an error: %s" % (
                tot("forges_declined_or_failed_without_block"), rs["selections_aborted_with_error"], notes[:2]))
        if not guard.get("equal"):
            # forge() was refactored and the synchronous copy in the hook file was not: the forges that ran through the copy say
            # nothing about the new forge().  That is a loss of coverage, not a verdict and not a reason to give none: the unmodified
            # forge() itself ran in every script epilogue (floor below: >= 300 per run, each followed by restart + next header +
            # the node's own processing of the block), which is where a defect of the new forge() shows.
            log("[c15] NOTE: VerifForgeOnce (pkg/generator/export_verif.go) is no longer forge() apart from the documented differences (%s | forge(): %s | copy: %s); "
                "only the %d forges through the unmodified forge() judge it" % (guard.get("error") or "first difference", guard.get("first_difference_forge"),
                                                                            guard.get("first_difference_copy"), tot("restart_and_next_header_after_unmodified_forge")))
        if (tot("restart_and_next_header_after_unmodified_forge") < 300 or tot("of_these_after_a_forge_below_the_largest_height_ever") < 60
                or r3["forges_directly_after_the_changing_block"] < 15 or r4["forges_directly_after_the_changing_block"] < 15
                or r3["forges_after_validator_set_change"] < 40 or r4["forges_after_validator_set_change"] < 40
                or tot("generated_blocks_with_two_unsorted_assets") < 200 or tot("generated_blocks_with_after_hook_event") < 500
                or tot("generated_blocks_with_failed_but_included_transaction") < 40 or tot("forges_with_abi_error_in_pool") < 40
                or min(fill.get(str(k), 0) for k in (1, 2, 3, 4)) < 15 or sum(fill_real.values()) < 30
                or min(totd("generated_blocks_per_limit_delta_bytes").get(d, 0) for d in ("-1", "0", "1")) < 200):
            raise Inconclusive("the replayed scripts did not exercise enough of the added scenarios (next header after forge() / validator-set change / two assets / after-hook events / Fail results / application errors / payloads filling the limit to the byte): vacuous")
    if (tot("forges") < 500 or tot("forges_through_unmodified_forge") < 200 or tot("crash_forges") < 20 or tot("switches_to_shorter_chain") < 50
            or tot("forges_below_largest_height_ever") < 20 or tot("generated_blocks_with_transactions") < 100
            or tot("generated_blocks_with_aggregate_commit") < 2 or tot("header_pairs_checked_for_contradiction") < 300
            or r1["directed_scenarios"].get("validator-change", 0) < 1 or r1["directed_scenarios"].get("aggregate-commit", 0) < 2):
        raise Inconclusive("the replayed scripts did not exercise enough (forges / crashes / shorter switches / payloads / aggregate commits): vacuous")

    sample_case = json.loads(open(cases).readline())
    sample_script = json.loads(s1[0])["script"] if s1 else []
    cov = dict(
        traces_validated_against_impl=tot("scripts"),
        samples=[dict(selection_case=sample_case), dict(script=[{k: st.get(k) for k in ("op", "gen", "h", "mhp", "mhg", "crash", "del") if k in st} for st in sample_script])],
        exhaustive=False, exhaustive_within=dict(selection_pools_up_to_transactions=maxtx, behaviours_depth=7 if quick else 8),
        selection_cases_enumerated=n_exh, selection_cases_drawn=n_big, selection_cases_replayed=rs["cases"], selections_compared=rs["selections"],
        selections_with_several_admissible_payloads=rs["selections_with_several_admissible_payloads"], selection_case_shapes=rs["case_shapes"],
        behaviour_states=dict(own1=b1["distinct"], own1_recv3=(b3["distinct"] if b3 else 0), own12=b2["distinct"]), control_runs=dict(mhg_last=c1["distinct"], persist_after_handoff=c2["distinct"]),
        scripts_printed=dict(own1=len(s1), own12=len(s2)),
        replayed_steps=tot("steps"), forges=tot("forges"), forges_through_unmodified_forge=tot("forges_through_unmodified_forge"),
        crash_forges=tot("crash_forges"), restarts=tot("restarts"), switches=tot("switches"), switches_to_shorter_chain=tot("switches_to_shorter_chain"),
        forges_below_largest_height_ever=tot("forges_below_largest_height_ever"), generated_blocks_accepted=tot("generated_blocks_accepted"),
        generated_blocks_rejected=tot("generated_blocks_rejected"), generated_blocks_with_transactions=tot("generated_blocks_with_transactions"),
        transactions_included=tot("transactions_included"), generated_blocks_with_aggregate_commit=tot("generated_blocks_with_aggregate_commit"),
        aggregate_commits_of_signer_subset=tot("aggregate_commits_of_signer_subset"),
        header_pairs_checked_for_contradiction=tot("header_pairs_checked_for_contradiction"), generator_info_reads_compared=tot("generator_info_reads_compared"),
        directed_scenarios=r1["directed_scenarios"],
        behaviour_states_with_validator_set_change=dict(own1=g1["distinct"], own12=g2["distinct"]), scripts_with_validator_set_change=dict(own1=len(s3), own12=len(s4)),
        restart_and_next_header_after_unmodified_forge=tot("restart_and_next_header_after_unmodified_forge"),
        of_these_after_a_forge_below_the_largest_height_ever=tot("of_these_after_a_forge_below_the_largest_height_ever"),
        forges_after_validator_set_change=tot("forges_after_validator_set_change"), forges_directly_after_the_changing_block=tot("forges_directly_after_the_changing_block"),
        generated_blocks_with_two_unsorted_assets=tot("generated_blocks_with_two_unsorted_assets"), generated_blocks_with_after_hook_event=tot("generated_blocks_with_after_hook_event"),
        generated_blocks_with_failed_but_included_transaction=tot("generated_blocks_with_failed_but_included_transaction"), forges_with_abi_error_in_pool=tot("forges_with_abi_error_in_pool"),
        forges_declined_or_failed_without_block=tot("forges_declined_or_failed_without_block"), generator_info_records_not_in_todays_layout=tot("generator_info_records_not_in_todays_layout"),
        selections_with_boundary_rank_table=rs["selections_with_boundary_rank_table"], selections_with_5_or_more_senders=rs["selections_with_5_or_more_senders"],
        selections_with_7_or_more_transactions_taken=rs["selections_with_7_or_more_transactions_taken"], selection_cases_per_outcome=rs["selection_cases_per_outcome"],
        selections_that_skip_a_candidate_that_does_not_fit=rs["selections_that_skip_a_candidate_that_does_not_fit"],
        generated_blocks_filling_the_limit_to_the_byte_by_transactions=fill, of_these_through_unmodified_forge=fill_real,
        generated_blocks_per_limit_delta_bytes=totd("generated_blocks_per_limit_delta_bytes"), selections_per_limit_delta_bytes=rs["selections_per_limit_delta_bytes"],
        selections_filling_the_limit_exactly=rs["selections_filling_the_limit_exactly"],
        verifforgeonce_equals_forge=bool(guard.get("equal")), experimental=os.environ.get("VERIF_EXPERIMENTAL") == "1", **ho,
        rule="(a) every enumerated / drawn pool x limit x rank table: payload of the real selectTransactionsByFee must be one of the admissible payloads of Select; "
             "(b) every printed script replayed on the real Generator + Executer: header (height, maxHeightPrevoted, maxHeightGenerated) equal to the "
             "specification, all headers handed on by one generator pairwise non-contradicting under the real AreDistinctHeadersContradicting and under "
             "LiskBFT!Contra, the generator database records the largest height ever generated at the hand-off, after a crash at the hand-off and after "
             "every forge; after the unmodified forge() the restarted generator's next header reports the specification's maxHeightGenerated; "
             "(c) every produced block accepted by the same node")
    finish(ctx, LEVEL, cov, assumptions=[
        "toy application (deterministic state root chain, scripted verify/execute outcomes and block assets) instead of pkg/framework",
        "3 validators (weights 1,3,3 with generator 1 under test; weights 1,1,5 with generators 1 and 2 under test), batch size 3, chains of <= 6 blocks, <= 8 steps, one chain switch / crash / restart per behaviour; "
        "validator-set changes: one per behaviour, in a block of another validator (weights 1,2,4 / generator list 3,1,2; weights 1,2,5 / generator list 2,1,3), behaviours of <= 5 (thorough 6) steps",
        "fork choice as environment assumption: the generator only generates on a chain that is not worse (maxHeightPrevoted, height) than any chain the node left; a crash after the hand-off is C13's subject",
        "all Forges of a script except the last run through VerifForgeOnce (forge() with the two time.Now() reads replaced by the slot's time; compared with forge() by a go/ast guard); the last one and every directed scenario's last one run through the unmodified forge() at wall-clock time (100000 s slots); the header signed after the following restart lies in a future slot and is not processed",
        "transaction sizes are multiples of 256 bytes; the generator's MaxTransactionsSize and the chain's MaxTransactionsLength are the same number; the pool is emptied and refilled before every forge; pools beyond %d transactions are sampled (seeded), not enumerated" % maxtx,
        "VERIF_EXPERIMENTAL=1 (bin/check's default for C15): the application's state root depends on the order in which the hooks receive the block assets; 0: it reads them by module name",
        "BLS / Ed25519 / SHA-256 / pebble trusted; durability judged on pebble's strict in-memory file system"])
