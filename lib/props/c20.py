"""C20 shared chain data is race-free and deadlock-free under concurrent use.

Binding C (model extraction) + monitors on the real code:
 1. harness/extract (go/ast) reads the CURRENT tree and emits the lock program of every method of blockCache, the
    DataAccess lookups, certificate.Pool, event.EventEmitter, diffdb.Database and blockSyncer.Sync's collector.
 2. spec/Locks.tla interprets the programs under Go's sync.Mutex / sync.RWMutex semantics (a waiting writer blocks new
    readers); TLC checks NoDeadlock, NoRace (lockset) and ExactlyOnce (append = read-modify-write) exhaustively for
    small scenarios (readers + one writer, concurrent appenders, pool, emitter with a live subscriber, diffdb views).
    A counterexample is a PREDICTION, never a verdict.
 3. harness/cmd/c20, built normally and with -race, stresses the real objects (real Executer adding/removing real
    blocks) under a watchdog; deadlocks (goroutine dump), race reports, lost/duplicated items are OBSERVATIONS.
Verdict: observed and predicted -> violation with the site key; observed only -> violation "unmodelled:<key>";
predicted only -> listed under predicted_not_reproduced (no verdict).

Scenarios of the stress driver (harness/cmd/c20): chain-tip / chain-read (block cache 515), chain-tip-evict /
chain-read-evict (block cache 8: eviction, database path of every lookup, removal bursts that drain the cache; saveTemp
alternates and a reader follows the temporary-block table; tip readers Encode() the tip), bulk (input domain BULK_SIZES:
empty / single / 103 / 515 / 600 elements, missing elements anywhere, duplicates, from == to, GetLastNBlocks), serve (the
three sync RPC handlers called by 4 clients while the chain changes), sync, pool (overlapping Select calls whose results
are read outside the lock and re-read later, Get / Has against the lists being sorted), emitter (Publish / Emit /
Subscribe / On / Unsubscribe / UnsubscribeAll / repeated Close, 300 rounds released at the same instant), diffdb (Range in
the owners' op mix; RestoreSnapshot / Commit / Range concurrently with readers and writers).
Observed violations always win over set-up / vacuity guards; a run in which a new sub-scenario never happened is
inconclusive (GUARDS).  VERIF_EXPERIMENTAL=1 adds the sub-checks that are red on the unchanged tree (cache reload under
readers, getBlocksFromId for a tip that is being removed)."""
import json, os, re
from concurrent.futures import ThreadPoolExecutor
import common
from common import Inconclusive, finish, log

LEVEL = "model_checking"
LOCK_OPS = ("Lock", "Unlock", "RLock", "RUnlock")
SCENARIOS = ["chain-tip", "chain-read", "chain-tip-evict", "chain-read-evict", "bulk", "serve", "sync", "pool", "emitter", "diffdb"]
# input domain of the bulk lookups (number of requested elements; for ranges the length)
BULK_SIZES = dict(quick=[0, 1, 2, 9, 33, 64, 100, 103, 104, 515, 600], thorough=[0, 1, 2, 9, 33, 64, 100, 101, 103, 104, 200, 201, 515, 516, 600, 1030])
# non-vacuity: (scenario, counter of the stress driver) -> minimum over the whole run; below it the run is inconclusive
GUARDS = {
    ("chain-tip", "encode_calls"): 100, ("chain-tip", "savetemp_removals"): 1, ("chain-tip", "temp_reads"): 1, ("chain-tip", "temp_blocks_seen"): 1,
    ("chain-read", "lastn_calls"): 10,
    ("chain-tip-evict", "deep_removals"): 1, ("chain-tip-evict", "evictions"): 1, ("chain-tip-evict", "encode_calls"): 100,
    ("chain-read-evict", "deep_removals"): 1, ("chain-read-evict", "evictions"): 1, ("chain-read-evict", "db_path_items"): 100,
    ("bulk", "db_path_items"): 1, ("bulk", "lastn_calls"): 1,
    ("serve", "calls:getLastBlock"): 10, ("serve", "calls:getHighestCommonBlock"): 10, ("serve", "calls:getBlocksFromId"): 10,
    ("pool", "select_rereads"): 10, ("pool", "overlapping_selects"): 1, ("pool", "select_below_stored_range"): 1, ("pool", "get_checks"): 10,
    ("emitter", "simultaneous_rounds"): 100, ("emitter", "emit_calls"): 1, ("emitter", "on_calls"): 1, ("emitter", "unsubscribe_all_calls"): 1,
    ("emitter", "close_calls"): 2,
    ("diffdb", "range_calls"): 1, ("diffdb", "restore_cycles"): 1, ("diffdb", "commit_calls"): 1,
}
SUBSCRIBER = dict(name="live-subscriber", ops=[dict(op="RecvLoop", obj="chan:out", fn="subscriber", line=0)], unknown=[])


# ------------------------------------------------------------------------------------------------ extraction
def extract(ctx):
    binp = ctx.go_build("./extract")
    p = ctx.run([binp, common.REPO], timeout=120)
    if p.returncode != 0:
        raise Inconclusive("extractor failed: " + p.stderr[-1500:])
    try:
        d = json.loads(p.stdout)
    except Exception as e:
        raise Inconclusive("extractor output unreadable: %s" % e)
    if d.get("errors"):
        raise Inconclusive("extractor could not read the anchored sources: %s" % d["errors"][:3])
    for name, pr in d["programs"].items():
        pr["name"] = name
    return d


def one_line(pr):
    s = " ".join("%s(%s)" % (o["op"], o["obj"].split(".")[-1] if o["op"] not in ("Spawn",) else o["obj"].split("$")[-1]) for o in pr["ops"])
    return s + ("  UNKNOWN: %s" % "; ".join(pr["unknown"]) if pr["unknown"] else "")


def started(child):
    """the child program as a process of a scenario that contains its parent: it begins when the parent's go statement ran"""
    return dict(child, ops=[dict(op="Start", obj=child["name"], fn=method_of(child["name"]), line=child.get("line", 0))] + child["ops"])


def seq(progs, label):
    """one process running the given programs one after the other"""
    ops, unknown = [], []
    for p in progs:
        ops += p["ops"]
        unknown += p["unknown"]
    return dict(name=label, ops=ops, unknown=unknown)


def scenarios(ext, tier):
    P = ext["programs"]
    missing = []

    def g(name):
        if name not in P:
            missing.append(name)
            return dict(name=name, ops=[], unknown=["method %s not found in the tree" % name])
        return P[name]

    k = 2 if tier == "quick" else 3
    writer = seq([g("blockCache.push"), g("blockCache.pop")], "blockCache.push;pop")
    dawriter = seq([g("DataAccess.Cache"), g("DataAccess.RemoveCache")], "DataAccess.Cache;RemoveCache")
    scn = []
    scn.append(("blockCache", [g("blockCache.last")] * k + [g("blockCache.getByHeight"), g("blockCache.get"), writer]))
    scn.append(("chain-api", [g("Chain.LastBlock"), g("DataAccess.GetLastBlock"), g("DataAccess.GetBlockHeaderByHeight"),
                              g("DataAccess.GetBlockHeader"), dawriter]))
    for m in ("GetBlockHeaders", "GetBlockHeadersByHeights", "GetTransactions", "GetBlocksBetweenHeight"):
        child = g("DataAccess.%s$go0" % m)
        n = k if child.get("multi") else 1
        scn.append(("bulk:" + m, [child] * n + [dawriter]))
    # a block read from the database: the second fan-out (one goroutine per transaction) below GetBlock / GetBlockByHeight
    scn.append(("db-block", [g("DataAccess.GetBlockByHeight$go0")] * k + [g("DataAccess.GetBlock$go0"), dawriter]))
    child = g("blockSyncer.Sync$go0")
    scn.append(("sync-collector", [child] * (k if child.get("multi") else 1)))
    # the P2P handlers of the sync package: getHighestCommonBlock with its own goroutines, wait group and result channel
    # (parent + children + closer); getBlocksFromId / getLastBlock as what they call in DataAccess while the chain changes
    hc = "Syncer.HandleRPCEndpointGetHighestCommonBlock"
    kids = sorted(n for n in P if n.startswith(hc + "$go"))
    procs = [g(hc)]
    for n in kids:
        procs += [started(P[n])] * (k if P[n].get("multi") else 1)
    scn.append(("serve:getHighestCommonBlock", procs))
    scn.append(("serve:getBlocksFromId", [seq([g("Syncer.HandleRPCEndpointGetLastBlock"), g("Chain.LastBlock"), g("Syncer.HandleRPCEndpointGetBlocksFromID"),
                                               g("DataAccess.GetBlockHeader"), g("Chain.LastBlock")], "getLastBlock;LastBlock;getBlocksFromId;GetBlockHeader;LastBlock")]
                + [g("DataAccess.GetBlocksBetweenHeight$go0")] * (k - 1) + [dawriter]))
    scn.append(("pool", [g("Pool.Add"), g("Pool.Add"), seq([g("Pool.Select"), g("Pool.Upgrade")], "Pool.Select;Upgrade"), g("Pool.Cleanup"),
                         seq([g("Pool.Has"), g("Pool.Get"), g("Pool.Size")], "Pool.Has;Get;Size")]))
    em = [seq([g("EventEmitter.Publish"), g("EventEmitter.Emit")], "EventEmitter.Publish;Emit"), seq([g("EventEmitter.Subscribe"), g("EventEmitter.On")], "EventEmitter.Subscribe;On"),
          seq([g("EventEmitter.Unsubscribe"), g("EventEmitter.UnsubscribeAll")], "EventEmitter.Unsubscribe;UnsubscribeAll"),
          g("EventEmitter.Close"), SUBSCRIBER]
    if tier != "quick":
        em = [g("EventEmitter.Publish"), g("EventEmitter.Emit"), seq([g("EventEmitter.Subscribe"), g("EventEmitter.On")], "EventEmitter.Subscribe;On"),
              g("EventEmitter.Unsubscribe"), g("EventEmitter.UnsubscribeAll"), seq([g("EventEmitter.Close"), g("EventEmitter.Close")], "EventEmitter.Close;Close"), SUBSCRIBER]
    scn.append(("emitter", em))
    dd = [seq([g("Database.Set"), g("Database.Has")], "Database.Set;Has"), seq([g("Database.Get"), g("Database.Del")], "Database.Get;Del"),
          seq([g("Database.Iterate"), g("Database.Range")], "Database.Iterate;Range"),
          seq([g("Database.Snapshot"), g("Database.RestoreSnapshot"), g("Database.Commit")], "Database.Snapshot;RestoreSnapshot;Commit")]
    if tier != "quick":
        dd += [seq([g("Database.WithPrefix"), g("Database.Range")], "Database.WithPrefix;Range"),
               seq([g("Database.DeleteSnapshot"), g("Database.Commit")], "Database.DeleteSnapshot;Commit")]
    scn.append(("diffdb", dd))
    return scn, missing


def tla_prog(procs):
    def one(p):
        return "<<" + ", ".join('<<"%s", "%s">>' % (o["op"], o["obj"]) for o in p["ops"]) + ">>"
    return "<< " + ",\n   ".join(one(p) for p in procs) + " >>"


# ------------------------------------------------------------------------------------------------ predictions
def held_before(ops, idx):
    """locks held by a process just before executing ops[idx]: {mutex: [indices of the unmatched acquiring ops]}"""
    held = {}
    for i, o in enumerate(ops[:idx]):
        if o["op"] in ("Lock", "RLock"):
            held.setdefault(o["obj"], []).append(i)
        elif o["op"] in ("Unlock", "RUnlock") and held.get(o["obj"]):
            held[o["obj"]].pop()
    return {m: v for m, v in held.items() if v}


def method_of(name):
    return name.split("$")[0]


def short_method(name):
    return method_of(name).split(".")[-1]


def final_pc(out):
    states = re.split(r"\nState \d+: ", out)
    m = re.search(r"/\\ pc = <<([0-9, ]*)>>", states[-1]) if len(states) > 1 else None
    return [int(x) for x in m.group(1).split(",")] if m else None


def predict_deadlock(scn, procs, pcs):
    keys = {}
    for p, pc in zip(procs, pcs):
        ops = p["ops"]
        if pc > len(ops):
            continue
        o = ops[pc - 1]
        held = held_before(ops, pc - 1)
        site = dict(blocked_at="%s line %s" % (o.get("fn"), o.get("line")), program=p["name"])
        if o["op"] == "RLock" and o["obj"] in held:
            outer = ops[held[o["obj"]][0]]
            kind = "nested-RLock" if outer["op"] == "RLock" else "relock"
            keys["deadlock:%s:%s" % (outer.get("fn") or method_of(p["name"]), kind)] = dict(site, outer="%s line %s" % (outer.get("fn"), outer.get("line")), mutex=o["obj"])
        elif o["op"] == "Lock" and o["obj"] in held:
            outer = ops[held[o["obj"]][0]]
            keys["deadlock:%s:relock" % (outer.get("fn") or method_of(p["name"]))] = dict(site, outer="%s line %s" % (outer.get("fn"), outer.get("line")), mutex=o["obj"])
        elif o["op"] == "Send" and held:
            keys["deadlock:%s:send-under-lock" % (o.get("fn") or method_of(p["name"]))] = dict(site, mutex=sorted(held))
    if not keys:
        keys["deadlock:%s:lock-order" % scn] = dict(pcs=pcs)
    return keys


def access_kind(op):
    return {"Read": "R", "ARead": "R", "Send": "R", "Write": "W", "AWrite": "W", "Close": "W"}.get(op, "N")


def race_key(p, o):
    if o["op"] in ("ARead", "AWrite"):
        return "race:%s:append" % method_of(p["name"] if o["obj"].startswith("local:") else (o.get("fn") or p["name"]))
    return "race:%s:%s" % (o.get("fn") or method_of(p["name"]), o["obj"].split(".")[-1])


def lockset(ops, idx):
    """{mutex: "W"|"R"} held just before ops[idx]"""
    return {m: ("W" if ops[v[-1]]["op"] == "Lock" else "R") for m, v in held_before(ops, idx).items()}


def predict_race(scn, procs, pcs):
    """TLC found a reachable state with two conflicting unprotected accesses (pcs).  The predicted sites are all
    accesses of the scenario that take part in a conflicting pair without a common exclusively held mutex: the
    counterexample's pair is one of them, the others are the same defect seen from its other accessors."""
    keys = {}
    acc = []
    for pi, p in enumerate(procs):
        for i, o in enumerate(p["ops"]):
            if access_kind(o["op"]) != "N":
                acc.append((pi, p, o, lockset(p["ops"], i)))
    for x, (pi, p, a, la) in enumerate(acc):
        for qi, q, b, lb in acc[x + 1:]:
            if pi == qi or a["obj"] != b["obj"] or "W" not in (access_kind(a["op"]), access_kind(b["op"])):
                continue
            if any(la.get(m) and lb.get(m) and "W" in (la[m], lb[m]) for m in la):
                continue
            sides = [(p, a, la), (q, b, lb)]
            culprits = [sd for sd in sides if not sd[2]] or sides
            for cp, co, _ in culprits:
                keys.setdefault(race_key(cp, co), dict(var=a["obj"], a="%s %s line %s" % (a["op"], a.get("fn"), a.get("line")),
                                                      b="%s %s line %s" % (b["op"], b.get("fn"), b.get("line"))))
    if not keys:
        keys["race:%s:unlocated" % scn] = dict(pcs=pcs)
    return keys


def balanced(text, start):
    """the {...} group starting at text[start] == '{'"""
    depth = 0
    for i in range(start, len(text)):
        if text[i] == "{":
            depth += 1
        elif text[i] == "}":
            depth -= 1
            if depth == 0:
                return text[start:i + 1]
    return ""


def predict_once(scn, procs, out):
    keys = {}
    last = re.split(r"\nState \d+: ", out)[-1]
    m = re.search(r"/\\ val = (.*?)(?:\n/\\ |\n\n)", last, re.S)
    body = m.group(1) if m else ""
    accs = {}
    for pi, p in enumerate(procs):
        for oi, o in enumerate(p["ops"]):
            if o["op"] == "AWrite":
                accs.setdefault(o["obj"], []).append((pi + 1, oi + 1, p, o))
    for v, toks in accs.items():
        # TLC prints [name |-> {..}] for identifier-like names and ("name" :> {..} @@ ..) otherwise
        at = re.search(r'(?:"%s" :> |\b%s \|-> )\{' % (re.escape(v), re.escape(v)), body)
        present = set(re.findall(r"<<(\d+), (\d+)>>", balanced(body, at.end() - 1))) if at else None
        lost = [t for t in toks if present is None or (str(t[0]), str(t[1])) not in present]
        if lost and present is not None:
            p, o = lost[0][2], lost[0][3]
            name = short_method(p["name"]) if v.startswith("local:") else v
            keys["lost-item:%s" % name] = dict(var=v, site="%s line %s" % (o.get("fn"), o.get("line")))
    if not keys:
        keys["lost-item:%s" % scn] = dict()
    return keys


PROP_OF = {"NoDeadlock": "deadlock", "NoBadUnlock": "deadlock", "NoRace": "race", "ExactlyOnce": "once"}


def model_check(ctx, scns):
    """run TLC on every scenario; returns (verdict table, predicted keys -> detail, inconclusive notes).
    First pass: all invariants at once (a scenario without counterexample needs one run); a counterexample names one
    invariant, the remaining ones are then checked one by one."""
    table, predicted, inconclusive = {}, {}, []

    def run(job):
        name, procs, prop = job
        mod = "MCLocks_" + re.sub(r"[^A-Za-z0-9]", "_", name)
        text = "---- MODULE %s ----\nEXTENDS Locks\n\\* generated from the lock programs extracted from %s\n\\* processes: %s\nProgDef ==\n%s\n====\n" % (
            mod, common.REPO, ", ".join(p["name"] for p in procs), tla_prog(procs))
        return job, ctx.tlc(mod, "Locks_" + prop, workers=1, timeout=900, files={mod + ".tla": text})

    def record(job, r):
        name, procs, prop = job
        row = table[name]
        row["states"] = max(row["states"], r["distinct"])
        if not r["violation"]:
            for p in (("deadlock", "race", "once") if prop == "all" else (prop,)):
                row.setdefault(p, "holds")
            return None
        m = re.search(r"Invariant (\w+) is violated", r["out"])
        pcs = final_pc(r["out"])
        if not m or m.group(1) not in PROP_OF or pcs is None or len(pcs) != len(procs):
            raise Inconclusive("cannot read the TLC counterexample of %s/%s: %s" % (name, prop, r["outpath"]))
        inv, vp = m.group(1), PROP_OF[m.group(1)]
        if inv == "NoBadUnlock":
            keys = {"bad-unlock:%s" % name: dict(pcs=pcs)}
        elif vp == "deadlock":
            keys = predict_deadlock(name, procs, pcs)
        elif vp == "race":
            keys = predict_race(name, procs, pcs)
        else:
            keys = predict_once(name, procs, r["out"])
        row[vp] = "VIOLATED -> predicts " + ", ".join(sorted(keys))
        trace = [[int(x) for x in t.split(",")] for t in re.findall(r"/\\ pc = <<([0-9, ]*)>>", r["out"])]
        for k, d in keys.items():
            predicted.setdefault(k, dict(d, scenario=name, property=inv, schedule_pc=trace[:40]))
        return vp

    first = []
    for name, procs in scns:
        unknown = sorted(set(u for p in procs for u in p["unknown"]))
        if unknown:
            table[name] = dict(verdict="inconclusive", unknown=unknown)
            inconclusive.append("%s: %s" % (name, "; ".join(unknown)))
            continue
        table[name] = dict(processes=[p["name"] for p in procs], states=0)
        first.append((name, procs, "all"))
    with ThreadPoolExecutor(max_workers=6) as ex:
        second = []
        for job, r in list(ex.map(run, first)):
            vp = record(job, r)
            if vp:
                second += [(job[0], job[1], p) for p in ("deadlock", "race", "once") if p != vp]
        for job, r in list(ex.map(run, second)):
            record(job, r)
    return table, predicted, inconclusive


# ------------------------------------------------------------------------------------------------ observations
def parse_races(stderr):
    """-> list of dict(scenario, a=(fn, file, line), b=(...)) from the race detector's reports"""
    res, scn = [], None
    repo = common.REPO.rstrip("/") + "/"
    blocks = re.split(r"={18}\n", stderr)
    for blk in blocks:
        for m in re.finditer(r"C20-SCENARIO (\S+) begin", blk):
            scn = m.group(1)
        if "WARNING: DATA RACE" not in blk:
            continue
        accs = []
        for sec in re.split(r"\n\s*\n", blk):
            lines = sec.strip("\n").split("\n")
            while lines and not re.match(r"^(Read|Write|Previous read|Previous write|Atomic \w+|Previous atomic \w+) at ", lines[0]):
                lines = lines[1:]
            if not lines:
                continue
            frames = []
            for i in range(1, len(lines) - 1, 2):
                fn = lines[i].strip()
                loc = re.match(r"\s*(\S+):(\d+)", lines[i + 1])
                if loc:
                    frames.append((re.sub(r"\(\)$", "", fn), loc.group(1), int(loc.group(2))))
            inrepo = [f for f in frames if f[1].startswith(repo)]
            kind = "W" if "rite" in lines[0].split(" at ")[0] else "R"
            accs.append(dict(kind=kind, frame=inrepo[0] if inrepo else None, frames=inrepo[:6], top=frames[0] if frames else None))
        if len(accs) >= 2:
            res.append(dict(scenario=scn, a=accs[0], b=accs[1]))
    return res


def short_fn(fn):
    fn = fn.rsplit("/", 1)[-1]
    fn = fn.split(".", 1)[1] if "." in fn else fn
    return fn.replace("(*", "").replace(")", "")


def op_index(ext):
    """(file, line) -> [(program, op)] for the access operations of every extracted program"""
    idx = {}
    for name, p in ext["programs"].items():
        for o in p["ops"]:
            if access_kind(o["op"]) != "N":
                idx.setdefault((p["file"], o.get("line")), []).append((p, o))
                idx.setdefault(("fn", o.get("fn")), []).append((o.get("line") or 0, p, o))
    return idx


def race_event_key(ev, idx, predicted):
    repo = common.REPO.rstrip("/") + "/"
    fa, fb = ev["a"]["frame"], ev["b"]["frame"]
    if fa is None and fb is None:
        return None
    cands = []
    for side in (ev["a"], ev["b"]):
        for f in side["frames"]:   # innermost first: the first frame that is a site of an extracted program names the access
            hit = idx.get((f[1][len(repo):], f[2]), [])
            if not hit:   # no site on that very line: the nearest site of the same function
                fn = re.sub(r"(\.func\d+)+$", "", short_fn(f[0]))
                near = sorted(idx.get(("fn", fn), []), key=lambda t: abs(t[0] - f[2]))
                hit = [(p, o) for ln, p, o in near if ln == near[0][0]]
            cands += [race_key(p, o) for p, o in hit if race_key(p, o) in predicted]
            if hit:
                break
    if cands:
        return sorted(cands)[0]
    names = sorted(set(short_fn(f[0]) for f in (fa, fb) if f))
    return "unmodelled:race:" + "|".join(names)


WAIT_STATES = {"chan receive": "chan-receive", "select": "select", "sync.Cond.Wait": "cond-wait"}


def blocked_keys(scn, dl, ext):
    """site keys of an observed deadlock from the blocked goroutines' stacks (frames innermost first)"""
    keys = {}
    P = ext["programs"]
    for b in dl["blocked"]:
        fr = b["frames"]
        inner = fr[0]
        typ = inner["fn"].split(".")[0]
        # contiguous run of frames of the same receiver type
        run = []
        for f in fr:
            if f["fn"].split(".")[0] != typ:
                break
            run.append(f)
        if b["state"] == "chan send":
            keys["deadlock:%s:send-under-lock" % inner["fn"]] = dict(stack=fr)
            continue
        wait = next((w for w in WAIT_STATES if b["state"].startswith(w)), None)
        if wait:
            # stuck in a channel receive / select / condition wait with a method of an anchored type innermost
            keys["deadlock:%s:%s" % (re.sub(r"(\.func\d+)+$", "", inner["fn"]), WAIT_STATES[wait])] = dict(stack=fr, count=b["count"])
            continue
        if len(run) < 2:
            continue
        outer = run[-1]
        # does the outer function hold the mutex when it reaches the blocked lock site?  ask the extracted program
        prog = P.get(outer["fn"])
        holding = None
        if prog:
            for i, o in enumerate(prog["ops"]):
                if o["op"] in ("Lock", "RLock") and o.get("line") == inner["line"] and o.get("fn") == inner["fn"]:
                    holding = o["obj"] in held_before(prog["ops"], i)
                    break
        if holding is False:
            continue
        kind = "nested-RLock" if "RLock" in b["state"] else "relock"
        keys["deadlock:%s:%s" % (outer["fn"], kind)] = dict(stack=fr, count=b["count"], confirmed_by_extracted_program=bool(holding))
    if not keys:
        fns = sorted(set(b["frames"][0]["fn"] for b in dl["blocked"])) or ["no-repo-frame"]
        keys["deadlock:%s:%s" % (scn, "+".join(fns)[:120])] = dict(blocked=dl["blocked"][:6])
    return keys


def driver_crash(stderr):
    """The stress driver was killed by a panic / fatal error on a goroutine that the code under test started (the driver can
    only recover its own goroutines).  When the first frame of the crashing goroutine that is not the Go runtime lies in a
    source file of lisk-engine, that is behaviour of the real code: -> (scenario, key, message, site), else None.  (Closures
    of inlined functions carry the CALLER's name, e.g. main.scnServe.(*Syncer).Handle...func3.1: the file decides.)"""
    m = re.search(r"^(panic: [^\n]*|fatal error: [^\n]*)", stderr, re.M)
    if not m:
        return None
    scn = (re.findall(r"C20-SCENARIO (\S+) begin", stderr[:m.start()]) or ["?"])[-1]
    g = re.search(r"goroutine \d+[^\n]*\[running\]:\n((?:.+\n?)+)", stderr[m.end():])
    if not g:
        return None
    lines = g.group(1).split("\n")
    repo = os.path.realpath(common.REPO).rstrip("/") + "/"
    for i in range(len(lines) - 1):
        loc = re.match(r"\t(\S+):(\d+)", lines[i + 1])
        if lines[i].startswith("\t") or not loc or lines[i].startswith(("runtime.", "panic(", "created by ")):
            continue
        path = os.path.realpath(loc.group(1))
        if "/harness/" in path or not path.startswith(repo):
            return None    # the crash is the driver's own
        fn = lines[i].rsplit("(", 1)[0] if lines[i].endswith(")") else lines[i]
        fn = fn.rsplit("/", 1)[-1]                                   # sync.(*Syncer).X  |  main.scnServe.(*Syncer).X.func3.1
        fn = re.sub(r"^main\.\w+\.", "", fn)
        fn = re.sub(r"^\w+\.(?=\(|[A-Za-z])", "", fn, count=1) if not fn.startswith("(") else fn
        fn = re.sub(r"(\.func\d+|\.\d+|\.gowrap\d+)+$", "", fn)
        key = "crash:%s.%s" % (os.path.dirname(path[len(repo):]), fn)
        return scn, key, m.group(1), "%s:%s" % (path[len(repo):], loc.group(2))
    return None


def stress(ctx, binp, scns, secs, race, seed, tag):
    of = ctx.path("c20_%s.json" % tag)
    if os.path.exists(of):
        os.remove(of)
    env = {"VERIF_SEED": str(seed), "VERIF_C20_SIZES": ",".join(str(n) for n in BULK_SIZES.get(ctx.tier, BULK_SIZES["quick"]))}
    if race:
        env["GORACE"] = "exitcode=0"
    budget = len(scns) * (secs + 25) + 120   # generous: every race report costs the -race build a noticeable fraction of a second
    p = ctx.run(["timeout", str(int(budget)), binp, of, ",".join(scns), str(secs), "3"], env=env, timeout=budget + 30)
    if not os.path.exists(of):
        races = parse_races(p.stderr) if race else []
        crash = driver_crash(p.stderr)
        if crash:
            log("[c20] %s: the driver was killed inside lisk-engine: %s at %s (scenario %s)" % (tag, crash[2], crash[3], crash[0]))
            return [], races, crash
        if races:
            # the driver did not finish (killed by the time limit or by the runtime), but what the race detector reported until
            # then are observations on the real code
            log("[c20] %s: driver did not finish (rc=%d); %d race reports parsed from its output" % (tag, p.returncode, len(races)))
            return [], races, None
        raise Inconclusive("stress driver (%s) died (rc=%d): %s" % (tag, p.returncode, p.stderr[-1500:]))
    # set-up errors of single scenarios are returned, not raised: what was OBSERVED on the real code in the same run (failures,
    # deadlocks, panics, race reports) is evaluated first and wins over "too short" / "set-up failed"
    return json.load(open(of)), (parse_races(p.stderr) if race else []), None


# ------------------------------------------------------------------------------------------------ driver
def run(ctx):
    scn_names = list(SCENARIOS)
    quick = ctx.tier == "quick"
    secs, rsecs, rounds = (2, 2, 1) if quick else (10, 8, 2)
    if ctx.replay:
        d = json.load(open(ctx.replay))["replay"]
        scn_names = [d["scenario"]] if d.get("scenario") in SCENARIOS else scn_names
        secs = rsecs = d.get("seconds", secs)
        ctx.seed = d.get("seed", ctx.seed)

    ext = extract(ctx)
    log("[c20] extracted %d lock programs from %s" % (len(ext["programs"]), common.REPO))
    for name in sorted(ext["programs"]):
        log("  %-44s %s" % (name, one_line(ext["programs"][name])[:400]))
    scns, missing = scenarios(ext, ctx.tier)
    table, predicted, inconclusive = model_check(ctx, scns)
    for name, _ in scns:
        row = table[name]
        log("[c20] TLC %-34s %s" % (name, "INCONCLUSIVE (extraction: %s)" % "; ".join(row["unknown"]) if "unknown" in row else
                                     "states=%d NoDeadlock:%s NoRace:%s ExactlyOnce:%s" % (row["states"], row.get("deadlock"), row.get("race"), row.get("once"))))
    if not ctx.replay and ctx.tier != "quick":
        control(ctx)

    bin_n = ctx.go_build("./cmd/c20")
    bin_r = ctx.go_build("./cmd/c20", race=True)
    idx = op_index(ext)
    observed = {}   # key -> dict(what, replay)
    totals = dict(ops=0, bulk_calls=0, bulk_items=0, races_parsed=0, deadlocks=0, scenario_runs=0)
    samples, notes, setup_errors = [], {}, []

    def observe(key, what, replay):
        if key not in predicted and not key.startswith("unmodelled:"):
            key = "unmodelled:" + key
        observed.setdefault(key, (what, replay))

    for rnd in range(rounds):
        seed = ctx.seed + 100 * rnd
        for race, binp, s in ((False, bin_n, secs), (True, bin_r, rsecs)):
            tag = "%s%d" % ("race" if race else "normal", rnd)
            res, races, crash = stress(ctx, binp, scn_names, s, race, seed, tag)
            if crash:
                observe(crash[1], "scenario %s (%s build): %s at %s: the code under test kills the process (a goroutine it started itself)" % (
                    crash[0], "race" if race else "normal", crash[2], crash[3]), dict(scenario=crash[0], seed=seed, seconds=s, build="race" if race else "normal"))
            for sc in res:
                if sc.get("harness_error"):
                    setup_errors.append("%s (%s build): %s" % (sc["name"], "race" if race else "normal", sc["harness_error"]))
                totals["scenario_runs"] += 1
                totals["ops"] += sum(sc["ops"].values())
                for k, v in sc["counts"].items():
                    if k.startswith("bulk_calls:"):
                        totals["bulk_calls"] += v
                    elif k.startswith("bulk_items:"):
                        totals["bulk_items"] += v
                    elif not k.startswith("fail:"):
                        notes["%s.%s" % (sc["name"], k)] = notes.get("%s.%s" % (sc["name"], k), 0) + v
                replay = dict(scenario=sc["name"], seed=seed, seconds=s, build="race" if race else "normal")
                if sc["deadlock"]:
                    totals["deadlocks"] += 1
                    dl = sc["deadlock"]
                    for k, d in blocked_keys(sc["name"], dl, ext).items():
                        st = d.get("stack") or []
                        observe(k, "scenario %s (%s build): %s goroutines stopped making progress %d ms after the start (%s); blocked at %s" % (
                            sc["name"], replay["build"], len(dl["stalled"]), dl["after_ms"], dl["kind"],
                            " <- ".join("%s (%s:%d)" % (f["fn"], f["file"], f["line"]) for f in st[:4]) or "see replay"),
                            dict(replay, blocked=dl["blocked"][:8]))
                for f in sc["failures"]:
                    observe(f["key"], "scenario %s (%s build): %s [%d occurrences]" % (sc["name"], replay["build"], f["what"], sc["counts"].get("fail:" + f["key"], 1)), replay)
                for pn in sc["panics"]:
                    m = re.search(r"\n(\S+) \(", pn)
                    observe("panic:%s:%s" % (sc["name"], m.group(1) if m else "unlocated"), "scenario %s: goroutine panicked: %s" % (sc["name"], pn[:300]), replay)
                if len(samples) < 6 and not race:
                    samples.append(dict(scenario=sc["name"], ops=sc["ops"], deadlock=bool(sc["deadlock"]), failures=[f["key"] for f in sc["failures"]][:4]))
            totals["races_parsed"] += len(races)
            for ev in races:
                k = race_event_key(ev, idx, predicted)
                if k is None:
                    raise Inconclusive("the race detector reports a race inside the harness itself: %s / %s" % (ev["a"]["top"], ev["b"]["top"]))
                fa, fb = ev["a"]["frame"] or ev["a"]["top"], ev["b"]["frame"] or ev["b"]["top"]
                observe(k, "scenario %s (-race build): data race between %s (%s:%d) and %s (%s:%d)" % (
                    ev["scenario"], short_fn(fa[0]), os.path.relpath(fa[1], common.REPO), fa[2], short_fn(fb[0]), os.path.relpath(fb[1], common.REPO), fb[2]),
                    dict(scenario=ev["scenario"], seed=seed, seconds=s, build="race"))
            log("[c20] %s: %s" % (tag, ", ".join("%s ops=%d%s%s" % (sc["name"], sum(sc["ops"].values()), " DEADLOCK" if sc["deadlock"] else "",
                                                              " failures=%s" % sorted(set(f["key"] for f in sc["failures"])) if sc["failures"] else "") for sc in res)
                                      + (" races=%d" % len(races) if race else "")))

    if os.environ.get("VERIF_EXPERIMENTAL") == "1" and not ctx.replay:
        experimental(ctx, bin_n, secs, observe, notes)

    not_reproduced = sorted(k for k in predicted if k not in observed)
    for k in ([] if ctx.replay else not_reproduced):
        log("INCONCLUSIVE-NOTE property=C20: TLC predicts %s (scenario %s, %s) but the stress driver did not reproduce it on the real code within the budget - no verdict"
            % (k, predicted[k]["scenario"], predicted[k]["property"]))
    for k in sorted(observed):
        what, replay = observed[k]
        if k in predicted:
            what += " | predicted by TLC on the extracted model (scenario %s, %s; %s)" % (
                predicted[k]["scenario"], predicted[k]["property"], json.dumps({x: y for x, y in predicted[k].items() if x in ("outer", "blocked_at", "var", "a", "b", "site", "mutex")}))
            replay = dict(replay, predicted=predicted[k])
        ctx.violation(k, what, replay)
    if inconclusive or missing:
        msg = "extraction incomplete: " + "; ".join(inconclusive + ["missing " + m for m in missing])
        # A refactoring that moves a fan-out into a shared helper or renames a method leaves some lock programs without a
        # source: those methods are then judged by the stress driver alone (it ran them: every scenario has its op floors).
        # Only when a large part of the targets is gone is there nothing left of the model-side part - no verdict then.
        if not ctx.violations and len(inconclusive) + len(missing) > 12:
            raise Inconclusive(msg)
        log("INCONCLUSIVE-NOTE property=C20: " + msg + " - these methods were judged by the stress driver only")
        notes["lock_programs_not_extracted"] = len(inconclusive) + len(missing)
    if not ctx.violations:
        # only now: nothing was observed, so a scenario that could not be set up or did not do its work makes the run inconclusive
        if setup_errors:
            raise Inconclusive("stress driver set-up error in " + "; ".join(setup_errors[:4]))
        if totals["ops"] < 1000 or totals["bulk_calls"] < 100 and not ctx.replay:
            raise Inconclusive("stress driver performed too few operations: vacuous (%s)" % totals)
        short = ["%s.%s=%d (< %d)" % (sc, c, notes.get("%s.%s" % (sc, c), 0), m) for (sc, c), m in sorted(GUARDS.items())
                 if sc in scn_names and notes.get("%s.%s" % (sc, c), 0) < m]
        short += ["bulk.bulk_size:%d never requested" % n for n in BULK_SIZES.get(ctx.tier, BULK_SIZES["quick"])
                  if "bulk" in scn_names and not notes.get("bulk.bulk_size:%d" % n)]
        if short:
            raise Inconclusive("a sub-scenario never happened in this run (vacuous): " + "; ".join(short[:8]))
    elif setup_errors:
        log("INCONCLUSIVE-NOTE property=C20: set-up errors next to the observed violations: " + "; ".join(setup_errors[:4]))
    cov = dict(traces_validated_against_impl=totals["scenario_runs"], samples=samples, operations_performed=totals["ops"],
               bulk_lookup_calls=totals["bulk_calls"], bulk_lookup_items_checked=totals["bulk_items"], races_parsed=totals["races_parsed"],
               deadlocks_observed=totals["deadlocks"], extracted_programs=len(ext["programs"]),
               scenarios=scn_names, bulk_sizes=BULK_SIZES.get(ctx.tier, BULK_SIZES["quick"]),
               guards={"%s.%s" % k: dict(minimum=m, seen=notes.get("%s.%s" % k, 0)) for k, m in sorted(GUARDS.items()) if k[0] in scn_names},
               tlc_scenarios=table, predicted=sorted(predicted), predicted_not_reproduced=not_reproduced, observations=notes,
               extraction_unknown={n: p["unknown"] for n, p in ext["programs"].items() if p["unknown"]}, exhaustive=True,
               rule="TLC explores every interleaving of the extracted lock programs of each scenario (3 invariants each); the stress driver runs "
                    "every scenario on the real objects in a normal and a -race build under a 3 s progress watchdog")
    finish(ctx, LEVEL, cov, assumptions=[
        "lock programs are linearised (all statements in source order, deferred calls last); data-dependent branches are not modelled",
        "collaborators without a body in the package (pebble db.DB, DatabaseReader, logger, p2p.Connection) are opaque and assumed thread-safe",
        "the Go memory model is not specified in TLA+: NoRace is the lockset discipline; the race detector is the implementation-side observer",
        "event emitter: subscribers are live (a goroutine drains every subscribed channel until it is closed), as the statement says",
        "GetLastBlockHeader overlapping a block removal may return 'data was not found' (two separate database reads); counted in observations, not a violation",
        "blockSyncer.Sync's collector (a local slice) is observable on the real code only through the race detector (scenario sync: a fresh node "
        "synchronising with two connected in-process peers); a lost NodeInfo cannot be observed from outside and stays under predicted_not_reproduced",
        "3 validators round robin, toy application, writer cycle add,add,add,remove,remove; 8 readers",
        "the -evict and serve scenarios use a chain forged by one validator of three (nothing is finalized, so a burst can remove as many blocks as "
        "the cache holds minus one); removing MORE than the cache holds (Chain.PrepareCache under readers) and getBlocksFromId for a tip that is "
        "being removed are red on the unchanged tree and run only with VERIF_EXPERIMENTAL=1 (keys tip:missing-during-cache-reload:*, "
        "unbounded-allocation:getBlocksFromId:removed-tip)",
        "freshness of a tip, retrievability of the tip by id, exactly-once delivery of events, release of subscribers by Close, iteration order of a "
        "view, Size() and Cleanup effects of the certificate pool are reported as observations (note_*), not judged: the statement is silent about them",
        "a second copy of a commit in the pool is judged only when the pool keeps one copy per block and validator in sequential use (probed at run time)"])


def experimental(ctx, binp, secs, observe, notes):
    """VERIF_EXPERIMENTAL=1: sub-checks that are red on the unchanged tree.  The -evict scenarios switch themselves (the
    driver reads the variable); here: getBlocksFromId for the id of the tip while the tip is being removed.  The handler
    reads the tip a second time after it has found the requested block; when the block was removed in between,
    GetBlocksBetweenHeight(h+1, h-1) allocates make([]*Block, uint32(to-from+1)) = 4 294 967 295 pointers (32 GiB).  The
    process therefore runs with a limited address space and dies inside lisk-engine instead of taking the memory."""
    import shutil
    if not shutil.which("prlimit"):
        log("INCONCLUSIVE-NOTE property=C20: experimental scenario serve-volatile skipped (prlimit not available)")
        return
    of = ctx.path("c20_volatile.json")
    if os.path.exists(of):
        os.remove(of)
    p = ctx.run(["timeout", str(int(secs + 60)), "prlimit", "--as=6000000000", binp, of, "serve-volatile", str(secs), "3"], timeout=secs + 90)
    err = p.stderr or ""
    replay = dict(scenario="serve-volatile", seed=ctx.seed, seconds=secs, build="normal", address_space_limit=6000000000)
    if not os.path.exists(of):
        m = re.search(r"(fatal error: [^\n]*|panic: [^\n]*)", err)
        if m and "GetBlocksBetweenHeight" in err and re.search(r"out of memory|makeslice|cannot allocate", err):
            size = re.search(r"cannot allocate (\d+)-byte block", err)
            observe("unbounded-allocation:getBlocksFromId:removed-tip",
                    "scenario serve-volatile: getBlocksFromId(id of the tip) while the writer removes the tip: DataAccess.GetBlocksBetweenHeight is called with "
                    "from > to + 1 and allocates %s bytes (%s); with an address space of 6 GB the process dies inside lisk-engine" % (size.group(1) if size else "?", m.group(1)), replay)
            ctx.real_panic = None
        else:
            log("INCONCLUSIVE-NOTE property=C20: experimental scenario serve-volatile died without a readable reason: %s" % err[-300:])
        return
    for sc in json.load(open(of)):
        for k, v in sc["counts"].items():
            if not k.startswith("fail:"):
                notes["%s.%s" % (sc["name"], k)] = notes.get("%s.%s" % (sc["name"], k), 0) + v
        for f in sc["failures"]:
            observe(f["key"], "scenario %s: %s" % (sc["name"], f["what"]), replay)


def control(ctx):
    """non-vacuity of the interpreter: the control programs of Locks.tla must behave as documented"""
    expect = {("P1", "deadlock"): True, ("P2", "deadlock"): False, ("P2", "race"): False, ("P3", "race"): True, ("P3", "once"): True, ("P4", "once"): False,
              ("P5", "deadlock"): False, ("P5", "race"): False, ("P6", "race"): True, ("P6", "deadlock"): False, ("P7", "deadlock"): True}
    for (pn, prop), viol in expect.items():
        cfg = ctx.path("Locks_control_%s_%s.cfg" % (pn, prop))
        open(cfg, "w").write(open(os.path.join(common.SPEC, "cfg", "Locks_%s.cfg" % prop)).read().replace("ProgDef", pn))
        r = ctx.tlc("Locks", cfg, workers=1, timeout=120)
        ctx.states -= r["distinct"]; ctx.transitions -= r["generated"]
        if r["violation"] != viol:
            raise Inconclusive("Locks.tla control %s/%s: expected %s" % (pn, prop, "a counterexample" if viol else "no counterexample"))
