"""C11 regular Merkle tree.  RMT.tla: the incremental append rule is checked by TLC against the declarative
LIP-0031 root / append path for every size 0..MaxN; the expected root and append-path TERMS of every size, every
non-empty leaf subset of every list up to 7 leaves, the deterministic subset SHAPES of the longer lists, the leaf-value
families (repeated / empty / 32-byte / long values), the tamper table and - mode "hist" - histories of one tree object
(Append / Update of a leaf set / Reload, simulated by TLC with HRootIsBatch and HPathIsDecl checked in every state) are
exported, and the harness compares Append / CalculateRoot / reload / GenerateProof+VerifyProof /
CalculateRootFromUpdateData / Update / right witnesses / CalculateRootFromAppendPath / Block.Validate of the real code
with the folded terms after every operation.

VERIF_EXPERIMENTAL=1 switches on the sub-checks that are red on the unchanged tree (see GATED)."""
import json, os, time
from concurrent.futures import ThreadPoolExecutor
import common
from common import Inconclusive, finish, log
from props import c01

LEVEL = "model_checking"

# sub-checks behind VERIF_EXPERIMENTAL=1 (genuine-defect candidates on the unchanged tree, waiting for triage)
GATED = ["append-after-update", "append-path-after-update", "witness-after-update:position-0", "append-after-update:repeated-values",
         "reload:size-1", "aliasing:append-path-input", "aliasing:witness-input", "aliasing:proof-input"]

# what a run must have exercised (harness counters `cov`); a run in which one of them never happened is vacuous
NEED = ["prove-append-prove", "prove-update-prove", "prove-reload-prove", "update-after-update", "hist:update-after-update",
        "proof-after-update:other-leaves", "witness-after-update", "hist:witness-after-update", "witness-after-append",
        "hist:reload-after-update", "hist:list-with-repeated-values", "hist:list-with-empty-value", "hist:list-with-32-byte-or-long-value",
        "family:repeated", "family:empty+h32", "family:all-equal-long", "batch-root:second-call", "kept-root", "reload-witness",
        "proof-on-reloaded-tree", "block-roots",
        "tamper:witness:forge-witness", "tamper:witness:forge-path", "tamper:witness:drop-witness", "tamper:witness:other-root",
        "tamper:witness:nil-root", "tamper:witness:empty-root", "tamper:witness:short-root",
        "tamper:proof:forge-query", "tamper:proof:forge-sibling", "tamper:proof:drop-sibling", "tamper:proof:other-root",
        "tamper:proof:nil-root", "tamper:proof:empty-root", "tamper:proof:short-root"]


def tlc_rows(ctx, name, cfg, **kw):
    r = ctx.tlc("RMT", cfg, workers=1, timeout=1800, java_opts="-Xss512m", **kw)
    if r["violation"]:
        raise Inconclusive("RMT.tla invariant fails at spec level (%s): %s" % (name, r["outpath"]))
    rows, seen = [], set()
    for t in ctx.dumps(r["out"]):
        k = json.dumps(t, sort_keys=True)
        if k not in seen:
            seen.add(k); rows.append(t)
    return rows


def run(ctx):
    quick = ctx.tier == "quick"
    maxn = 40 if quick else 140
    # the random part (TLC simulation, sampled subsets, probes) follows VERIF_SEED when it is given and varies per run otherwise
    sample_seed = ctx.seed if os.environ.get("VERIF_SEED") else int(time.time()) % 1000003 + 1
    replay_hist = None
    if getattr(ctx, "replay", None):
        try:
            d = json.load(open(ctx.replay)).get("replay")
            while isinstance(d, dict) and "case" in d:
                d = d["case"]
            if isinstance(d, dict) and d.get("hist"):
                replay_hist = d["hist"]
        except Exception as e:
            raise Inconclusive("cannot read the replay file: %s" % e)
    modes = [("both", dict(MaxN=maxn, BigN=1100 if quick else 4200, MaxSub=7 if quick else 9, ShapeMax=maxn, ShapeBig=129 if quick else 1025), {}),
             ("hist", dict(HMaxN=maxn, HDepth=10 if quick else 16),
              dict(simulate=60 if quick else 1500, depth=12 if quick else 18, seed=sample_seed))]
    if replay_hist is not None:
        modes = modes[:1]
    cfgs = [(m, c01.write_cfg(ctx, "rmt_" + m, c01.cfg_text("RMT_" + m, **kw)), tk) for m, kw, tk in modes]
    with ThreadPoolExecutor(max_workers=4) as ex:
        futs = [ex.submit(tlc_rows, ctx, m, cfg, **tk) for m, cfg, tk in cfgs]
        build = ex.submit(ctx.go_build, "./cmd/c11")
        if not quick and replay_hist is None:
            # control: the implementation shape "Update keeps the old append path" must violate the invariants of the design
            ctl = ex.submit(ctx.tlc, "RMT", c01.write_cfg(ctx, "rmt_hist_ctl", c01.cfg_text("RMT_hist", RefreshPath="FALSE")),
                            workers=1, timeout=900, java_opts="-Xss512m", simulate=200, depth=12, seed=sample_seed, check=False)
        binp = build.result()
        per_mode = [f.result() for f in futs]
        if not quick and replay_hist is None:
            c = ctl.result()
            if not c["violation"]:
                raise Inconclusive("control configuration (Update keeps the old append path) does not violate HPathIsDecl: the history model is vacuous")
    rows = ctx.path("rows.ndjson")
    with open(rows, "w") as fh:
        for lst in per_mode:
            for t in lst:
                fh.write(json.dumps(t) + "\n")
        if replay_hist is not None:
            fh.write(json.dumps(dict(hist=replay_hist)) + "\n")
    nhist = len(per_mode[1]) if len(per_mode) > 1 else 0
    of = ctx.path("c11.json")
    env = {"C11_EXTRA": "300" if quick else "6000", "C11_SAMPLE_SEED": str(sample_seed)}
    if replay_hist is not None:
        env["C11_ONLY"] = "hist"
    p = ctx.run([binp, rows, of], env=env, timeout=3000)
    if p.returncode != 0 or not os.path.exists(of):
        raise Inconclusive("c11 harness failed: " + p.stderr[-1500:])
    res = json.load(open(of))
    for v in res.get("violations") or []:
        ctx.violation(v["key"], v["what"], v.get("replay"))
    if res.get("harness_errors") and not ctx.violations:
        raise Inconclusive("c11 harness error: %s" % res["harness_errors"][:2])
    cov, gated = res.get("cov") or {}, res.get("gated") or {}
    log("[c11] sizes=%d subsets=%d (shapes %d) histories=%d (%d steps) evaluations=%d witness positions=%d tampered rejected=%d sample seed=%d" % (
        res["sizes"], res["subsets"], res["shapes"], res["histories"], res["history_steps"], res["evaluations"],
        res["witness_positions"], res["tampered_rejected"], sample_seed))
    if gated:
        log("[c11] sub-checks behind VERIF_EXPERIMENTAL=1 (skipped %s)" % ", ".join("%s x%d" % kv for kv in sorted(gated.items())))
    unknown = [k for k in gated if k not in GATED]
    if unknown:
        raise Inconclusive("the harness gates sub-checks the driver does not know: %s" % unknown)
    if replay_hist is not None:
        finish(ctx, LEVEL, dict(traces_validated_against_impl=res["histories"], samples=[dict(hist=replay_hist[:2])], history_steps=res["history_steps"]))
    if not ctx.violations:
        if res["sizes"] < maxn + 20 or res["subsets"] < 100 or res["shapes"] < 100 or res["histories"] < min(50, nhist) or nhist < 50:
            raise Inconclusive("rows missing: vacuous (sizes %d, subsets %d, shapes %d, histories %d of %d)" % (
                res["sizes"], res["subsets"], res["shapes"], res["histories"], nhist))
        missing = [k for k in NEED if not cov.get(k)]
        if os.environ.get("VERIF_EXPERIMENTAL") == "1":
            missing += [k for k in ("hist:append-after-update", "append-after-update", "hist:append-after-update-with-repeated-values") if not cov.get(k)]
        else:
            missing += [k for k in GATED if not gated.get(k)]   # the scenario of every gated sub-check was reached (and skipped)
        if missing:
            raise Inconclusive("scenarios that never happened in this run: %s: vacuous" % missing)
    covd = dict(traces_validated_against_impl=res["sizes"] + res["subsets"] + res["histories"],
                samples=[dict(n=5, subset=[3, 5], what="append 5 leaves, prove {3,5}, verify, tamper, update through the proof, reload, prove other leaves, witnesses, second update"),
                         dict(hist="I [11,12,13] / U {1} fresh / R / A / U {2,4} / A", what="one tree object; after every operation root, size, append path, batch root, witnesses, proofs of the same leaves")],
                list_lengths=res["sizes"], leaf_subsets=res["subsets"], subset_shapes=res["shapes"], histories=res["histories"],
                history_steps=res["history_steps"], evaluations=res["evaluations"],
                witness_positions=res["witness_positions"], tampered_rejected=res["tampered_rejected"], exhaustive=True,
                scenario_counts=cov, gated_subchecks_skipped=gated, sample_seed=sample_seed,
                rule="sizes 0..%d exhaustively (incremental = batch = declarative root checked by TLC and on the real tree, 4 leaf-value families); all non-empty leaf subsets of lists up to 7 leaves; deterministic subset shapes of lists 8..%d and next to 64/128; sampled subsets of larger lists; TLC-simulated histories Append/Update/Reload of one tree object" % (maxn, maxn))
    finish(ctx, LEVEL, covd, assumptions=["SHA-256 is injective on the terms that occur",
                                          "proofs are requested by leaf hash: only leaves whose value has never been at another position are queried (values repeat in the lists themselves)"])
