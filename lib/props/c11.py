"""C11 regular Merkle tree.  RMT.tla: the incremental append rule is checked by TLC against the declarative
LIP-0031 root / append path for every size 0..MaxN; the expected root and append-path TERMS of every size and
every non-empty leaf subset of every list up to 7 leaves are exported and the harness compares Append /
CalculateRoot / reload / GenerateProof+VerifyProof / CalculateRootFromUpdateData / Update / right witnesses /
CalculateRootFromAppendPath of the real code with the folded terms."""
import json, os
import common
from common import Inconclusive, finish, log
from props import c01

LEVEL = "model_checking"

def run(ctx):
    binp = ctx.go_build("./cmd/c11")
    maxn = 40 if ctx.tier == "quick" else 140
    rows = ctx.path("rows.ndjson")
    n = 0
    with open(rows, "w") as fh:
        for mode, kw in (("sizes", dict(MaxN=maxn, BigN=1100 if ctx.tier == "quick" else 4200)), ("subsets", dict(MaxSub=7 if ctx.tier == "quick" else 9))):
            cfg = c01.write_cfg(ctx, "rmt_" + mode, c01.cfg_text("RMT_" + mode, **kw))
            r = ctx.tlc("RMT", cfg, workers=1, timeout=1800, java_opts="-Xss512m")
            if r["violation"]:
                raise Inconclusive("RMT.tla invariant fails at spec level: %s" % r["outpath"])
            for t in ctx.dumps(r["out"]):
                fh.write(json.dumps(t) + "\n"); n += 1
    of = ctx.path("c11.json")
    p = ctx.run([binp, rows, of], env={"C11_EXTRA": "300" if ctx.tier == "quick" else "6000"}, timeout=3000)
    if p.returncode != 0 or not os.path.exists(of):
        raise Inconclusive("c11 harness failed: " + p.stderr[-1500:])
    res = json.load(open(of))
    for v in res.get("violations") or []:
        ctx.violation(v["key"], v["what"], v.get("replay"))
    log("[c11] sizes=%d subsets=%d evaluations=%d witness positions=%d tampered rejected=%d" % (
        res["sizes"], res["subsets"], res["evaluations"], res["witness_positions"], res["tampered_rejected"]))
    if not ctx.violations and (res["sizes"] < maxn + 20 or res["subsets"] < 100):
        raise Inconclusive("rows missing: vacuous")
    cov = dict(traces_validated_against_impl=res["sizes"] + res["subsets"],
               samples=[dict(n=5, subset=[3, 5], what="append 5 leaves, prove {3,5}, verify, tamper, update through the proof, reload")],
               list_lengths=res["sizes"], leaf_subsets=res["subsets"], evaluations=res["evaluations"],
               witness_positions=res["witness_positions"], tampered_rejected=res["tampered_rejected"], exhaustive=True,
               rule="sizes 0..%d exhaustively (incremental = batch = declarative root checked by TLC and on the real tree); all non-empty leaf subsets of lists up to 7 leaves; sampled subsets of larger lists" % maxn)
    finish(ctx, LEVEL, cov, assumptions=["SHA-256 is injective on the terms that occur", "leaf data are pairwise distinct (proofs are requested by leaf hash)"])
