"""C01 finality safety.  TLC checks Safety on the fork-tree model (spec/LiskBFTTree.tla) exhaustively
inside small constants; sampled full trees are replayed through the real liskbft.Module
(binding A) comparing the vote state of every block with the spec and asserting safety on the real
block ids / precommitted heights."""
import json, os, re
import common
from common import Inconclusive, finish, log

LEVEL = "model_checking"

def cfg_text(base, **kw):
    s = open(os.path.join(common.SPEC, "cfg", base + ".cfg")).read()
    for k, v in kw.items():
        s, n = re.subn(r"(?m)^(\s*%s\s*(=|<-)\s*).*$" % re.escape(k), lambda m: m.group(1) + str(v), s)
        if n != 1:
            raise Inconclusive("cfg key %s not found in %s" % (k, base))
    return s

def write_cfg(ctx, name, text):
    p = ctx.path(name + ".cfg")
    open(p, "w").write(text)
    return p

def run_model(ctx, name, text, harness_cfg, binp, timeout, simulate=None, depth=None, workers=16, expect_violation=False):
    cfg = write_cfg(ctx, name, text)
    r = ctx.tlc("MCLiskBFTTree", cfg, workers=workers, timeout=timeout, simulate=simulate, depth=depth,
                seed=ctx.seed if simulate else None)
    if expect_violation:
        return r
    if r["violation"]:
        # A spec-level counterexample: the design itself (as modelled) admits a double finalisation.
        # It is only a verdict if the real code reproduces it; dump it for the replayer.
        raise Inconclusive("TLC reports an invariant violation in %s; see %s (spec-level, not reproduced)" % (name, r["outpath"]))
    trees = []
    seen = set()
    for t in ctx.dumps(r["out"]):
        k = json.dumps(t, sort_keys=True)
        if k not in seen:
            seen.add(k); trees.append(t)
    tf = ctx.path(name + "_trees.ndjson")
    with open(tf, "w") as fh:
        for t in trees:
            fh.write(json.dumps(t) + "\n")
    cf = ctx.path(name + "_cfg.json"); json.dump(harness_cfg, open(cf, "w"))
    of = ctx.path(name + "_res.json")
    p = ctx.run([binp, tf, cf, of], timeout=1200)
    if p.returncode != 0 or not os.path.exists(of):
        raise Inconclusive("replayer failed: %s" % p.stderr[-2000:])
    res = json.load(open(of))
    if res.get("harness_errors"):
        raise Inconclusive("replayer set-up error: %s" % res["harness_errors"][:2])
    return r, trees, res

def run(ctx):
    from props import net as _net
    _net.maybe_replay(ctx, LEVEL)
    binp = ctx.go_build("./cmd/c01")
    if ctx.replay:
        d = json.load(open(ctx.replay))
        tf = ctx.path("replay.ndjson"); open(tf, "w").write(json.dumps(d["replay"]["tree"]) + "\n")
        cf = ctx.path("replay_cfg.json"); json.dump(d["replay"]["cfg"], open(cf, "w"))
        of = ctx.path("replay_res.json")
        ctx.run([binp, tf, cf, of])
        res = json.load(open(of))
        for v in res.get("violations") or []:
            ctx.violation(v["key"], v["what"], d["replay"])
        finish(ctx, LEVEL, dict(traces_validated_against_impl=res["distinct_paths"], samples=[d["replay"]["tree"]][:1]))
    hc221 = dict(nval=3, win=9, initW=[2, 2, 1], initPCT=4, choices=[], byz=[3])
    choices221 = [dict(pcT=3, certT=3, w=[2, 2, 0]), dict(pcT=4, certT=4, w=[3, 2, 1])]
    runs = []
    if ctx.tier == "quick":
        runs.append(("q221", cfg_text("LiskBFTTree_q", DumpEvery=400, DumpFinalEvery=20), hc221, dict(timeout=900)))
    else:
        runs.append(("t221", cfg_text("LiskBFTTree_q", MaxBlocks=10, MaxHeight=7, DumpEvery=3000, DumpFinalEvery=150), hc221, dict(timeout=3000)))   # 6.0 M states
        runs.append(("t221pc2", cfg_text("LiskBFTTree_q", InitPCT=2, MaxBlocks=9, MaxHeight=7, DumpEvery=2000, DumpFinalEvery=150),
                     dict(hc221, initPCT=2), dict(timeout=3000)))
        runs.append(("t1111", cfg_text("LiskBFTTree_q", NVal=4, Win=12, Byz="{4}", InitW="W1111", InitPCT=3, MaxBlocks=8, MaxHeight=6,
                                       DumpEvery=3000, DumpFinalEvery=150),
                     dict(nval=4, win=12, initW=[1, 1, 1, 1], initPCT=3, choices=[], byz=[4]), dict(timeout=3000)))
        runs.append(("tnoncontra", cfg_text("LiskBFTTree_q", HonestMode='"noncontra"', MaxBlocks=8, MaxHeight=6, DumpEvery=3000, DumpFinalEvery=150),
                     hc221, dict(timeout=3000)))
        runs.append(("tchg", cfg_text("LiskBFTTree_q", ParamChoices="Choices221", MaxChg=1, MaxBlocks=8, MaxHeight=6, DumpEvery=3000, DumpFinalEvery=150),
                     dict(hc221, choices=choices221), dict(timeout=3000)))
        # deeper than the exhaustive bounds, window shorter than the chain (pruning of the window is exercised)
        runs.append(("sim", cfg_text("LiskBFTTree_q", Win=9, MaxBlocks=18, MaxHeight=15, DumpEvery=4, DumpFinalEvery=1),
                     dict(hc221, win=9), dict(timeout=900, simulate=3000 if ctx.tier == "thorough" else 300, depth=20, workers=1)))
    total = dict(trees=0, distinct_paths=0, steps=0, paths_with_finality=0, pairs_checked=0)
    samples = []
    for name, text, hcfg, kw in runs:
        r, trees, res = run_model(ctx, name, text, hcfg, binp, **kw)
        for k in total:
            total[k] += res.get(k, 0)
        log("[c01] %s: trees=%d paths=%d finality=%d pairs=%d violations=%d" % (
            name, res["trees"], res["distinct_paths"], res["paths_with_finality"], res["pairs_checked"], len(res.get("violations") or [])))
        for v in res.get("violations") or []:
            ctx.violation(v["key"], v["what"], dict(tree=v.get("replay"), cfg=hcfg))
        if trees and len(samples) < 2:
            best = max(trees[:200], key=lambda t: max(b["mhpc"] for b in t))
            samples.append(dict(config=name, tree=[dict(id=b["id"], h=b["h"], mhpv=b["mhpv"], mhpc=b["mhpc"]) for b in best]))
    # conformance of the counting rules on long chains WITH parameter changes (validator joins/leaves, threshold changes,
    # sliding window): the recorded trace of the real module must be a behaviour of LiskBFT.tla, otherwise the model
    # checked above does not describe the code
    from props import c02
    b2 = ctx.go_build("./cmd/c02")
    tr = c02.validate(ctx, b2, 400 if ctx.tier == "quick" else 3000, ctx.seed * 31 + 5, "c01")
    if tr["mismatch"]:
        mm = tr["mismatch"]
        ctx.violation("spec-mismatch:trace-" + mm["kind"],
                      "the real liskbft.Module deviates from LiskBFT.tla (the model on which safety was checked) at trace line %d: %s ; observed %s" % (
                          mm["line"], str(mm["detail"])[:600], json.dumps(mm["observed"])[:600]),
                      dict(tree=None, cfg=None, seed=ctx.seed * 31 + 5, chain_prefix=mm["chain_prefix"]))
    total["trace_events"] = tr["events"]
    if ctx.tier == "thorough":
        # non-vacuity control: with Byzantine weight >= 1/3 the same model must reach a double finalisation
        r = run_model(ctx, "control", cfg_text("LiskBFTTree_control"), None, binp, timeout=900, workers=16, expect_violation=True)
        if not ctx.violations and (not r["violation"]):
            raise Inconclusive("control model (Byzantine weight >= 1/3) found no double finalisation: bounds too small, run is vacuous")
        ctx.states -= r["distinct"]; ctx.transitions -= r["generated"]
    # system level: a network of honest real nodes (spec/Net.tla; TLC checks Agreement and TreeSafety on the model):
    # the finalized prefixes of all real nodes agree on real block ids, BFT heights per node follow the model
    from props import net
    netcov = net.run_net(ctx, lambda k: k.startswith(("net:agreement", "net:heights-mismatch")), parts=("honest_sim", "byz_exh", "byz_sim", "chg_sim"))
    if not ctx.violations and (total["paths_with_finality"] == 0):
        raise Inconclusive("no replayed path reached finality: vacuous")
    cov = dict(traces_validated_against_impl=total["distinct_paths"], samples=samples,
               replayed_trees=total["trees"], replayed_steps=total["steps"],
               paths_with_finality=total["paths_with_finality"], trace_events_validated=total.get("trace_events", 0), real_pairs_checked_for_safety=total["pairs_checked"],
               exhaustive=True, **netcov,
               rule="TLC enumerates every fork tree inside the bounds of each cfg and checks Safety in every state; "
                    "sampled full trees (biased to trees with finality) are replayed block by block through the real liskbft.Module")
    finish(ctx, LEVEL, cov, assumptions=[
        "bounded: <=4 validators, <=10 blocks (16 in simulation), <=2 leaves; no unbounded proof",
        "slots abstracted: any active validator may forge at any time (adds behaviours)",
        "hash collision freeness of block ids"])
