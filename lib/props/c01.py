"""C01 finality safety.  TLC checks Safety on the fork-tree model (spec/LiskBFTTree.tla) exhaustively
inside small constants; sampled full trees are replayed through the real liskbft.Module
(binding A) comparing the vote state of every block with the spec and asserting safety on the real
block ids / precommitted heights."""
import json, os, re
import common
from common import Inconclusive, finish, log

LEVEL = "model_checking"
NET_KEYS = ("net:agreement", "net:heights-mismatch", "net:finalized-block-replaced", "net:finalized-above-precommitted",
            "net:tip-mismatch:byzinvalid", "net:finalized-mismatch:byzinvalid", "net:temp-blocks-left:byzinvalid", "net:hang:invalid", "net:panic:invalid")

def cfg_text(base, **kw):
    s = open(os.path.join(common.SPEC, "cfg", base + ".cfg")).read()
    for k, v in kw.items():
        s, n = re.subn(r"(?m)^(\s*%s\s*(=|<-)\s*).*$" % re.escape(k), lambda m: m.group(1) + str(v), s)
        if n != 1:
            raise Inconclusive("cfg key %s not found in %s" % (k, base))
    return s

def write_cfg(ctx, name, text):
    p = ctx.path(name + ".cfg")
    open(p, "w").write(text)
    return p

# ---------------------------------------------------------------------------------------------- metamorphic variants
# Heights >= 256 / 65536 / 2^24 / near 2^32 and weights of 2^32 .. 2^61 cannot be enumerated by TLC (the model compares
# small integers).  LiskBFT.tla only compares and subtracts heights and only adds and compares weights, so a tree whose
# heights are all moved up by S (genesis height S) yields the same observation moved up by S, and replaced weights yield
# the same heights and the mapped weight sums PROVIDED every threshold comparison of every validator subset is unchanged.
# That proviso and the thresholds themselves (PrevoteThreshold of LiskBFT.tla: 2 * total \div 3 + 1) are evaluated here in
# Python's unbounded integers for every parameter set of a configuration; cmd/c01 replays the TLC trees under the variants.
U64 = 1 << 64

def pvt(w):
    return 2 * sum(w) // 3 + 1

def xset(w, pcT, certT, w2, pcT2, certT2):
    """image of the parameter set (w, pcT, certT) under the replacement weights w2; None when the replacement is not
    faithful (a subset of validators would compare differently with a threshold, or the code's uint64 range is left)"""
    n, T2 = len(w), sum(w2)
    if len(w2) != n or any((a > 0) != (b > 0) for a, b in zip(w, w2)) or 2 * T2 >= U64:
        return None
    if not (T2 // 3 + 1 <= pcT2 <= T2 and T2 // 3 + 1 <= certT2 <= T2):
        return None
    m = {}
    for mask in range(1 << n):
        s = sum(w[i] for i in range(n) if mask >> i & 1)
        s2 = sum(w2[i] for i in range(n) if mask >> i & 1)
        if m.setdefault(s, s2) != s2:
            return None
        if (s >= pvt(w)) != (s2 >= pvt(w2)) or (s >= pcT) != (s2 >= pcT2):
            return None
    return dict(w=list(w2), pcT=pcT2, certT=certT2, pvT=pvt(w2), map={str(k): v for k, v in sorted(m.items())})

def wfamily(kind, arg, sets):
    """all parameter sets of a configuration under one weight replacement, or None"""
    res = []
    for (w, pcT, certT) in sets:
        if kind == "x":
            x = xset(w, pcT, certT, [arg * a for a in w], arg * pcT, arg * certT)
        else:
            # "edge": (B, B, B-1) has the subset/threshold table of (2, 2, 1) and two subsets exactly at / one below the
            # prevote threshold 2B; the precommit threshold is the image of the smallest weight sum that reaches it
            if list(w) != [2, 2, 1]:
                return None
            w2 = [arg, arg, arg - 1]
            img = {0: 0, 1: arg - 1, 2: arg, 3: 2 * arg - 1, 4: 2 * arg, 5: 3 * arg - 1}
            x = xset(w, pcT, certT, w2, img[min(max(pcT, 0), 5)], img[min(max(certT, 0), 5)])
        if x is None:
            return None
        res.append(x)
    return res

def variants(hcfg, maxh):
    """the variants of one harness configuration (hcfg: nval, initW, initPCT, choices); variants[0] is the identity"""
    sets = [(hcfg["initW"], hcfg["initPCT"], hcfg["initPCT"])] + [(c["w"], c["pcT"], c["certT"]) for c in hcfg.get("choices") or []]
    top = (1 << 32) - 3 - maxh            # the highest genesis height at which maxHeightGenerated = height + 1 still fits uint32
    plan = [("id", 0, ("x", 1)), ("h256", 253, ("x", 1)), ("h65536-w2^32", 65533, ("x", (1 << 32) + 1)), ("h2^24", (1 << 24) - 3, ("x", 1)),
            ("h2^32", top, ("x", 1)), ("w2^60", 0, ("x", 1 << 60)), ("edge2^61", 0, ("edge", 1 << 61)), ("h256-edge2^32", 253, ("edge", (1 << 32) + 5)),
            ("h2^32-w2^60", top, ("x", 1 << 60)), ("h65536-w2^32+7", 65533, ("x", (1 << 32) + 7))]
    if os.environ.get("VERIF_EXPERIMENTAL"):
        # total weight >= 2^63 (still a valid uint64 sum): not part of the default run, see the report of round 13
        plan.append(("exp-total>=2^63", 0, ("big", 1 << 62)))
    res = []
    for name, shift, (kind, arg) in plan:
        if kind == "big":
            if [s[0] for s in sets] != [[2, 2, 1]]:
                continue
            w, pcT, certT = sets[0]
            w2 = [arg, arg, arg - 1]
            img = {0: 0, 1: arg - 1, 2: arg, 3: 2 * arg - 1, 4: 2 * arg, 5: 3 * arg - 1}
            fam = [dict(w=w2, pcT=img[pcT], certT=img[certT], pvT=pvt(w2), map={str(k): v for k, v in img.items()})]
        else:
            fam = wfamily(kind, arg, sets)
        if fam is None:
            continue
        res.append(dict(name=name, shift=shift, wname="%s%d" % (kind, arg), sets=fam))
    if not res or res[0]["name"] != "id":
        raise Inconclusive("identity variant not faithful: internal error")
    return res

def run_model(ctx, name, text, harness_cfg, binp, timeout, simulate=None, depth=None, workers=16, expect_violation=False):
    cfg = write_cfg(ctx, name, text)
    r = ctx.tlc("MCLiskBFTTree", cfg, workers=workers, timeout=timeout, simulate=simulate, depth=depth,
                seed=ctx.seed if simulate else None)
    if expect_violation:
        return r
    if r["violation"]:
        # A spec-level counterexample: the design itself (as modelled) admits a double finalisation.
        # It is only a verdict if the real code reproduces it; dump it for the replayer.
        raise Inconclusive("TLC reports an invariant violation in %s; see %s (spec-level, not reproduced)" % (name, r["outpath"]))
    trees = []
    seen = set()
    for t in ctx.dumps(r["out"]):
        k = json.dumps(t, sort_keys=True)
        if k not in seen:
            seen.add(k); trees.append(t)
    tf = ctx.path(name + "_trees.ndjson")
    with open(tf, "w") as fh:
        for t in trees:
            fh.write(json.dumps(t) + "\n")
    cf = ctx.path(name + "_cfg.json"); json.dump(harness_cfg, open(cf, "w"))
    of = ctx.path(name + "_res.json")
    p = ctx.run([binp, tf, cf, of], timeout=1200)
    if p.returncode != 0 or not os.path.exists(of):
        raise Inconclusive("replayer failed: %s" % p.stderr[-2000:])
    res = json.load(open(of))
    if res.get("harness_errors"):
        raise Inconclusive("replayer set-up error: %s" % res["harness_errors"][:2])
    return r, trees, res

def run(ctx):
    from props import net as _net
    _net.maybe_replay(ctx, LEVEL)
    binp = ctx.go_build("./cmd/c01")
    if ctx.replay:
        d = json.load(open(ctx.replay))
        tf = ctx.path("replay.ndjson"); open(tf, "w").write(json.dumps(d["replay"]["tree"]) + "\n")
        cf = ctx.path("replay_cfg.json"); json.dump(d["replay"]["cfg"], open(cf, "w"))
        of = ctx.path("replay_res.json")
        ctx.run([binp, tf, cf, of])
        res = json.load(open(of))
        for v in res.get("violations") or []:
            ctx.violation(v["key"], v["what"], d["replay"])
        finish(ctx, LEVEL, dict(traces_validated_against_impl=res["distinct_paths"], samples=[d["replay"]["tree"]][:1]))
    hc221 = dict(nval=3, win=9, initW=[2, 2, 1], initPCT=4, choices=[], byz=[3])
    choices221 = [dict(pcT=3, certT=3, w=[2, 2, 0]), dict(pcT=4, certT=4, w=[3, 2, 1])]
    runs = []
    if ctx.tier == "quick":
        runs.append(("q221", cfg_text("LiskBFTTree_q", DumpEvery=400, DumpFinalEvery=20), hc221, dict(timeout=2700)))   # 70 s on an idle machine; the cap only matters under heavy load
        # one parameter change somewhere in the tree (a fork may carry different parameters at one height), exhaustively ...
        runs.append(("qchg", cfg_text("LiskBFTTree_q", ParamChoices="Choices221", MaxChg=1, MaxBlocks=6, DumpEvery=60, DumpFinalEvery=3),
                     dict(hc221, choices=choices221), dict(timeout=900, workers=4)))
        # ... and random walks deeper than the vote window (it slides; parameters and vote entries are pruned), two changes
        runs.append(("qsim", cfg_text("LiskBFTTree_q", ParamChoices="Choices221", MaxChg=2, MaxBlocks=18, MaxHeight=15, DumpEvery=4, DumpFinalEvery=1),
                     dict(hc221, choices=choices221), dict(timeout=900, simulate=300, depth=20, workers=1)))
    else:
        runs.append(("t221", cfg_text("LiskBFTTree_q", MaxBlocks=10, MaxHeight=7, DumpEvery=3000, DumpFinalEvery=150), hc221, dict(timeout=3000)))   # 6.0 M states
        runs.append(("t221pc2", cfg_text("LiskBFTTree_q", InitPCT=2, MaxBlocks=9, MaxHeight=7, DumpEvery=2000, DumpFinalEvery=150),
                     dict(hc221, initPCT=2), dict(timeout=3000)))
        runs.append(("t1111", cfg_text("LiskBFTTree_q", NVal=4, Win=12, Byz="{4}", InitW="W1111", InitPCT=3, MaxBlocks=8, MaxHeight=6,
                                       DumpEvery=3000, DumpFinalEvery=150),
                     dict(nval=4, win=12, initW=[1, 1, 1, 1], initPCT=3, choices=[], byz=[4]), dict(timeout=3000)))
        runs.append(("tnoncontra", cfg_text("LiskBFTTree_q", HonestMode='"noncontra"', MaxBlocks=8, MaxHeight=6, DumpEvery=3000, DumpFinalEvery=150),
                     hc221, dict(timeout=3000)))
        runs.append(("tchg", cfg_text("LiskBFTTree_q", ParamChoices="Choices221", MaxChg=1, MaxBlocks=8, MaxHeight=6, DumpEvery=3000, DumpFinalEvery=150),
                     dict(hc221, choices=choices221), dict(timeout=3000)))
        # deeper than the exhaustive bounds, window shorter than the chain (pruning of the window is exercised)
        runs.append(("sim", cfg_text("LiskBFTTree_q", Win=9, MaxBlocks=18, MaxHeight=15, DumpEvery=4, DumpFinalEvery=1),
                     dict(hc221, win=9), dict(timeout=900, simulate=3000 if ctx.tier == "thorough" else 300, depth=20, workers=1)))
    total = dict(trees=0, distinct_paths=0, steps=0, paths_with_finality=0, pairs_checked=0,
                 tree_mode_trees=0, tree_mode_steps=0, tree_mode_trees_with_a_fork=0, tree_mode_pairs_checked=0, tree_mode_trees_with_finality=0,
                 headers_contradicting_probes=0, headers_contradicting_probes_true=0)
    vfin = {}; vchg = {}; vtrees = {}; max_h = 0; max_w = 0; slid = 0
    samples = []
    for name, text, hcfg, kw in runs:
        maxh = int(re.search(r"(?m)^\s*MaxHeight\s*=\s*(\d+)", text).group(1))
        hcfg = dict(hcfg, variants=variants(hcfg, maxh))
        r, trees, res = run_model(ctx, name, text, hcfg, binp, **kw)
        for k in total:
            total[k] += res.get(k, 0)
        for d, k in ((vtrees, "variant_trees"), (vfin, "variant_trees_with_finality"), (vchg, "variant_trees_with_parameter_change")):
            for vn, c in (res.get(k) or {}).items():
                d[vn] = d.get(vn, 0) + c
        for vn in [v["name"] for v in hcfg["variants"]]:
            vtrees.setdefault(vn, 0); vfin.setdefault(vn, 0)
        max_h = max(max_h, res.get("max_real_height", 0)); max_w = max(max_w, res.get("max_real_weight", 0))
        slid += sum(1 for t in trees if max(b["h"] for b in t) > hcfg["win"])
        log("[c01] %s: trees=%d paths=%d finality=%d pairs=%d | one module per tree: trees=%d forks=%d steps=%d finality=%d contradiction probes=%d (true %d) | violations=%d" % (
            name, res["trees"], res["distinct_paths"], res["paths_with_finality"], res["pairs_checked"],
            res.get("tree_mode_trees", 0), res.get("tree_mode_trees_with_a_fork", 0), res.get("tree_mode_steps", 0), res.get("tree_mode_trees_with_finality", 0),
            res.get("headers_contradicting_probes", 0), res.get("headers_contradicting_probes_true", 0), len(res.get("violations") or [])))
        for v in res.get("violations") or []:
            ctx.violation(v["key"], v["what"], dict(tree=v.get("replay"), cfg=hcfg))
        if trees and len(samples) < 2:
            best = max(trees[:200], key=lambda t: max(b["mhpc"] for b in t))
            samples.append(dict(config=name, tree=[dict(id=b["id"], h=b["h"], mhpv=b["mhpv"], mhpc=b["mhpc"]) for b in best]))
    # conformance of the counting rules on long chains WITH parameter changes (validator joins/leaves, threshold changes,
    # sliding window): the recorded trace of the real module must be a behaviour of LiskBFT.tla, otherwise the model
    # checked above does not describe the code
    from props import c02
    b2 = ctx.go_build("./cmd/c02")
    tr = c02.validate(ctx, b2, 400 if ctx.tier == "quick" else 3000, ctx.seed * 31 + 5, "c01")
    if tr["mismatch"]:
        mm = tr["mismatch"]
        ctx.violation("spec-mismatch:trace-" + mm["kind"],
                      "the real liskbft.Module deviates from LiskBFT.tla (the model on which safety was checked) at trace line %d: %s ; observed %s" % (
                          mm["line"], str(mm["detail"])[:600], json.dumps(mm["observed"])[:600]),
                      dict(tree=None, cfg=None, seed=ctx.seed * 31 + 5, chain_prefix=mm["chain_prefix"]))
    total["trace_events"] = tr["events"]
    if ctx.tier == "thorough":
        # non-vacuity control: with Byzantine weight >= 1/3 the same model must reach a double finalisation
        r = run_model(ctx, "control", cfg_text("LiskBFTTree_control"), None, binp, timeout=900, workers=16, expect_violation=True)
        if not ctx.violations and (not r["violation"]):
            raise Inconclusive("control model (Byzantine weight >= 1/3) found no double finalisation: bounds too small, run is vacuous")
        ctx.states -= r["distinct"]; ctx.transitions -= r["generated"]
    # system level: a network of honest real nodes (spec/Net.tla; TLC checks Agreement and TreeSafety on the model):
    # the finalized prefixes of all real nodes agree on real block ids, BFT heights per node follow the model
    from props import net
    # C01 owns: agreement and permanence of finalized blocks on real ids, a node that finalizes above every precommitted height
    # its BFT module reported, the BFT heights per node, and everything observed after a block that breaks a BFT rule of
    # verifyBlock was offered (Net.tla ByzForgeInvalid: the node must stay where it is)
    netcov = net.run_net(ctx, lambda k: k.startswith(NET_KEYS), parts=("honest_sim", "byz_exh", "byz_sim", "chg_byz_sim"), invalid=True)
    if not ctx.violations and (total["paths_with_finality"] == 0):
        raise Inconclusive("no replayed path reached finality: vacuous")
    if not ctx.violations:
        # non-vacuity of the additions of round 13
        empty = sorted(vn for vn in vtrees if vfin.get(vn, 0) == 0)
        if total["tree_mode_trees_with_a_fork"] == 0 or total["tree_mode_trees_with_finality"] == 0:
            raise Inconclusive("no fork tree with finality went through one shared module: vacuous")
        if empty:
            raise Inconclusive("height / weight variants without a tree that reaches finality: %s: vacuous" % empty)
        if sum(vchg.values()) == 0 or (ctx.tier == "quick" and slid == 0):
            raise Inconclusive("no replayed tree with a parameter change / with a chain longer than the vote window: vacuous")
        if total["headers_contradicting_probes_true"] == 0:
            raise Inconclusive("no pair of contradicting headers among the probed trees: vacuous")
        if max_h < (1 << 32) - 64 or max_w < (1 << 60):
            raise Inconclusive("the height / weight variants did not reach the boundary values (%d, %d): vacuous" % (max_h, max_w))
    cov = dict(traces_validated_against_impl=total["distinct_paths"], samples=samples,
               trees_through_one_shared_module=total["tree_mode_trees"], of_which_with_a_fork=total["tree_mode_trees_with_a_fork"],
               shared_module_steps=total["tree_mode_steps"], shared_module_trees_with_finality=total["tree_mode_trees_with_finality"],
               shared_module_real_pairs_checked_for_safety=total["tree_mode_pairs_checked"],
               variant_trees=vtrees, variant_trees_with_finality=vfin, variant_trees_with_parameter_change=vchg,
               trees_longer_than_the_vote_window=slid, max_real_height=max_h, max_real_weight=max_w,
               headers_contradicting_probes=total["headers_contradicting_probes"], headers_contradicting_probes_true=total["headers_contradicting_probes_true"],
               replayed_trees=total["trees"], replayed_steps=total["steps"],
               paths_with_finality=total["paths_with_finality"], trace_events_validated=total.get("trace_events", 0), real_pairs_checked_for_safety=total["pairs_checked"],
               exhaustive=True, **netcov,
               rule="TLC enumerates every fork tree inside the bounds of each cfg and checks Safety in every state; "
                    "sampled full trees (biased to trees with finality) are replayed block by block through the real liskbft.Module")
    finish(ctx, LEVEL, cov, assumptions=[
        "bounded: <=4 validators, <=10 blocks (16 in simulation), <=2 leaves; no unbounded proof",
        "slots abstracted: any active validator may forge at any time (adds behaviours)",
        "hash collision freeness of block ids"])
