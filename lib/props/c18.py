"""C18 peer penalties accumulate into bans that are enforced and expire.

spec/ConnGater.tla is model checked exhaustively (gater with two IPs, one of them IPv6, all blacklists, sweep
periods and phases; rate limiter with two procedures).  spec/MCConnGater.tla generates schedules (by simulation and,
for short ones, exhaustively) together with the SET of states the specification allows after every step; the harness
replays every schedule on a real connectionGater / rateLimit (one instance per schedule, all in parallel, 1 tick = 2 s
of real time, every time-dependent decision >= 400 ms away from the instant that decides it) and requires the
projected real state (score, banned, listBannedPeers, every Intercept* gate for several multiaddr forms of the IP) to
be one of the allowed ones.  Loopback scenarios with real p2p.Connection hosts check the causes of penalties
(malformed envelope, unknown procedure, rate limit, ApplyPenalty, BanPeer), the disconnect at the ban, refused
re-dials in both directions, the expiry and the blacklist, and that legal traffic is never penalised.
A schedule whose steps could not be placed inside their guard bands is inconclusive, never a violation."""
import json, os, re, threading
import common
from common import Inconclusive, finish, log
from props import c01

LEVEL = "model_checking"


def cfg_const(text, name, default=None):
    m = re.search(r"(?m)^\s*%s\s*=\s*(.*)$" % re.escape(name), text)
    if not m:
        if default is None:
            raise Inconclusive("constant %s not found in the cfg" % name)
        return default
    return m.group(1).strip()


def opts_from_cfg(text, **kw):
    procs = re.findall(r'"([^"]+)"', cfg_const(text, "Procs"))
    o = dict(ban_ticks=int(cfg_const(text, "BanTicks")), limit=int(cfg_const(text, "Limit")),
             rate_penalty=int(cfg_const(text, "RatePenalty")), max_score=int(cfg_const(text, "MaxScore")),
             procs=procs or ["a", "b"], batch=4000, tol_ms=100)
    o.update(kw)
    return o


def model_check(ctx, name, module, text, **kw):
    cfg = c01.write_cfg(ctx, name, text)
    r = ctx.tlc(module, cfg, timeout=kw.pop("timeout", 1500), **kw)
    if r["violation"]:
        raise Inconclusive("ConnGater.tla fails at spec level (%s): %s" % (name, r["outpath"]))
    return r


def generate(ctx, name, text, **kw):
    r = model_check(ctx, name, "MCConnGater", text, **kw)
    hs, seen = [], set()
    for t in ctx.dumps(r["out"]):
        k = json.dumps(t, sort_keys=True)
        if k not in seen:
            seen.add(k); hs.append(t)
    return hs


def run_replay(ctx, binp, hists, opts, tag):
    hf = ctx.path("c18_%s_h.ndjson" % tag); of = ctx.path("c18_%s_res.json" % tag); pf = ctx.path("c18_%s_opts.json" % tag)
    with open(hf, "w") as fh:
        for h in hists:
            fh.write(json.dumps(h) + "\n")
    json.dump(opts, open(pf, "w"))
    p = ctx.run([binp, "replay", hf, of, pf], timeout=1500)
    if p.returncode != 0 or not os.path.exists(of):
        raise Inconclusive("c18 replay failed: " + p.stderr[-1500:])
    res = json.load(open(of))
    if res.get("harness_errors"):
        raise Inconclusive("c18 replay harness error: %s" % res["harness_errors"][:3])
    return res


def run_e2e(ctx, binp, opts, tag, box):
    try:
        of = ctx.path("c18_%s_res.json" % tag); pf = ctx.path("c18_%s_opts.json" % tag)
        json.dump(opts, open(pf, "w"))
        p = ctx.run([binp, "e2e", of, pf], timeout=600)
        if p.returncode != 0 or not os.path.exists(of):
            raise Inconclusive("c18 e2e failed: " + p.stderr[-1500:])
        res = json.load(open(of))
        if res.get("harness_errors"):
            raise Inconclusive("c18 e2e harness error: %s" % res["harness_errors"][:3])
        box["res"] = res
    except Exception as e:   # re-raised by the caller
        box["err"] = e


def report(ctx, res):
    for v in res.get("violations") or []:
        ctx.violation(v["key"], v["what"], v.get("replay"))


def run(ctx):
    binp = ctx.go_build("./cmd/c18")
    gen_text = c01.cfg_text("ConnGater_gen")
    if ctx.replay:
        d = json.load(open(ctx.replay))["replay"]
        if isinstance(d, dict) and "e2e" in d:
            box = {}
            run_e2e(ctx, binp, opts_from_cfg(gen_text, scenarios=[d["e2e"]]), "replay", box)
            if "err" in box:
                raise box["err"]
            report(ctx, box["res"])
            finish(ctx, LEVEL, dict(traces_validated_against_impl=len(box["res"].get("scenarios") or []), samples=[d]))
        o = opts_from_cfg(gen_text)
        o.update(d.get("opts") or {})
        res = run_replay(ctx, binp, [d["history"]], o, "replay")
        report(ctx, res)
        finish(ctx, LEVEL, dict(traces_validated_against_impl=res["histories"] - res["inconclusive_timing"],
                                inconclusive_timing=res["inconclusive_timing"], samples=[d["history"]["steps"][:2]]))

    quick = ctx.tier == "quick"
    # loopback scenarios run while TLC and the replay are busy (they take 15..30 s of mostly idle waiting)
    box = {}
    th = threading.Thread(target=run_e2e, args=(ctx, binp, opts_from_cfg(gen_text), "e2e", box))
    th.start()
    try:
        # 1. the specification itself
        exh = c01.cfg_text("ConnGater_exh", **(dict(MaxTime=5) if quick else dict(MaxTime=8)))
        rate = c01.cfg_text("ConnGater_rate", **(dict(MaxTime=4) if quick else {}))
        r1 = model_check(ctx, "exh", "ConnGater", exh, workers=16)
        r2 = model_check(ctx, "rate", "ConnGater", rate, workers=16)
        if not quick:
            model_check(ctx, "exh_ban3", "ConnGater", c01.cfg_text("ConnGater_exh", BanTicks=3, MaxTime=7), workers=16)
        # 2. schedules with the allowed states after every step
        hs = generate(ctx, "gen", gen_text, workers=1, simulate=500 if quick else 12000, depth=90, seed=ctx.seed)
        hs_short = generate(ctx, "short", c01.cfg_text("ConnGater_short", DumpEvery=8 if quick else 1), workers=8, seed=ctx.seed)
        # traffic of both addresses on ONE procedure inside one rate window (up to 4 bursts per tick): a penalty of one peer
        # must not change the count of another
        hs_rate = generate(ctx, "gen_rate", c01.cfg_text("ConnGater_gen", MaxPerTick=4, Procs='{"a"}', Penalties="{50}"),
                           workers=1, simulate=200 if quick else 4000, depth=90, seed=ctx.seed + 5)
        hs = hs + hs_rate
        if len(hs) < 100 or len(hs_short) < 100:
            raise Inconclusive("too few schedules generated (%d, %d)" % (len(hs), len(hs_short)))
        short_text = c01.cfg_text("ConnGater_short")
        if opts_from_cfg(short_text)["ban_ticks"] != opts_from_cfg(gen_text)["ban_ticks"]:
            raise Inconclusive("gen and short cfgs disagree on BanTicks")
        # 3. replay on the real gater / rate limiter
        res = run_replay(ctx, binp, hs + hs_short, opts_from_cfg(gen_text), "all")
        if not quick:
            # longer bans and a longer sweep period: other positions of the penalties relative to expiry and sweep
            gen3 = c01.cfg_text("ConnGater_gen", BanTicks=3, MaxTime=7, SweepPeriods="{1, 2, 4}")
            hs3 = generate(ctx, "gen_ban3", gen3, workers=1, simulate=3000, depth=100, seed=ctx.seed + 1)
            res3 = run_replay(ctx, binp, hs3, opts_from_cfg(gen3), "ban3")
            for k, v in res3.items():
                if isinstance(v, int) and k != "max_step_skew_ms":
                    res[k] = res.get(k, 0) + v
            res["max_step_skew_ms"] = max(res["max_step_skew_ms"], res3["max_step_skew_ms"])
            res["violations"] = (res.get("violations") or []) + (res3.get("violations") or [])
            for k, v in (res3.get("violation_keys") or {}).items():
                res["violation_keys"][k] = res["violation_keys"].get(k, 0) + v
            for v in res3.get("violations") or []:
                if isinstance(v.get("replay"), dict):
                    v["replay"]["opts"] = dict(ban_ticks=3)
    finally:
        th.join()
    if "err" in box:
        raise box["err"]
    e2e = box["res"]
    report(ctx, res)
    report(ctx, e2e)
    validated = res["histories"] - res["inconclusive_timing"]
    log("[c18] replay: schedules=%d validated=%d conforming=%d inconclusive(timing)=%d steps=%d observations=%d max skew %d ms keys=%s" % (
        res["histories"], validated, res["conforming"], res["inconclusive_timing"], res["steps"], res["observations"],
        res["max_step_skew_ms"], res["violation_keys"]))
    scen = e2e.get("scenarios") or []
    inc_scen = [s["name"] for s in scen if s.get("inconclusive")]
    log("[c18] loopback: scenarios=%d inconclusive=%s checks=%d keys=%s" % (
        len(scen), inc_scen, sum(len(s.get("checks") or []) for s in scen), e2e["violation_keys"]))
    # what could not be established; a violation observed on the real code is reported in any case
    problem = None
    if validated * 2 < res["histories"]:
        problem = "%d of %d schedules could not be placed inside their timing guard bands" % (res["inconclusive_timing"], res["histories"])
    elif min(res["steps_expect_banned"], res["steps_in_expiry_window"], res["steps_expect_clean_after_ban"],
             res["msg_steps_must_penalise"], res["msg_steps_must_not_penalise"]) == 0 and not res["violation_keys"]:
        problem = "schedules did not exercise ban / expiry window / lift / rate limit: vacuous"
    elif len(scen) < 8 or len(inc_scen) * 2 > len(scen):
        problem = "loopback scenarios could not be run: %s" % [(s["name"], s.get("inconclusive")) for s in scen if s.get("inconclusive")][:4]
    if problem and not ctx.violations:
        raise Inconclusive(problem)
    if problem:
        log("[c18] note: " + problem)
    cov = dict(traces_validated_against_impl=validated + len(scen) - len(inc_scen),
               samples=[dict(blocked=hs[0]["blocked"], period=hs[0]["period"], phase=hs[0]["phase"], steps=hs[0]["steps"][:3])],
               schedules=res["histories"], schedules_simulated=len(hs), schedules_short_exhaustive_sample=len(hs_short),
               schedules_conforming=res["conforming"], inconclusive_timing=res["inconclusive_timing"],
               replayed_steps=res["steps"], observations_compared=res["observations"],
               steps_with_several_allowed_states=res["steps_with_several_allowed_states"],
               steps_expect_banned=res["steps_expect_banned"], steps_in_expiry_window=res["steps_in_expiry_window"],
               steps_expect_clean_after_ban=res["steps_expect_clean_after_ban"],
               msg_steps_must_penalise=res["msg_steps_must_penalise"], msg_steps_must_not_penalise=res["msg_steps_must_not_penalise"],
               max_step_skew_ms=res["max_step_skew_ms"], scheduler_stalls=res["scheduler_stalls"],
               loopback_scenarios=len(scen), loopback_scenarios_inconclusive=inc_scen,
               loopback_checks_passed=sum(len(s.get("checks") or []) for s in scen),
               spec_states_gater=r1["distinct"], spec_states_rate_limiter=r2["distinct"],
               exhaustive=False,
               rule="one real connectionGater (+ rateLimit) per TLC schedule; after every step the projection (score, banned, "
                    "listBannedPeers, outbound and inbound gates over 3 multiaddr forms) must be one of the states allowed by the spec")
    finish(ctx, LEVEL, cov, assumptions=[
        "1 tick = 2 s; actions at the middle of even seconds, sweeps and rate-window resets at the middle of odd seconds (the implementation counts whole Unix seconds)",
        "the wall clock is not stepped during a run",
        "InterceptUpgraded is not exercised (it receives a network.Conn); IPv4-mapped IPv6 forms and DNS multiaddrs are outside the statement",
        "loopback scenarios use ban expiration 2 s set through the verif export; the sweep interval of a running Connection is the constant 10 s",
        "invalid sync requests are represented by Connection.BanPeer, the call pkg/consensus/sync makes for them",
        "one peer per IP in the rate limiter replay (counters are per peer id, penalties per IP)"])
