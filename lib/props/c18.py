"""C18 peer penalties accumulate into bans that are enforced and expire.

spec/ConnGater.tla is model checked exhaustively (gater with two IPs, one of them IPv6, all blacklists, sweep
periods and phases; rate limiter with two peers behind one IP / two procedures).  spec/MCConnGater.tla generates
schedules (by simulation and, for short ones, exhaustively) together with the SET of states the specification allows
after every step; every penalty / message step and the blacklist configuration carry a SPELLING index of the address
(dotted, IPv4-mapped IPv6, expanded / compressed / upper-case IPv6: one identity in the model).  The harness replays
every schedule on a real connectionGater / rateLimit (one instance per schedule, all in parallel, 1 tick = 2 s of real
time, every time-dependent decision >= 400 ms away from the instant that decides it) and requires the projected real
state (score; every Intercept* gate for every spelling of the address) to be one of the allowed ones.  Schedules
generated with Conc = TRUE issue all steps of a tick at the same instant from one goroutine per call while pollers ask
the gates and a 20 ms sweep runs (expected: the union over all orders, computed by the specification); a part of them and
all loopback scenarios run in a -race build.  Loopback scenarios with real p2p.Connection hosts on 127.0.0.1 /
127.0.0.2 / 127.0.0.3 check the causes of penalties (envelope table on both streams, unknown procedure, rate limit
with explicit and with default parameters, ApplyPenalty, BanPeer, the real sync handlers of a real node), on inbound and
outbound connections, the disconnect at the ban, refused re-dials in both directions, the unaffected bystander, the
expiry, the blacklist, two connections of one peer, and that legal traffic is never penalised.
A schedule whose steps could not be placed inside their guard bands is inconclusive, never a violation."""
import json, os, re, threading
from concurrent.futures import ThreadPoolExecutor
import common
from common import Inconclusive, finish, log
from props import c01

LEVEL = "model_checking"


def cfg_const(text, name, default=None):
    m = re.search(r"(?m)^\s*%s\s*=\s*(.*)$" % re.escape(name), text)
    if not m:
        if default is None:
            raise Inconclusive("constant %s not found in the cfg" % name)
        return default
    return m.group(1).strip()


def declared_defaults():
    """defaultRateLimit / defaultRateLimitPenalty as declared in pkg/p2p/ratelimit.go (what a procedure registered without
    WithRPCMessageCounter is supposed to get); (0, 0) when the declarations cannot be found"""
    try:
        src = open(os.path.join(common.REPO, "pkg", "p2p", "ratelimit.go")).read()
        lim = re.search(r"(?m)^\s*(?:const\s+)?defaultRateLimit\s*=\s*(\d+)", src)
        pen = re.search(r"(?m)^\s*(?:const\s+)?defaultRateLimitPenalty\s*=\s*(\d+)", src)
        return (int(lim.group(1)), int(pen.group(1))) if lim and pen else (0, 0)
    except Exception:
        return (0, 0)


def opts_from_cfg(text, **kw):
    procs = re.findall(r'"([^"]+)"', cfg_const(text, "Procs"))
    dl, dp = declared_defaults()
    o = dict(ban_ticks=int(cfg_const(text, "BanTicks")), limit=int(cfg_const(text, "Limit")),
             rate_penalty=int(cfg_const(text, "RatePenalty")), max_score=int(cfg_const(text, "MaxScore")),
             procs=procs or ["a", "b"], batch=4500, tol_ms=100, retries=3, default_limit=dl, default_penalty=dp,
             experimental=bool(os.environ.get("VERIF_EXPERIMENTAL")))
    o.update(kw)
    return o


def model_check(ctx, name, module, text, **kw):
    cfg = c01.write_cfg(ctx, name, text)
    r = ctx.tlc(module, cfg, timeout=kw.pop("timeout", 1500), **kw)
    if r["violation"]:
        raise Inconclusive("ConnGater.tla fails at spec level (%s): %s" % (name, r["outpath"]))
    return r


def generate(ctx, name, text, **kw):
    r = model_check(ctx, name, "MCConnGater", text, **kw)
    hs, seen = [], set()
    for t in ctx.dumps(r["out"]):
        k = json.dumps(t, sort_keys=True)
        if k not in seen:
            seen.add(k); hs.append(t)
    return hs


# ------------------------------------------------------------------------------------------------ race detector
def parse_races(stderr):
    """-> (races in lisk-engine [(key, text)], races inside the harness [text]) from the reports of a -race build"""
    lisk, own = [], []
    for blk in re.split(r"={18,}", stderr or ""):
        if "WARNING: DATA RACE" not in blk:
            continue
        tops = []
        for acc in re.split(r"\n(?=(?:Previous )?(?:[Rr]ead|[Ww]rite|atomic [a-z]+) at 0x)", blk):
            if not re.match(r"(?:Previous )?(?:[Rr]ead|[Ww]rite|atomic [a-z]+) at 0x", acc.lstrip()):
                continue
            fr = re.findall(r"(?m)^  (\S+?)\(\)\n\s+(\S+):(\d+)", acc.split("\nGoroutine ")[0])
            fr = [f for f in fr if not f[0].startswith(("runtime.", "sync.", "sync/atomic.", "internal/"))]
            if fr:
                tops.append(fr[0])
        names = [t[0] for t in tops]
        in_lisk = sorted([n for n in names if "github.com/LiskHQ/lisk-engine/pkg/" in n], key=lambda n: ").Verif" in n)   # the verif exports last
        if in_lisk:
            fn = re.sub(r"(\.func\d+)+$", "", in_lisk[0].replace("github.com/LiskHQ/lisk-engine/", ""))
            lisk.append(("race:" + fn, "data race between %s" % " and ".join("%s (%s:%s)" % (t[0].split("/")[-1], os.path.basename(t[1]), t[2]) for t in tops)))
        elif names and all(n.startswith("main.") for n in names):
            own.append(" / ".join(names))
    return lisk, own


def note_races(ctx, p, replay, box):
    lisk, own = parse_races(p.stderr)
    box["races_parsed"] = box.get("races_parsed", 0) + len(lisk)
    if own:
        raise Inconclusive("the race detector reports a race inside the harness itself: %s" % own[0])
    seen = set()
    for key, what in lisk:
        if key not in seen:
            seen.add(key)
            box.setdefault("race_violations", []).append(dict(key=key, what="-race build: " + what, replay=replay))


RACE_ENV = dict(GORACE="exitcode=0 halt_on_error=0")


def run_replay(ctx, binp, hists, opts, tag, race=False, box=None):
    hf = ctx.path("c18_%s_h.ndjson" % tag); of = ctx.path("c18_%s_res.json" % tag); pf = ctx.path("c18_%s_opts.json" % tag)
    with open(hf, "w") as fh:
        for h in hists:
            fh.write(json.dumps(h) + "\n")
    json.dump(opts, open(pf, "w"))
    p = ctx.run([binp, "replay", hf, of, pf], timeout=1500, env=RACE_ENV if race else None)
    if race and box is not None:
        note_races(ctx, p, dict(mode="conc-race", histories=hists[:40], opts=dict(ban_ticks=opts["ban_ticks"])), box)
    if p.returncode != 0 or not os.path.exists(of):
        # a crash of the code under test (e.g. `fatal error: concurrent map writes`) is recorded by ctx.run and turned into a
        # crash:<function> violation by bin/check
        raise Inconclusive("c18 replay failed: " + p.stderr[-1500:])
    res = json.load(open(of))
    if res.get("harness_errors"):
        raise Inconclusive("c18 replay harness error: %s" % res["harness_errors"][:3])
    return res


# loopback scenarios that close a gap: table scenarios with the number of cases that must have reached their verdict, and
# groups of which at least one member must have run to the end
REQUIRED = {"sync-requests": 5, "envelope-table": 7, "default-rate-limit": 1, "two-connections-one-peer": 2}
REQUIRED_ANY = [("outbound-ban-peer", "outbound-apply-penalty-accumulates", "outbound-malformed-request", "outbound-unknown-procedure-response"),
                ("rate-limit-parallel-burst",), ("blacklist",)]


def run_e2e(ctx, binp, opts, tag, box, race=False):
    try:
        def once(o, t):
            of = ctx.path("c18_%s_res.json" % t); pf = ctx.path("c18_%s_opts.json" % t)
            json.dump(o, open(pf, "w"))
            p = ctx.run([binp, "e2e", of, pf], timeout=600, env=RACE_ENV if race else None)
            if race:
                note_races(ctx, p, dict(mode="e2e-race"), box)
            if p.returncode != 0 or not os.path.exists(of):
                raise Inconclusive("c18 e2e failed: " + p.stderr[-1500:])
            r = json.load(open(of))
            if r.get("harness_errors"):
                raise Inconclusive("c18 e2e harness error: %s" % r["harness_errors"][:3])
            return r
        res = once(opts, tag)
        # scenarios that could not be run (a host that did not start in time on a loaded machine ...) get one more chance
        again = [s["name"] for s in res.get("scenarios") or [] if s.get("inconclusive") and not s.get("violations")]
        if again and not opts.get("scenarios"):
            log("[c18] loopback scenarios repeated once: %s" % again)
            r2 = once(dict(opts, scenarios=again), tag + "_retry")
            by = {s["name"]: s for s in r2.get("scenarios") or []}
            res["scenarios"] = [by.get(s["name"], s) if s["name"] in again else s for s in res["scenarios"]]
            res["violations"] = (res.get("violations") or []) + (r2.get("violations") or [])
            for k, v in (r2.get("violation_keys") or {}).items():
                res["violation_keys"][k] = res["violation_keys"].get(k, 0) + v
        box["res"] = res
    except Exception as e:   # re-raised by the caller
        box["err"] = e


def run_conc_race(ctx, binp, hists, opts, box):
    try:
        box["conc"] = run_replay(ctx, binp, hists, dict(opts, retries=1), "concrace", race=True, box=box)
    except Exception as e:
        box["conc_err"] = e


def report(ctx, res):
    for v in res.get("violations") or []:
        ctx.violation(v["key"], v["what"], v.get("replay"))


def merge_into(res, res3):
    for k, v in res3.items():
        if isinstance(v, bool):
            continue
        if isinstance(v, int) and k != "max_step_skew_ms":
            res[k] = res.get(k, 0) + v
        elif isinstance(v, dict) and k in ("penalty_steps_by_spelling", "blacklists_by_spelling", "violation_keys"):
            d = res.setdefault(k, {})
            for kk, vv in v.items():
                d[kk] = d.get(kk, 0) + vv
    res["max_step_skew_ms"] = max(res.get("max_step_skew_ms", 0), res3.get("max_step_skew_ms", 0))
    res["violations"] = (res.get("violations") or []) + (res3.get("violations") or [])


def run(ctx):
    quick = ctx.tier == "quick"
    gen_text = c01.cfg_text("ConnGater_gen")
    if ctx.replay:
        d = json.load(open(ctx.replay))["replay"]
        if isinstance(d, dict) and d.get("mode") in ("e2e-race", "conc-race"):
            binr = ctx.go_build("./cmd/c18", race=True)
            box = {}
            if d["mode"] == "e2e-race":
                run_e2e(ctx, binr, opts_from_cfg(gen_text), "replay", box, race=True)
            else:
                o = opts_from_cfg(c01.cfg_text("ConnGater_conc")); o.update(d.get("opts") or {})
                run_conc_race(ctx, binr, d["histories"], o, box)
            for e in ("err", "conc_err"):
                if e in box:
                    raise box[e]
            for v in box.get("race_violations") or []:
                ctx.violation(v["key"], v["what"], v["replay"])
            for r in (box.get("res"), box.get("conc")):
                if r:
                    report(ctx, r)
            finish(ctx, LEVEL, dict(traces_validated_against_impl=1, samples=[d["mode"]], races_parsed=box.get("races_parsed", 0)))
        binp = ctx.go_build("./cmd/c18")
        if isinstance(d, dict) and "e2e" in d:
            box = {}
            run_e2e(ctx, binp, opts_from_cfg(gen_text, scenarios=[d["e2e"]]), "replay", box)
            if "err" in box:
                raise box["err"]
            report(ctx, box["res"])
            finish(ctx, LEVEL, dict(traces_validated_against_impl=len(box["res"].get("scenarios") or []), samples=[d]))
        o = opts_from_cfg(gen_text)
        o.update(d.get("opts") or {})
        res = run_replay(ctx, binp, [d["history"]], o, "replay")
        report(ctx, res)
        finish(ctx, LEVEL, dict(traces_validated_against_impl=res["histories"] - res["inconclusive_timing"],
                                inconclusive_timing=res["inconclusive_timing"], samples=[d["history"]["steps"][:2]]))

    # the two builds at the same time (the -race build is only needed by the loopback scenarios and the concurrent subset)
    ctx.harness()
    with ThreadPoolExecutor(max_workers=2) as ex:
        fb = ex.submit(ctx.go_build, "./cmd/c18")
        fr = ex.submit(ctx.go_build, "./cmd/c18", True)
        binp, binr = fb.result(), fr.result()
    # loopback scenarios (in the -race build) run while TLC and the replay are busy (15..30 s of mostly idle waiting)
    box = {}
    th = threading.Thread(target=run_e2e, args=(ctx, binr, opts_from_cfg(gen_text), "e2e", box, True))
    th.start()
    th_conc = None
    replay_exc = None
    res = None
    hs, hs_short, hs_conc = [], [], []
    r1 = r2 = None
    try:
        try:
            conc_text = c01.cfg_text("ConnGater_conc", **({} if quick else dict(MaxPerTick=4, MaxTime=6)))
            short_text = c01.cfg_text("ConnGater_short", **(dict(DumpEvery=16) if quick else dict(DumpEvery=8, Spellings="{0, 1}")))
            # schedules whose ticks are concurrent; a part of them is replayed in the -race build right away
            hs_conc = generate(ctx, "conc", conc_text, workers=1, simulate=100 if quick else 1500, depth=90, seed=ctx.seed + 9)
            if len(hs_conc) < 40:
                raise Inconclusive("too few concurrent schedules generated (%d)" % len(hs_conc))
            th_conc = threading.Thread(target=run_conc_race, args=(ctx, binr, hs_conc[:40 if quick else 200], opts_from_cfg(conc_text), box))
            th_conc.start()
            # 1. the specification itself and 2. schedules with the allowed states after every step, three TLC runs at a time
            exh = c01.cfg_text("ConnGater_exh", **(dict(MaxTime=5) if quick else dict(MaxTime=8)))
            rate2 = c01.cfg_text("ConnGater_rate2", **(dict(MaxTime=4, SweepPeriods="{2}") if quick else {}))
            jobs = dict(
                exh=lambda: model_check(ctx, "exh", "ConnGater", exh, workers=8),
                rate2=lambda: model_check(ctx, "rate2", "ConnGater", rate2, workers=4),
                gen=lambda: generate(ctx, "gen", gen_text, workers=1, simulate=500 if quick else 12000, depth=90, seed=ctx.seed),
                short=lambda: generate(ctx, "short", short_text, workers=4, seed=ctx.seed),
                # traffic of both addresses and both peers on ONE procedure inside one rate window (up to 4 bursts per tick): a
                # penalty of one peer must not change the count of another
                gen_rate=lambda: generate(ctx, "gen_rate", c01.cfg_text("ConnGater_gen", MaxPerTick=4, Procs='{"a"}', Penalties="{50}"),
                                          workers=1, simulate=200 if quick else 4000, depth=90, seed=ctx.seed + 5))
            if not quick:
                jobs["rate"] = lambda: model_check(ctx, "rate", "ConnGater", c01.cfg_text("ConnGater_rate"), workers=8)
                jobs["exh_ban3"] = lambda: model_check(ctx, "exh_ban3", "ConnGater", c01.cfg_text("ConnGater_exh", BanTicks=3, MaxTime=7), workers=8)
            with ThreadPoolExecutor(max_workers=3) as ex:
                futs = {k: ex.submit(f) for k, f in jobs.items()}
                out = {k: f.result() for k, f in futs.items()}
            r1, r2 = out["exh"], out["rate2"]
            hs, hs_short = out["gen"] + out["gen_rate"], out["short"]
            if len(hs) < 100 or len(hs_short) < 100:
                raise Inconclusive("too few schedules generated (%d, %d)" % (len(hs), len(hs_short)))
            for t in (short_text, conc_text):
                if opts_from_cfg(t)["ban_ticks"] != opts_from_cfg(gen_text)["ban_ticks"]:
                    raise Inconclusive("gen, short and conc cfgs disagree on BanTicks")
            # 3. replay on the real gater / rate limiter
            res = run_replay(ctx, binp, hs + hs_short + hs_conc, opts_from_cfg(gen_text), "all")
            if not quick:
                # longer bans and a longer sweep period: other positions of the penalties relative to expiry and sweep
                gen3 = c01.cfg_text("ConnGater_gen", BanTicks=3, MaxTime=7, SweepPeriods="{1, 2, 4}")
                hs3 = generate(ctx, "gen_ban3", gen3, workers=1, simulate=3000, depth=100, seed=ctx.seed + 1)
                res3 = run_replay(ctx, binp, hs3, opts_from_cfg(gen3), "ban3")
                for v in res3.get("violations") or []:
                    if isinstance(v.get("replay"), dict):
                        v["replay"]["opts"] = dict(ban_ticks=3)
                merge_into(res, res3)
        except Inconclusive as e:
            replay_exc = e
    finally:
        th.join()
        if th_conc is not None:
            th_conc.join()
    # behaviour observed on the real code is reported whatever else could not be completed
    e2e = box.get("res")
    if e2e:
        report(ctx, e2e)
    for v in box.get("race_violations") or []:
        ctx.violation(v["key"], v["what"], v["replay"])
    if box.get("conc"):
        report(ctx, box["conc"])
    if res:
        report(ctx, res)
    if replay_exc:
        raise replay_exc
    if "err" in box:
        raise box["err"]
    concr = box.get("conc")
    if "conc_err" in box and not concr:
        if isinstance(box["conc_err"], Inconclusive) and "harness itself" in str(box["conc_err"]):
            raise box["conc_err"]
        log("[c18] note: concurrent subset in the -race build not completed: %s" % str(box["conc_err"])[:300])
        if getattr(ctx, "real_panic", None):
            raise Inconclusive("the -race replay of the concurrent schedules died: %s" % str(box["conc_err"])[:300])
    validated = res["histories"] - res["inconclusive_timing"]
    log("[c18] replay: schedules=%d validated=%d conforming=%d inconclusive(timing)=%d steps=%d observations=%d max skew %d ms keys=%s" % (
        res["histories"], validated, res["conforming"], res["inconclusive_timing"], res["steps"], res["observations"],
        res["max_step_skew_ms"], res["violation_keys"]))
    conc_valid = res.get("concurrent_histories_validated", 0)
    conc_ticks = res.get("concurrent_ticks", 0)
    conc_race_valid = (concr or {}).get("concurrent_histories_validated", 0)
    log("[c18] concurrent ticks: schedules validated=%d (+%d in the -race build) ticks=%d calls=%d poller rounds=%d races parsed=%d" % (
        conc_valid, conc_race_valid, conc_ticks, res.get("concurrent_calls", 0), res.get("poller_rounds", 0), box.get("races_parsed", 0)))
    scen = e2e.get("scenarios") or []
    inc_scen = [s["name"] for s in scen if s.get("inconclusive")]
    log("[c18] loopback (-race build): scenarios=%d inconclusive=%s checks=%d keys=%s" % (
        len(scen), inc_scen, sum(len(s.get("checks") or []) for s in scen), e2e["violation_keys"]))
    # what could not be established; a violation observed on the real code is reported in any case
    pen_sp = res.get("penalty_steps_by_spelling") or {}
    bl_sp = res.get("blacklists_by_spelling") or {}
    mapped = lambda d: sum(v for k, v in d.items() if k.startswith("v4:ip6-mapped"))
    by_name = {s["name"]: s for s in scen}
    missing = [n for n, c in REQUIRED.items() if n not in by_name or by_name[n].get("inconclusive") or (by_name[n].get("cases") or 0) < c]
    missing += ["one of " + "/".join(grp) for grp in REQUIRED_ANY if not any(n in by_name and not by_name[n].get("inconclusive") for n in grp)]
    problem = None
    # timing: on a loaded machine many schedules miss their guard bands (they are re-run up to 3 times, then dropped); what was
    # validated must still be a substantial sample (the content of the sample is guarded by the counters below)
    if validated < max(800 if quick else 3000, 0.3 * res["histories"]):
        problem = "%d of %d schedules could not be placed inside their timing guard bands" % (res["inconclusive_timing"], res["histories"])
    elif min(res["steps_expect_banned"], res["steps_in_expiry_window"], res["steps_expect_clean_after_ban"],
             res["msg_steps_must_penalise"], res["msg_steps_must_not_penalise"]) == 0 and not res["violation_keys"]:
        problem = "schedules did not exercise ban / expiry window / lift / rate limit: vacuous"
    elif mapped(pen_sp) == 0 or pen_sp.get("v4:dotted", 0) == 0 or mapped(bl_sp) == 0:
        problem = "no penalty or no blacklist configuration used the IPv4-mapped spelling of the IPv4 address: vacuous (%s / %s)" % (pen_sp, bl_sp)
    elif res.get("ticks_with_two_peers_of_one_ip_on_one_procedure", 0) == 0:
        problem = "no schedule had two peers of one address on one procedure in one rate window: vacuous"
    elif conc_valid + conc_race_valid < 20 or conc_ticks == 0:
        problem = "concurrent ticks were not exercised (%d + %d schedules, %d ticks)" % (conc_valid, conc_race_valid, conc_ticks)
    elif len(scen) < 12 or len(inc_scen) * 2 > len(scen):
        problem = "loopback scenarios could not be run: %s" % [(s["name"], s.get("inconclusive")) for s in scen if s.get("inconclusive")][:4]
    elif missing:
        problem = "loopback scenarios that close a gap did not reach their verdict: %s" % [(n, (by_name.get(n) or {}).get("inconclusive"), (by_name.get(n) or {}).get("cases")) for n in missing][:4]
    if problem and not ctx.violations:
        raise Inconclusive(problem)
    if problem:
        log("[c18] note: " + problem)
    cov = dict(traces_validated_against_impl=validated + len(scen) - len(inc_scen),
               samples=[dict(blocked=hs[0]["blocked"], blsp=hs[0]["blsp"], period=hs[0]["period"], phase=hs[0]["phase"], steps=hs[0]["steps"][:3])],
               schedules=res["histories"], schedules_simulated=len(hs), schedules_short_exhaustive_sample=len(hs_short),
               schedules_concurrent_ticks=len(hs_conc),
               schedules_conforming=res["conforming"], inconclusive_timing=res["inconclusive_timing"],
               replayed_steps=res["steps"], observations_compared=res["observations"],
               steps_with_several_allowed_states=res["steps_with_several_allowed_states"],
               steps_expect_banned=res["steps_expect_banned"], steps_in_expiry_window=res["steps_in_expiry_window"],
               steps_expect_clean_after_ban=res["steps_expect_clean_after_ban"],
               msg_steps_must_penalise=res["msg_steps_must_penalise"], msg_steps_must_not_penalise=res["msg_steps_must_not_penalise"],
               penalty_steps_by_spelling=pen_sp, blacklists_by_spelling=bl_sp,
               gate_spellings_per_observation=res.get("gate_spellings_per_observation"),
               ticks_with_two_peers_of_one_ip_on_one_procedure=res.get("ticks_with_two_peers_of_one_ip_on_one_procedure", 0),
               concurrent_schedules_validated=conc_valid, concurrent_schedules_validated_race_build=conc_race_valid,
               concurrent_ticks=conc_ticks, concurrent_calls=res.get("concurrent_calls", 0), poller_rounds=res.get("poller_rounds", 0),
               races_parsed=box.get("races_parsed", 0), penalty_call_errors=res.get("penalty_call_errors", 0),
               max_step_skew_ms=res["max_step_skew_ms"], scheduler_stalls=res["scheduler_stalls"],
               loopback_scenarios=len(scen), loopback_scenarios_inconclusive=inc_scen,
               loopback_checks_passed=sum(len(s.get("checks") or []) for s in scen),
               loopback_table_cases={s["name"]: s["cases"] for s in scen if s.get("cases")},
               declared_default_limit_and_penalty=list(declared_defaults()),
               spec_states_gater=r1["distinct"], spec_states_rate_limiter=r2["distinct"],
               exhaustive=False,
               rule="one real connectionGater (+ rateLimit) per TLC schedule; after every step the projection (score while not banned, "
                    "outbound and inbound gates over every spelling of the address) must be one of the states allowed by the spec")
    finish(ctx, LEVEL, cov, assumptions=[
        "1 tick = 2 s; actions at the middle of even seconds, sweeps and rate-window resets at the middle of odd seconds (the implementation counts whole Unix seconds)",
        "the wall clock is not stepped during a run",
        "InterceptUpgraded is not exercised (it receives a network.Conn); DNS multiaddrs are outside the statement",
        "an IP is one identity whatever its spelling: dotted IPv4 = IPv4-mapped IPv6 (::ffff:a.b.c.d), IPv6 text forms are equal when they parse to the same 16 bytes",
        "banned is observed through the gates; listBannedPeers and the expiration field are recorded, not judged (a lazily expiring implementation conforms)",
        "rate windows: only traffic within the limit under every window placement is judged 'never penalised', only traffic above it under every placement 'penalised' (ConnGater.tla, PenChoices)",
        "loopback scenarios use ban expiration 2 s set through the verif export; the sweep interval of a running Connection is the constant 10 s",
        "loopback hosts listen on 127.0.0.1 / .2 / .3 (and 127.0.1.x, 127.0.2.x, 127.0.3.x for table cases); the offender's source address is verified in /proc/net/tcp",
        "the limit and penalty of a procedure registered without WithRPCMessageCounter are the constants declared in pkg/p2p/ratelimit.go",
        "the ban threshold of the schedules is MaxScore of the cfg; a tree whose MaxPenaltyScore differs is inconclusive"])
