"""C13 block commit and removal are crash-atomic.

Crash.tla: a step is prepare / writes (each synced by itself or left to a later sync of the same log) / cache update with
a crash possible between any two sub-steps under two crash models (powerloss: unsynced bytes are lost; processdeath:
everything handed to the operating system survives).  Implementation shapes are data; AtomicRecovery holds for the
one-batch-per-stage shapes (plain step, tie break = two stages, dead data pruned afterwards) and every unsafe shape
(separate diff / finalized / genesis / temp-copy writes, pruning before the batch, an unsynced write in front of the batch
under processdeath, a tie-break shortcut) exposes a forbidden state (controls, one TLC run).

Binding: crash-point enumeration on the real node.  For the last step of TLC-generated Node scripts, of variants derived
from them (restore of a temporary block, megabyte blocks and their removal / temporary copy / restoration, 3-5 transaction
blocks, removal of blocks with assets / aggregate commit / finality raise, event pruning with KeepEventsForHeights 0..2,
megabyte blocks that raise the finalized height on an event-pruning node), of the genesis commit, of LIP-0014 tie breaks
(accepted and reverted ones: three admissible recovered states) and of a fixed TLC-generated long chain (MCNodeLong.tla:
chain longer than the BFT window and a block cache of 2, consensus keys deleted by the block batch, cache reload on
removal) every file-system write/sync operation index is a crash point on pebble's strict in-memory file system under
both crash models; the node is restarted, the recovered database is compared with the states of the uninterrupted run
(whole database, every key space; data the stored finalized height / event configuration declares dead is ignored), the
recovery invariants are evaluated, the interrupted step is performed again on the restarted node; CrashTrace.tla validates
every record."""
import json, os, re
import common
from common import Inconclusive, finish, log
from props import c01, c03

LEVEL = "fault_enumeration"
LONG = os.path.join(common.SPEC, "scripts", "c13_long.ndjson")

def long_scripts(ctx, traces, keep):
    """MCNodeLong.tla: chains of >= 10 blocks with every slot used, then removals; returns script lines (tag, cache 2)"""
    r = ctx.tlc("MCNodeLong", "Node_long", workers=1, timeout=1500, simulate=traces, depth=18, seed=ctx.seed + 13)
    if r["violation"]:
        raise Inconclusive("MCNodeLong violates one of Node.tla's own properties: %s" % r["outpath"])
    best = {}
    for d in ctx.dumps(r["out"]):
        s = d["script"]
        dels = [x for x in s if x["op"] == "delete" and x.get("ok")]
        # complete behaviours: the removals at the end, at least two of them in a row (more than the cache of 2 holds)
        if len(dels) >= 2 and s[-1]["op"] == "delete" and s[-2]["op"] == "delete" and max(x["obs"]["cert"] for x in s) >= 2:
            k = " ".join("%s%s%s" % (x["op"][0], x.get("chg", ""), x.get("saveTemp", "")) for x in s)
            best.setdefault(k, s)
    out = []
    for i, s in enumerate(list(best.values())[:keep]):
        out.append(json.dumps(dict(script=s, tag="long%d" % i if i else "long", cache=2)))
    return out

def crash_part(ctx, name, traces, maxs, maxp, mode=None, report=None):
    """crash-point enumeration on the last step of TLC-generated Node scripts + CrashTrace.tla validation of every record;
    mode "fin": only steps that raise the finalized height (used by C04).  report(key, what, replay) receives violations."""
    binp = ctx.go_build("./cmd/c13")
    report = report or ctx.violation
    if ctx.replay:
        d = json.load(open(ctx.replay))["replay"]
        if not isinstance(d, dict) or "script" not in d:
            raise Inconclusive("the replay file holds a monitor record, not a script: re-run the check itself")
        sf = ctx.path(name + "_replay.ndjson")
        open(sf, "w").write(json.dumps(dict(script=d["script"], verbatim=True, ke=d.get("ke", -1), batch=d.get("batch", 0), cache=d.get("cache", 0))) + "\n")
    else:
        sf, n = c03.generate(ctx, name, traces, 14, ctx.seed + 7, DumpEvery=3)
        if mode is None:
            # the long chain: a fixed TLC-generated behaviour in the quick tier (spec/scripts, regenerated with
            # VERIF_C13_REGEN=1), fresh ones in the thorough tier
            if ctx.tier == "thorough" or os.environ.get("VERIF_C13_REGEN"):
                lines = long_scripts(ctx, 150, 6)
                if not lines:
                    raise Inconclusive("MCNodeLong produced no complete long-chain behaviour")
                if os.environ.get("VERIF_C13_REGEN"):
                    open(LONG, "w").write(lines[0] + "\n")
                    log("[c13] %s rewritten" % LONG)
            else:
                lines = open(LONG).read().splitlines()
            with open(sf, "a") as fh:
                for l in lines:
                    fh.write(l + "\n")
    cf = ctx.path(name + "_cfg.json"); json.dump(dict(c03.HCFG, network=False, maxTxs=4 << 20), open(cf, "w"))
    of = ctx.path(name + "_res.json"); tf = ctx.path(name + "_trace.ndjson")
    p = ctx.run([binp, sf, cf, of, tf, str(maxs), str(maxp)] + ([mode] if mode else []), timeout=3000)
    if not os.path.exists(of):
        raise Inconclusive("c13 harness failed (rc=%d): %s" % (p.returncode, p.stderr[-1500:]))
    res = json.load(open(of))
    for v in res.get("violations") or []:
        report(v["key"], v["what"], v.get("replay"))
    if res.get("harness_errors") and not ctx.violations:
        # scripts that could not be replayed up to their last step (no crash involved: not this property's business); a
        # violation observed on another script stands on its own replay
        raise Inconclusive("c13 harness error: %s" % res["harness_errors"][:2])
    lines = open(tf).read().splitlines()
    r = ctx.tlc("CrashTrace", "CrashTrace", workers=1, timeout=1200, files={"trace.ndjson": tf})
    if r["distinct"] - 1 != len(lines):
        raise Inconclusive("CrashTrace consumed %d of %d records" % (r["distinct"] - 1, len(lines)))
    mm = re.findall(r'<<"MISMATCH", (\d+), "([a-z-]+)", "(.*)">>', r["out"])
    reported = set(v["key"] for v in res.get("violations") or [])
    for ln, tag, detail in mm:
        e = json.loads(lines[int(ln) - 1])
        key = ("partial-step:" + e["kind"]) if tag == "partial-step" else ("recovery:" + e["kind"] + ":" + (e["inv"][0].split(":")[0] if e["inv"] else "?"))
        if key not in reported:
            report(key, "crash record rejected by CrashTrace.tla: %s" % json.dumps(e)[:400], dict(record=e))
    return res, lines, reported

# what a run must have exercised (crash points > 0), else it is inconclusive: step kinds, and the facets that are either
# produced by a directed script (derived variant, genesis, the long chain) or all but certain in 120 simulated behaviours
KINDS = ("block", "delete", "delete+temp", "restore", "genesis", "tiebreak", "tiebreak-bad")
FACETS = ("genesis",
          "apply+chg-block", "apply+tx-block", "apply+multi-tx-block", "apply+megabyte-block", "apply+valid-ac-block",
          "apply+fin-raise", "apply+fin-jump", "apply+temp-present", "apply+after-chg",
          "apply+prunes-diffs", "apply+prunes-live-diffs", "apply+prunes-events", "apply+prunes-live-events", "events-pruned-by-config",
          "apply+megabyte-fin-raise-events-pruned", "apply+fat-chain-fin-raise-events-pruned+wal-rotation", "step+wal-rotation",
          "remove+chg-block", "remove+tx-block", "remove+multi-tx-block", "remove+megabyte-block", "remove+valid-ac-block",
          "remove+fin-raising-block", "remove+temp-present",
          "restore+chg-block", "restore+tx-block", "restore+multi-tx-block", "restore+megabyte-block",
          "diff-with-deleted-consensus-keys", "remove+cache-fallback", "restart+chain-longer-than-cache")

def run(ctx):
    r1 = ctx.tlc("MCCrash", "Crash_shapes", workers=2, timeout=300)
    if r1["violation"]:
        raise Inconclusive("Crash.tla: a shape that is expected to be atomic violates AtomicRecovery at spec level")
    expect = set(re.findall(r'<<"EXPECT", "([a-z-]+)", "([a-z]+)">>', r1["out"]))
    control = set(re.findall(r'<<"CONTROL", "([a-z-]+)", "([a-z]+)">>', r1["out"]))
    if len(expect) < 10 or expect - control:
        raise Inconclusive("Crash.tla controls: unsafe shapes that expose no forbidden state: %s (model is vacuous)" % sorted(expect - control))
    traces = 120 if ctx.tier == "quick" else 1200
    maxs, maxp = (170, 40) if ctx.tier == "quick" else (3000, 60)
    res, lines, reported = crash_part(ctx, "sim13", traces, maxs, maxp)
    log("[c13] scripts=%d %s crash points=%d by kind %s by model %s pre=%d between=%d post=%d redone=%d violations=%s" % (res["scripts"], res["scripts_by_origin"],
        res["crash_points"], res["steps_by_kind"], res["crash_points_by_model"], res["recovered_pre_state"], res["recovered_between_stages"],
        res["recovered_post_state"], res["steps_redone_after_recovery"], sorted(reported)))
    if not ctx.violations and not ctx.replay:
        missing = [k for k in KINDS if not res["steps_by_kind"].get(k)] + [f for f in FACETS if not res["crash_points_by_facet"].get(f)]
        if missing:
            raise Inconclusive("no crash point covered: %s (vacuous for these; if the long-chain facets are missing, spec/scripts/c13_long.ndjson "
                               "no longer replays: regenerate it with VERIF_C13_REGEN=1 bin/check C13 quick)" % missing)
        if res["crash_points"] < 300 or res["recovered_post_state"] == 0 or res["recovered_pre_state"] == 0 or res["recovered_between_stages"] == 0 \
                or res["steps_redone_after_recovery"] == 0 or min(res["crash_points_by_model"].get(m, 0) for m in ("powerloss", "processdeath")) < 100:
            raise Inconclusive("crash points did not cover pre / intermediate / post states under both crash models: vacuous")
    cov = dict(evaluations=res["crash_points"], distinct_nontrivial=res["distinct_step_shapes"],
               rule="one evaluation = one (script, crash model, crash operation index) triple; distinct = distinct shapes of the interrupted step "
                    "(kind, parameter change, aggregate commit, transactions, height, temp block, chain length, what the removed block carried, "
                    "temporary blocks present, parameter changes before)",
               samples=[json.loads(l) for l in lines[:3]], crash_points_by_step_kind=res["steps_by_kind"],
               crash_points_by_model=res["crash_points_by_model"], crash_points_by_facet=res["crash_points_by_facet"],
               scripts_by_facet=res["scripts_by_facet"], scripts_by_origin=res["scripts_by_origin"],
               recovered_pre_state=res["recovered_pre_state"], recovered_between_stages=res["recovered_between_stages"],
               recovered_post_state=res["recovered_post_state"], steps_redone_after_recovery=res["steps_redone_after_recovery"],
               crash_shapes_safe_and_controls=dict(controls=sorted("%s/%s" % c for c in control)),
               traces_validated_against_impl=len(lines), exhaustive=False)
    finish(ctx, LEVEL, cov, assumptions=[
        "pebble's batch write is atomic (one WAL record, torn tails are dropped at replay) and vfs.NewStrictMem models sync faithfully; two crash models: "
        "all unsynced bytes lost / everything written survives; partially persisted pages are not modelled",
        "revert diffs of heights at or below the stored finalized height and event records the node's KeepEventsForHeights setting allows to drop are "
        "not part of the compared state (the statement does not name their pruning)",
        "toy application keeps its state in memory and is rebuilt from the stored headers at restart (application crash atomicity is part of C16)"])
