"""C13 block commit and removal are crash-atomic.  Crash.tla: a step is prepare / durable writes / cache update with a
crash possible between any two sub-steps; AtomicRecovery holds for the one-batch shape and fails for shapes with a
separate write (control).  Binding: crash-point enumeration on the real node: for the last step (apply / delete, with and
without temp block, blocks with transactions, validator change, aggregate commit, finality advance) of TLC-generated Node
scripts every file-system write/sync operation index is used as a crash point on pebble's strict in-memory file system
(unsynced data lost), the node is restarted and the durable effects + recovery invariants are recorded; CrashTrace.tla
validates every record."""
import json, os, re
import common
from common import Inconclusive, finish, log
from props import c01, c03

LEVEL = "fault_enumeration"

def crash_part(ctx, name, traces, maxs, maxp, mode=None, report=None):
    """crash-point enumeration on the last step of TLC-generated Node scripts + CrashTrace.tla validation of every record;
    mode "fin": only steps that raise the finalized height (used by C04).  report(key, what, replay) receives violations."""
    binp = ctx.go_build("./cmd/c13")
    report = report or ctx.violation
    if ctx.replay:
        d = json.load(open(ctx.replay))["replay"]
        sf = ctx.path(name + "_replay.ndjson"); open(sf, "w").write(json.dumps(dict(script=d["script"])) + "\n")
    else:
        sf, n = c03.generate(ctx, name, traces, 14, ctx.seed + 7, DumpEvery=3)
    cf = ctx.path(name + "_cfg.json"); json.dump(dict(c03.HCFG, network=False, maxTxs=4 << 20), open(cf, "w"))
    of = ctx.path(name + "_res.json"); tf = ctx.path(name + "_trace.ndjson")
    p = ctx.run([binp, sf, cf, of, tf, str(maxs), str(maxp)] + ([mode] if mode else []), timeout=3000)
    if not os.path.exists(of):
        raise Inconclusive("c13 harness failed (rc=%d): %s" % (p.returncode, p.stderr[-1500:]))
    res = json.load(open(of))
    if res.get("harness_errors"):
        raise Inconclusive("c13 harness error: %s" % res["harness_errors"][:2])
    for v in res.get("violations") or []:
        report(v["key"], v["what"], v.get("replay"))
    lines = open(tf).read().splitlines()
    r = ctx.tlc("CrashTrace", "CrashTrace", workers=1, timeout=1200, files={"trace.ndjson": tf})
    if r["distinct"] - 1 != len(lines):
        raise Inconclusive("CrashTrace consumed %d of %d records" % (r["distinct"] - 1, len(lines)))
    mm = re.findall(r'<<"MISMATCH", (\d+), "([a-z-]+)", "(.*)">>', r["out"])
    reported = set(v["key"] for v in res.get("violations") or [])
    for ln, tag, detail in mm:
        e = json.loads(lines[int(ln) - 1])
        key = ("partial-step:" + e["kind"]) if tag == "partial-step" else ("recovery:" + e["kind"] + ":" + (e["inv"][0].split(":")[0] if e["inv"] else "?"))
        if key not in reported:
            report(key, "crash record rejected by CrashTrace.tla: %s" % json.dumps(e)[:400], dict(record=e))
    return res, lines, reported

def run(ctx):
    r1 = ctx.tlc("MCCrash", "Crash_onebatch", workers=2, timeout=300)
    if r1["violation"]:
        raise Inconclusive("Crash.tla: the one-batch shape violates AtomicRecovery at spec level")
    r2 = ctx.tlc("MCCrash", "Crash_diffseparate", workers=2, timeout=300, check=False)
    if not ctx.violations and (not r2["violation"]):
        raise Inconclusive("Crash.tla control (separate diff write) does not violate AtomicRecovery: model is vacuous")
    traces = 120 if ctx.tier == "quick" else 1200
    maxs, maxp = (250, 40) if ctx.tier == "quick" else (3000, 60)
    res, lines, reported = crash_part(ctx, "sim13", traces, maxs, maxp)
    log("[c13] scripts=%d crash points=%d by kind %s pre=%d post=%d violations=%s" % (res["scripts"], res["crash_points"], res["steps_by_kind"],
        res["recovered_pre_state"], res["recovered_post_state"], sorted(reported)))
    if not ctx.violations and (res["crash_points"] < 50 or res["recovered_post_state"] == 0 or res["recovered_pre_state"] == 0 or len(res["steps_by_kind"]) < 2):
        raise Inconclusive("crash points did not cover pre and post states of apply and delete: vacuous")
    ctx.states -= r2["distinct"]; ctx.transitions -= r2["generated"]
    cov = dict(evaluations=res["crash_points"], distinct_nontrivial=res["distinct_step_shapes"],
               rule="one evaluation = one (script, crash operation index) pair; distinct = distinct shapes of the interrupted step "
                    "(kind, parameter change, aggregate commit, transactions, height, temp block, chain length)",
               samples=[json.loads(l) for l in lines[:3]], crash_points_by_step_kind=res["steps_by_kind"],
               recovered_pre_state=res["recovered_pre_state"], recovered_post_state=res["recovered_post_state"],
               traces_validated_against_impl=len(lines), exhaustive=False)
    finish(ctx, LEVEL, cov, assumptions=[
        "pebble's batch write is atomic (WAL record) and vfs.NewStrictMem models sync faithfully: all unsynced bytes are lost, torn records are not modelled",
        "toy application keeps its state in memory and is rebuilt from the stored headers at restart (application crash atomicity is part of C16)"])
