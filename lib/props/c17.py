"""C17 P2P request/response: correct correlation, no lost replies, no deadlock.

Spec level   : spec/ReqResp.tla, model checked exhaustively (small numbers of concurrent calls x retry budget,
               late / duplicate responses, cancellation, send failures) for the implementation shape that the
               real code exhibits (RegisterFirst / DeliverUnderLock / Buffered / TrySend inferred from the hook
               events) and for the repaired shape.
Binding (B)  : harness/cmd/c17 runs two real p2p.Connections on loopback in one process; the five verif schedule
               points of message_protocol.go record (goroutine, seq, event, id).  Random concurrent traffic is
               validated line by line against ReqResp by spec/trace/ReqRespTrace.tla (one trace per round), and
               the real results are asserted directly (bounded completion, payload produced for THAT request id,
               VerifPending()==0 at quiescence).
Forced       : the hook is a scheduler gate; the two classic interleavings (response before registration; late
               response racing with the timeout path) are driven on the real code.  Verdicts come only from
               the real outcome; a schedule that cannot be established is inconclusive, never a violation."""
import json, os, re, threading
from concurrent.futures import ThreadPoolExecutor
import common
from common import Inconclusive, finish, log

LEVEL = "model_checking"
SAFE = dict(RegisterFirst=True, DeliverUnderLock=True, Buffered=True, TrySend=True)
INV_KEY = {"NoLostReply": "lost-reply:response-before-registration", "Correlated": "miscorrelated-response",
           "NoLeak": "pending-leak", "ResultSane": "trace-invariant:ResultSane"}
_lock = threading.Lock()


def B(x):
    return "TRUE" if x else "FALSE"


def cfg_text(base, **kw):
    """spec/cfg/<base>.cfg with the given constants replaced (`K = v` or `K <- v` lines)."""
    s = open(os.path.join(common.SPEC, "cfg", base + ".cfg")).read()
    for k, v in kw.items():
        s, n = re.subn(r"(?m)^(\s*%s\s*(=|<-)\s*).*$" % re.escape(k), lambda m: m.group(1) + str(v), s)
        if n != 1:
            raise Inconclusive("cfg key %s not found in %s" % (k, base))
    return s


def write_cfg(ctx, name, text):
    p = ctx.path(name + ".cfg")
    open(p, "w").write(text)
    return p


def shape_name(s):
    return "RF=%s/DUL=%s/BUF=%s/TRY=%s" % tuple(B(s[k])[0] for k in ("RegisterFirst", "DeliverUnderLock", "Buffered", "TrySend"))


# ------------------------------------------------------------------------------------------ model checking
def mc_cfg(base, shape, calls, retry, dupb, canfail=True, cancancel=True, invs=None):
    kw = dict(Calls="{" + ", ".join("c%d" % i for i in range(1, calls + 1)) + "}", MaxRetry=retry,
              MaxDup=1 if dupb else 0, DupBudget=dupb,
              CanFail="AllCalls" if canfail else "NoCalls", CanCancel="AllCalls" if cancancel else "NoCalls")
    for k, v in shape.items():
        kw[k] = B(v)
    text = cfg_text(base, **kw)
    if invs is not None:
        text, n = re.subn(r"(?m)^INVARIANTS.*$", "INVARIANTS " + " ".join(invs), text)
        if n != 1:
            raise Inconclusive("no INVARIANTS line in %s" % base)
    return text


def model_check(ctx, tag, shape, calls, retry, dupb, canfail=True, timeout=420, split=True):
    """Exhaustive safety check of one shape.  Returns dict(states, violated=[invariant names], runs=[...]).
    Invariants are checked in separate runs (TLC stops at the first violation), so that every property
    gets its own verdict and the full state count of the shape is measured by the run that holds."""
    groups = [["TypeOK", "Correlated", "ResultSane", "NoLeak"], ["NoLostReply"], ["NoDeadlock"]] if split else \
             [["TypeOK", "Correlated", "ResultSane", "NoLeak", "NoLostReply", "NoDeadlock"]]
    out = dict(shape=shape_name(shape), calls=calls, max_retry=retry, dup_budget=dupb, send_failures=canfail,
               violated=[], states=0, generated=0, complete=True, counterexamples={})
    for g in groups:
        cfg = write_cfg(ctx, "mc_%s_%s" % (tag, g[0]), mc_cfg("ReqResp_safety", shape, calls, retry, dupb, canfail, invs=g))
        r = ctx.tlc("MCReqResp", cfg, workers="auto", timeout=timeout)
        if r["violation"]:
            names = re.findall(r"Invariant (\w+) is violated", r["out"])
            if not names:
                raise Inconclusive("TLC reported an error that is not an invariant violation (%s): %s" % (tag, r["outpath"]))
            out["violated"] += names
            steps = re.findall(r"^State \d+: <(.*?) line \d+", r["out"], re.M)
            out["counterexamples"][names[0]] = steps[:40]
        else:
            out["states"] = max(out["states"], r["distinct"])
            out["generated"] = max(out["generated"], r["generated"])
    return out


def liveness(ctx, tag, shape, calls, retry, dupb, timeout=300):
    cfg = write_cfg(ctx, "live_%s" % tag, mc_cfg("ReqResp_live", shape, calls, retry, dupb))
    r = ctx.tlc("MCReqResp", cfg, workers="auto", timeout=timeout)
    return dict(shape=shape_name(shape), calls=calls, max_retry=retry, dup_budget=dupb, states=r["distinct"],
                holds=not r["violation"], properties=["Terminates", "EveryCallReturns"])


# ------------------------------------------------------------------------------------------ trace validation
def trace_cfg(shape, tail=False):
    kw = dict(FreeTail=B(tail))
    for k, v in shape.items():
        kw[k] = B(v)
    return cfg_text("ReqRespTrace", **kw)


def validate_trace(ctx, path, shape, tail=False, tag="t"):
    """One TLC run over one ndjson trace.  Returns dict(lines, accepted, inv=[(name,line)], deadlock(bool))."""
    lines = open(path).read().splitlines()
    with _lock:
        cfg = write_cfg(ctx, "trace_%s" % tag, trace_cfg(shape, tail))
    r = ctx.tlc("ReqRespTrace", cfg, workers=1, timeout=900, files={"trace.ndjson": path}, check=False)
    if r["error"]:
        raise Inconclusive("TLC failed on trace %s: %s\n%s" % (path, r["error"], "\n".join(r["out"].splitlines()[-15:])))
    out = r["out"]
    m = re.findall(r'<<"ACCEPTED", (\d+), (\d+)>>', out)
    inv = sorted(set((a, int(b)) for a, b in re.findall(r'<<"INV", "(\w+)", (\d+)>>', out)))
    res = dict(lines=len(lines), inv=inv, deadlock=False, accepted=None, states=r["distinct"], rejected=None)
    if r["violation"]:
        names = re.findall(r"Invariant (\w+) is violated", out)
        if names == ["NoDeadlock"] or "NoDeadlock" in names:
            res["deadlock"] = True
            ls = [int(x) for x in re.findall(r"^/\\ l = (\d+)", out, re.M)]
            res["accepted"] = (max(ls) - 1) if ls else 0
        else:
            raise Inconclusive("TLC error while validating %s: %s" % (path, r["outpath"]))
    elif m:
        res["accepted"] = int(m[-1][0])
    else:
        raise Inconclusive("no ACCEPTED line in TLC output for %s (%s)" % (path, r["outpath"]))
    if res["accepted"] < len(lines) and not res["deadlock"]:
        ln = res["accepted"] + 1
        ev = json.loads(lines[ln - 1])
        res["rejected"] = dict(line=ln, event=ev, context=[json.loads(x) for x in lines[max(0, ln - 12):ln]])
    return res


def candidates(shape):
    """Variants to try for a partially known shape (None = not observable in this run)."""
    out = [{}]
    for k in ("RegisterFirst", "DeliverUnderLock", "Buffered"):
        vals = [shape[k]] if shape.get(k) is not None else ([False, True] if k != "DeliverUnderLock" else [True, False])
        out = [dict(o, **{k: v}) for o in out for v in vals]
    res = []
    for o in out:
        if o["Buffered"]:
            res.append(dict(o, TrySend=True)); res.append(dict(o, TrySend=False))
        else:
            res.append(dict(o, TrySend=False))
    return res


# ------------------------------------------------------------------------------------------ harness
def run_forced(ctx, binp, scenario, tms):
    tr = ctx.path("forced_%s.ndjson" % scenario); rs = ctx.path("forced_%s.json" % scenario)
    p = ctx.run([binp, scenario, tr, rs, str(tms)], timeout=240)
    if not os.path.exists(rs):
        raise Inconclusive("forced scenario %s wrote no result: rc=%d %s" % (scenario, p.returncode, p.stderr[-800:]))
    d = json.load(open(rs))
    if p.returncode != 0 or d.get("setup_error"):
        raise Inconclusive("forced scenario %s: set-up failure (libp2p hosts): %s %s" % (scenario, d.get("setup_error"), p.stderr[-500:]))
    d["trace"] = tr if os.path.exists(tr) else None
    return d


def run_traffic(ctx, binp, tag, seed, rounds, workers, per, tms):
    pre = ctx.path("traffic_%s" % tag); meta = ctx.path("traffic_%s.json" % tag)
    p = ctx.run([binp, "traffic", pre, meta, str(rounds), str(workers), str(per), str(tms)], env={"VERIF_SEED": str(seed)},
                timeout=120 + rounds * 30)
    if not os.path.exists(meta):
        raise Inconclusive("traffic driver wrote no result: rc=%d %s" % (p.returncode, p.stderr[-800:]))
    d = json.load(open(meta))
    if p.returncode != 0 or d.get("setup_error"):
        raise Inconclusive("traffic driver: set-up failure (libp2p hosts): %s %s" % (d.get("setup_error"), p.stderr[-500:]))
    d["args"] = dict(seed=seed, rounds=rounds, workers=workers, per_worker=per, timeout_ms=tms)
    return d


def forced_replay(d):
    return dict(scenario=d["scenario"], timeout_ms=d["timeout_ms"], schedule=d.get("schedule"), events=d.get("events"),
                attempts=d.get("attempts"), call=d.get("call"), fresh_call=d.get("fresh_call"), dump=d.get("dump"))


def report_forced(ctx, d):
    if d.get("violation"):
        ctx.violation(d["violation"], d["what"], forced_replay(d))
        return "violation"
    if not d.get("established"):
        return "inconclusive"
    return "ok"


# ------------------------------------------------------------------------------------------ driver
def run(ctx):
    binp = ctx.go_build("./cmd/c17")
    quick = ctx.tier == "quick"
    if ctx.replay:
        rp = json.load(open(ctx.replay))["replay"]
        if rp.get("scenario") in ("lost", "deadlock"):
            d = run_forced(ctx, binp, rp["scenario"], rp.get("timeout_ms", 300))
            st = report_forced(ctx, d)
            if st == "inconclusive":
                raise Inconclusive("forced schedule could not be established: %s" % d.get("why_not_established"))
            finish(ctx, LEVEL, dict(traces_validated_against_impl=0, samples=(d.get("events") or [])[:12], forced=st))
        a = rp.get("args") or dict(seed=ctx.seed, rounds=4, workers=8, per_worker=4, timeout_ms=100)
        t = run_traffic(ctx, binp, "replay", a["seed"], a["rounds"], a["workers"], a["per_worker"], a["timeout_ms"])
        for f in t.get("findings") or []:
            ctx.violation(f["key"], f["what"], dict(scenario="traffic", args=a, detail=f.get("detail")))
        finish(ctx, LEVEL, dict(traces_validated_against_impl=0, samples=t.get("samples") or [], calls=t["calls"]))

    # ---- (ii) forced schedules on the real code (before anything CPU-heavy runs)
    def forced_with_retries(scenario):
        # a schedule that could not be established (the machine was too busy for the hooks' rendezvous) says nothing: try again
        for attempt in range(4):
            d = run_forced(ctx, binp, scenario, 300 + 200 * attempt)
            if d.get("violation") or d.get("established"):
                return d
            log("[c17] forced %s not established (%s), attempt %d" % (scenario, d.get("why_not_established"), attempt + 1))
        return d
    lost = forced_with_retries("lost")
    dl = forced_with_retries("deadlock")
    forced = {}
    for d in (lost, dl):
        forced[d["scenario"]] = report_forced(ctx, d)
        log("[c17] forced %-8s: %s%s" % (d["scenario"], forced[d["scenario"]],
                                          (" (" + (d.get("violation") or d.get("why_not_established") or "") + ")") if forced[d["scenario"]] != "ok" else ""))

    # ---- (i) random concurrent traffic
    plan = [(100, 6)] if quick else [(50, 9), (100, 9), (200, 6)]
    runs = []
    for i, (tms, rounds) in enumerate(plan):
        t = run_traffic(ctx, binp, "r%d" % i, ctx.seed * 100 + i, rounds, 8, 4, tms)
        runs.append(t)
        for f in t.get("findings") or []:
            ctx.violation(f["key"], f["what"], dict(scenario="traffic", args=t["args"], detail=f.get("detail")))
        log("[c17] traffic T=%dms: %d/%d rounds, %d calls, %d lines, findings=%s" % (
            tms, t["rounds_done"], t["rounds"], t["calls"], t["lines"], sorted(set(f["key"] for f in t.get("findings") or []))))
    stats = {}
    for t in runs:
        for k, v in t["stats"].items():
            stats[k] = stats.get(k, 0) + v
    traces = [x for t in runs for x in t.get("traces") or []]

    # ---- shape of the implementation, as exhibited by the recorded events
    shape = dict(RegisterFirst=None, DeliverUnderLock=None, Buffered=None)
    if stats.get("RegisterBeforeSend", 0) + stats.get("SendBeforeRegister", 0) > 0:
        if stats.get("RegisterBeforeSend", 0) and stats.get("SendBeforeRegister", 0):
            raise Inconclusive("attempts both register-before-send and send-before-register: shape not uniform")
        shape["RegisterFirst"] = stats.get("RegisterBeforeSend", 0) > 0
    elif "register_first" in (lost.get("shape") or {}):
        shape["RegisterFirst"] = lost["shape"]["register_first"]
    if stats.get("HeldAtDeliver", 0) + stats.get("FreeAtDeliver", 0) > 0:
        shape["DeliverUnderLock"] = stats.get("FreeAtDeliver", 0) == 0
    elif "deliver_under_lock" in (dl.get("shape") or {}):
        shape["DeliverUnderLock"] = dl["shape"]["deliver_under_lock"]
    if "buffered_or_nonblocking_send" in (dl.get("shape") or {}):
        shape["Buffered"] = dl["shape"]["buffered_or_nonblocking_send"]
    cands = candidates(shape)
    log("[c17] observed shape %s -> candidate variants %s" % (shape, [shape_name(c) for c in cands]))

    # ---- trace validation, one TLC run per round, in parallel
    def val(job):
        i, tf = job
        last = None
        for ci, c in enumerate(cands):
            r = validate_trace(ctx, tf["file"], c, tag="%d_%d" % (i, ci))
            r["variant"] = c
            if r["accepted"] == r["lines"] and not r["deadlock"]:
                return r
            last = last or r
        return last
    with ThreadPoolExecutor(max_workers=8) as ex:
        vres = list(ex.map(val, list(enumerate(traces))))
    accepted = 0; lines_ok = 0; used = {}
    for tf, r in zip(traces, vres):
        used[shape_name(r["variant"])] = used.get(shape_name(r["variant"]), 0) + 1
        if r["deadlock"]:
            ctx.violation("deadlock:spec-state-without-successor", "a state reached by the real code (trace %s, line %d) has no successor in ReqResp although calls are unfinished" % (
                os.path.basename(tf["file"]), r["accepted"]), dict(scenario="traffic", trace=[json.loads(x) for x in open(tf["file"]).read().splitlines()[:r["accepted"] + 1]][-60:]))
            continue
        if r["rejected"]:
            rj = r["rejected"]
            ctx.violation("trace-rejected:" + rj["event"]["ev"],
                          "the real code took a step that ReqResp (variant %s) does not allow: line %d %s" % (shape_name(r["variant"]), rj["line"], json.dumps(rj["event"])),
                          dict(scenario="traffic", line=rj["line"], context=rj["context"], variant=r["variant"]))
            continue
        accepted += 1; lines_ok += r["lines"]
        all_lines = None
        for name, ln in r["inv"]:
            all_lines = all_lines or open(tf["file"]).read().splitlines()
            ctx.violation(INV_KEY.get(name, "trace-invariant:" + name),
                          "%s is false in a state reached by the real code under random traffic (trace line %d: %s)" % (name, ln, all_lines[ln - 1][:200]),
                          dict(scenario="traffic", invariant=name, line=ln, context=[json.loads(x) for x in all_lines[max(0, ln - 10):ln + 3]]))
    log("[c17] trace validation: %d/%d rounds accepted (%d lines), variants used %s" % (accepted, len(traces), lines_ok, used))
    variant = vres[0]["variant"] if vres else cands[0]

    # forced traces: does the specification of the observed variant agree with the real run?
    spec_agrees = {}
    for d in (lost, dl):
        if d.get("trace") and d.get("lines", 0) > 1:
            r = validate_trace(ctx, d["trace"], variant, tail=True, tag="forced_" + d["scenario"])
            spec_agrees[d["scenario"]] = dict(lines=r["lines"], accepted=r["accepted"], invariants_false=[list(x) for x in r["inv"]],
                                              every_continuation_checked=True, NoDeadlock_violated=r["deadlock"])
    log("[c17] forced traces against the spec: %s" % json.dumps(spec_agrees))

    # ---- model checking: the variant the code follows, and the safe variant
    mc = []
    cfgs = [(2, 1, 1, True)] if quick else [(2, 1, 1, True), (2, 2, 1, True), (3, 1, 0, False)]   # 3x2: > 12M states, outside the tier budget
    for calls, retry, dupb, canfail in cfgs:
        tag = "%dx%d" % (calls, retry)
        a = model_check(ctx, "obs_" + tag, variant, calls, retry, dupb, canfail); a["role"] = "observed"
        mc.append(a)
        if variant != SAFE:
            b = model_check(ctx, "safe_" + tag, SAFE, calls, retry, dupb, canfail, split=False); b["role"] = "safe"
            mc.append(b)
        log("[c17] TLC %s: observed %s states=%d violated=%s | safe %s" % (tag, a["shape"], a["states"], a["violated"],
            "states=%d violated=%s" % (mc[-1]["states"], mc[-1]["violated"]) if variant != SAFE else "(same)"))
    partial = []
    if not quick and variant != SAFE:
        for s in (dict(SAFE, Buffered=False, TrySend=False), dict(SAFE, RegisterFirst=False), dict(SAFE, TrySend=False)):
            partial.append(model_check(ctx, "part_" + shape_name(s).replace("/", "").replace("=", ""), s, 2, 1, 1))
    lv = liveness(ctx, "safe", SAFE, 2, 1, 0 if quick else 1)
    safe_bad = [m for m in mc if m["role"] == "safe" and m["violated"]]
    if safe_bad or not lv["holds"]:
        raise Inconclusive("the SAFE variant of ReqResp violates %s - specification problem, not a verdict on the code" % (
            safe_bad[0]["violated"] if safe_bad else "liveness"))

    # ---- verdict bookkeeping
    keys = set(k for k, _, _ in ctx.violations)
    spec_viol = set(v for m in mc if m["role"] == "observed" for v in m["violated"])
    notes = []
    if "NoLostReply" in spec_viol and not any(k.startswith("lost-reply") for k in keys):
        notes.append("TLC: NoLostReply violated for the observed variant, not reproduced on the real code (forced lost: %s)" % forced["lost"])
    if "NoDeadlock" in spec_viol and not any(k.startswith("deadlock") for k in keys):
        notes.append("TLC: NoDeadlock violated for the observed variant, not reproduced on the real code (forced deadlock: %s)" % forced["deadlock"])
    for sc, st in forced.items():
        if st == "inconclusive":
            d = lost if sc == "lost" else dl
            notes.append("forced schedule '%s' could not be established: %s" % (sc, d.get("why_not_established")))
    rounds_planned = sum(t["rounds"] for t in runs)
    rounds_done = sum(t["rounds_done"] for t in runs)
    if stats.get("Timers", 0) == 0 or stats.get("Found", 0) == 0 or stats.get("LateMiss", 0) == 0 or stats.get("Cancel", 0) == 0:
        notes.append("random traffic was vacuous (timers=%d delivered=%d late=%d cancels=%d)" % (
            stats.get("Timers", 0), stats.get("Found", 0), stats.get("LateMiss", 0), stats.get("Cancel", 0)))
    if rounds_done == 0:
        notes.append("no traffic round completed")
    cov = dict(
        traces_validated_against_impl=accepted + sum(1 for v in spec_agrees.values() if v["accepted"] == v["lines"]),
        trace_rounds=dict(planned=rounds_planned, completed=rounds_done, abandoned_after_hang=sum(t.get("rounds_abandoned", 0) for t in runs),
                          accepted_by_tlc=accepted, lines_accepted=lines_ok),
        samples=(runs[0].get("samples") or [])[:6] if runs else [],
        observed_shape=shape, variant_validated=shape_name(variant),
        real_calls=sum(t["calls"] for t in runs), attempts=stats.get("Attempts", 0), timers_fired=stats.get("Timers", 0),
        responses_handled=stats.get("Locked", 0), delivered=stats.get("Found", 0), misses=stats.get("Miss", 0),
        late_or_duplicate_misses=stats.get("LateMiss", 0), duplicates_injected=stats.get("Dups", 0),
        responses_before_send_returned=stats.get("EarlyLocked", 0),
        results=dict(resp=stats.get("Resp", 0), timeout=stats.get("Timeout", 0), cancel=stats.get("Cancel", 0), error=stats.get("Error", 0)),
        max_call_duration_ms=max([t["max_call_duration_us"] for t in runs] + [0]) // 1000,
        duration_bound_ms=[t["duration_bound_us"] // 1000 for t in runs],
        pending_checks_at_quiescence=sum(t["pending_checks"] for t in runs),
        forced_schedules=dict(
            lost=dict(status=forced["lost"], established=lost.get("established"), attempts=lost.get("attempts"), call=lost.get("call")),
            deadlock=dict(status=forced["deadlock"], established=dl.get("established"), attempts=dl.get("attempts"),
                          call_returned=not (dl.get("call") or {}).get("Hung"), fresh_call_returned=not (dl.get("fresh_call") or {}).get("Hung"),
                          dump=dl.get("dump"))),
        forced_traces_vs_spec=spec_agrees,
        model_checking=[{k: v for k, v in m.items() if k != "counterexamples"} for m in mc],
        model_counterexamples={m["shape"] + " %dx%d" % (m["calls"], m["max_retry"]): m["counterexamples"] for m in mc if m["counterexamples"]},
        partial_fix_variants=[{k: v for k, v in m.items() if k != "counterexamples"} for m in partial],
        liveness=lv, exhaustive=True, notes=notes)
    assumptions = [
        "the remote peer, its handler latency and the network are environment in ReqResp: a response may arrive at any time after the send, or be duplicated",
        "register / unregister critical sections of the requester are atomic in the model (they contain no blocking operation)",
        "events logged under resMu (req.registered, res.locked, res.beforeDeliver) are totally ordered as executed; steps without a schedule point (receive, unlock, unregister) are silent in the trace specification",
        "exhaustive model checking covers 2-3 concurrent calls x retry budget 1-2; the real code runs with messageMaxRetries=3 and 8 concurrent callers",
    ]
    for n in notes:
        log("[c17] NOTE " + n)
    if notes and not ctx.violations:
        raise Inconclusive("; ".join(notes))
    finish(ctx, LEVEL, cov, assumptions)
