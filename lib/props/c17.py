"""C17 P2P request/response: correct correlation, no lost replies, no deadlock.

Spec level   : spec/ReqResp.tla, model checked exhaustively (small numbers of concurrent calls x retry budget,
               late / duplicate responses, cancellation, send failures) for the implementation shape that the
               real code exhibits (RegisterFirst / DeliverUnderLock / Buffered / TrySend inferred from the hook
               events) and for the repaired shape.
Binding (B)  : harness/cmd/c17 runs two real p2p.Connections on loopback in one process; the five verif schedule
               points of message_protocol.go record (goroutine, seq, event, id).  Random concurrent traffic is
               validated line by line against ReqResp by spec/trace/ReqRespTrace.tla (one trace per round), and
               the real results are asserted directly (bounded completion, payload produced for THAT request id,
               VerifPending()==0 at quiescence).
Forced       : the hook is a scheduler gate; the classic interleavings (response before registration; late
               response racing with the timeout path; cancellation at the delivery point) are driven on the real
               code, plus directed scenarios: a peer that accepts TCP and never speaks (is resMu held across
               mp.send? shape constant SendUnderLock, Stall in ReqResp), failing sends under a watchdog, and the
               payload domain (nil ... 5 MiB echoed, nil / empty / error replies).  Verdicts come only from
               the real outcome; a schedule that cannot be established is inconclusive, never a violation.
Traffic      : one profile per round: plain+rate limit, symmetric (both hosts request and answer, second responder,
               handlers that issue a request of their own), failing sends and black-holed peers inside the
               traffic, handler-error / empty replies, a burst of 64 simultaneous callers, connection loss /
               Stop while requests wait.  The trace specification also decides NoVanishedReply (a reply the remote
               handler produced reaches the lookup) and TimerNotEarly (per-attempt timer vs configured timeout)."""
import json, os, re, threading
from concurrent.futures import ThreadPoolExecutor
import common
from common import Inconclusive, finish, log

LEVEL = "model_checking"
SAFE = dict(RegisterFirst=True, DeliverUnderLock=True, Buffered=True, TrySend=True, SendUnderLock=False)
INV_KEY = {"NoLostReply": "lost-reply:response-before-registration", "Correlated": "miscorrelated-response",
           "NoLeak": "pending-leak", "ResultSane": "trace-invariant:ResultSane",
           "NoVanishedReply": "lost-reply:response-never-reached-lookup", "TimerNotEarly": "lost-reply:timer-early"}
FORCED = ("lost", "deadlock", "cancelrace", "blackhole", "payload")
QUICK_PROFILES = ["limit", "sym", "fail", "err", "burst", "stop"]
THOROUGH_PROFILES = ["plain", "limit", "sym", "fail", "err", "burst", "stop", "sym", "err"]
_lock = threading.Lock()


def B(x):
    return "TRUE" if x else "FALSE"


def cfg_text(base, **kw):
    """spec/cfg/<base>.cfg with the given constants replaced (`K = v` or `K <- v` lines)."""
    s = open(os.path.join(common.SPEC, "cfg", base + ".cfg")).read()
    for k, v in kw.items():
        s, n = re.subn(r"(?m)^(\s*%s\s*(=|<-)\s*).*$" % re.escape(k), lambda m: m.group(1) + str(v), s)
        if n != 1:
            raise Inconclusive("cfg key %s not found in %s" % (k, base))
    return s


def write_cfg(ctx, name, text):
    p = ctx.path(name + ".cfg")
    open(p, "w").write(text)
    return p


def shape_name(s):
    n = "RF=%s/DUL=%s/BUF=%s/TRY=%s" % tuple(B(s[k])[0] for k in ("RegisterFirst", "DeliverUnderLock", "Buffered", "TrySend"))
    return n + ("/SUL=T" if s.get("SendUnderLock") else "")


# ------------------------------------------------------------------------------------------ model checking
def mc_cfg(base, shape, calls, retry, dupb, canfail=True, cancancel=True, invs=None):
    kw = dict(Calls="{" + ", ".join("c%d" % i for i in range(1, calls + 1)) + "}", MaxRetry=retry,
              MaxDup=1 if dupb else 0, DupBudget=dupb,
              CanFail="AllCalls" if canfail else "NoCalls", CanCancel="AllCalls" if cancancel else "NoCalls")
    for k, v in shape.items():
        kw[k] = B(v)
    text = cfg_text(base, **kw)
    if invs is not None:
        text, n = re.subn(r"(?m)^INVARIANTS.*$", "INVARIANTS " + " ".join(invs), text)
        if n != 1:
            raise Inconclusive("no INVARIANTS line in %s" % base)
    return text


def model_check(ctx, tag, shape, calls, retry, dupb, canfail=True, timeout=420, split=True):
    """Exhaustive safety check of one shape.  Returns dict(states, violated=[invariant names], runs=[...]).
    Invariants are checked in separate runs (TLC stops at the first violation), so that every property
    gets its own verdict and the full state count of the shape is measured by the run that holds."""
    groups = [["TypeOK", "Correlated", "ResultSane", "NoLeak"], ["NoLostReply"], ["NoDeadlock"]] if split else \
             [["TypeOK", "Correlated", "ResultSane", "NoLeak", "NoLostReply", "NoDeadlock"]]
    out = dict(shape=shape_name(shape), calls=calls, max_retry=retry, dup_budget=dupb, send_failures=canfail,
               violated=[], states=0, generated=0, complete=True, counterexamples={})
    for g in groups:
        cfg = write_cfg(ctx, "mc_%s_%s" % (tag, g[0]), mc_cfg("ReqResp_safety", shape, calls, retry, dupb, canfail, invs=g))
        r = ctx.tlc("MCReqResp", cfg, workers="auto", timeout=timeout)
        if r["violation"]:
            names = re.findall(r"Invariant (\w+) is violated", r["out"])
            if not names:
                raise Inconclusive("TLC reported an error that is not an invariant violation (%s): %s" % (tag, r["outpath"]))
            out["violated"] += names
            steps = re.findall(r"^State \d+: <(.*?) line \d+", r["out"], re.M)
            out["counterexamples"][names[0]] = steps[:40]
        else:
            out["states"] = max(out["states"], r["distinct"])
            out["generated"] = max(out["generated"], r["generated"])
    return out


def model_check_stall(ctx, tag, shape, calls, timeout=420):
    """One call's send blocks in the network for ever (Stall), another call carries a deadline (CanGiveUp): the layer must
    not be blocked by the stalled call (NoDeadlock quantifies over the others).  No symmetry."""
    kw = dict(Calls="{" + ", ".join("c%d" % i for i in range(1, calls + 1)) + "}")
    for k, v in shape.items():
        kw[k] = B(v)
    cfg = write_cfg(ctx, "mc_stall_%s" % tag, cfg_text("ReqResp_stall", **kw))
    r = ctx.tlc("MCReqResp", cfg, workers=4, timeout=timeout)
    out = dict(shape=shape_name(shape), calls=calls, max_retry=1, dup_budget=0, send_failures=True, stalled_calls=1, deadline_calls=1,
               violated=re.findall(r"Invariant (\w+) is violated", r["out"]) if r["violation"] else [], states=r["distinct"],
               generated=r["generated"], complete=True, counterexamples={})
    if r["violation"] and not out["violated"]:
        raise Inconclusive("TLC reported an error that is not an invariant violation (stall %s): %s" % (tag, r["outpath"]))
    if out["violated"]:
        out["counterexamples"][out["violated"][0]] = re.findall(r"^State \d+: <(.*?) line \d+", r["out"], re.M)[:40]
    return out


def liveness(ctx, tag, shape, calls, retry, dupb, timeout=300):
    cfg = write_cfg(ctx, "live_%s" % tag, mc_cfg("ReqResp_live", shape, calls, retry, dupb))
    r = ctx.tlc("MCReqResp", cfg, workers="auto", timeout=timeout)
    return dict(shape=shape_name(shape), calls=calls, max_retry=retry, dup_budget=dupb, states=r["distinct"],
                holds=not r["violation"], properties=["Terminates", "EveryCallReturns"])


# ------------------------------------------------------------------------------------------ trace validation
def trace_cfg(shape, tail=False):
    kw = dict(FreeTail=B(tail))
    for k, v in shape.items():
        kw[k] = B(v)
    return cfg_text("ReqRespTrace", **kw)


def validate_trace(ctx, path, shape, tail=False, tag="t"):
    """One TLC run over one ndjson trace.  Returns dict(lines, accepted, inv=[(name,line)], deadlock(bool))."""
    lines = open(path).read().splitlines()
    with _lock:
        cfg = write_cfg(ctx, "trace_%s" % tag, trace_cfg(shape, tail))
    r = ctx.tlc("ReqRespTrace", cfg, workers=1, timeout=900, files={"trace.ndjson": path}, check=False)
    if r["error"]:
        raise Inconclusive("TLC failed on trace %s: %s\n%s" % (path, r["error"], "\n".join(r["out"].splitlines()[-15:])))
    out = r["out"]
    m = re.findall(r'<<"ACCEPTED", (\d+), (\d+)>>', out)
    inv = sorted(set((a, int(b)) for a, b in re.findall(r'<<"INV", "(\w+)", (\d+)>>', out)))
    res = dict(lines=len(lines), inv=inv, deadlock=False, accepted=None, states=r["distinct"], rejected=None)
    if r["violation"]:
        names = re.findall(r"Invariant (\w+) is violated", out)
        if names == ["NoDeadlock"] or "NoDeadlock" in names:
            res["deadlock"] = True
            ls = [int(x) for x in re.findall(r"^/\\ l = (\d+)", out, re.M)]
            res["accepted"] = (max(ls) - 1) if ls else 0
        else:
            raise Inconclusive("TLC error while validating %s: %s" % (path, r["outpath"]))
    elif m:
        res["accepted"] = int(m[-1][0])
    else:
        raise Inconclusive("no ACCEPTED line in TLC output for %s (%s)" % (path, r["outpath"]))
    if res["accepted"] < len(lines) and not res["deadlock"]:
        ln = res["accepted"] + 1
        ev = json.loads(lines[ln - 1])
        res["rejected"] = dict(line=ln, event=ev, context=[json.loads(x) for x in lines[max(0, ln - 12):ln]])
    return res


def candidates(shape):
    """Variants to try for a partially known shape (None = not observable in this run)."""
    out = [dict(SendUnderLock=bool(shape.get("SendUnderLock")))]
    for k in ("RegisterFirst", "DeliverUnderLock", "Buffered"):
        vals = [shape[k]] if shape.get(k) is not None else ([False, True] if k != "DeliverUnderLock" else [True, False])
        out = [dict(o, **{k: v}) for o in out for v in vals]
    res = []
    for o in out:
        if o["Buffered"]:
            res.append(dict(o, TrySend=True)); res.append(dict(o, TrySend=False))
        else:
            res.append(dict(o, TrySend=False))
    return res


# ------------------------------------------------------------------------------------------ harness
def run_forced(ctx, binp, scenario, tms):
    tr = ctx.path("forced_%s.ndjson" % scenario); rs = ctx.path("forced_%s.json" % scenario)
    p = ctx.run([binp, scenario, tr, rs, str(tms)], timeout=240)
    if not os.path.exists(rs):
        raise Inconclusive("forced scenario %s wrote no result: rc=%d %s" % (scenario, p.returncode, p.stderr[-800:]))
    d = json.load(open(rs))
    if p.returncode != 0 or d.get("setup_error"):
        raise Inconclusive("forced scenario %s: set-up failure (libp2p hosts): %s %s" % (scenario, d.get("setup_error"), p.stderr[-500:]))
    d["trace"] = tr if os.path.exists(tr) else None
    return d


def run_traffic(ctx, binp, tag, seed, rounds, workers, per, tms):
    """rounds: a list of profile names (or, in older replay files, a number of plain rounds)."""
    pre = ctx.path("traffic_%s" % tag); meta = ctx.path("traffic_%s.json" % tag)
    profs = ",".join(rounds) if isinstance(rounds, (list, tuple)) else str(rounds)
    nr = len(rounds) if isinstance(rounds, (list, tuple)) else int(rounds)
    p = ctx.run([binp, "traffic", pre, meta, profs, str(workers), str(per), str(tms)], env={"VERIF_SEED": str(seed)},
                timeout=240 + nr * 60)
    if not os.path.exists(meta):
        raise Inconclusive("traffic driver wrote no result: rc=%d %s" % (p.returncode, p.stderr[-800:]))
    d = json.load(open(meta))
    if p.returncode != 0 or d.get("setup_error"):
        raise Inconclusive("traffic driver: set-up failure (libp2p hosts): %s %s" % (d.get("setup_error"), p.stderr[-500:]))
    d["args"] = dict(seed=seed, rounds=rounds, workers=workers, per_worker=per, timeout_ms=tms)
    return d


def forced_replay(d):
    return dict(scenario=d["scenario"], timeout_ms=d["timeout_ms"], schedule=d.get("schedule"), events=d.get("events"),
                attempts=d.get("attempts"), call=d.get("call"), fresh_call=d.get("fresh_call"), dump=d.get("dump"),
                other_calls=d.get("other_calls"), coverage=d.get("coverage"))


def report_forced(ctx, d):
    if d.get("violation"):
        ctx.violation(d["violation"], d["what"], forced_replay(d))
        return "violation"
    if not d.get("established"):
        return "inconclusive"
    return "ok"


# ------------------------------------------------------------------------------------------ driver
FORCED_T = dict(lost=(300, 200), deadlock=(300, 200), cancelrace=(300, 200), blackhole=(100, 0), payload=(3000, 3000))


def vacuity(stats, per, profiles, forced_d):
    """Non-vacuity of everything the traffic profiles and directed scenarios are there for: a run in which a scenario never
    happened is inconclusive, not a pass."""
    notes = []
    g = lambda prof, k: (per.get(prof) or {}).get(k, 0)
    if stats.get("Timers", 0) == 0 or stats.get("Found", 0) == 0 or stats.get("LateMiss", 0) == 0 or stats.get("Cancel", 0) == 0:
        notes.append("random traffic was vacuous (timers=%d delivered=%d late=%d cancels=%d)" % (
            stats.get("Timers", 0), stats.get("Found", 0), stats.get("LateMiss", 0), stats.get("Cancel", 0)))
    if stats.get("Responded", 0) == 0:
        notes.append("no handler return was logged (NoVanishedReply vacuous)")
    if stats.get("TimersMeasured", 0) == 0:
        notes.append("no attempt timer was measured")
    need = {
        "limit": [("Responded", 11, "fewer replies than the rate limit of 10: the limit never bit")],
        "sym": [("CallsFromB", 1, "host B made no request"), ("Found@A", 1, "no reply delivered on host A"),
                ("Found@B", 1, "no reply delivered on host B"), ("SecondResponderReplies", 1, "the second responder answered nothing"),
                ("NestedResp", 1, "no handler's own request was answered")],
        "fail": [("FailedSends", 1, "no failing send inside the traffic"), ("BlackholeCalls", 1, "no request to the black-holed address")],
        "err": [("HandlerErrorDelivered", 1, "no handler-error reply delivered"), ("EmptyReplyDelivered", 1, "no empty reply delivered"),
                ("NilRequestAnswered", 1, "no nil request answered")],
        "burst": [("BurstCallers", 64, "burst smaller than 64 callers"), ("Found", 1, "nothing delivered in the burst")],
        "stop": [("StopRounds", 1, "no connection-loss round"), ("PendingWhenConnectionClosed", 1, "no request was waiting when the connection was closed")],
    }
    for prof in set(profiles):
        if prof not in per:
            notes.append("profile %s: no round completed" % prof)
            continue
        for k, mn, what in need.get(prof, []):
            if g(prof, k) < mn:
                notes.append("profile %s vacuous: %s (%s=%d)" % (prof, what, k, g(prof, k)))
    pl = forced_d.get("payload") or {}
    na = (pl.get("coverage") or {}).get("not_answered")
    if pl.get("established") and na:
        notes.append("payload scenario: some payloads were never echoed although the call returned (%s) - request lost on the way to the handler?" % na)
    return notes


def run(ctx):
    binp = ctx.go_build("./cmd/c17")
    quick = ctx.tier == "quick"
    if ctx.replay:
        rp = json.load(open(ctx.replay))["replay"]
        if rp.get("scenario") in FORCED:
            d = run_forced(ctx, binp, rp["scenario"], rp.get("timeout_ms", 300))
            st = report_forced(ctx, d)
            if st == "inconclusive":
                raise Inconclusive("forced schedule could not be established: %s" % d.get("why_not_established"))
            finish(ctx, LEVEL, dict(traces_validated_against_impl=0, samples=(d.get("events") or [])[:12], forced=st))
        a = rp.get("args") or dict(seed=ctx.seed, rounds=QUICK_PROFILES, workers=8, per_worker=4, timeout_ms=100)
        t = run_traffic(ctx, binp, "replay", a["seed"], a["rounds"], a["workers"], a["per_worker"], a["timeout_ms"])
        for f in t.get("findings") or []:
            ctx.violation(f["key"], f["what"], dict(scenario="traffic", args=a, detail=f.get("detail")))
        finish(ctx, LEVEL, dict(traces_validated_against_impl=0, samples=t.get("samples") or [], calls=t["calls"]))

    # ---- (ii) forced schedules and directed scenarios on the real code (before anything CPU-heavy runs)
    def forced_with_retries(scenario):
        # a schedule that could not be established (the machine was too busy for the hooks' rendezvous) says nothing: try again
        t0, step = FORCED_T[scenario]
        for attempt in range(4):
            d = run_forced(ctx, binp, scenario, t0 + step * attempt)
            if d.get("violation") or d.get("established"):
                return d
            log("[c17] forced %s not established (%s), attempt %d" % (scenario, d.get("why_not_established"), attempt + 1))
        return d
    fd = {}; forced = {}
    for sc in FORCED:
        d = forced_with_retries(sc)
        if sc == "blackhole" and d.get("violation") and d.get("established"):
            # timing enters this verdict (lock samples, durations): it must reproduce before it counts
            d2 = forced_with_retries(sc)
            if not d2.get("violation"):
                log("[c17] blackhole violation did not reproduce: treated as not established")
                d = dict(d2, established=False, why_not_established="a violation in the first run did not reproduce")
        fd[sc] = d
        forced[sc] = report_forced(ctx, d)
        log("[c17] forced %-10s: %s%s" % (sc, forced[sc], (" (" + (d.get("violation") or d.get("why_not_established") or "") + ")") if forced[sc] != "ok" else ""))
    lost, dl = fd["lost"], fd["deadlock"]

    # ---- (i) random concurrent traffic, one profile per round
    plan = [(100, QUICK_PROFILES)] if quick else [(50, THOROUGH_PROFILES), (100, THOROUGH_PROFILES), (200, QUICK_PROFILES)]
    runs = []
    for i, (tms, profs) in enumerate(plan):
        t = run_traffic(ctx, binp, "r%d" % i, ctx.seed * 100 + i, profs, 8, 4, tms)
        runs.append(t)
        for f in t.get("findings") or []:
            ctx.violation(f["key"], f["what"], dict(scenario="traffic", args=t["args"], detail=f.get("detail")))
        log("[c17] traffic T=%dms: %d/%d rounds (%s), %d calls, %d lines, findings=%s" % (
            tms, t["rounds_done"], t["rounds"], ",".join(profs), t["calls"], t["lines"], sorted(set(f["key"] for f in t.get("findings") or []))))
    stats = {}; per = {}
    for t in runs:
        for k, v in t["stats"].items():
            stats[k] = stats.get(k, 0) + v
        for pr, st in (t.get("per_profile") or {}).items():
            dst = per.setdefault(pr, {})
            for k, v in st.items():
                dst[k] = dst.get(k, 0) + v
    traces = [dict(x, args=t["args"]) for t in runs for x in t.get("traces") or []]

    # ---- shape of the implementation, as exhibited by the recorded events
    shape = dict(RegisterFirst=None, DeliverUnderLock=None, Buffered=None, SendUnderLock=None)
    if stats.get("RegisterBeforeSend", 0) + stats.get("SendBeforeRegister", 0) > 0:
        if stats.get("RegisterBeforeSend", 0) and stats.get("SendBeforeRegister", 0):
            raise Inconclusive("attempts both register-before-send and send-before-register: shape not uniform")
        shape["RegisterFirst"] = stats.get("RegisterBeforeSend", 0) > 0
    elif "register_first" in (lost.get("shape") or {}):
        shape["RegisterFirst"] = lost["shape"]["register_first"]
    if stats.get("HeldAtDeliver", 0) + stats.get("FreeAtDeliver", 0) > 0:
        shape["DeliverUnderLock"] = stats.get("FreeAtDeliver", 0) == 0
    elif "deliver_under_lock" in (dl.get("shape") or {}):
        shape["DeliverUnderLock"] = dl["shape"]["deliver_under_lock"]
    if "buffered_or_nonblocking_send" in (dl.get("shape") or {}):
        shape["Buffered"] = dl["shape"]["buffered_or_nonblocking_send"]
    if "send_under_lock" in (fd["blackhole"].get("shape") or {}):
        shape["SendUnderLock"] = bool(fd["blackhole"]["shape"]["send_under_lock"]) and shape["RegisterFirst"] is not False
    cands = candidates(shape)
    log("[c17] observed shape %s -> candidate variants %s" % (shape, [shape_name(c) for c in cands]))

    # ---- model checking (the variant the code follows, and the safe variant) runs next to the trace validation
    def model_checks(variant):
        mc = []
        cfgs = [(2, 1, 1, True)] if quick else [(2, 1, 1, True), (2, 2, 1, True), (3, 1, 0, False)]   # 3x2: > 12M states, outside the tier budget
        for calls, retry, dupb, canfail in cfgs:
            tag = "%dx%d" % (calls, retry)
            a = model_check(ctx, "obs_" + tag, variant, calls, retry, dupb, canfail); a["role"] = "observed"
            mc.append(a)
            if variant != SAFE:
                b = model_check(ctx, "safe_" + tag, SAFE, calls, retry, dupb, canfail, split=False); b["role"] = "safe"
                mc.append(b)
            log("[c17] TLC %s: observed %s states=%d violated=%s | safe %s" % (tag, a["shape"], a["states"], a["violated"],
                "states=%d violated=%s" % (mc[-1]["states"], mc[-1]["violated"]) if variant != SAFE else "(same)"))
        # a call whose send blocks in the network for ever must not block the others
        sa = model_check_stall(ctx, "obs", variant, 2 if quick else 3); sa["role"] = "observed"; mc.append(sa)
        if variant != SAFE:
            sb = model_check_stall(ctx, "safe", SAFE, 2 if quick else 3); sb["role"] = "safe"; mc.append(sb)
        log("[c17] TLC stall: observed %s states=%d violated=%s" % (sa["shape"], sa["states"], sa["violated"]))
        control = None
        if not quick:
            control = model_check_stall(ctx, "control", dict(SAFE, SendUnderLock=True), 2)
            if "NoDeadlock" not in control["violated"]:
                raise Inconclusive("control: the SendUnderLock shape with a stalled send does not violate NoDeadlock - the Stall model is vacuous")
        partial = []
        if not quick and variant != SAFE:
            for s in (dict(SAFE, Buffered=False, TrySend=False), dict(SAFE, RegisterFirst=False), dict(SAFE, TrySend=False)):
                partial.append(model_check(ctx, "part_" + shape_name(s).replace("/", "").replace("=", ""), s, 2, 1, 1))
        lv = liveness(ctx, "safe", SAFE, 2, 1, 0 if quick else 1)
        return dict(variant=variant, mc=mc, partial=partial, lv=lv, control=control)

    def val(job):
        i, tf = job
        last = None
        for ci, c in enumerate(cands):
            r = validate_trace(ctx, tf["file"], c, tag="%d_%d" % (i, ci))
            r["variant"] = c
            if r["accepted"] == r["lines"] and not r["deadlock"]:
                return r
            last = last or r
        return last

    def val_forced(d):
        # forced traces: does the specification of the (predicted) variant agree with the real run?
        r = validate_trace(ctx, d["trace"], cands[0], tail=True, tag="forced_" + d["scenario"])
        return d["scenario"], dict(lines=r["lines"], accepted=r["accepted"], invariants_false=[list(x) for x in r["inv"]],
                                   every_continuation_checked=True, NoDeadlock_violated=r["deadlock"])
    ftraces = [d for d in fd.values() if d.get("trace") and d.get("lines", 0) > 1]
    with ThreadPoolExecutor(max_workers=10) as ex:
        mcf = ex.submit(model_checks, cands[0])
        ff = [ex.submit(val_forced, d) for d in ftraces]
        vres = list(ex.map(val, list(enumerate(traces))))
        spec_agrees = dict(f.result() for f in ff)
        mres = mcf.result()
    accepted = 0; lines_ok = 0; used = {}
    for tf, r in zip(traces, vres):
        used[shape_name(r["variant"])] = used.get(shape_name(r["variant"]), 0) + 1
        where = "%s round %d host %s" % (tf.get("profile"), tf.get("round", -1), tf.get("host"))
        if r["deadlock"]:
            ctx.violation("deadlock:spec-state-without-successor", "a state reached by the real code (trace %s, %s, line %d) has no successor in ReqResp although calls are unfinished" % (
                os.path.basename(tf["file"]), where, r["accepted"]), dict(scenario="traffic", trace=[json.loads(x) for x in open(tf["file"]).read().splitlines()[:r["accepted"] + 1]][-60:]))
            continue
        if r["rejected"]:
            rj = r["rejected"]
            ctx.violation("trace-rejected:" + rj["event"]["ev"],
                          "the real code took a step that ReqResp (variant %s) does not allow: %s, line %d %s" % (shape_name(r["variant"]), where, rj["line"], json.dumps(rj["event"])),
                          dict(scenario="traffic", args=tf.get("args"), line=rj["line"], context=rj["context"], variant=r["variant"], profile=tf.get("profile")))
            continue
        accepted += 1; lines_ok += r["lines"]
        all_lines = None
        for name, ln in r["inv"]:
            all_lines = all_lines or open(tf["file"]).read().splitlines()
            ctx.violation(INV_KEY.get(name, "trace-invariant:" + name),
                          "%s is false in a state reached by the real code under random traffic (%s, trace line %d: %s)" % (name, where, ln, all_lines[ln - 1][:200]),
                          dict(scenario="traffic", args=tf.get("args"), invariant=name, line=ln, profile=tf.get("profile"), context=[json.loads(x) for x in all_lines[max(0, ln - 10):ln + 3]]))
    log("[c17] trace validation: %d/%d traces accepted (%d lines), variants used %s" % (accepted, len(traces), lines_ok, used))
    variant = vres[0]["variant"] if vres else cands[0]
    log("[c17] forced traces against the spec: %s" % json.dumps(spec_agrees))
    if variant != mres["variant"]:
        mres = model_checks(variant)
    mc, partial, lv = mres["mc"], mres["partial"], mres["lv"]
    safe_bad = [m for m in mc if m["role"] == "safe" and m["violated"]]
    if safe_bad or not lv["holds"]:
        raise Inconclusive("the SAFE variant of ReqResp violates %s - specification problem, not a verdict on the code" % (
            safe_bad[0]["violated"] if safe_bad else "liveness"))

    # ---- verdict bookkeeping
    keys = set(k for k, _, _ in ctx.violations)
    spec_viol = set(v for m in mc if m["role"] == "observed" for v in m["violated"])
    notes = []
    if "NoLostReply" in spec_viol and not any(k.startswith("lost-reply") for k in keys):
        notes.append("TLC: NoLostReply violated for the observed variant, not reproduced on the real code (forced lost: %s)" % forced["lost"])
    if "NoDeadlock" in spec_viol and not any(k.startswith("deadlock") for k in keys):
        notes.append("TLC: NoDeadlock violated for the observed variant, not reproduced on the real code (forced deadlock: %s, blackhole: %s)" % (forced["deadlock"], forced["blackhole"]))
    for sc, st in forced.items():
        if st == "inconclusive":
            notes.append("forced schedule '%s' could not be established: %s" % (sc, fd[sc].get("why_not_established")))
    rounds_planned = sum(t["rounds"] for t in runs)
    rounds_done = sum(t["rounds_done"] for t in runs)
    notes += vacuity(stats, per, [p for _, profs in plan for p in profs], fd)
    if rounds_done == 0:
        notes.append("no traffic round completed")
    if traces and accepted == 0 and not ctx.violations:
        notes.append("no trace was validated")
    for t in runs:
        notes += t.get("notes") or []
    cov = dict(
        traces_validated_against_impl=accepted + sum(1 for v in spec_agrees.values() if v["accepted"] == v["lines"]),
        trace_rounds=dict(planned=rounds_planned, completed=rounds_done, abandoned_after_hang=sum(t.get("rounds_abandoned", 0) for t in runs),
                          traces=len(traces), accepted_by_tlc=accepted, lines_accepted=lines_ok),
        profiles={pr: {k: v for k, v in st.items()} for pr, st in per.items()},
        samples=(runs[0].get("samples") or [])[:6] if runs else [],
        observed_shape=shape, variant_validated=shape_name(variant),
        real_calls=sum(t["calls"] for t in runs), attempts=stats.get("Attempts", 0), timers_fired=stats.get("Timers", 0),
        attempt_timers_measured=stats.get("TimersMeasured", 0), handler_returns_logged=stats.get("Responded", 0),
        responses_handled=stats.get("Locked", 0), delivered=stats.get("Found", 0), misses=stats.get("Miss", 0),
        late_or_duplicate_misses=stats.get("LateMiss", 0), duplicates_injected=stats.get("Dups", 0),
        responses_before_send_returned=stats.get("EarlyLocked", 0),
        failed_sends_in_traffic=stats.get("FailedSends", 0), handler_error_replies_delivered=stats.get("HandlerErrorDelivered", 0),
        empty_replies_delivered=stats.get("EmptyReplyDelivered", 0), nil_requests_answered=stats.get("NilRequestAnswered", 0),
        calls_by_second_host=stats.get("CallsFromB", 0), nested_requests_answered=stats.get("NestedResp", 0),
        second_responder_replies=stats.get("SecondResponderReplies", 0), burst_callers=stats.get("BurstCallers", 0),
        pending_when_connection_closed=stats.get("PendingWhenConnectionClosed", 0),
        deadline_calls_giving_up_early=stats.get("EarlyGiveUp", 0), attempts_sharing_an_id=stats.get("SharedIdAttempts", 0),
        results=dict(resp=stats.get("Resp", 0), timeout=stats.get("Timeout", 0), cancel=stats.get("Cancel", 0), error=stats.get("Error", 0)),
        max_call_duration_ms=max([t["max_call_duration_us"] for t in runs] + [0]) // 1000,
        duration_bound_ms=[t["duration_bound_us"] // 1000 for t in runs],
        timer_noise_max_ms=max([t.get("timer_noise_max_us", 0) for t in runs] + [0]) // 1000,
        pending_checks_at_quiescence=sum(t["pending_checks"] for t in runs),
        forced_schedules=dict(
            lost=dict(status=forced["lost"], established=lost.get("established"), attempts=lost.get("attempts"), call=lost.get("call"),
                      failed_send_probes=len(lost.get("other_calls") or [])),
            deadlock=dict(status=forced["deadlock"], established=dl.get("established"), attempts=dl.get("attempts"),
                          call_returned=not (dl.get("call") or {}).get("Hung"), fresh_call_returned=not (dl.get("fresh_call") or {}).get("Hung"),
                          dump=dl.get("dump")),
            cancelrace=dict(status=forced["cancelrace"], established=fd["cancelrace"].get("established"), coverage=fd["cancelrace"].get("coverage")),
            blackhole=dict(status=forced["blackhole"], established=fd["blackhole"].get("established"), coverage=fd["blackhole"].get("coverage")),
            payload=dict(status=forced["payload"], established=fd["payload"].get("established"), coverage=fd["payload"].get("coverage"))),
        forced_traces_vs_spec=spec_agrees,
        model_checking=[{k: v for k, v in m.items() if k != "counterexamples"} for m in mc],
        model_counterexamples={m["shape"] + " %dx%d" % (m["calls"], m["max_retry"]): m["counterexamples"] for m in mc if m["counterexamples"]},
        partial_fix_variants=[{k: v for k, v in m.items() if k != "counterexamples"} for m in partial],
        stall_control=({k: v for k, v in mres["control"].items() if k != "counterexamples"} if mres.get("control") else None),
        liveness=lv, exhaustive=True, notes=notes)
    assumptions = [
        "the network between two connected honest hosts delivers (loopback): a reply handed to the responder's layer without a logged send error must reach the lookup of the requesting host; the remote handler's latency is environment",
        "register / unregister critical sections of the requester are atomic in the model unless the directed black-hole scenario observes resMu held across mp.send (shape constant SendUnderLock)",
        "events logged under resMu (req.registered, res.locked, res.beforeDeliver) are totally ordered as executed; steps without a schedule point (receive, unlock, unregister) are silent in the trace specification",
        "exhaustive model checking covers 2-3 concurrent calls x retry budget 1-2; the real code runs with messageMaxRetries=3 and 8-64 concurrent callers",
        "a request that the REMOTE layer drops before its handler runs ends with a timeout error, which the statement allows; such a run is reported as vacuous (inconclusive) by the payload scenario, not as a violation",
        "'within its timeout': an attempt timer that fires earlier than 0.9 x the configured timeout is a violation per attempt (trace specification); a timer longer than the configured one is judged by the shortest timer of a round exceeding 2 x the timeout",
    ]
    for n in notes:
        log("[c17] NOTE " + n)
    if notes and not ctx.violations:
        raise Inconclusive("; ".join(notes))
    finish(ctx, LEVEL, cov, assumptions)
