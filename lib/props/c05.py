"""C05 deleting the tip restores the exact previous node state.  Uses the Node scripts of C03: for every delete the
sorted database dump after apply+delete must equal the dump before the apply (finalized marker, temporary blocks and data
pruned below the finalized height excluded; state diffs compared as sets), removed blocks are retrievable as temp blocks when
requested, and a chain reached through apply/delete detours equals the same chain built directly."""
from props import c03

C05_KEYS = ("delete-not-restoring", "delete-refused", "temp-missing", "reorg-not-equivalent", "state-mismatch:temp", "state-mismatch:bftheights", "restart-fails")

def diff_level(ctx):
    """the revert-diff mechanics at key level (keys created / overwritten / deleted inside one commit, empty values,
    snapshots): the staged-store trace of C12, judged here only on commit / revert steps"""
    import json
    from props import c12
    binp = ctx.go_build("./cmd/c12")
    nseq = 1500 if ctx.tier == "quick" else 8000
    m, lines, res = c12.validate(ctx, binp, nseq, ctx.seed * 100 + 5, "c05")
    for x in res:
        if x["key"] in ("commit-diff-reversal", "revert-dump", "commit-dump"):
            ctx.violation("diff:" + x["key"], "state diff does not restore the previous database contents: observed %s expected %s" % (
                json.dumps(x["observed"])[:300], x["expected"][:300]), dict(seed=ctx.seed * 100 + 5, sequences=nseq, line=x["line"], history=x["history"][-40:]))
    return dict(diff_level_commits=m.get("commit", 0), diff_level_reverts=m.get("revert", 0))

def run(ctx):
    c03.run_node(ctx, lambda k: k.startswith(C05_KEYS), extra=diff_level)
