"""C05 deleting the tip restores the exact previous node state.  Uses the Node scripts of C03: for every delete the
sorted database dump after apply+delete must equal the dump before the apply (finalized marker, temporary blocks and data
pruned below the finalized height excluded; state diffs compared as sets), removed blocks are retrievable as temp blocks when
requested, and a chain reached through apply/delete detours equals the same chain built directly.
Store level (spec/ChainStore.tla): the block store of pkg/blockchain as a sequential object - after any number of add /
remove / clear-temp / restart steps every reader (tip, by height, by id, bulk lookups, transactions, assets, events with
the retention rule, temporary blocks, finalized marker) answers as a function of the logical chain; the block cache is
configured to 2-3 blocks so that it slides, runs empty and is refilled inside short scripts."""
from props import c03

C05_KEYS = ("state-mismatch:finalized", "delete-not-restoring", "delete-refused", "temp-missing", "reorg-not-equivalent", "state-mismatch:temp", "state-mismatch:bftheights", "restart-fails",
            # what a broken delete produces first (the script stops at the first violation), when the failing step is a delete or a tie break
            "state-mismatch:application:after-delete", "state-mismatch:application:after-tiebreak", "state-mismatch:tip:after-delete", "state-mismatch:tip:after-tiebreak",
            "tiebreak-refused", "tiebreak-not-restoring", "panic:process:step-tiebreak", "panic:delete", "reorg-rebuild-fails",
            # VERIF_EXPERIMENTAL=1 only: genesis block at a height > 0
            "genesis-height:")

def diff_level(ctx):
    """the revert-diff mechanics at key level (keys created / overwritten / deleted inside one commit, empty values,
    snapshots): the staged-store trace of C12, judged here only on commit / revert steps"""
    import json
    from props import c12
    binp = ctx.go_build("./cmd/c12")
    nseq = 1500 if ctx.tier == "quick" else 8000
    m, lines, res = c12.validate(ctx, binp, nseq, ctx.seed * 100 + 5, "c05")
    for x in res:
        if x["key"] in ("commit-diff-reversal", "revert-dump", "commit-dump"):
            ctx.violation("diff:" + x["key"], "state diff does not restore the previous database contents: observed %s expected %s" % (
                json.dumps(x["observed"])[:300], x["expected"][:300]), dict(seed=ctx.seed * 100 + 5, sequences=nseq, line=x["line"], history=x["history"][-40:]))
    return dict(diff_level_commits=m.get("commit", 0), diff_level_reverts=m.get("revert", 0))

def store_level(ctx):
    """the block store as a sequential object (spec/ChainStore.tla): every reader of pkg/blockchain after any number of
    add / remove / clear-temp / restart steps, with a block cache small enough to slide, empty and refill"""
    import json, os
    from common import Inconclusive, log
    from props import c01
    binp = ctx.go_build("./cmd/store")
    quick = ctx.tier == "quick"
    # exhaustive for short chains (VIEW: the script is a history variable)
    cfg = c01.write_cfg(ctx, "store_exh", c01.cfg_text("ChainStore_exh", MaxSteps=6 if quick else 7))
    r = ctx.tlc("MCChainStore", cfg, workers=12, timeout=1800)
    if r["violation"]:
        raise Inconclusive("ChainStore.tla violates one of its own properties: %s" % r["outpath"])
    tot = dict(scripts=0, steps=0, queries_compared=0, exhausted=0, raw=0, raw_deep=0, genesis_rm=0, asset_notx=0, high_genesis_steps=0); ops = {}
    experimental = os.environ.get("VERIF_EXPERIMENTAL") == "1"
    for keep in (2, -1):
        cfg = c01.write_cfg(ctx, "store_sim%d" % keep, c01.cfg_text("ChainStore_sim", Keep=(keep if keep >= 0 else 99)))   # 99 > any height of the model: nothing is ever pruned
        r = ctx.tlc("MCChainStore", cfg, workers=1, timeout=900, simulate=30 if quick else 300, depth=18, seed=ctx.seed + keep + 3)
        if r["violation"]:
            raise Inconclusive("ChainStore.tla violates one of its own properties: %s" % r["outpath"])
        sf = ctx.path("store%d.ndjson" % keep); n = 0
        with open(sf, "w") as fh:
            for d in ctx.dumps(r["out"]):
                if n < (1200 if quick else 12000):
                    fh.write(json.dumps(d) + "\n"); n += 1
        # (block cache, genesis height, stop before the first restart).  A genesis block at height 70000 (a chain started
        # from a snapshot; heights whose 4-byte keys differ in three bytes): outside the experimental mode only with the
        # large cache and without restarts - Chain.PrepareCache (restart, cache window run empty) fails on the tree of
        # 2026-09-24 while the tip is within the cache size of such a genesis block (reported as
        # store:genesis-height:step-fails:* by VERIF_EXPERIMENTAL=1)
        confs = [(2, 0, False), (3, 0, False), (515, 0, False)]
        if experimental:
            # (the ordinary run since /repo a6f1c23 "the block cache is prepared from the genesis height": bin/check sets the switch)
            confs += [(2, 70000, False), (515, 70000, False)]
        else:
            confs += [(515, 70000, True)]
        for mc, gh, stop in confs:
            cf = ctx.path("store_cfg.json"); json.dump(dict(maxCache=mc, keep=keep, genesisHeight=gh, stopAtRestart=stop), open(cf, "w"))
            of = ctx.path("store_res.json")
            if os.path.exists(of):
                os.remove(of)
            p = ctx.run([binp, sf, cf, of], timeout=1800)
            if not os.path.exists(of):
                raise Inconclusive("store harness failed (rc=%d): %s" % (p.returncode, p.stderr[-1500:]))
            res = json.load(open(of))
            if res.get("harness_errors"):
                raise Inconclusive("store harness error: %s" % res["harness_errors"][:2])
            for v in res.get("violations") or []:
                ctx.violation(v["key"], v["what"], v.get("replay"))
            tot["scripts"] += res["scripts"]; tot["steps"] += res["steps"]; tot["queries_compared"] += res["queries_compared"]
            tot["exhausted"] += res["steps_with_cache_window_exhausted"]
            tot["raw"] += res.get("raw_key_dumps_compared_after_remove", 0); tot["raw_deep"] += res.get("raw_key_dumps_compared_two_or_more_removes_deep", 0)
            tot["genesis_rm"] += res.get("genesis_removals_attempted", 0); tot["asset_notx"] += res.get("removed_blocks_with_asset_and_no_transaction", 0)
            if gh:
                tot["high_genesis_steps"] += res["steps"]
            for k, v in res["ops"].items():
                ops[k] = ops.get(k, 0) + v
    log("[store] scripts=%d steps=%d ops=%s queries=%d cache-window-exhausted=%d" % (tot["scripts"], tot["steps"], ops, tot["queries_compared"], tot["exhausted"]))
    log("[store] raw key dumps compared after a remove: %d (%d at least two removes deep), removed asset blocks without transactions: %d, genesis removals attempted: %d, steps with the genesis block at height 70000: %d" % (
        tot["raw"], tot["raw_deep"], tot["asset_notx"], tot["genesis_rm"], tot["high_genesis_steps"]))
    if not ctx.violations and (tot["queries_compared"] < 100000 or tot["exhausted"] == 0 or ops.get("remove", 0) < 500):
        raise Inconclusive("store scripts did not exercise enough (queries / removals beyond the cache window): vacuous")
    if not ctx.violations and (tot["raw"] < 500 or tot["raw_deep"] < 50 or tot["asset_notx"] < 20 or tot["genesis_rm"] < 20 or tot["high_genesis_steps"] < 1000):
        raise Inconclusive("store scripts did not exercise enough (raw key dumps after removes / asset blocks without transactions / genesis removals / high genesis): vacuous")
    return dict(store_scripts=tot["scripts"], store_steps=tot["steps"], store_ops=ops, store_queries_compared=tot["queries_compared"],
                store_steps_with_cache_window_exhausted=tot["exhausted"], store_raw_key_dumps_compared_after_remove=tot["raw"],
                store_raw_key_dumps_two_or_more_removes_deep=tot["raw_deep"], store_removed_asset_blocks_without_transactions=tot["asset_notx"],
                store_genesis_removals_attempted=tot["genesis_rm"], store_steps_with_genesis_at_height_70000=tot["high_genesis_steps"])

def extra(ctx):
    res = diff_level(ctx)
    res.update(store_level(ctx))
    return res

def run(ctx):
    from props import c03 as _c03
    if ctx.replay:
        import json
        d = json.load(open(ctx.replay)).get("replay")
        if isinstance(d, dict) and d.get("store"):
            binp = ctx.go_build("./cmd/store")
            sf = ctx.path("replay.ndjson"); open(sf, "w").write(json.dumps(dict(script=d["script"])) + "\n")
            cf = ctx.path("replay_cfg.json"); json.dump(d["config"], open(cf, "w"))
            of = ctx.path("replay_res.json")
            ctx.run([binp, sf, cf, of], timeout=600)
            res = json.load(open(of))
            for v in res.get("violations") or []:
                ctx.violation(v["key"], v["what"], v.get("replay"))
            from common import finish
            finish(ctx, _c03.LEVEL, dict(traces_validated_against_impl=res["scripts"], samples=[d["script"][:2]]))
    c03.run_node(ctx, lambda k: k.startswith(C05_KEYS), extra=extra)
