"""C03 only fully valid blocks extend the chain; rejected blocks change nothing.
Also hosts the shared Node machinery used by C04 and C05: TLC generates scripts (valid successors, deletes, restarts)
from spec/Node.tla with the expected observation after every step, plus - for the state at the end of each script -
every single-rule mutant of the valid successor; the harness replays them on the real Executer + toy application."""
import json, os
import common
from common import Inconclusive, finish, log
from props import c01

LEVEL = "model_checking"
HCFG = dict(nval=3, batch=3, init=dict(pcT=2, certT=2, w=[1, 1, 1], gens=[1, 2, 3]),
            choices=[dict(pcT=2, certT=2, w=[1, 1, 0], gens=[2, 1]), dict(pcT=3, certT=3, w=[2, 1, 1], gens=[3, 1, 2])],
            now=12, network=True)

def generate(ctx, name, traces, depth, seed, no_probes=False, **cfgkw):
    text = c01.cfg_text("Node_sim", **cfgkw)
    if no_probes:
        # runs aimed at apply / delete behaviour: no single-rule mutants at the end of the scripts (the tie-break probes stay)
        text = text.replace("Mutations <- AllMutations", "Mutations = {}")
    cfg = c01.write_cfg(ctx, name, text)
    r = ctx.tlc("MCNode", cfg, workers=1, timeout=1800, simulate=traces, depth=depth, seed=seed)
    if r["violation"]:
        raise Inconclusive("Node.tla violates one of its own properties: %s" % r["outpath"])
    sf = ctx.path(name + "_scripts.ndjson")
    seen = set(); n = 0
    with open(sf, "w") as fh:
        for d in ctx.dumps(r["out"]):
            k = json.dumps(d["script"], sort_keys=True)
            if k in seen:
                continue
            seen.add(k); fh.write(json.dumps(d) + "\n"); n += 1
    return sf, n

def replay(ctx, binp, sf, hcfg, name):
    cf = ctx.path(name + "_cfg.json"); json.dump(hcfg, open(cf, "w"))
    res, p = common.run_chunked(ctx, sf, 1200, lambda piece, of: [binp, piece, cf, of])
    if res is None:
        raise Inconclusive("c03 harness failed (rc=%d): %s" % (p.returncode, p.stderr[-1500:]))
    if res.get("harness_errors"):
        raise Inconclusive("c03 harness error: %s" % res["harness_errors"][:2])
    return res

def exhaustive(ctx):
    cfg = c01.write_cfg(ctx, "node_exh", c01.cfg_text("Node_exh", MaxLen=5 if ctx.tier == "quick" else 6))
    r = ctx.tlc("MCNode", cfg, workers=12, timeout=2400)
    if r["violation"]:
        raise Inconclusive("Node.tla violates one of its own properties: %s" % r["outpath"])
    return r

# wider script actions of the simulation runs (defaults of Node.tla = the narrow ones): two restarts, one invalid successor
# in the middle of the script, blocks with 0..3 transactions and an asset independent of a validator change, tie-break competitors with
# transactions / a validator change
WIDE = dict(MaxRestart=2, MaxMutant=1, PayloadMix="TRUE", TieNtx="{0, 1, 2}", TieChg="{0, 1}")

def family_owner(key):
    """does any property of the Node family (C03, C04, C05) own this violation key?"""
    from props import c04, c05
    return key.startswith(C03_KEYS) or key.startswith(c04.C04_NODE) or key.startswith(c05.C05_KEYS)

def node_runs(ctx, binp, only=None):
    """the script families replayed by cmd/c03; returns (merged result, first script file, per-run info)"""
    quick = ctx.tier == "quick"
    runs = []
    # (1) general behaviours
    runs.append(("sim", dict(traces=150 if quick else 1500, depth=16, seed=ctx.seed, kw=dict(WIDE, MaxRestart=1, MaxSteps=14, DumpEvery=16 if quick else 12)), HCFG))
    # (2) reverts down to the finalized height (what a sync with a chain forking below it attempts): straight to finality,
    # then DeleteDown / deletes / tie breaks / restarts / new blocks on the finalized prefix; block cache of 3 blocks, so
    # that finalized heights are served from the database and DeleteDown / restarts reload the cache
    runs.append(("deep", dict(traces=60 if quick else 600, depth=18, seed=ctx.seed + 77,
                              kw=dict(DeepRevert="TRUE", MaxChg=0, MaxDel=3, MaxSteps=16, DumpEvery=6, MaxRestart=2, MaxMutant=1)), dict(HCFG, cacheSize=3)))
    # (3) C05: chains long enough for the BFT window (9 headers) to slide and for parameter / generator keys to be pruned
    # (two validator changes, the certified height moves); deletes and tie breaks only while one of the two topmost blocks
    # (DeleteDown: one of the blocks it removes) pruned such keys when it was applied, restarts only from height 8 on
    runs.append(("prune", dict(traces=64 if quick else 800, depth=24, seed=ctx.seed + 131, no_probes=True,
                               kw=dict(MaxLen=14, Now=18, MaxChg=2, MaxDel=4, MaxTie=1, MaxSteps=22, RevertFrom=8, RevertNearPrune="TRUE", DumpEvery=24, MaxRestart=1)), dict(HCFG, now=18)))
    # (4) C05: many apply / remove cycles on short chains on which nothing becomes final (no delete is ever refused):
    # three blocks at one height, delete - restart - delete - restart, temporary blocks overwritten
    runs.append(("cycles", dict(traces=40 if quick else 500, depth=22, seed=ctx.seed + 173, no_probes=True,
                                kw=dict(WIDE, MaxLen=6, KeepFinZero="TRUE", MaxDel=6, MaxTie=4, MaxSteps=20, DumpEvery=24)), HCFG))
    res = None; first = None; info = {}
    for name, g, hcfg in runs:
        if only and name not in only:
            continue
        sf, n = generate(ctx, name, g["traces"], g["depth"], g["seed"], no_probes=g.get("no_probes", False), **g["kw"])
        r = replay(ctx, binp, sf, hcfg, name)
        info[name] = dict(scripts=r["scripts"], steps=r["steps"], file=sf)
        first = first or sf
        res = common.merge_results(res, r)
    if ctx.pid == "C03":
        # (5) C03 only (impl-NodeA): four validators of unequal weight, see weights_run
        r, sfw = weights_run(ctx, binp)
        info["w4321"] = dict(scripts=r["scripts"], steps=r["steps"], file=sfw)
        res = common.merge_results(res, r)
    ctx.node_res = res
    if os.environ.get("VERIF_EXPERIMENTAL") == "1":
        # genesis block at a height > 0 (a chain started from a snapshot).  EXPERIMENTAL: on the tree of 2026-09-24 no such
        # node initialises (Chain.PrepareCache asks for heights below the genesis block): reported under its own key
        r = replay(ctx, binp, info["deep"]["file"], dict(HCFG, cacheSize=3, genesisHeight=1000), "genesis1000")
        res = common.merge_results(res, r)
    return res, first, info

def run_node(ctx, keys_for_pid, extra=None):
    """shared by C03/C04/C05: keys_for_pid(key) -> True if a violation key belongs to this property"""
    binp = ctx.go_build("./cmd/c03")
    if ctx.replay:
        d = json.load(open(ctx.replay))["replay"]
        sf = ctx.path("replay.ndjson")
        open(sf, "w").write(json.dumps(dict(script=d["script"], probes=[d["probe"]] if d.get("probe") else [])) + "\n")
        hcfg = dict(HCFG)
        hcfg.update(d.get("hcfg") or {})
        res = replay(ctx, binp, sf, hcfg, "replay")
        for v in res.get("violations") or []:
            ctx.violation(v["key"], v["what"], v.get("replay"))
        finish(ctx, LEVEL, dict(traces_validated_against_impl=res["scripts"], samples=[d["script"][:2]]))
    exhaustive(ctx)
    res, sf, info = node_runs(ctx, binp)
    deep = 0
    for line in open(info["deep"]["file"]):
        sc = json.loads(line)["script"]
        if any(sc[i]["op"] == "delete" and not sc[i]["ok"] and sc[i - 1]["op"] == "delete" and sc[i - 1]["ok"] for i in range(1, len(sc))):
            deep += 1
    res["deep_reverts"] = deep
    other = []; unowned = []
    for v in res.get("violations") or []:
        if keys_for_pid(v["key"]):
            ctx.violation(v["key"], v["what"], v.get("replay"))
        elif not family_owner(v["key"]):
            # a key none of C03 / C04 / C05 claims would be dropped by all three checks: every one of them reports it
            unowned.append(v["key"])
            ctx.violation(v["key"], v["what"], v.get("replay"))
        else:
            other.append(v["key"])
    st = res.get("step_stats") or {}
    log("[node] scripts=%d steps=%d blocks=%d deletes=%d restarts=%d probes=%d finality=%d roundtrips=%d reorgs=%d violations=%s" % (
        res["scripts"], res["steps"], res["blocks_accepted"], res["deletes"], res["restarts"], res["probes"],
        res["scripts_with_finality"], res["apply_delete_roundtrips_compared"], res["reorg_equivalences_compared"],
        sorted(set(v["key"] for v in res.get("violations") or []))))
    log("[node] runs: %s" % {k: (v["scripts"], v["steps"]) for k, v in info.items()})
    log("[node] step statistics: %s" % json.dumps(st, sort_keys=True))
    if other:
        log("[node] note: violations belonging to other properties of the Node family were observed: %s" % sorted(set(other)))
    if unowned:
        log("[node] note: violation keys owned by no property of the Node family (reported by each of them): %s" % sorted(set(unowned)))
    log("[node] reverts down to the finalized height replayed: %d" % res["deep_reverts"])
    if not ctx.violations and res["deep_reverts"] == 0:
        raise Inconclusive("no script reverted down to the finalized height: vacuous for finality under deep reverts")
    if not ctx.violations and (res["blocks_accepted"] < 100 or res["probes"] < 500 or res["scripts_with_finality"] == 0 or len(res["probe_kinds"]) < 20):
        raise Inconclusive("scripts did not exercise enough (blocks/probes/finality): vacuous")
    if not ctx.violations:
        # non-vacuity of the scenarios added for C04 / C05 (a run in which one of them never happened proves nothing about it)
        floors = dict(mutant_steps=10, blocks_accepted_after_a_rejected_step=10, finality_raises_after_a_rejected_step=3,
                      scripts_with_two_restarts=3, restarts_after_a_delete=10, finalized_ids_read_below_the_cache_window=20,
                      deletes_whose_diff_restores_deleted_keys=20, scripts_with_four_or_more_deletes=3,
                      scripts_applying_three_blocks_at_one_height=3, deleted_blocks_with_asset_and_no_transaction=1,
                      tiebreaks_with_transactions_or_validator_change=3, refused_tiebreak_dumps_compared=20, finalize_events_compared=50)
        low = {k: st.get(k, 0) for k, f in floors.items() if st.get(k, 0) < f}
        if res["apply_delete_roundtrips_compared"] < 400 or res["reorg_equivalences_compared"] < 200:
            low["roundtrips/reorg equivalences"] = (res["apply_delete_roundtrips_compared"], res["reorg_equivalences_compared"])
        if low:
            raise Inconclusive("Node scripts did not reach the scenarios they are generated for (count below its floor): %s" % low)
    sample = json.loads(open(sf).readline())
    cov = dict(traces_validated_against_impl=res["scripts"], samples=[dict(script=sample["script"][:3], probes=[p["mut"] for p in sample["probes"]][:10])],
               replayed_steps=res["steps"], blocks_accepted=res["blocks_accepted"], deletes=res["deletes"], restarts=res["restarts"],
               mutant_blocks_submitted=res["probes"], mutation_classes=res["probe_kinds"], scripts_with_finality=res["scripts_with_finality"], reverts_down_to_finalized_height=res["deep_reverts"],
               apply_delete_roundtrips_compared=res["apply_delete_roundtrips_compared"], reorg_equivalences_compared=res["reorg_equivalences_compared"],
               script_families={k: dict(scripts=v["scripts"], steps=v["steps"]) for k, v in info.items()}, step_statistics=st,
               rule="TLC simulation of Node.tla generates scripts; every step is replayed on the real Executer and the projected state / events compared; "
                    "every single-rule mutant of the final state's valid successor is submitted and must be rejected leaving DB, BFT heights and events unchanged")
    if extra:
        cov.update(extra(ctx) or {})
    finish(ctx, LEVEL, cov, assumptions=[
        "toy application (deterministic state root chain) instead of pkg/framework", "3 validators, batch size 3, <= 9 blocks per script (<= 14 in the run aimed at BFT-store pruning)",
        "real time is pinned mid-slot by a 100000 s block time", "BLS / Ed25519 / SHA-256 trusted"])

# ---------------------------------------------------------------------------------------------- C03: weights run, guards
# Node_w4321.cfg: four validators of weight 4/3/2/1 (in the harness the order of their addresses - 4,1,3,2 - differs from
# the order of their BLS keys - 4,2,3,1 -, so a verifier that pairs weights and keys by position miscounts), certificate
# threshold 7: the scripts carry VALID aggregate commits by every minimal signer set ({1,2}, {1,3,4}, everybody), the probes
# certificates by the sets just below the threshold ({2,3,4}, {1,3}, {1,4}: `ac-lightsigners`); wider valid successors (0..3
# transactions, a payload of exactly the maximal size, timestamps at the first / last second of the slot) on a toy
# application that emits no "before" event (a block without transactions has NO events)
HCFG_W = dict(nval=4, batch=4, init=dict(pcT=4, certT=7, w=[4, 3, 2, 1], gens=[1, 2, 3, 4]),
              choices=[dict(pcT=4, certT=6, w=[3, 4, 2, 0], gens=[2, 1, 3]), dict(pcT=5, certT=5, w=[1, 2, 3, 4], gens=[4, 3, 2, 1])],
              now=14, network=True, noBeforeEvent=True)

def weights_run(ctx, binp):
    quick = ctx.tier == "quick"
    cfg = c01.write_cfg(ctx, "w4321", c01.cfg_text("Node_w4321", DumpEvery=10 if quick else 5))
    r = ctx.tlc("MCNode", cfg, workers=1, timeout=1800, simulate=8 if quick else 150, depth=14, seed=ctx.seed + 211)
    if r["violation"]:
        raise Inconclusive("Node.tla (Node_w4321) violates one of its own properties: %s" % r["outpath"])
    sf = ctx.path("w4321_scripts.ndjson")
    seen = set(); light = 0; minimal = 0; shapes = {}
    with open(sf, "w") as fh:
        for d in ctx.dumps(r["out"]):
            k = json.dumps(d["script"], sort_keys=True)
            if k in seen:
                continue
            seen.add(k); fh.write(json.dumps(d) + "\n")
            for st in d["script"]:
                if st.get("op") == "block" and st.get("accepted"):
                    if st["ac"]["kind"] == "valid" and len(st["ac"]["signers"]) < 4:
                        minimal += 1
                    if st.get("payload") == "max":
                        shapes["payload-max"] = shapes.get("payload-max", 0) + 1
                    if st.get("ts") in ("last", "first"):
                        shapes["ts-" + st["ts"]] = shapes.get("ts-" + st["ts"], 0) + 1
                    if st.get("ntx", 0) >= 3:
                        shapes["ntx3"] = shapes.get("ntx3", 0) + 1
    printed = sum(1 for l in r["out"].splitlines() if l.lstrip().startswith('<<"DUMP"'))
    parsed = sum(1 for _ in ctx.dumps(r["out"]))
    if printed != parsed:
        # a DUMP line the parser could not read (e.g. wrapped by TLC) would lower the coverage silently
        raise Inconclusive("Node_w4321: %d DUMP lines printed by TLC but %d parsed" % (printed, parsed))
    res = replay(ctx, binp, sf, HCFG_W, "w4321")
    for v in res.get("violations") or []:
        # bin/check --replay repeats a witness of this run on the 4-validator configuration
        if isinstance(v.get("replay"), dict):
            v["replay"]["hcfg"] = dict(HCFG_W)
    res["w4321"] = dict(valid_commits_by_a_minimal_signer_set=minimal, valid_shapes=shapes)
    return res, sf

# floors of the probe statistics: a run in which one of the scenarios below never happened is inconclusive, not a pass
C03_KIND_FLOORS = {
    # (kind or kind prefix, minimal number of probes)
    "version-0": 50, "version-3": 50, "mhp-1": 20, "slot-past": 50, "slot-same-last": 50, "slot-future-first": 50,
    "sig-stale-ac": 50, "sig-stale-ac@ac": 10, "tx-static-command": 50, "tx-static-params-size": 50, "tx-static-sender-len": 50,
    "tx-static-no-sigs": 50, "tx-static-short-sig": 50, "tx-static-last": 50, "assets-unsorted": 50, "assets-duplicate": 50,
    "eventroot-altered-data": 50, "eventroot-altered-topic": 50, "vhash-other-set": 50, "vhash-old-on-change": 10,
    "payload-max+1": 50, "ac-lightsigners": 10, "tiebreak-txstatic-no-sigs": 10, "tiebreak-assets-unsorted": 10,
    "tiebreak-assets-duplicate": 10, "tiebreak-payload-max+1": 10,
}

def c03_guards(ctx):
    """extra() hook of run_node for C03: non-vacuity of the probe section + coverage counts"""
    res = getattr(ctx, "node_res", None) or {}
    kinds = res.get("probe_kinds") or {}
    ps = res.get("probe_stats") or {}
    w = res.get("w4321") or {}
    if not ctx.violations:
        low = {k: kinds.get(k, 0) for k, f in C03_KIND_FLOORS.items() if kinds.get(k, 0) < f}
        if ps.get("offered_as_own_block", 0) < res.get("probes", 0) or ps.get("offered_as_own_block", 0) < 500:
            low["offered_as_own_block"] = ps.get("offered_as_own_block", 0)
        if ps.get("on_blocks_without_events", 0) < 50:
            low["probes_on_blocks_without_events"] = ps.get("on_blocks_without_events", 0)
        if w.get("valid_commits_by_a_minimal_signer_set", 0) < 5:
            low["valid_commits_by_a_minimal_signer_set"] = w.get("valid_commits_by_a_minimal_signer_set", 0)
        for k in ("payload-max", "ts-last", "ts-first", "ntx3"):
            if (w.get("valid_shapes") or {}).get(k, 0) < 3:
                low["valid_" + k] = (w.get("valid_shapes") or {}).get(k, 0)
        if low:
            raise Inconclusive("C03 probes did not reach the scenarios they are generated for (count below its floor): %s" % low)
    log("[c03] probe statistics: %s; unequal-weight run: %s" % (json.dumps(ps, sort_keys=True), json.dumps(w, sort_keys=True)))
    return dict(probe_statistics=ps, unequal_weight_run=w)

C03_KEYS = ("accepts-invalid", "reject-changes-state", "reject-emits-events", "rejects-valid", "panic:process", "state-mismatch:tip", "state-mismatch:bftheights", "events-mismatch", "observe")

def run(ctx):
    run_node(ctx, lambda k: k.startswith(C03_KEYS), extra=c03_guards)
