"""C03 only fully valid blocks extend the chain; rejected blocks change nothing.
Also hosts the shared Node machinery used by C04 and C05: TLC generates scripts (valid successors, deletes, restarts)
from spec/Node.tla with the expected observation after every step, plus - for the state at the end of each script -
every single-rule mutant of the valid successor; the harness replays them on the real Executer + toy application."""
import json, os
import common
from common import Inconclusive, finish, log
from props import c01

LEVEL = "model_checking"
HCFG = dict(nval=3, batch=3, init=dict(pcT=2, certT=2, w=[1, 1, 1], gens=[1, 2, 3]),
            choices=[dict(pcT=2, certT=2, w=[1, 1, 0], gens=[2, 1]), dict(pcT=3, certT=3, w=[2, 1, 1], gens=[3, 1, 2])],
            now=12, network=True)

def generate(ctx, name, traces, depth, seed, **cfgkw):
    cfg = c01.write_cfg(ctx, name, c01.cfg_text("Node_sim", **cfgkw))
    r = ctx.tlc("MCNode", cfg, workers=1, timeout=1800, simulate=traces, depth=depth, seed=seed)
    if r["violation"]:
        raise Inconclusive("Node.tla violates one of its own properties: %s" % r["outpath"])
    sf = ctx.path(name + "_scripts.ndjson")
    seen = set(); n = 0
    with open(sf, "w") as fh:
        for d in ctx.dumps(r["out"]):
            k = json.dumps(d["script"], sort_keys=True)
            if k in seen:
                continue
            seen.add(k); fh.write(json.dumps(d) + "\n"); n += 1
    return sf, n

def replay(ctx, binp, sf, hcfg, name):
    cf = ctx.path(name + "_cfg.json"); json.dump(hcfg, open(cf, "w"))
    res, p = common.run_chunked(ctx, sf, 1200, lambda piece, of: [binp, piece, cf, of])
    if res is None:
        raise Inconclusive("c03 harness failed (rc=%d): %s" % (p.returncode, p.stderr[-1500:]))
    if res.get("harness_errors"):
        raise Inconclusive("c03 harness error: %s" % res["harness_errors"][:2])
    return res

def exhaustive(ctx):
    cfg = c01.write_cfg(ctx, "node_exh", c01.cfg_text("Node_exh", MaxLen=5 if ctx.tier == "quick" else 6))
    r = ctx.tlc("MCNode", cfg, workers=12, timeout=2400)
    if r["violation"]:
        raise Inconclusive("Node.tla violates one of its own properties: %s" % r["outpath"])
    return r

def run_node(ctx, keys_for_pid, extra=None):
    """shared by C03/C04/C05: keys_for_pid(key) -> True if a violation key belongs to this property"""
    binp = ctx.go_build("./cmd/c03")
    if ctx.replay:
        d = json.load(open(ctx.replay))["replay"]
        sf = ctx.path("replay.ndjson")
        open(sf, "w").write(json.dumps(dict(script=d["script"], probes=[d["probe"]] if d.get("probe") else [])) + "\n")
        res = replay(ctx, binp, sf, HCFG, "replay")
        for v in res.get("violations") or []:
            ctx.violation(v["key"], v["what"], v.get("replay"))
        finish(ctx, LEVEL, dict(traces_validated_against_impl=res["scripts"], samples=[d["script"][:2]]))
    exhaustive(ctx)
    traces = 150 if ctx.tier == "quick" else 1500
    sf, n = generate(ctx, "sim", traces, 14, ctx.seed, DumpEvery=8 if ctx.tier == "quick" else 6)
    res = replay(ctx, binp, sf, HCFG, "sim")
    # reverts down to the finalized height (what a sync with a chain forking below it attempts): straight to finality,
    # then DeleteDown / deletes / tie breaks / restarts / new blocks on the finalized prefix
    sf2, n2 = generate(ctx, "deep", 60 if ctx.tier == "quick" else 600, 16, ctx.seed + 77, DeepRevert="TRUE", MaxChg=0, MaxDel=3, MaxSteps=14, DumpEvery=3)
    res2 = replay(ctx, binp, sf2, HCFG, "deep")
    deep = 0
    for line in open(sf2):
        sc = json.loads(line)["script"]
        if any(sc[i]["op"] == "delete" and not sc[i]["ok"] and sc[i - 1]["op"] == "delete" and sc[i - 1]["ok"] for i in range(1, len(sc))):
            deep += 1
    for k, v in res2.items():
        if isinstance(v, int) and not isinstance(v, bool):
            res[k] = res.get(k, 0) + v
        elif isinstance(v, dict):
            for kk, vv in v.items():
                res[k][kk] = res[k].get(kk, 0) + vv
        elif isinstance(v, list) and k == "violations":
            res[k] = (res.get(k) or []) + v
    res["deep_reverts"] = deep
    other = []
    for v in res.get("violations") or []:
        if keys_for_pid(v["key"]):
            ctx.violation(v["key"], v["what"], v.get("replay"))
        else:
            other.append(v["key"])
    log("[node] scripts=%d steps=%d blocks=%d deletes=%d restarts=%d probes=%d finality=%d roundtrips=%d reorgs=%d violations=%s" % (
        res["scripts"], res["steps"], res["blocks_accepted"], res["deletes"], res["restarts"], res["probes"],
        res["scripts_with_finality"], res["apply_delete_roundtrips_compared"], res["reorg_equivalences_compared"],
        sorted(set(v["key"] for v in res.get("violations") or []))))
    if other:
        log("[node] note: violations belonging to other properties of the Node family were observed: %s" % sorted(set(other)))
    log("[node] reverts down to the finalized height replayed: %d" % res["deep_reverts"])
    if not ctx.violations and res["deep_reverts"] == 0:
        raise Inconclusive("no script reverted down to the finalized height: vacuous for finality under deep reverts")
    if not ctx.violations and (res["blocks_accepted"] < 100 or res["probes"] < 500 or res["scripts_with_finality"] == 0 or len(res["probe_kinds"]) < 20):
        raise Inconclusive("scripts did not exercise enough (blocks/probes/finality): vacuous")
    sample = json.loads(open(sf).readline())
    cov = dict(traces_validated_against_impl=res["scripts"], samples=[dict(script=sample["script"][:3], probes=[p["mut"] for p in sample["probes"]][:10])],
               replayed_steps=res["steps"], blocks_accepted=res["blocks_accepted"], deletes=res["deletes"], restarts=res["restarts"],
               mutant_blocks_submitted=res["probes"], mutation_classes=res["probe_kinds"], scripts_with_finality=res["scripts_with_finality"], reverts_down_to_finalized_height=res["deep_reverts"],
               apply_delete_roundtrips_compared=res["apply_delete_roundtrips_compared"], reorg_equivalences_compared=res["reorg_equivalences_compared"],
               rule="TLC simulation of Node.tla generates scripts; every step is replayed on the real Executer and the projected state / events compared; "
                    "every single-rule mutant of the final state's valid successor is submitted and must be rejected leaving DB, BFT heights and events unchanged")
    if extra:
        cov.update(extra(ctx) or {})
    finish(ctx, LEVEL, cov, assumptions=[
        "toy application (deterministic state root chain) instead of pkg/framework", "3 validators, batch size 3, <= 9 blocks per script",
        "real time is pinned mid-slot by a 100000 s block time", "BLS / Ed25519 / SHA-256 trusted"])

C03_KEYS = ("accepts-invalid", "reject-changes-state", "reject-emits-events", "rejects-valid", "panic:process", "state-mismatch:tip", "state-mismatch:bftheights", "events-mismatch", "observe")

def run(ctx):
    run_node(ctx, lambda k: k.startswith(C03_KEYS))
