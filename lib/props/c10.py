"""C10 sparse Merkle trie.  TLC enumerates update/delete/reopen histories over hand-placed 16-bit keys
(exhaustively for short histories, by simulation for long ones), checks the spec-level invariants and prints every
history with the expected root TERM and query walks; the harness replays each history on the real trie
(2-byte keys and 32/38-byte embeddings), folds the term with SHA-256, compares roots after every batch, proves
and verifies query sets and checks that tampered proofs whose claim disagrees with the map are rejected."""
import json, os
import common
from common import Inconclusive, finish, log
from props import c01

LEVEL = "model_checking"
KEYS6 = [0, 1, 256, 32768, 32769, 65535]
KEYS10 = [0, 1, 255, 256, 128, 32767, 32768, 32769, 33023, 65535]

def one(ctx, binp, name, cfgtext, keytab, **kw):
    cfg = c01.write_cfg(ctx, name, cfgtext)
    r = ctx.tlc("MCSMT", cfg, timeout=kw.pop("timeout", 1800), seed=ctx.seed if kw.get("simulate") else None, **kw)
    if r["violation"]:
        raise Inconclusive("SMT.tla invariant fails at spec level: %s" % r["outpath"])
    hf = ctx.path(name + "_h.ndjson")
    n = 0
    seen = set()
    with open(hf, "w") as fh:
        for t in ctx.dumps(r["out"]):
            k = json.dumps(t, sort_keys=True)
            if k in seen:
                continue
            seen.add(k); fh.write(json.dumps(t) + "\n"); n += 1
    of = ctx.path(name + "_res.json")
    p = ctx.run([binp, hf, of, "16", json.dumps(keytab)], timeout=3000)
    if p.returncode != 0 or not os.path.exists(of):
        rp = common.real_code_panic(p.stderr)
        if rp:
            # a panic on a goroutine started by the trie itself cannot be recovered by the harness: the process dies, but
            # the stack shows real code - the histories of this run are the replay
            # pin the crash to one history: serial re-run, the harness announces each history before it starts it
            import re
            p2 = ctx.run([binp, hf, of, "16", json.dumps(keytab)], timeout=3000, env={"VERIF_SERIAL": "1"})
            idx = re.findall(r"^HIST (\d+)$", p2.stderr or "", re.M)
            hist = None
            if p2.returncode != 0 and idx:
                hist = json.loads(open(hf).read().splitlines()[int(idx[-1])])
            ctx.violation("crash:" + rp[0], "%s in %s while replaying a TLC-generated history (%s): the trie crashes the process" % (rp[1], rp[0], name),
                          dict(history=hist, stack=p.stderr[:1200]) if hist else dict(histories_file=os.path.basename(hf), stack=p.stderr[:1200]))
            return dict(histories=0, roots_compared=0, distinct_maps=0, proofs_verified=0, tampered_proofs_rejected=0, other_root_rejected=0,
                        violations=[], samples=[], crashed=True)
        raise Inconclusive("c10 harness failed: " + p.stderr[-1500:])
    res = json.load(open(of))
    if res.get("harness_errors"):
        raise Inconclusive("c10 harness error: %s" % res["harness_errors"][:2])
    log("[c10] %s: histories=%d roots=%d distinct maps=%d proofs=%d tampered rejected=%d other-root rejected=%d violations=%d" % (
        name, res["histories"], res["roots_compared"], res["distinct_maps"], res["proofs_verified"],
        res["tampered_proofs_rejected"], res["other_root_rejected"], len(res.get("violations") or [])))
    return res

def run(ctx):
    binp = ctx.go_build("./cmd/c10")
    if ctx.replay:
        d = json.load(open(ctx.replay))["replay"]
        if isinstance(d, dict) and "wide" in d:
            # a wide-map case: the harness runs them after the histories; an empty history file suffices
            hf = ctx.path("replay_h.ndjson"); open(hf, "w").write("")
            of = ctx.path("replay_res.json")
            ctx.run([binp, hf, of, "16", json.dumps(KEYS10)])
            res = json.load(open(of))
            for v in res.get("violations") or []:
                ctx.violation(v["key"], v["what"], v.get("replay"))
            finish(ctx, LEVEL, dict(traces_validated_against_impl=res.get("wide_maps_checked", 0), samples=[d]))
        hist = d["history"] if isinstance(d, dict) and "history" in d else d
        hf = ctx.path("replay_h.ndjson"); open(hf, "w").write(json.dumps(hist) + "\n")
        of = ctx.path("replay_res.json")
        kt = KEYS6 if len(hist[0]["q"]) == 6 else KEYS10
        ctx.run([binp, hf, of, "16", json.dumps(kt)])
        res = json.load(open(of))
        for v in res.get("violations") or []:
            ctx.violation(v["key"], v["what"], v.get("replay"))
        finish(ctx, LEVEL, dict(traces_validated_against_impl=res["histories"], samples=[hist[:1]]))
    runs = []
    if ctx.tier == "quick":
        runs.append(("exh", c01.cfg_text("SMT_q"), KEYS6, dict(workers=8)))
        runs.append(("sim", c01.cfg_text("SMT_sim"), KEYS10, dict(workers=1, simulate=250, depth=10)))
    else:
        runs.append(("exh2", c01.cfg_text("SMT_q", DumpEvery=1), KEYS6, dict(workers=8)))
        runs.append(("exh3", c01.cfg_text("SMT_q", Depth=3, NV=1, DumpEvery=40), KEYS6, dict(workers=16, timeout=3000)))
        runs.append(("sim", c01.cfg_text("SMT_sim", Depth=10), KEYS10, dict(workers=1, simulate=4000, depth=12, timeout=3000)))
    tot = dict(wide_maps_checked=0, histories=0, steps=0, roots_compared=0, distinct_maps=0, proofs_verified=0, tampered_proofs_rejected=0, other_root_rejected=0)
    sample = None
    for name, text, kt, kw in runs:
        res = one(ctx, binp, name, text, kt, **kw)
        for k in tot:
            tot[k] += res.get(k, 0)
        for v in res.get("violations") or []:
            ctx.violation(v["key"], v["what"], v.get("replay"))
        if sample is None:
            sample = dict(config=name, keytab=kt)
    if not ctx.violations and (tot["proofs_verified"] < 100 or tot["tampered_proofs_rejected"] < 100 or tot["wide_maps_checked"] < 4):
        raise Inconclusive("too few proofs exercised: vacuous")
    cov = dict(wide_maps_checked=tot.get("wide_maps_checked", 0), traces_validated_against_impl=tot["histories"], samples=[sample], replayed_batches=tot["steps"],
               roots_compared=tot["roots_compared"], distinct_maps=tot["distinct_maps"], honest_proofs_verified=tot["proofs_verified"],
               disagreeing_tampered_proofs_rejected=tot["tampered_proofs_rejected"], disagreeing_other_root_rejected=tot["other_root_rejected"],
               rule="TLC state = (map, history); every dumped history is replayed on the real trie with 4 key embeddings and 2 stores")
    finish(ctx, LEVEL, cov, assumptions=["SHA-256 is injective on the terms that occur", "keys are 16-bit patterns embedded into 2/32/38-byte keys",
                                         "duplicate keys inside one batch are not generated", "SetSubtreeHeight (dead API) is not exercised"])
