"""C10 sparse Merkle trie.  TLC enumerates update/delete/reopen histories over hand-placed 16-bit keys
(exhaustively for short histories, by simulation for long ones), checks the spec-level invariants and prints every
history with the expected root TERM and query walks; the harness replays each history on the real trie
(2-byte keys and 32/38-byte embeddings), folds the term with SHA-256, compares roots after every batch, proves
and verifies query sets and checks that tampered proofs whose claim disagrees with the map are rejected.

Steps beyond plain batches (all of them actions of SMT.tla): the EMPTY batch (root unchanged), Reopen in the middle of a
history, batches naming one key twice (DupUpdate: either operation may win - the spec step is nondeterministic, the
entry carries both roots).  The simulation uses the WEIGHTED next-state relation NextW so that these steps are really
generated; the replayer additionally inserts Reopen / Update(EmptyBatch) - enabled in every state, map unchanged - before
steps of the exhaustive histories.  Store flavours: write-through map, pebble, and a store with the semantics of
pkg/db/batchdb (reads see the committed records only; Set/Del queued until Update has returned).  Query sets: singles,
pairs, triples, the whole universe, sets of 4-7 keys, a set naming a key twice.  Wide maps (hundreds of 32-byte keys, whole
8-bit subtrees, a comb branching at every byte level): mixed batches, collapse of a dense subtree to one leaf, of the map
to the empty map, refill; proofs with claims compared with the map and tampered claims.

Not flagged (outside the statement): Verify/CalculateRoot do not require that every sibling hash of a proof is consumed,
so a valid proof with junk hashes APPENDED still verifies.  Every claim of such a proof is still true of the map; the
statement forbids accepted proofs whose CLAIM disagrees with the map, not a second encoding of a true claim (malleability,
not unsoundness).  The replayer counts the observation (cover.appended_junk_sibling_still_verifies) and never reports it."""
import json, os
import common
from common import Inconclusive, finish, log
from props import c01

LEVEL = "model_checking"
KEYS6 = [0, 1, 256, 32768, 32769, 65535]
KEYS10 = [0, 1, 255, 256, 128, 32767, 32768, 32769, 33023, 65535]

def one(ctx, binp, name, cfgtext, keytab, wide=True, **kw):
    cfg = c01.write_cfg(ctx, name, cfgtext)
    henv = {"VERIF_C10_WIDE": "1" if wide else "0"}
    r = ctx.tlc("MCSMT", cfg, timeout=kw.pop("timeout", 1800), seed=ctx.seed if kw.get("simulate") else None, **kw)
    if r["violation"]:
        raise Inconclusive("SMT.tla invariant fails at spec level: %s" % r["outpath"])
    hf = ctx.path(name + "_h.ndjson")
    n = 0
    seen = set()
    with open(hf, "w") as fh:
        for t in ctx.dumps(r["out"]):
            k = json.dumps(t, sort_keys=True)
            if k in seen:
                continue
            seen.add(k); fh.write(json.dumps(t) + "\n"); n += 1
    of = ctx.path(name + "_res.json")
    p = ctx.run([binp, hf, of, "16", json.dumps(keytab)], timeout=3000, env=henv)
    if p.returncode != 0 or not os.path.exists(of):
        rp = common.real_code_panic(p.stderr)
        if rp:
            # a panic on a goroutine started by the trie itself cannot be recovered by the harness: the process dies, but
            # the stack shows real code - the histories of this run are the replay
            # pin the crash to one history: serial re-run, the harness announces each history before it starts it
            import re
            p2 = ctx.run([binp, hf, of, "16", json.dumps(keytab)], timeout=3000, env=dict(henv, VERIF_SERIAL="1"))
            marks = re.findall(r"^(HIST|WIDE) (\S+)$", p2.stderr or "", re.M)
            hist = None
            idx = [m[1] for m in marks if m[0] == "HIST"]
            if p2.returncode != 0 and marks and marks[-1][0] == "WIDE":
                ctx.violation("crash:" + rp[0], "%s in %s on the wide map %s: the trie crashes the process" % (rp[1], rp[0], marks[-1][1]),
                              dict(wide=marks[-1][1], seed=ctx.seed, stack=p.stderr[:1200]))
                return dict(violations=[], crashed=True, cover={})
            if p2.returncode != 0 and idx:
                hist = json.loads(open(hf).read().splitlines()[int(idx[-1])])
            ctx.violation("crash:" + rp[0], "%s in %s while replaying a TLC-generated history (%s): the trie crashes the process" % (rp[1], rp[0], name),
                          dict(history=hist, hi=int(idx[-1]), seed=ctx.seed, stack=p.stderr[:1200]) if hist else dict(histories_file=os.path.basename(hf), stack=p.stderr[:1200]))
            return dict(histories=0, roots_compared=0, distinct_maps=0, proofs_verified=0, tampered_proofs_rejected=0, other_root_rejected=0,
                        violations=[], samples=[], crashed=True, cover={})
        raise Inconclusive("c10 harness failed: " + p.stderr[-1500:])
    res = json.load(open(of))
    if res.get("harness_errors"):
        raise Inconclusive("c10 harness error: %s" % res["harness_errors"][:2])
    log("[c10] %s: histories=%d roots=%d distinct maps=%d proofs=%d tampered rejected=%d other-root rejected=%d violations=%d" % (
        name, res["histories"], res["roots_compared"], res["distinct_maps"], res["proofs_verified"],
        res["tampered_proofs_rejected"], res["other_root_rejected"], len(res.get("violations") or [])))
    return res

def run(ctx):
    binp = ctx.go_build("./cmd/c10")
    if ctx.replay:
        d = json.load(open(ctx.replay))["replay"]
        renv = {}
        if isinstance(d, dict) and d.get("seed") is not None:
            renv["VERIF_SEED"] = str(d["seed"])     # the random choices of the replayer (batch order, inserted steps, query sets)
        if isinstance(d, dict) and "wide" in d:
            # a wide-map case: the harness runs them after the histories; an empty history file suffices
            hf = ctx.path("replay_h.ndjson"); open(hf, "w").write("")
            of = ctx.path("replay_res.json")
            ctx.run([binp, hf, of, "16", json.dumps(KEYS10)], env=renv)
            res = json.load(open(of))
            for v in res.get("violations") or []:
                ctx.violation(v["key"], v["what"], v.get("replay"))
            finish(ctx, LEVEL, dict(traces_validated_against_impl=res.get("wide_maps_checked", 0), samples=[d]))
        hist = d["history"] if isinstance(d, dict) and "history" in d else d
        if isinstance(d, dict) and d.get("hi") is not None:
            renv["VERIF_C10_HI"] = str(d["hi"])     # position in the run: embedding and store flavour depend on it
        renv["VERIF_C10_WIDE"] = "0"
        hf = ctx.path("replay_h.ndjson"); open(hf, "w").write(json.dumps(hist) + "\n")
        of = ctx.path("replay_res.json")
        kt = KEYS6 if len(hist[0]["q"]) == 6 else KEYS10
        p = ctx.run([binp, hf, of, "16", json.dumps(kt)], env=renv)
        if not os.path.exists(of):
            rp = common.real_code_panic(p.stderr)
            if rp:
                ctx.violation("crash:" + rp[0], "%s in %s while replaying the history: the trie crashes the process" % (rp[1], rp[0]), d)
                finish(ctx, LEVEL, dict(traces_validated_against_impl=1, samples=[hist[:1]]))
            raise Inconclusive("c10 harness failed: " + p.stderr[-1500:])
        res = json.load(open(of))
        for v in res.get("violations") or []:
            ctx.violation(v["key"], v["what"], v.get("replay"))
        finish(ctx, LEVEL, dict(traces_validated_against_impl=res["histories"], samples=[hist[:1]]))
    runs = []
    if ctx.tier == "quick":
        runs.append(("exh", c01.cfg_text("SMT_q"), KEYS6, dict(workers=8)))
        runs.append(("sim", c01.cfg_text("SMT_sim"), KEYS10, dict(workers=1, simulate=200, depth=14)))
    else:
        runs.append(("exh2", c01.cfg_text("SMT_q", DumpEvery=1), KEYS6, dict(workers=8)))
        runs.append(("exh3", c01.cfg_text("SMT_q", Depth=3, NV=1, DumpEvery=40), KEYS6, dict(workers=16, timeout=3000)))
        runs.append(("sim", c01.cfg_text("SMT_sim", Depth=14), KEYS10, dict(workers=1, simulate=4000, depth=16, timeout=3000)))
    tot = dict(wide_maps_checked=0, histories=0, steps=0, roots_compared=0, distinct_maps=0, proofs_verified=0, tampered_proofs_rejected=0, other_root_rejected=0)
    cover = {}
    sample = None
    for n, (name, text, kt, kw) in enumerate(runs):
        # the wide maps do not depend on the histories: once, with the last run
        res = one(ctx, binp, name, text, kt, wide=(n == len(runs) - 1), **kw)
        for k in tot:
            tot[k] += res.get(k, 0)
        for k, v in (res.get("cover") or {}).items():
            cover[k] = cover.get(k, 0) + v
        for v in res.get("violations") or []:
            ctx.violation(v["key"], v["what"], v.get("replay"))
        if sample is None:
            sample = dict(config=name, keytab=kt)
    if not ctx.violations and (tot["proofs_verified"] < 100 or tot["tampered_proofs_rejected"] < 100 or tot["wide_maps_checked"] < 5):
        raise Inconclusive("too few proofs exercised: vacuous")
    # non-vacuity of the added scenarios: a run in which one of them never (or hardly ever) happened proves nothing about it
    need = dict(empty_batch_on_populated_trie=50, reopen_then_update=50, dup_steps=20, dup_followed=5, histories_on_batch_store=50,
                sets_full=100, sets_big=100, sets_repeat=100, tampers_in_large_sets_rejected=500, wrong_length_tampers_rejected=500,
                wide_proofs_verified=30, wide_tampered_rejected=60, wide_mixed_batches=5, wide_subtree_collapsed_to_leaf=5,
                wide_emptied_and_refilled=5, wide_long_lived_trie=1, wide_reopened_every_step=1, wide_on_production_batchdb=1)
    short = {k: cover.get(k, 0) for k, n in need.items() if cover.get(k, 0) < n}
    if not ctx.violations and short:
        raise Inconclusive("scenarios not (or hardly) exercised, vacuous: %s (needed %s)" % (short, {k: need[k] for k in short}))
    cov = dict(wide_maps_checked=tot.get("wide_maps_checked", 0), traces_validated_against_impl=tot["histories"], samples=[sample], replayed_batches=tot["steps"],
               roots_compared=tot["roots_compared"], distinct_maps=tot["distinct_maps"], honest_proofs_verified=tot["proofs_verified"],
               disagreeing_tampered_proofs_rejected=tot["tampered_proofs_rejected"], disagreeing_other_root_rejected=tot["other_root_rejected"],
               scenarios=cover,
               rule="TLC state = (map, history); every dumped history is replayed on the real trie with one of 4 key embeddings and one of 3 stores")
    finish(ctx, LEVEL, cov, assumptions=["SHA-256 is injective on the terms that occur", "keys are 16-bit patterns embedded into 2/32/38-byte keys",
                                         "values are 32 bytes long (the stored subtree format holds hashes)",
                                         "a batch names a key at most twice; which of the two operations wins is left open",
                                         "appending unused sibling hashes to a valid proof is not a violation (every claim stays true)",
                                         "SetSubtreeHeight (dead API) is not exercised"])
