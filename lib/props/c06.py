"""C06 certificates.  Certificate.tla (on Node.tla): for the state at the end of TLC-generated node scripts (chains with
finality, on-chain aggregate commits, validator-set changes, weights 2/1/1 so that signer subsets matter) TLC prints
(i) the verdict table of verifyAggregateCommit over every height 0..tip+1 x every signer subset x kind
(valid / signed for another chain / certificate of another block), (ii) pool cases: every set of certifying validators,
(iii) single commits with 'may enter the pool'.  The harness evaluates the real verifyAggregateCommit on every row (real BLS),
tampers aggregation bits, feeds single commits through singleCommitValidator, and requires the node's own GetAggregateCommit
(after Certify + gossip) to pass the node's own verification."""
import json, os
import common
from common import Inconclusive, finish, log
from props import c01

LEVEL = "model_checking"
HCFG = dict(nval=4, batch=4, init=dict(pcT=4, certT=6, w=[4, 3, 2, 1], gens=[1, 2, 3, 4]),
            choices=[dict(pcT=4, certT=5, w=[4, 3, 2, 0], gens=[2, 1, 3]), dict(pcT=4, certT=6, w=[1, 2, 3, 4], gens=[4, 1, 2, 3])],
            now=12, network=False)

HCFG8 = dict(nval=8, batch=8, init=dict(pcT=6, certT=6, w=[1] * 8, gens=list(range(1, 9))), choices=[], now=20, network=False)


def run_eight(ctx, binp, keys_for_pid):
    """8 validators: the aggregation bitmap is exactly one byte (validator counts that are multiples of 8 sit on the
    boundary of every length rule); straight chains to finality, signer / certifier sets from SignerFamily"""
    cfg = c01.write_cfg(ctx, "cert8", c01.cfg_text("Certificate_8"))
    r = ctx.tlc("MCCertificate", cfg, workers=1, timeout=1800, simulate=4 if ctx.tier == "quick" else 30, depth=17, seed=ctx.seed + 8)
    if r["violation"]:
        raise Inconclusive("Certificate.tla (8 validators) violates one of its own properties: %s" % r["outpath"])
    sf = ctx.path("cert8_dumps.ndjson")
    best = {}
    for d in ctx.dumps(r["out"]):
        if d["state"]["mhpc"] > d["state"]["cert"]:      # something is certifiable
            best[json.dumps(d["script"], sort_keys=True)] = d
    keep = sorted(best.values(), key=lambda d: -len(d["script"]))[:6 if ctx.tier == "quick" else 40]
    with open(sf, "w") as fh:
        for d in keep:
            fh.write(json.dumps(d) + "\n")
    if not keep:
        raise Inconclusive("no 8-validator script reached a certifiable height")
    cf = ctx.path("c06_cfg8.json"); json.dump(HCFG8, open(cf, "w"))
    of = ctx.path("c06_res8.json")
    p = ctx.run([binp, sf, cf, of], timeout=3000)
    if not os.path.exists(of):
        raise Inconclusive("c06 harness (8 validators) failed (rc=%d): %s" % (p.returncode, p.stderr[-1500:]))
    res = json.load(open(of))
    if res.get("harness_errors"):
        raise Inconclusive("c06 harness error (8 validators): %s" % res["harness_errors"][:2])
    for v in res.get("violations") or []:
        if keys_for_pid is None or keys_for_pid(v["key"]):
            ctx.violation(v["key"], v["what"], v.get("replay"))
    log("[c06] 8 validators: states=%d verify rows=%d (accepted %d) pool cases=%d non-empty own aggregates=%d violations=%s" % (
        res["states"], res["verify_rows"], res["verify_rows_accepted"], res["pool_cases"], res["own_aggregates_nonempty"],
        sorted(set(v["key"] for v in res.get("violations") or []))))
    if not ctx.violations and res["own_aggregates_nonempty"] == 0:
        raise Inconclusive("8 validators: no non-empty aggregate was assembled: vacuous")
    return res


def run_cert(ctx, keys_for_pid=None, replay_ok=True):
    """the certificate machinery; keys_for_pid filters the violation keys that belong to the calling property
    (C15 uses the pool cases: what GetAggregateCommit assembles must pass the node's own verification)"""
    binp = ctx.go_build("./cmd/c06")
    if ctx.replay and replay_ok:
        d = json.load(open(ctx.replay))["replay"]
        one = dict(script=d["script"], state=d.get("state", {}), verify=[d["row"]] if "row" in d else [],
                   pool=[dict(d["pool"], regossip=bool(d.get("regossip")))] if "pool" in d else [], singles=[d["single"]] if "single" in d else [])
        sf = ctx.path("replay.ndjson"); open(sf, "w").write(json.dumps(one) + "\n")
    else:
        traces = 12 if ctx.tier == "quick" else 120
        cfg = c01.write_cfg(ctx, "cert", c01.cfg_text("Certificate_sim"))
        r = ctx.tlc("MCCertificate", cfg, workers=1, timeout=1800, simulate=traces, depth=12, seed=ctx.seed)
        if r["violation"]:
            raise Inconclusive("Certificate.tla / Node.tla violates one of its own properties: %s" % r["outpath"])
        sf = ctx.path("cert_dumps.ndjson")
        seen = set()
        with open(sf, "w") as fh:
            for d in ctx.dumps(r["out"]):
                k = json.dumps(d["script"], sort_keys=True)
                if k in seen:
                    continue
                seen.add(k); fh.write(json.dumps(d) + "\n")
    hcfg = HCFG
    if ctx.replay and replay_ok:
        gens = [st.get("gen", 0) for st in (d.get("script") or []) if isinstance(st, dict)]
        if gens and max(gens) > 4:
            hcfg = HCFG8          # a case found with 8 validators
    cf = ctx.path("c06_cfg.json"); json.dump(hcfg, open(cf, "w"))
    of = ctx.path("c06_res.json")
    p = ctx.run([binp, sf, cf, of], timeout=3000)
    if not os.path.exists(of):
        raise Inconclusive("c06 harness failed (rc=%d): %s" % (p.returncode, p.stderr[-1500:]))
    res = json.load(open(of))
    if res.get("harness_errors"):
        raise Inconclusive("c06 harness error: %s" % res["harness_errors"][:2])
    for v in res.get("violations") or []:
        if keys_for_pid is None or keys_for_pid(v["key"]):
            ctx.violation(v["key"], v["what"], v.get("replay"))
    log("[c06] states=%d verify rows=%d (accepted %d) bitmap tampers rejected=%d singles fed=%d admitted=%d pool cases=%d non-empty own aggregates=%d violations=%s" % (
        res["states"], res["verify_rows"], res["verify_rows_accepted"], res["bitmap_tampers_rejected"], res["single_commits_fed"],
        res["single_commits_admitted"], res["pool_cases"], res["own_aggregates_nonempty"], sorted(set(v["key"] for v in res.get("violations") or []))))
    if not ctx.violations and (not ctx.replay and (res["verify_rows_accepted"] < 20 or res["own_aggregates_nonempty"] < 10 or res["single_commits_admitted"] < 10)):
        raise Inconclusive("too few acceptable commits / non-empty aggregates exercised: vacuous")
    if not (ctx.replay and replay_ok):
        r8 = run_eight(ctx, binp, keys_for_pid)
        for k in ("states", "verify_rows", "verify_rows_accepted", "bitmap_tampers_rejected", "single_commits_fed", "single_commits_admitted", "pool_cases", "own_aggregates_nonempty"):
            res[k] = res.get(k, 0) + r8.get(k, 0)
        res["states_with_8_validators"] = r8["states"]
    return res, sf


def run(ctx):
    res, sf = run_cert(ctx)
    first = json.loads(open(sf).readline())
    cov = dict(traces_validated_against_impl=res["states"],
               samples=[dict(state=first.get("state"), verify_rows=first.get("verify", [])[:3], pool_cases=first.get("pool", [])[:2], singles=first.get("singles", [])[:2])],
               verify_rows=res["verify_rows"], verify_rows_accepted=res["verify_rows_accepted"], bitmap_tampers_rejected=res["bitmap_tampers_rejected"],
               single_commits_fed=res["single_commits_fed"], single_commits_admitted=res["single_commits_admitted"],
               pool_cases=res["pool_cases"], own_aggregates_nonempty=res["own_aggregates_nonempty"],
               rule="per reached node state: all heights 0..tip+1 x all non-empty signer subsets x 3 kinds; all certifier subsets; all (validator, height, block ref, signature) single commits")
    finish(ctx, LEVEL, cov, assumptions=["real BLS12-381 (blst) trusted", "4 validators, weights 4/3/2/1 and two alternative parameter sets",
                                         "the first 100 heights only (chains <= 9 blocks)", "pool admission is checked for soundness only (the node may discard more)"])
