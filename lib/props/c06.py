"""C06 certificates.  Certificate.tla (on Node.tla): for the state at the end of TLC-generated node scripts (chains with
finality, on-chain aggregate commits, validator-set changes, weights 4/3/2/1 so that signer subsets matter) TLC prints
(i) the verdict table of verifyAggregateCommit over every height 0..tip+1 x every signer subset x kind
(valid / signed for another chain / certificate of another block / one signed field changed / empty / half empty),
(ii) pool cases: every set of certifying validators, and a different set per height, (iii) single commits with 'may enter the
pool'.  The harness evaluates the real verifyAggregateCommit on every row (real BLS), tampers aggregation bits, feeds single
commits through singleCommitValidator, and requires the node's own GetAggregateCommit (after Certify + gossip, also after
concurrent deliveries) to pass the node's own verification.

Beside the simulation of 4 validators: 8 validators (bitmap of exactly one byte), 12 validators with unequal, large weights
(bitmap of two bytes), one directed chain of 118 blocks (a parameter change inside the finalized, uncertified range; the commit
window [precommitted - 100, precommitted]), and HISTORIES (CertSpec): hand-encoded gossip messages of several single commits,
Certify, the broadcast tick and GetAggregateCommit as steps in the middle of scripts whose blocks are added, removed and
replaced afterwards."""
import json, os, random, threading
import common
from common import Inconclusive, finish, log
from props import c01

LEVEL = "model_checking"
CH4 = [dict(pcT=4, certT=5, w=[4, 3, 2, 0], gens=[2, 1, 3]), dict(pcT=4, certT=6, w=[1, 2, 3, 4], gens=[4, 1, 2, 3])]
HCFG = dict(nval=4, batch=4, init=dict(pcT=4, certT=6, w=[4, 3, 2, 1], gens=[1, 2, 3, 4]), choices=CH4, now=12, network=False)
HCFG8 = dict(nval=8, batch=8, init=dict(pcT=6, certT=6, w=[1] * 8, gens=list(range(1, 9))), choices=[], now=20, network=False)
# 12 validators: the weights of Certificate_12.cfg (5 1 3 1 2 1 4 1 2 1 3 1, thresholds 17) times 2^45 - sums of the order of
# real proof-of-stake weights; every comparison of the rule is invariant under the common factor
SCALE = 2 ** 45
W12 = [5, 1, 3, 1, 2, 1, 4, 1, 2, 1, 3, 1]
HCFG12 = dict(nval=12, batch=12, init=dict(pcT=17 * SCALE, certT=17 * SCALE, w=[w * SCALE for w in W12], gens=list(range(1, 13))),
              choices=[], now=26, network=False)
HCFG_HIST = dict(HCFG, now=30)
HCFG_LONG = dict(HCFG, now=120)
HCFGS = dict(sim=HCFG, eight=HCFG8, twelve=HCFG12, hist=HCFG_HIST, long=HCFG_LONG)

JAVA = "-Xmx4g -XX:ParallelGCThreads=4"     # the additional TLC runs share the machine with the main one
COUNT_KEYS = ("states", "verify_rows", "verify_rows_accepted", "bitmap_tampers_rejected", "single_commits_fed", "single_commits_admitted",
              "pool_cases", "own_aggregates_nonempty")


def harness(ctx, binp, name, hcfg_name, dumps, keys_for_pid):
    """run the replayer on a list of dumps; report its violations (with the harness configuration they need for a replay)"""
    sf = ctx.path("c06_%s_dumps.ndjson" % name)
    with open(sf, "w") as fh:
        for d in dumps:
            fh.write(json.dumps(d) + "\n")
    cf = ctx.path("c06_cfg_%s.json" % name); json.dump(HCFGS[hcfg_name], open(cf, "w"))
    of = ctx.path("c06_res_%s.json" % name)
    p = ctx.run([binp, sf, cf, of], timeout=3000)
    if not os.path.exists(of):
        raise Inconclusive("c06 harness (%s) failed (rc=%d): %s" % (name, p.returncode, p.stderr[-1500:]))
    res = json.load(open(of))
    if res.get("harness_errors"):
        raise Inconclusive("c06 harness error (%s): %s" % (name, res["harness_errors"][:2]))
    for v in res.get("violations") or []:
        if keys_for_pid is None or keys_for_pid(v["key"]):
            if isinstance(v.get("replay"), dict):
                v["replay"]["hcfg"] = hcfg_name
            ctx.violation(v["key"], v["what"], v.get("replay"))
    res["counts"] = res.get("counts") or {}
    return res, sf


def sample(rng, xs, n):
    xs = list(xs or [])
    return xs if len(xs) <= n else rng.sample(xs, n)


def run_eight(ctx, binp, keys_for_pid, extended=False):
    """8 validators: the aggregation bitmap is exactly one byte (validator counts that are multiples of 8 sit on the
    boundary of every length rule); straight chains to finality, signer / certifier sets from SignerFamily"""
    cfg = c01.write_cfg(ctx, "cert8", c01.cfg_text("Certificate_8"))
    r = ctx.tlc("MCCertificate", cfg, workers=1, timeout=1800, simulate=4 if ctx.tier == "quick" else 30, depth=17, seed=ctx.seed + 8)
    if r["violation"]:
        raise Inconclusive("Certificate.tla (8 validators) violates one of its own properties: %s" % r["outpath"])
    best = {}
    for d in ctx.dumps(r["out"]):
        if d["state"]["mhpc"] > d["state"]["cert"]:      # something is certifiable
            best[json.dumps(d["script"], sort_keys=True)] = d
    keep = sorted(best.values(), key=lambda d: -len(d["script"]))[:6 if ctx.tier == "quick" else 40]
    if not keep:
        raise Inconclusive("no 8-validator script reached a certifiable height")
    rng = random.Random(ctx.seed + 8)
    for d in keep:
        d["mpool"] = sample(rng, d.get("mpool"), 8) if extended else []
        d["conc"] = 1 if extended else 0
    res, _ = harness(ctx, binp, "eight", "eight", keep, keys_for_pid)
    log("[c06] 8 validators: states=%d verify rows=%d (accepted %d) pool cases=%d non-empty own aggregates=%d violations=%s" % (
        res["states"], res["verify_rows"], res["verify_rows_accepted"], res["pool_cases"], res["own_aggregates_nonempty"],
        sorted(set(v["key"] for v in res.get("violations") or []))))
    if not ctx.violations and res["own_aggregates_nonempty"] == 0:
        raise Inconclusive("8 validators: no non-empty aggregate was assembled: vacuous")
    return res


def run_twelve(ctx, binp):
    """12 validators with unequal weights: two bitmap bytes, the second partly used (flips in byte 1, 'drop the last byte'),
    weights of the order of 2^47"""
    quick = ctx.tier == "quick"
    cfg = c01.write_cfg(ctx, "cert12", c01.cfg_text("Certificate_12"))
    r = ctx.tlc("MCCertificate", cfg, workers=1, timeout=1800, simulate=3 if quick else 20, depth=23, seed=ctx.seed + 12, java_opts=JAVA)
    if r["violation"]:
        raise Inconclusive("Certificate.tla (12 validators) violates one of its own properties: %s" % r["outpath"])
    best = {}
    for d in ctx.dumps(r["out"]):
        if d["state"]["mhpc"] > d["state"]["cert"]:
            best[json.dumps(d["script"], sort_keys=True)] = d
    keep = sorted(best.values(), key=lambda d: (-(d["state"]["mhpc"] - d["state"]["cert"]), -len(d["script"])))[:2 if quick else 12]
    if not keep:
        raise Inconclusive("no 12-validator script reached a certifiable height")
    rng = random.Random(ctx.seed + 12)
    for d in keep:
        d["mpool"] = sample(rng, d.get("mpool"), 16)
        d["conc"] = 2
    res, _ = harness(ctx, binp, "twelve", "twelve", keep, None)
    log("[c06] 12 validators (weights x 2^45): states=%d verify rows=%d (accepted %d) tampers rejected=%d pool cases=%d violations=%s" % (
        res["states"], res["verify_rows"], res["verify_rows_accepted"], res["bitmap_tampers_rejected"], res["pool_cases"],
        sorted(set(v["key"] for v in res.get("violations") or []))))
    return res


def run_long(ctx, binp):
    """the directed chain (DirSpec): parameters change after block 3, no certificate before block 9 (the change lies inside
    the finalized, uncertified range), certificates by the new validator set in blocks 9..14, then 104 more blocks without"""
    cfg = c01.write_cfg(ctx, "certlong", c01.cfg_text("Certificate_long"))
    r = ctx.tlc("MCCertificate", cfg, workers=1, timeout=1800, java_opts=JAVA)
    if r["violation"]:
        raise Inconclusive("Certificate.tla (directed chain) violates one of its own properties: %s" % r["outpath"])
    ds = sorted(ctx.dumps(r["out"]), key=lambda d: len(d["script"]))
    beyond = [d for d in ds if d["state"]["nextParams"] and d["state"]["cert"] + 2 <= d["state"]["nextParams"] <= d["state"]["mhpc"]]
    after = [d for d in ds if d["state"]["cert"] >= 3 and d["state"]["mhpc"] > d["state"]["cert"] and d["state"]["tip"] <= 20]
    wide = [d for d in after if d["state"]["mhpc"] >= d["state"]["cert"] + 2]
    longs = [d for d in ds if d["state"]["tip"] > 100]
    if not beyond or not after or not longs:
        raise Inconclusive("the directed chain did not reach its states (beyond %d, after the change %d, long %d)" % (len(beyond), len(after), len(longs)))
    quick = ctx.tier == "quick"
    keep = beyond[:1 if quick else 2] + after[:1] + wide[:1 if quick else 4] + longs[:1]
    seen, uniq = set(), []
    for d in keep:
        if len(d["script"]) not in seen:
            seen.add(len(d["script"])); uniq.append(d)
    rng = random.Random(ctx.seed + 100)
    for d in uniq:
        d["mpool"] = sample(rng, d.get("mpool"), 20 if quick else 200)
        d["conc"] = (12 if quick else 100) if d["state"]["tip"] > 100 else 2
    res, _ = harness(ctx, binp, "long", "long", uniq, None)
    log("[c06] directed chain: states=%d (tips %s) verify rows=%d (accepted %d) singles admitted=%d pool cases=%d violations=%s" % (
        res["states"], [d["state"]["tip"] for d in uniq], res["verify_rows"], res["verify_rows_accepted"], res["single_commits_admitted"],
        res["pool_cases"], sorted(set(v["key"] for v in res.get("violations") or []))))
    return res


def run_hist(ctx, binp):
    """histories (CertSpec): gossip messages, Certify, ticks and GetAggregateCommit in the middle of scripts"""
    quick = ctx.tier == "quick"
    cfg = c01.write_cfg(ctx, "certhist", c01.cfg_text("Certificate_hist"))
    r = ctx.tlc("MCCertificate", cfg, workers=1, timeout=1800, simulate=60 if quick else 600, depth=30, seed=ctx.seed + 30, java_opts=JAVA)
    if r["violation"]:
        raise Inconclusive("Certificate.tla (histories) violates one of its own properties: %s" % r["outpath"])
    by = {}
    for d in ctx.dumps(r["out"]):
        by[json.dumps(d["script"], sort_keys=True)] = d
    ds = list(by.values())
    rng = random.Random(ctx.seed + 30)
    rng.shuffle(ds)
    # a commit was admitted for a block that was replaced afterwards, and its height is certifiable at the end
    stale = [d for d in ds if d.get("stale")]
    plain = sorted([d for d in ds if not d.get("stale")], key=lambda d: (d.get("ndel", 0) > 0, -len(d["script"])))
    keep = stale[:40 if quick else 400] + plain[:50 if quick else 500]
    if len(keep) < 20:
        raise Inconclusive("too few histories generated (%d)" % len(keep))
    res, _ = harness(ctx, binp, "hist", "hist", keep, None)
    c = res["counts"]
    log("[c06] histories: scripts=%d (%d with a replaced block under a pooled commit) messages=%d commits fed=%d admitted=%d ticks=%d assembles=%d (non-empty %d) violations=%s" % (
        c.get("hist_scripts", 0), len(stale[:40 if quick else 400]), c.get("hist_messages", 0), c.get("hist_commits_fed", 0), c.get("hist_commits_admitted", 0),
        c.get("hist_ticks", 0), c.get("hist_assembles", 0), c.get("hist_assembles_nonempty", 0), sorted(set(v["key"] for v in res.get("violations") or []))))
    return res


def run_cert(ctx, keys_for_pid=None, replay_ok=True, extended=False, binp=None):
    """the certificate machinery; keys_for_pid filters the violation keys that belong to the calling property
    (C15 uses the pool cases: what GetAggregateCommit assembles must pass the node's own verification).
    extended (C06 itself): per-height certifier sets and concurrent deliveries on every reached state"""
    binp = binp or ctx.go_build("./cmd/c06")
    hname = "sim"
    if ctx.replay and replay_ok:
        d = json.load(open(ctx.replay))["replay"]
        one = dict(script=d["script"], state=d.get("state", {}), verify=[d["row"]] if "row" in d else [],
                   pool=[dict(d["pool"], regossip=bool(d.get("regossip")))] if "pool" in d else [], singles=[d["single"]] if "single" in d else [],
                   mpool=[d["mpool"]] if "mpool" in d else [], conc=int(d.get("conc") or 0), hist=bool(d.get("hist")))
        dumps = [one]
        hname = d.get("hcfg") or ""
        if hname not in HCFGS:
            gens = [st.get("gen", 0) for st in (d.get("script") or []) if isinstance(st, dict)]
            hname = "twelve" if gens and max(gens) > 8 else "eight" if gens and max(gens) > 4 else "sim"   # replay files written before "hcfg"
    else:
        traces = 12 if ctx.tier == "quick" else 120
        cfg = c01.write_cfg(ctx, "cert", c01.cfg_text("Certificate_sim"))
        r = ctx.tlc("MCCertificate", cfg, workers=1, timeout=1800, simulate=traces, depth=12, seed=ctx.seed)
        if r["violation"]:
            raise Inconclusive("Certificate.tla / Node.tla violates one of its own properties: %s" % r["outpath"])
        seen = set()
        dumps = []
        rng = random.Random(ctx.seed)
        for d in ctx.dumps(r["out"]):
            k = json.dumps(d["script"], sort_keys=True)
            if k in seen:
                continue
            seen.add(k)
            d["mpool"] = sample(rng, d.get("mpool"), 12) if extended else []
            d["conc"] = 1 if extended else 0
            dumps.append(d)
    res, sf = harness(ctx, binp, "sim", hname, dumps, keys_for_pid)
    log("[c06] states=%d verify rows=%d (accepted %d) bitmap tampers rejected=%d singles fed=%d admitted=%d pool cases=%d non-empty own aggregates=%d violations=%s" % (
        res["states"], res["verify_rows"], res["verify_rows_accepted"], res["bitmap_tampers_rejected"], res["single_commits_fed"],
        res["single_commits_admitted"], res["pool_cases"], res["own_aggregates_nonempty"], sorted(set(v["key"] for v in res.get("violations") or []))))
    if not ctx.violations and (not ctx.replay and (res["verify_rows_accepted"] < 20 or res["own_aggregates_nonempty"] < 10 or res["single_commits_admitted"] < 10)):
        raise Inconclusive("too few acceptable commits / non-empty aggregates exercised: vacuous")
    if not (ctx.replay and replay_ok):
        r8 = run_eight(ctx, binp, keys_for_pid, extended)
        res = merge(res, r8)
        res["states_with_8_validators"] = r8["states"]
    return res, sf


def merge(a, b):
    """add the counters of harness result b to a"""
    for k in COUNT_KEYS:
        a[k] = a.get(k, 0) + b.get(k, 0)
    for k, v in (b.get("counts") or {}).items():
        a["counts"][k] = a["counts"].get(k, 0) + v
    a["experimental"] = (a.get("experimental") or []) + (b.get("experimental") or [])
    return a


# what a run must have exercised (per class: a run in which a class never occurred is inconclusive, not a pass)
GUARDS = [
    ("accept:valid", 20), ("accept:block-preceding-the-change", 1), ("accept:smaller-validator-set", 1), ("accept:empty", 5),
    ("accept:bitmap-of-several-bytes", 5),
    ("reject-with-sound-signers:height-not-above-certified", 1), ("reject-with-sound-signers:height-above-precommitted", 1),
    ("reject-with-sound-signers:height-beyond-next-params", 1), ("reject:empty", 20), ("rows:halfempty-nosig", 20), ("rows:halfempty-nobits", 20),
    ("tamper-rejected:flip8", 1), ("tamper-rejected:flip-last", 1), ("tamper-rejected:drop-last-byte", 1),
    ("own_aggregates_with_bitmap_of_several_bytes", 3),
    ("mpool_cases", 50), ("mpool_nonempty", 10), ("mpool_aggregate_below_the_top_height", 3), ("mpool_cases_by_gossip", 5),
    ("singles_admitted_at_height_without_new_parameters", 5),
    ("hist_scripts", 20), ("hist_commits_admitted", 20), ("hist_messages_of_2", 5), ("hist_messages_of_3", 5),
    ("hist_fed:foreign-sig", 1), ("hist_fed:height-mismatch", 1), ("hist_fed:inactive", 1),
    ("hist_fed:malformed", 5), ("hist_ticks", 5), ("hist_assembles_nonempty", 5),
    ("hist_assembles_after_replacing_a_block_with_pooled_commit", 3),
    ("conc_rounds", 20), ("conc_rounds_with_commits_admitted_from_gossip", 5),
]


def run(ctx):
    if ctx.replay:
        res, sf = run_cert(ctx, extended=True)
        finish(ctx, LEVEL, dict(traces_validated_against_impl=res["states"], samples=[str(json.load(open(ctx.replay))["replay"])[:300]], counts=res["counts"]))
    binp = ctx.go_build("./cmd/c06")
    # the additional configurations run, one after the other, next to the simulation of 4 and 8 validators
    parts, errors = {}, []

    def extra():
        for name, fn in (("long", run_long), ("twelve", run_twelve), ("hist", run_hist)):
            try:
                parts[name] = fn(ctx, binp)
            except Inconclusive as e:
                errors.append("%s: %s" % (name, e))
            except Exception as e:   # pragma: no cover
                errors.append("%s: internal error %r" % (name, e))
    t = threading.Thread(target=extra)
    t.start()
    try:
        res, sf = run_cert(ctx, extended=True, binp=binp)
    finally:
        t.join()
    if errors and not ctx.violations:
        raise Inconclusive("; ".join(errors))
    for name in ("hist", "long", "twelve"):
        if name in parts:
            res = merge(res, parts[name])
    c = res["counts"]
    c["hist_fed:malformed"] = sum(v for k, v in c.items() if k.startswith("hist_fed:") and k.split(":")[1] in (
        "sig0", "sig95", "sig97", "id0", "id31", "id33", "addr0", "addr19", "addr21"))
    exp = res.get("experimental") or []
    if exp:
        keys = sorted(set(v["key"] for v in exp))
        log("[c06] NOT reported (sub-check behind VERIF_EXPERIMENTAL=1 until the finding is triaged): %s" % ", ".join(
            "%s x%d" % (k, c.get("experimental:" + k, 0)) for k in keys))
    missing = ["%s=%d (< %d)" % (k, c.get(k, 0), n) for k, n in GUARDS if c.get(k, 0) < n]
    if missing and not ctx.violations:
        raise Inconclusive("classes of the rule that this run did not exercise enough: " + ", ".join(missing))
    first = json.loads(open(sf).readline())
    cov = dict(traces_validated_against_impl=res["states"],
               samples=[dict(state=first.get("state"), verify_rows=first.get("verify", [])[:3], pool_cases=first.get("pool", [])[:2], singles=first.get("singles", [])[:2])],
               verify_rows=res["verify_rows"], verify_rows_accepted=res["verify_rows_accepted"], bitmap_tampers_rejected=res["bitmap_tampers_rejected"],
               single_commits_fed=res["single_commits_fed"], single_commits_admitted=res["single_commits_admitted"],
               pool_cases=res["pool_cases"], own_aggregates_nonempty=res["own_aggregates_nonempty"], counts=dict(sorted(c.items())),
               experimental_subcheck=dict(enabled=os.environ.get("VERIF_EXPERIMENTAL") == "1", held_back=sorted(set(v["key"] for v in exp)),
                                          sample=(exp[0]["what"][:400] if exp else None)),
               rule="per reached node state: heights 0..tip+1 (long chains: around every bound) x signer subsets x 9 kinds; certifier subsets, "
                    "a certifier set per height; (validator, height, block ref, signature) single commits; histories of messages / Certify / "
                    "ticks / GetAggregateCommit between blocks that are added, removed and replaced; concurrent deliveries")
    finish(ctx, LEVEL, cov, assumptions=["real BLS12-381 (blst) trusted", "4 validators (weights 4/3/2/1 and two alternative parameter sets), 8 equal weights, 12 unequal weights x 2^45",
                                         "chains <= 22 blocks and one directed chain of 118 blocks", "pool admission is checked for soundness only (the node may discard more)",
                                         "one BLS key per validator identity (no key rotation under one address)"])
