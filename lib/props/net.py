"""Network-level composition (spec/Net.tla): N honest nodes, each hosting one validator; forging on the node's own tip,
announcing tips to other nodes through the real process() path (LIP-0014 fork choice cascade, tie break, fast sync with
the announcing peer).  TLC checks Agreement / TreeSafety / FinalMonotone / FinalizedIrreversible / HonestNoContra /
OneBlockPerSlot / NeverWorse on the model exhaustively inside the bounds and prints scripts; cmd/net replays them on real
nodes connected over loopback and compares the acted-on node with the model after every step, and the finalized
prefixes of all nodes on real block ids.  Shared by C01 (agreement), C04 (finality per node) and C19 (sync outcomes)."""
import json, os
import common
from common import Inconclusive, log
from props import c01

def maybe_replay(ctx, level):
    """--replay of a violation found by the network replay: re-run that one script on real nodes"""
    if not ctx.replay:
        return
    d = json.load(open(ctx.replay)).get("replay")
    if not (isinstance(d, dict) and isinstance(d.get("config"), dict) and "nval" in d["config"]):
        return
    binp = ctx.go_build("./cmd/net")
    sf = ctx.path("replay.ndjson"); open(sf, "w").write(json.dumps(dict(script=d["script"])) + "\n")
    cf = ctx.path("replay_cfg.json"); json.dump(d["config"], open(cf, "w"))
    of = ctx.path("replay_res.json")
    ctx.run([binp, sf, cf, of], timeout=600)
    res = json.load(open(of))
    for v in res.get("violations") or []:
        ctx.violation(v["key"], v["what"], v.get("replay"))
    common.finish(ctx, level, dict(traces_validated_against_impl=res["scripts"], samples=[d["script"][:2]]))

def run_fixed(ctx):
    """hand-written regression scripts (spec/scripts/net_*.json: one JSON object with script + config per file): sequences
    that random sampling reaches too rarely.  Returns the harness violations."""
    import glob
    binp = ctx.go_build("./cmd/net")
    out = []
    n = 0
    for f in sorted(glob.glob(os.path.join(common.SPEC, "scripts", "net_*.json"))):
        d = json.load(open(f))
        sf = ctx.path(os.path.basename(f) + ".ndjson"); open(sf, "w").write(json.dumps(dict(script=d["script"])) + "\n")
        cf = ctx.path(os.path.basename(f) + ".cfg.json"); json.dump(d["config"], open(cf, "w"))
        of = ctx.path(os.path.basename(f) + ".res.json")
        p = ctx.run([binp, sf, cf, of], timeout=300)
        if not os.path.exists(of):
            raise Inconclusive("net harness failed on %s (rc=%d): %s" % (f, p.returncode, p.stderr[-800:]))
        res = json.load(open(of))
        if res.get("harness_errors"):
            raise Inconclusive("net harness error on %s: %s" % (f, res["harness_errors"][:2]))
        n += 1
        for v in res.get("violations") or []:
            out.append(dict(v, script=os.path.basename(f)))
    log("[net] fixed scripts replayed: %d, violations %s" % (n, [v["key"] for v in out]))
    return n, out


def run_net(ctx, keys_for_pid, scripts_cap=None, parts=("honest_exh", "honest_sim", "byz_exh", "byz_sim", "chg_sim"), invalid=False):
    """invalid=True (C01): the Byzantine configurations also offer blocks that break a BFT rule of verifyBlock
    (Net.tla ByzForgeInvalid); the part "chg_byz_sim" (validator-set changes with a Byzantine validator of four) exists for C01"""
    quick = ctx.tier == "quick"
    binp = ctx.go_build("./cmd/net")
    runs = []
    if quick:
        runs.append(("net_exh", dict(MaxSteps=10, MaxBlocks=8, Now=8, DumpEvery=8), dict(workers=8, timeout=900), dict(nval=3, pcT=2, now=8)))
    else:
        runs.append(("net_exh", dict(MaxSteps=12, MaxBlocks=9, Now=9, DumpEvery=60), dict(workers=12, timeout=2400), dict(nval=3, pcT=2, now=9)))
    # deeper than the exhaustive bounds (forks older than the sampled heights: honest peer banned; finality on forks)
    runs.append(("net_sim", dict(MaxSteps=30, MaxBlocks=16, MaxHeight=10, Now=24, DumpEvery=1, SkipDiscard="TRUE", SlotSpan=3, MaxRestart=1),
                 dict(workers=1, timeout=900, simulate=200 if quick else 2000, depth=32, seed=ctx.seed), dict(nval=3, pcT=2, now=24)))
    # one Byzantine validator of four (weight 1/4 < 1/3): forges on any parent with any claimed maxHeightGenerated, several
    # blocks per height, announces them in any order and serves their chains; Agreement / TreeSafety must still hold
    byz = dict(NVal=4, Win=12, InitW="W1111", InitPCT=3, Byz="{4}")
    hbyz = dict(nval=4, pcT=3, byz=[4])
    if quick:
        runs.append(("net_byz_exh", dict(byz, MaxSteps=7, MaxBlocks=6, Now=8, MaxByz=2, DumpEvery=40), dict(workers=12, timeout=900), dict(hbyz, now=8)))
    else:
        runs.append(("net_byz_exh", dict(byz, MaxSteps=9, MaxBlocks=7, Now=8, MaxByz=3, DumpEvery=400), dict(workers=14, timeout=3000), dict(hbyz, now=8)))
    runs.append(("net_byz_sim", dict(byz, MaxSteps=34, MaxBlocks=20, MaxHeight=11, Now=30, MaxByz=5, DumpEvery=1, SkipDiscard="TRUE", SlotSpan=4),
                 dict(workers=1, timeout=900, simulate=150 if quick else 1500, depth=36, seed=ctx.seed + 11), dict(hbyz, now=30)))
    # validator-set changes inside the network (validator 3 leaves / re-weighting with a re-ordered generator list): the
    # generator of a slot, the round length used by fast sync and the BFT thresholds change along the chain
    choices = [dict(pcT=2, certT=2, w=[1, 1, 0], gens=[2, 1]), dict(pcT=3, certT=3, w=[2, 1, 1], gens=[3, 1, 2])]
    chg = dict(ParamChoices="Choices3", MaxChg=1)
    runs.append(("net_chg_sim", dict(chg, MaxChg=2, MaxSteps=30, MaxBlocks=16, MaxHeight=10, Now=24, DumpEvery=1, SkipDiscard="TRUE", SlotSpan=3),
                 dict(workers=1, timeout=900, simulate=150 if quick else 1500, depth=32, seed=ctx.seed + 23), dict(nval=3, pcT=2, now=24, choices=choices)))
    # C01: the same with one Byzantine validator of four (weight 1/4, 1/5 after the re-weighting; it may leave and come back)
    choices4 = [dict(pcT=3, certT=3, w=[2, 1, 1, 1], gens=[2, 4, 1, 3]), dict(pcT=2, certT=2, w=[1, 1, 1, 0], gens=[3, 1, 2])]
    runs.append(("net_chg_byz_sim", dict(byz, ParamChoices="Choices4", MaxChg=2, MaxSteps=34, MaxBlocks=20, MaxHeight=11, Now=30, MaxByz=4, DumpEvery=1, SkipDiscard="TRUE", SlotSpan=4),
                 dict(workers=1, timeout=900, simulate=150 if quick else 1500, depth=36, seed=ctx.seed + 37), dict(hbyz, now=30, choices=choices4)))
    part_of = dict(net_chg_sim="chg_sim", net_exh="honest_exh", net_sim="honest_sim", net_byz_exh="byz_exh", net_byz_sim="byz_sim", net_chg_byz_sim="chg_byz_sim")
    runs = [r for r in runs if part_of[r[0]] in parts]
    if invalid:
        for r in runs:
            # (not in the exhaustive configuration: its VIEW merges a state reached through a rejected block with the same
            # network state reached otherwise, so almost no dumped script would contain one)
            if r[0] in ("net_byz_sim", "net_chg_byz_sim"):
                r[1]["MaxInvalid"] = 2
    total = dict(scripts=0, steps=0, forges=0, delivers=0, restarts=0, byzantine_forges=0, byzantine_delivers=0, scripts_with_finality=0, finalized_prefix_pairs_compared=0,
                 invalid_blocks_followed_by_steps=0, scripts_continued_after_finalized_height_left_the_model=0, steps_with_finalized_prefix_bookkeeping=0,
                 finality_raises_with_events_compared=0, finality_raises_through_sync_with_events_compared=0, finalize_events_compared=0)
    inv = {}; invtwin = {}
    branches = {}; syncs = {}
    sample = None
    cap = scripts_cap or (250 if quick else 3000)
    for name, kw, tk, hcfg in runs:
        cfg = c01.write_cfg(ctx, name, c01.cfg_text("Net_exh", **kw))
        r = ctx.tlc("MCNet", cfg, **tk)
        if r["violation"]:
            raise Inconclusive("Net.tla violates one of its own properties (%s): the model of the honest network is not safe - inspect %s" % (name, r["outpath"]))
        sf = ctx.path(name + "_scripts.ndjson")
        seen = set(); n = 0
        with open(sf, "w") as fh:
            for d in ctx.dumps(r["out"]):
                k = json.dumps(d["script"], sort_keys=True)
                if k in seen:
                    continue
                seen.add(k)
                if n < cap:
                    fh.write(json.dumps(d) + "\n"); n += 1
                    if sample is None and any(s.get("sync") == "switch" for s in d["script"]):
                        sample = d["script"]
        cf = ctx.path(name + "_cfg.json"); json.dump(hcfg, open(cf, "w"))
        res, p = common.run_chunked(ctx, sf, 400, lambda piece, of: [binp, piece, cf, of])
        if res is None:
            raise Inconclusive("net harness failed (rc=%d): %s" % (p.returncode, p.stderr[-1500:]))
        if res.get("harness_errors"):
            raise Inconclusive("net harness error: %s" % res["harness_errors"][:2])
        for k in total:
            total[k] += res.get(k, 0)
        for k, v in (res.get("branches") or {}).items():
            branches[k] = branches.get(k, 0) + v
        for k, v in (res.get("sync_outcomes") or {}).items():
            syncs[k] = syncs.get(k, 0) + v
        for k, v in (res.get("invalid_blocks_offered") or {}).items():
            inv[k] = inv.get(k, 0) + v
        for k, v in (res.get("invalid_blocks_whose_valid_twin_is_accepted") or {}).items():
            invtwin[k] = invtwin.get(k, 0) + v
        other = []
        for v in list(res.get("violations") or []):
            if v["key"].startswith("net:hang") and isinstance(v.get("replay"), dict):
                # a call that did not return in time on a busy machine proves nothing by itself: the script is run again,
                # alone; only a hang that shows again is reported
                again = False
                for attempt in range(2):
                    sf1 = ctx.path("hang_%d.ndjson" % attempt); open(sf1, "w").write(json.dumps(dict(script=v["replay"]["script"])) + "\n")
                    cf1 = ctx.path("hang_cfg.json"); json.dump(v["replay"]["config"], open(cf1, "w"))
                    of1 = ctx.path("hang_res.json")
                    if os.path.exists(of1):
                        os.remove(of1)
                    ctx.run([binp, sf1, cf1, of1], timeout=600)
                    r1 = json.load(open(of1)) if os.path.exists(of1) else {}
                    if any(x["key"] == v["key"] for x in (r1.get("violations") or [])):
                        again = True
                        break
                if not again:
                    log("[net] a call exceeded its deadline once (%s) and returned promptly when the script was re-run twice: not reported" % v["key"])
                    total["unreproduced_deadline_misses"] = total.get("unreproduced_deadline_misses", 0) + 1
                    continue
            if keys_for_pid(v["key"]):
                ctx.violation(v["key"], v["what"], v.get("replay"))
            else:
                other.append(v["key"])
        log("[net] %s: scripts=%d steps=%d forges=%d(byz %d) delivers=%d(byz %d) branches=%s sync=%s finality=%d pairs=%d violations=%s" % (
            name, res["scripts"], res["steps"], res["forges"], res.get("byzantine_forges", 0), res["delivers"], res.get("byzantine_delivers", 0), res.get("branches"), res.get("sync_outcomes"),
            res["scripts_with_finality"], res["finalized_prefix_pairs_compared"], sorted(set(v["key"] for v in res.get("violations") or []))))
        if other:
            log("[net] note: violations belonging to other properties were observed: %s" % sorted(set(other)))
    if invalid and not ctx.violations:
        # non-vacuity (C01): both rules of verifyBlock were attacked, by blocks whose valid twin the same code accepts, with steps after them
        mhp = invtwin.get("mhp+1", 0) + invtwin.get("mhp-1", 0)
        if mhp == 0 or invtwin.get("contra", 0) == 0 or total["invalid_blocks_followed_by_steps"] == 0:
            raise Inconclusive("blocks that break a BFT rule of verifyBlock were not offered in both kinds (offered %s, with an accepted valid twin %s): vacuous" % (inv, invtwin))
    need_fin = "honest_sim" in parts
    if not ctx.violations and (total["delivers"] < 100 or branches.get("differentchain", 0) < 10 or (need_fin and total["scripts_with_finality"] == 0)):
        raise Inconclusive("network scripts did not exercise enough (delivers / syncs / finality): vacuous")
    extra = {}
    if invalid:
        extra = dict(net_invalid_blocks_offered=inv, net_invalid_blocks_whose_valid_twin_is_accepted=invtwin,
                     net_invalid_blocks_followed_by_steps=total["invalid_blocks_followed_by_steps"],
                     net_scripts_continued_after_finalized_height_left_the_model=total["scripts_continued_after_finalized_height_left_the_model"],
                     net_steps_with_finalized_prefix_bookkeeping=total["steps_with_finalized_prefix_bookkeeping"])
    return dict(extra, net_byzantine_blocks=total["byzantine_forges"], net_byzantine_announcements=total["byzantine_delivers"], net_unreproduced_deadline_misses=total.get("unreproduced_deadline_misses", 0), net_scripts=total["scripts"], net_restarts=total["restarts"], net_steps=total["steps"], net_forges=total["forges"], net_delivers=total["delivers"],
                net_branches=branches, net_sync_outcomes=syncs, net_scripts_with_finality=total["scripts_with_finality"],
                net_finalized_prefix_pairs_compared=total["finalized_prefix_pairs_compared"], net_sample=(sample or [])[:4],
                # C04: finalize events drained from every node after every step
                net_finality_raises_with_events_compared=total["finality_raises_with_events_compared"],
                net_finality_raises_through_sync_with_events_compared=total["finality_raises_through_sync_with_events_compared"],
                net_finalize_events_compared=total["finalize_events_compared"])
