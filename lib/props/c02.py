"""C02 BFT heights are a deterministic function of the header chain.
(B, main) seeded driver records calls on the real liskbft.Module with the projected store after each call;
TLC validates the log against LiskBFT (every step deterministic => logged state must equal the spec state),
checking RoundRobinFinal / HeightsSane / Monotone in every state.  Every chain is also fed to a shadow node (other list
order, never flushed) and every fourth one to a twin (all heights shifted by 2^16.. / 2^24.. / 2^31.., all weights multiplied by
2^32-1 / 2^32 / 10^17) whose observations, mapped back, must be explained by the same model state ("Peer" lines).  One more
trace is recorded in the world of a main-net round (103 identities, batch 103, window 309).
(A) exhaustive single-chain enumeration by TLC (all generator / maxHeightGenerated choices, one parameter change)
replayed through the real module."""
import json, os, re
import common
from common import Inconclusive, finish, log
from props import c01

LEVEL = "model_checking"

KINDS = {"MISMATCH": "state", "MISMATCH-ERR": "error", "MISMATCH-CONTRA": "contra", "MISMATCH-IMPLIES": "implies",
         "MISMATCH-API": "api", "MISMATCH-HASH": "hash", "MISMATCH-GEN": "generators", "MISMATCH-PEER": "peer"}

def validate(ctx, binp, chains, seed, tag, cfg="LiskBFTTrace", mode="std"):
    tr = ctx.path("trace_%s.ndjson" % tag); meta = ctx.path("meta_%s.json" % tag)
    p = ctx.run([binp, tr, meta, str(chains), mode], env={"VERIF_SEED": str(seed)}, timeout=1800)
    if p.returncode != 0:
        raise Inconclusive("recorder failed: %s %s" % (p.stderr[-1500:], open(meta).read() if os.path.exists(meta) else ""))
    m = json.load(open(meta))
    lines = open(tr).read().splitlines()
    r = ctx.tlc("LiskBFTTrace", cfg, workers=1, timeout=3000, files={"trace.ndjson": tr})
    accepted = r["distinct"] - 1
    res = dict(meta=m, events=len(lines), accepted=accepted, mismatch=None)
    if cfg not in ("LiskBFTTrace", "LiskBFTTrace_big"):
        # non-blocking mode (C07): only the contradiction probes are judged; the first one that differs is reported
        cm = re.findall(r'<<"MISMATCH-CONTRA", (\d+), (TRUE|FALSE)>>', r["out"])
        if cm:
            ln = int(cm[0][0])
            start = max(i for i in range(min(ln, len(lines))) if '"ev":"Init"' in lines[i])
            res["mismatch"] = dict(kind="contra", line=ln, detail="ContraChain = %s" % cm[0][1], chain_prefix=[json.loads(x) for x in lines[start:ln]][-14:],
                                   observed=json.loads(lines[ln - 1]))
        # (C07, G3) the monitor stops at a line only one side accepts (MISMATCH-ERR / MISMATCH-IMPLIES) or when TLC itself
        # gives up: the probes behind that line are unjudged - the caller must not count them as validated
        if accepted < len(lines):
            stop = [l for l in r["out"].splitlines() if l.startswith(('<<"MISMATCH-ERR', '<<"MISMATCH-IMPLIES'))]
            res["ended_early"] = (stop[-1][:200] if stop else (r.get("error") or "TLC stopped without a MISMATCH line"))
        res["sample"] = [json.loads(x) for x in lines[:4]]
        return res
    if r["violation"]:
        # an invariant of the spec is false in a state the real code reached
        inv = [l for l in r["out"].splitlines() if "is violated" in l]
        res["mismatch"] = dict(kind="invariant", line=accepted, detail=inv[:1])
    elif accepted < len(lines):
        mm = [l for l in r["out"].splitlines() if l.startswith('<<"MISMATCH')]
        kind = "state"
        if mm:
            parts = mm[-1].split('"')
            kind = KINDS.get(parts[1], "state")
            if kind == "peer":
                # the observation of another real node fed the same chain: the twin lives at shifted heights with scaled weights
                # (integer domain), the shadow differs in list order and flushing only (determinism)
                kind = "scaled" if len(parts) > 3 and parts[3] == "twin" else "shadow"
        res["mismatch"] = dict(kind=kind, line=accepted + 1, detail=mm[-1:][0][:1500] if mm else "")
    if res["mismatch"]:
        ln = res["mismatch"]["line"]
        start = max(i for i in range(min(ln, len(lines))) if '"ev":"Init"' in lines[i])
        res["mismatch"]["chain_prefix"] = [json.loads(x) for x in lines[start:ln]][-12:]
        res["mismatch"]["observed"] = json.loads(lines[ln - 1]) if ln - 1 < len(lines) else None
    res["sample"] = [json.loads(x) for x in lines[:4]]
    return res

ALL_KINDS = ("state", "error", "implies", "invariant", "contra", "api", "hash", "generators", "scaled", "shadow")

def report(ctx, res, seed, chains, pid_kinds=ALL_KINDS, mode="std"):
    mm = res["mismatch"]
    if mm and mm["kind"] in pid_kinds:
        rp = dict(seed=seed, chains=chains, mode=mode, line=mm["line"], chain_prefix=mm["chain_prefix"])
        if mm["kind"] == "shadow":
            ctx.violation("bft-nondeterministic",
                          "a second real node fed the same header chain (validator lists in another order, flushed only at the end) "
                          "reports other heights / weights / parameters at trace line %d: spec says %s ; observed %s" % (
                              mm["line"], mm["detail"], json.dumps(mm["observed"])[:1200]), rp)
        else:
            ctx.violation("bft-mismatch:" + mm["kind"],
                          "real liskbft state after a call differs from LiskBFT spec at trace line %d: spec says %s ; observed %s" % (
                              mm["line"], mm["detail"], json.dumps(mm["observed"])[:1200]), rp)

def run(ctx):
    binp = ctx.go_build("./cmd/c02")
    if ctx.replay:
        d = json.load(open(ctx.replay))["replay"]
        mode = d.get("mode", "std")
        res = validate(ctx, binp, d["chains"], d["seed"], "replay", cfg="LiskBFTTrace_big" if mode == "big" else "LiskBFTTrace", mode=mode)
        report(ctx, res, d["seed"], d["chains"], mode=mode)
        finish(ctx, LEVEL, dict(traces_validated_against_impl=res["meta"].get("chains", 0), samples=res["sample"][:1]))
    chains = 1000 if ctx.tier == "quick" else 2500
    rounds = 1 if ctx.tier == "quick" else 8
    tot = dict(chains=0, events=0, headers=0, headers_with_finality=0, rr_chains=0, setparams_ok=0, setparams_rejected=0, contra_true=0)
    # scenarios added for the audit gaps G2-G8: a run in which one of them never happened proves nothing about it
    NEED = ("ac_full", "ac_bits_only", "ac_sig_only", "ac_empty_other_height", "ac_nil", "double_set", "no_param_headers",
            "shuffled_sets", "standby_entries", "twin_chains", "twin_chains_scaled", "twin_steps_with_finality", "peer_steps_shadow",
            "peer_events_shadow", "peer_events_twin", "probes_weights_and_hash", "probes_generator_keys", "probes_labi_validators",
            "probes_labi_with_standby")
    for k in NEED:
        tot[k] = 0
    samples = []
    for i in range(rounds):
        seed = ctx.seed * 1000 + i
        res = validate(ctx, binp, chains, seed, "r%d" % i)
        for k in tot:
            tot[k] += res["meta"].get(k, 0) if k != "events" else res["events"]
        report(ctx, res, seed, chains)
        if not samples:
            samples = res["sample"]
        log("[c02] round %d: %d events accepted=%d mismatch=%s" % (i, res["events"], res["accepted"], bool(res["mismatch"])))
        if ctx.violations:
            break
    # the world of a main-net round: 103 identities, batch 103 (window 309), 101 active validators + standby generators; the window
    # fills and slides (quick: 1.25 windows, thorough: 2.5), sets are offered in shuffled order, the twin scales by 2^32
    bigm = {}
    if not ctx.violations:
        for i in range(1 if ctx.tier == "quick" else 3):
            seed = ctx.seed * 1000 + 500 + i
            res = validate(ctx, binp, 1, seed, "big%d" % i, cfg="LiskBFTTrace_big", mode="big")
            report(ctx, res, seed, 1, mode="big")
            for k, v in res["meta"].items():
                if isinstance(v, int):
                    bigm[k] = bigm.get(k, 0) + v
            log("[c02] 103-validator chain %d: %d events accepted=%d mismatch=%s" % (i, res["events"], res["accepted"], bool(res["mismatch"])))
            if ctx.violations:
                break
    # binding A: exhaustive single-chain enumeration replayed through the real module
    a = None
    if not ctx.violations:
        b1 = ctx.go_build("./cmd/c01")
        hcfg = dict(nval=2, win=6, initW=[2, 1], initPCT=2,
                    choices=[dict(pcT=2, certT=3, w=[2, 2]), dict(pcT=1, certT=1, w=[1, 0])])
        text = c01.cfg_text("LiskBFTTree_chain") if ctx.tier == "quick" else c01.cfg_text("LiskBFTTree_chain", DumpEvery=60, DumpFinalEvery=20)
        r, trees, a = c01.run_model(ctx, "chain", text, hcfg, b1, timeout=1500)
        for v in a.get("violations") or []:
            ctx.violation("bft-" + v["key"], v["what"], dict(tree=v.get("replay"), cfg=hcfg))
        log("[c02] chain enumeration: %d chains replayed, %d with finality" % (a["distinct_paths"], a["paths_with_finality"]))
    if not ctx.violations and (tot["headers_with_finality"] == 0 or tot["setparams_ok"] < 2):
        raise Inconclusive("driver never reached finality / parameter changes: vacuous")
    if not ctx.violations:
        missing = [k for k in NEED if tot[k] == 0]
        missing += ["big:" + k for k in ("big_full_window_headers", "headers_with_finality", "peer_events_twin", "peer_events_shadow", "shuffled_sets")
                    if bigm.get(k, 0) == 0]
        if bigm.get("setparams_ok", 0) < 2:
            missing.append("big:setparams_ok")
        if missing:
            raise Inconclusive("scenarios that never happened in this run: %s: vacuous" % ", ".join(missing))
    cov = dict(traces_validated_against_impl=tot["chains"] + (a["distinct_paths"] if a else 0), samples=samples[:3],
               recorded_events=tot["events"], headers=tot["headers"], headers_with_finality=tot["headers_with_finality"],
               round_robin_chains=tot["rr_chains"], parameter_changes=tot["setparams_ok"], rejected_parameter_sets=tot["setparams_rejected"],
               contradiction_probes_true=tot["contra_true"],
               scenarios={k: tot[k] for k in NEED},
               main_net_round_chain=dict(events=bigm.get("events", 0), headers=bigm.get("headers", 0),
                                         headers_with_full_window=bigm.get("big_full_window_headers", 0),
                                         headers_with_finality=bigm.get("headers_with_finality", 0),
                                         parameter_changes=bigm.get("setparams_ok", 0), twin_steps=bigm.get("peer_steps_twin", 0)),
               exhaustive_chains_replayed=(a["distinct_paths"] if a else 0),
               rule="each recorded call is one TLC state; accepted iff the projected real store equals the spec state after the same call")
    finish(ctx, LEVEL, cov, assumptions=["spec written from LIP-0056/0058, not from the Go code",
                                         "the model counts with small integers; heights up to 2^31+10^3 and weights up to 3*10^17 reach the real code "
                                         "through the twin node, whose observation is mapped back by x-S, w/K, ceil(T/K)",
                                         "5 validator identities with batch sizes 2..5, and one chain with 103 identities / batch 103",
                                         "parameter keys <= min(oldest window height, certified+1) and answers below that height are not compared"])
