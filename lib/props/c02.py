"""C02 BFT heights are a deterministic function of the header chain.
(B, main) seeded driver records calls on the real liskbft.Module with the projected store after each call;
TLC validates the log against LiskBFT (every step deterministic => logged state must equal the spec state),
checking RoundRobinFinal / HeightsSane / Monotone in every state.
(A) exhaustive single-chain enumeration by TLC (all generator / maxHeightGenerated choices, one parameter change)
replayed through the real module."""
import json, os, re
import common
from common import Inconclusive, finish, log
from props import c01

LEVEL = "model_checking"

def validate(ctx, binp, chains, seed, tag, cfg="LiskBFTTrace"):
    tr = ctx.path("trace_%s.ndjson" % tag); meta = ctx.path("meta_%s.json" % tag)
    p = ctx.run([binp, tr, meta, str(chains)], env={"VERIF_SEED": str(seed)}, timeout=1800)
    if p.returncode != 0:
        raise Inconclusive("recorder failed: %s %s" % (p.stderr[-1500:], open(meta).read() if os.path.exists(meta) else ""))
    m = json.load(open(meta))
    lines = open(tr).read().splitlines()
    r = ctx.tlc("LiskBFTTrace", cfg, workers=1, timeout=3000, files={"trace.ndjson": tr})
    accepted = r["distinct"] - 1
    res = dict(meta=m, events=len(lines), accepted=accepted, mismatch=None)
    if cfg != "LiskBFTTrace":
        # non-blocking mode (C07): only the contradiction probes are judged; the first one that differs is reported
        cm = re.findall(r'<<"MISMATCH-CONTRA", (\d+), (TRUE|FALSE)>>', r["out"])
        if cm:
            ln = int(cm[0][0])
            start = max(i for i in range(min(ln, len(lines))) if '"ev":"Init"' in lines[i])
            res["mismatch"] = dict(kind="contra", line=ln, detail="ContraChain = %s" % cm[0][1], chain_prefix=[json.loads(x) for x in lines[start:ln]][-14:],
                                   observed=json.loads(lines[ln - 1]))
        res["sample"] = [json.loads(x) for x in lines[:4]]
        return res
    if r["violation"]:
        # an invariant of the spec is false in a state the real code reached
        inv = [l for l in r["out"].splitlines() if "is violated" in l]
        res["mismatch"] = dict(kind="invariant", line=accepted, detail=inv[:1])
    elif accepted < len(lines):
        mm = [l for l in r["out"].splitlines() if l.startswith('<<"MISMATCH')]
        kind = "state"
        if mm:
            k = mm[-1].split('"')[1]
            kind = {"MISMATCH": "state", "MISMATCH-ERR": "error", "MISMATCH-CONTRA": "contra", "MISMATCH-IMPLIES": "implies"}.get(k, "state")
        res["mismatch"] = dict(kind=kind, line=accepted + 1, detail=mm[-1:][0][:1500] if mm else "")
    if any(json.loads(l).get("ev") == "Nondeterministic" for l in lines if '"Nondeterministic"' in l):
        res["nondet"] = True
    if res["mismatch"]:
        ln = res["mismatch"]["line"]
        start = max(i for i in range(min(ln, len(lines))) if '"ev":"Init"' in lines[i])
        res["mismatch"]["chain_prefix"] = [json.loads(x) for x in lines[start:ln]][-12:]
        res["mismatch"]["observed"] = json.loads(lines[ln - 1]) if ln - 1 < len(lines) else None
    res["sample"] = [json.loads(x) for x in lines[:4]]
    return res

def report(ctx, res, seed, chains, pid_kinds=("state", "error", "implies", "invariant", "contra")):
    mm = res["mismatch"]
    if mm and mm["kind"] in pid_kinds:
        ctx.violation("bft-mismatch:" + mm["kind"],
                      "real liskbft state after a call differs from LiskBFT spec at trace line %d: spec says %s ; observed %s" % (
                          mm["line"], mm["detail"], json.dumps(mm["observed"])[:1200]),
                      dict(seed=seed, chains=chains, line=mm["line"], chain_prefix=mm["chain_prefix"]))
    if res.get("nondet"):
        ctx.violation("bft-nondeterministic", "two real stores fed the same header chain ended with different database contents",
                      dict(seed=seed, chains=chains))

def run(ctx):
    binp = ctx.go_build("./cmd/c02")
    if ctx.replay:
        d = json.load(open(ctx.replay))["replay"]
        res = validate(ctx, binp, d["chains"], d["seed"], "replay")
        report(ctx, res, d["seed"], d["chains"])
        finish(ctx, LEVEL, dict(traces_validated_against_impl=res["meta"].get("chains", 0), samples=res["sample"][:1]))
    chains = 1000 if ctx.tier == "quick" else 2500
    rounds = 1 if ctx.tier == "quick" else 8
    tot = dict(chains=0, events=0, headers=0, headers_with_finality=0, rr_chains=0, setparams_ok=0, setparams_rejected=0, contra_true=0)
    samples = []
    for i in range(rounds):
        seed = ctx.seed * 1000 + i
        res = validate(ctx, binp, chains, seed, "r%d" % i)
        for k in tot:
            tot[k] += res["meta"].get(k, 0) if k != "events" else res["events"]
        report(ctx, res, seed, chains)
        if not samples:
            samples = res["sample"]
        log("[c02] round %d: %d events accepted=%d mismatch=%s" % (i, res["events"], res["accepted"], bool(res["mismatch"])))
        if ctx.violations:
            break
    # binding A: exhaustive single-chain enumeration replayed through the real module
    a = None
    if not ctx.violations:
        b1 = ctx.go_build("./cmd/c01")
        hcfg = dict(nval=2, win=6, initW=[2, 1], initPCT=2,
                    choices=[dict(pcT=2, certT=3, w=[2, 2]), dict(pcT=1, certT=1, w=[1, 0])])
        text = c01.cfg_text("LiskBFTTree_chain") if ctx.tier == "quick" else c01.cfg_text("LiskBFTTree_chain", DumpEvery=60, DumpFinalEvery=20)
        r, trees, a = c01.run_model(ctx, "chain", text, hcfg, b1, timeout=1500)
        for v in a.get("violations") or []:
            ctx.violation("bft-" + v["key"], v["what"], dict(tree=v.get("replay"), cfg=hcfg))
        log("[c02] chain enumeration: %d chains replayed, %d with finality" % (a["distinct_paths"], a["paths_with_finality"]))
    if not ctx.violations and (tot["headers_with_finality"] == 0 or tot["setparams_ok"] < 2):
        raise Inconclusive("driver never reached finality / parameter changes: vacuous")
    cov = dict(traces_validated_against_impl=tot["chains"] + (a["distinct_paths"] if a else 0), samples=samples[:3],
               recorded_events=tot["events"], headers=tot["headers"], headers_with_finality=tot["headers_with_finality"],
               round_robin_chains=tot["rr_chains"], parameter_changes=tot["setparams_ok"], rejected_parameter_sets=tot["setparams_rejected"],
               contradiction_probes_true=tot["contra_true"],
               exhaustive_chains_replayed=(a["distinct_paths"] if a else 0),
               rule="each recorded call is one TLC state; accepted iff the projected real store equals the spec state after the same call")
    finish(ctx, LEVEL, cov, assumptions=["spec written from LIP-0056/0058, not from the Go code", "weights are small integers",
                                         "5 validator identities, batch sizes 2..5"])
