"""C16 transaction execution is atomic; the state root is a function of the state.
TLC enumerates histories of spec/StateMachine.tla (command scripts of writes/deletes/overwrites/snapshot+restore over two
module stores x event patterns x ok/fail, hooks of two modules around the command and around the transactions, then
commit / crash-after-application-commit / block with a wrong header root / revert / revert or start with a wrong root /
restart / genesis) exhaustively inside several plans and by simulation for longer ones, checks the spec-level invariants
and prints (a sample of) the complete histories with the expected observations; cmd/c16 replays each on the real
framework.ABIHandler + statemachine.Executer with two scripted test modules, using the engine's own call sequence and
request shapes, and compares the returned events (order, content), the state read back through the real stores (Get, Has,
Iterate, Range; fresh and held handles), the state DB and the committed / reverted / recovered / genesis state roots
(expected root = SHA-256 fold of the spec's LIP-0039 term).  The histories of two simulation runs are replayed once more on
a strict in-memory file system with a crash at every file-system operation of a Commit / Revert / Init."""
import json, os, re
from concurrent.futures import ThreadPoolExecutor
import common
from common import Inconclusive, finish, log
from props import c01

LEVEL = "model_checking"
# runs whose histories are replayed once more with a crash at every file-system operation of a Commit / Revert / Init
CRASH_FROM = ("lose", "badS")
CRASH_CALLS = ("commit", "revert", "init")
SUMS = ("histories", "steps", "tx_executed", "tx_failed", "tx_state_observations", "events_compared", "commits", "dry_run_commits",
        "reverts", "restarts", "restarts_app_ahead", "restarts_app_ahead_2_or_more", "engine_tips_lost", "roots_compared", "state_dumps_compared", "histories_aborted_after_violation",
        "store_views_compared", "store_views_through_held_handles", "failed_tx_observed_through_held_handles", "command_snapshots", "command_snapshot_restores",
        "failed_tx_with_after_hook_events", "failed_tx_with_before_hook_of_second_module", "event_contents_compared", "block_hook_events_compared",
        "genesis_blocks", "reverts_and_recoveries_over_long_keys")
MAPS = ("hook_writes", "wrong_roots_rejected", "crash_points", "crash_outcomes")
# replay-file keys handed through to the harness (mode and embedding of the history)
MODE_KEYS = ("gen", "prefetch", "held", "keylens", "vallen", "crash")


def interesting(h):
    """a history with a failing transaction that wrote, deleted and emitted events"""
    return any(s["op"] == "tx" and s["ok"] == 0 and len(s["w"]) >= 2 and any(w[0] != 0 and w[1] == 0 for w in s["w"]) and len(s["e"]) >= 2 for s in h)


def generate(ctx, name, base, cfgkw, **kw):
    cfg = c01.write_cfg(ctx, name, c01.cfg_text(base, **cfgkw))
    r = ctx.tlc("MCStateMachine", cfg, timeout=kw.pop("timeout", 1500), seed=ctx.seed, **kw)
    if r["violation"]:
        raise Inconclusive("StateMachine.tla violates one of its own invariants: %s" % r["outpath"])
    metas = list(ctx.dumps(r["out"], "META"))
    if not metas:
        raise Inconclusive("no META line in the TLC output of %s" % name)
    mf = ctx.path(name + "_meta.json"); json.dump(metas[0], open(mf, "w"))
    hf = ctx.path(name + "_h.ndjson")
    seen = set(); n = 0; sample = None
    with open(hf, "w") as fh:
        for t in ctx.dumps(r["out"]):
            k = json.dumps(t, sort_keys=True)
            if k in seen:
                continue
            seen.add(k); fh.write(json.dumps(t) + "\n"); n += 1
            if (sample is None or not interesting(sample)) and len(t) >= 3 and (sample is None or interesting(t)):
                sample = t
    r["out"] = None
    if not ctx.violations and (n == 0):
        raise Inconclusive("TLC printed no history for %s: vacuous" % name)
    return hf, mf, n, sample, r


def engine_request_shape(ctx):
    """Does the ExecuteTransactionRequest built by the engine's two callers carry a Consensus?  (Today neither does.)
    The harness sends the request the engine sends."""
    shape = {}
    for who, rel in (("consensus", "pkg/consensus/abi_caller.go"), ("generator", "pkg/generator/abi_caller.go")):
        try:
            src = open(os.path.join(common.REPO, rel)).read()
        except OSError as e:
            raise Inconclusive("cannot read %s: %s" % (rel, e))
        lits = re.findall(r"labi\.ExecuteTransactionRequest\{(.*?)\}", src, re.S)
        if len(lits) != 1:
            raise Inconclusive("%s: expected one ExecuteTransactionRequest literal, found %d (engine call sequence refactored?)" % (rel, len(lits)))
        shape[who] = bool(re.search(r"\bConsensus\s*:", lits[0]))
    sf = ctx.path("shape.json"); json.dump(shape, open(sf, "w"))
    log("[c16] engine ExecuteTransactionRequest carries Consensus: %s" % json.dumps(shape))
    return sf


def replay(ctx, binp, hf, mf, name, mode=()):
    of = ctx.path(name + "_res.json")
    p = ctx.run([binp] + list(mode) + [hf, mf, of, ctx.c16_shape], timeout=3000)
    if p.returncode != 0 or not os.path.exists(of):
        raise Inconclusive("c16 harness failed (rc=%d): %s" % (p.returncode, p.stderr[-1500:]))
    res = json.load(open(of))
    # what was observed on the real code is forwarded first: a tool failure in ANOTHER history of the same run must not
    # turn an observed violation into "inconclusive"
    for v in res.get("violations") or []:
        ctx.violation(v["key"], v["what"], v.get("replay"))
    if res.get("harness_errors"):
        if not ctx.violations:
            raise Inconclusive("c16 harness error: %s" % res["harness_errors"][:2])
        log("[c16] %s: harness errors next to violations (not a verdict): %s" % (name, res["harness_errors"][:1]))
    return res


def project(step):
    """compact view of a step for the evidence samples"""
    d = dict(op=step["op"], h=step["h"], st=step["st"])
    for k in ("hw", "aw", "bh", "ah", "bad"):
        if step.get(k):
            d[k] = step[k]
    if step["op"] == "tx":
        d.update(w=step["w"], e=step["e"], ok=step["ok"], ev=[[x["n"], x["s"]] for x in step["ev"]])
    if step["op"] == "restart":
        d.update(ahead=step["ahead"])
    return d


def run(ctx):
    binp = ctx.go_build("./cmd/c16")
    ctx.c16_shape = engine_request_shape(ctx)
    if ctx.replay:
        d = json.load(open(ctx.replay))["replay"]
        if isinstance(d, list):
            d = dict(history=d)
        line = dict(history=d["history"])
        for k in MODE_KEYS:
            if d.get(k) is not None:
                line[k] = d[k]
        # the META line (tree-key bits) comes from the spec
        cfg = c01.write_cfg(ctx, "meta", c01.cfg_text("StateMachine_tx", Plan="PlanTx1", DumpEvery=0, Presets="Presets2"))
        r = ctx.tlc("MCStateMachine", cfg, workers=4, timeout=600)
        metas = list(ctx.dumps(r["out"], "META"))
        if not metas:
            raise Inconclusive("no META line")
        mf = ctx.path("meta.json"); json.dump(metas[0], open(mf, "w"))
        hf = ctx.path("replay_h.ndjson"); open(hf, "w").write(json.dumps(line) + "\n")
        res = replay(ctx, binp, hf, mf, "replay", mode=("crash",) if d.get("crash") else ())
        finish(ctx, LEVEL, dict(traces_validated_against_impl=res["histories"], samples=[[project(s) for s in d["history"]]],
                                replayed_steps=res["steps"]))
    q = ctx.tier == "quick"
    # two lanes run side by side: the large exhaustive plans, and the small directed plans + simulations
    big, small = [], []
    if q:
        # one transaction (<= 2 writes, <= 3 events, <= 4 operations) on 3 preset states x commit|crash x revert|restart
        big.append(("tx2", "StateMachine_tx", dict(Plan="PlanTx2", DumpEvery=12), dict(workers=8), True))
        # two blocks, commit|crash, revert|restart, revert|transaction, commit
        big.append(("seqA", "StateMachine_tx", dict(Plan="PlanSeqA", DumpEvery=16), dict(workers=8), True))
        # two transactions in one block
        big.append(("2txA", "StateMachine_tx", dict(Plan="Plan2TxA", DumpEvery=20), dict(workers=10), True))
        # wrong roots: a block with a wrong header root | a commit, then a removal | a start with a wrong root, then a real one
        small.append(("bad", "StateMachine_tx", dict(Plan="PlanBadA", DumpEvery=2), dict(workers=3), True))
        # genesis block (generated root = committed root = term), one transaction, commit|crash, removal back to genesis|restart
        small.append(("gen", "StateMachine_tx", dict(Plan="PlanGenA", DumpEvery=1), dict(workers=2), True))
        # the command takes snapshots of the stores and restores them (<= 3 operations)
        small.append(("snap", "StateMachine_tx", dict(Plan="PlanSnapA", Presets="Presets2", DumpEvery=4), dict(workers=3), True))
        # three blocks, the engine loses one or two tips (application 1..3 blocks ahead), recovery, revert|new block
        small.append(("lose", "StateMachine_sim", dict(Plan="PlanLoseS"), dict(workers=1, simulate=150, depth=12), False))
        small.append(("sim", "StateMachine_sim", dict(Plan="PlanSim14"), dict(workers=1, simulate=300, depth=16), False))
        # wrong roots anywhere in longer histories
        small.append(("badS", "StateMachine_sim", dict(Plan="PlanBadS"), dict(workers=1, simulate=250, depth=14), False))
    else:
        big.append(("tx2", "StateMachine_tx", dict(Plan="PlanTx2", DumpEvery=1), dict(workers=8), True))
        big.append(("tx3", "StateMachine_tx", dict(Plan="PlanTx3", DumpEvery=40), dict(workers=12), True))
        big.append(("tx4", "StateMachine_tx", dict(Plan="PlanTx4", Presets="Presets1", DumpEvery=160), dict(workers=12, timeout=2400), True))
        big.append(("seqB", "StateMachine_tx", dict(Plan="PlanSeqB", DumpEvery=80), dict(workers=12), True))
        big.append(("2txB", "StateMachine_tx", dict(Plan="Plan2TxB", DumpEvery=80), dict(workers=12), True))
        small.append(("bad", "StateMachine_tx", dict(Plan="PlanBadB", DumpEvery=4), dict(workers=4), True))
        small.append(("gen", "StateMachine_tx", dict(Plan="PlanGenB", DumpEvery=4), dict(workers=4), True))
        small.append(("snap", "StateMachine_tx", dict(Plan="PlanSnapB", Presets="Presets2", DumpEvery=40), dict(workers=4, timeout=2400), True))
        small.append(("lose", "StateMachine_sim", dict(Plan="PlanLoseS"), dict(workers=1, simulate=1500, depth=12), False))
        small.append(("sim", "StateMachine_sim", dict(Plan="PlanSim22"), dict(workers=1, simulate=2500, depth=24), False))
        small.append(("badS", "StateMachine_sim", dict(Plan="PlanBadS"), dict(workers=1, simulate=2500, depth=14), False))
    tot = {k: 0 for k in SUMS}
    maps = {k: {} for k in MAPS}
    counts = {}
    degraded = {}
    samples = []
    distinct = 0
    exhaustive_states = 0
    per_run = []

    def lane(runs):
        done = []
        for name, base, cfgkw, kw, exh in runs:
            hf, mf, n, sample, r = generate(ctx, name, base, cfgkw, **kw)
            res = replay(ctx, binp, hf, mf, name)
            extra = []
            if name in CRASH_FROM:
                # crash points inside Commit / Revert / Init of the same histories, on a strict in-memory file system
                extra.append((name + "-crash", replay(ctx, binp, hf, mf, name + "_crash", mode=("crash",))))
            done.append((name, cfgkw, exh, sample, r, res, extra))
        return done

    with ThreadPoolExecutor(max_workers=2) as pool:
        futures = [pool.submit(lane, big), pool.submit(lane, small)]
        results = [f.result() for f in futures]
    ctx.states = sum(x["distinct"] for x in ctx.tlc_runs)
    ctx.transitions = sum(x["generated"] for x in ctx.tlc_runs)
    for name, cfgkw, exh, sample, r, res, extra in results[0] + results[1]:
        if exh:
            exhaustive_states += r["distinct"]
        for rname, rr in [(name, res)] + extra:
            for k in SUMS:
                if k == "histories" and rname != name:
                    continue        # the crash-point replays use the same histories
                tot[k] += rr.get(k, 0)
            for mk in MAPS:
                for k, v in (rr.get(mk) or {}).items():
                    maps[mk][k] = maps[mk].get(k, 0) + v
            distinct = max(distinct, rr.get("distinct_committed_states", 0))
            for k, v in (rr.get("violation_counts") or {}).items():
                counts[k] = counts.get(k, 0) + v
            for k, v in (rr.get("degraded_histories") or {}).items():
                degraded[k] = degraded.get(k, 0) + v
        per_run.append(dict(config=name, plan=cfgkw.get("Plan"), tlc_states=r["distinct"], histories_replayed=res["histories"],
                            sampled_one_in=cfgkw.get("DumpEvery", 1), exhaustive_enumeration=exh,
                            crash_points=sum((extra[0][1].get("crash_points") or {}).values()) if extra else 0))
        if sample is not None and len(samples) < 3:
            samples.append(dict(config=name, history=[project(s) for s in sample]))
        log("[c16] %s: histories=%d steps=%d tx=%d (failed %d) commits=%d dry-runs=%d reverts=%d restarts=%d (ahead %d) roots=%d rejected=%s genesis=%d violations=%s" % (
            name, res["histories"], res["steps"], res["tx_executed"], res["tx_failed"], res["commits"], res["dry_run_commits"],
            res["reverts"], res["restarts"], res["restarts_app_ahead"], res["roots_compared"],
            json.dumps(res.get("wrong_roots_rejected") or {}, sort_keys=True), res.get("genesis_blocks", 0),
            json.dumps(res.get("violation_counts") or {}, sort_keys=True)))
        for rname, rr in extra:
            log("[c16] %s: histories=%d crash points=%s outcomes=%s violations=%s" % (
                rname, rr["histories"], json.dumps(rr.get("crash_points") or {}, sort_keys=True),
                json.dumps(rr.get("crash_outcomes") or {}, sort_keys=True), json.dumps(rr.get("violation_counts") or {}, sort_keys=True)))
    if not ctx.violations:
        # non-vacuity: a run in which a scenario never happened proves nothing about it
        thin = []
        if min(tot["tx_failed"], tot["commits"], tot["reverts"], tot["restarts_app_ahead"], tot["restarts_app_ahead_2_or_more"], tot["dry_run_commits"]) < 50 or tot["tx_state_observations"] < 1000:
            thin.append("failing transactions / commits / reverts / recoveries")
        for k, least in (("failed_tx_with_after_hook_events", 50), ("failed_tx_with_before_hook_of_second_module", 50),
                         ("store_views_through_held_handles", 1000), ("failed_tx_observed_through_held_handles", 50),
                         ("command_snapshot_restores", 50), ("event_contents_compared", 1000), ("block_hook_events_compared", 100),
                         ("genesis_blocks", 20), ("reverts_and_recoveries_over_long_keys", 100)):
            if tot[k] < least:
                thin.append("%s=%d" % (k, tot[k]))
        for hook in ("before-command", "after-command", "before-block", "after-block"):
            for mod in ("scripted", "second"):
                if maps["hook_writes"].get(hook + ":" + mod, 0) < 20:
                    thin.append("hook writes %s by module %s" % (hook, mod))
        for call in ("commit", "revert", "init"):
            for bad in ("flip", "prev"):
                if maps["wrong_roots_rejected"].get(call + ":" + bad, 0) < 10:
                    thin.append("wrong root (%s) offered to %s" % (bad, call))
        for call in CRASH_CALLS:
            if maps["crash_points"].get(call, 0) < 10:
                thin.append("crash points inside %s" % call)
        if thin:
            raise Inconclusive("the histories did not exercise enough of: %s: vacuous" % "; ".join(thin))
    cov = dict(traces_validated_against_impl=tot["histories"], samples=samples, replayed_steps=tot["steps"],
               transactions_executed=tot["tx_executed"], failing_transactions_executed=tot["tx_failed"],
               state_observations_after_command=tot["tx_state_observations"], events_compared=tot["events_compared"],
               commits=tot["commits"], dry_run_commits=tot["dry_run_commits"], reverts=tot["reverts"], restarts=tot["restarts"],
               restarts_with_application_ahead=tot["restarts_app_ahead"], restarts_with_application_two_or_more_ahead=tot["restarts_app_ahead_2_or_more"], roots_compared=tot["roots_compared"],
               state_db_dumps_compared=tot["state_dumps_compared"], distinct_committed_states_max_per_run=distinct,
               histories_cut_short_after_a_violation=tot["histories_aborted_after_violation"],
               histories_continued_in_degraded_mode=degraded, violation_counts=counts,
               store_views_compared=tot["store_views_compared"], store_views_through_held_handles=tot["store_views_through_held_handles"],
               failed_transactions_observed_through_held_handles=tot["failed_tx_observed_through_held_handles"],
               command_snapshots=tot["command_snapshots"], command_snapshot_restores=tot["command_snapshot_restores"],
               hook_writes=maps["hook_writes"], failed_transactions_with_after_hook_events=tot["failed_tx_with_after_hook_events"],
               failed_transactions_with_before_hook_of_second_module=tot["failed_tx_with_before_hook_of_second_module"],
               event_contents_compared=tot["event_contents_compared"], block_hook_events_compared=tot["block_hook_events_compared"],
               wrong_roots_rejected=maps["wrong_roots_rejected"], genesis_blocks=tot["genesis_blocks"],
               reverts_and_recoveries_over_long_keys=tot["reverts_and_recoveries_over_long_keys"],
               crash_points=maps["crash_points"], crash_outcomes=maps["crash_outcomes"],
               exhaustive_states=exhaustive_states, runs=per_run,
               rule="TLC state = (application chain, block in execution, history); every complete history of a plan (or the stated "
                    "sample of them) is replayed on the real ABIHandler twice per block where it is the node's own block (generator "
                    "pass with DryRun commit, then consensus pass) and once where it comes from a peer")
    finish(ctx, LEVEL, cov, assumptions=[
        "2 module stores x 3 keys x 2 values; tree keys = storePrefix ++ SHA-256(key), their leading 64 bits are fixed in MCStateMachine.tla and re-derived by the harness",
        "every history is replayed with one concrete embedding of the abstract keys and values: store keys of 2..64 bytes (10 length profiles, all with the same "
        "16 leading SHA-256 bits per abstract key so that the spec's tree shape holds), values / event data / topics of 0..100 bytes",
        "SHA-256 is injective on the terms that occur",
        "a command is a straight-line script (<= 4 writes, <= 3 events, optionally a snapshot of the stores and its restoration); reads do not influence it",
        "two modules (module i owns store i, the command belongs to the first); a hook that writes a cell is the hook of the owning module and logs one revertible "
        "and one unrevertible event; the hooks' writes are functions of the script in the exhaustive plans and drawn at random in the simulations",
        "the modules observe the stores (Get, Has, Iterate, Range; rotating order) in AfterCommandExecute before and after the after-hooks' writes (and, for half of the "
        "histories, in BeforeCommandExecute); in half of the histories also through store handles taken before the command (held within ONE transaction only)",
        "event content: data and the module's own topic as logged, first topic = transaction id, height = block height, standard event last (LIP-0065: the events feed the event root)",
        "a wrong root is a flipped bit or the root of the neighbouring state; after a rejected Commit / Revert / Init only the state prefix of the DB and a fresh start are checked",
        "the application is at most three blocks ahead of the engine at a restart (one by a crash between the two commits, two by an engine that lost its tip); an application behind the engine is out of scope",
        "where a real call panics on the engine's request shape the history is replayed once more with the deviation stated in the violation text "
        "(Consensus supplied to ExecuteTransaction; an execution context initialised before Init) so that the remaining defects are still observed",
        "crash points: pebble on a strict in-memory file system, a crash loses everything not synced before the k-th file-system operation of the call (Commit / Revert / Init "
        "of up to three steps per history of the runs %s); elsewhere in-memory pebble, where a crash loses exactly the block in execution or the engine's commit" % (CRASH_FROM,)])
