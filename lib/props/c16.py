"""C16 transaction execution is atomic; the state root is a function of the state.
TLC enumerates histories of spec/StateMachine.tla (command scripts of writes/deletes/overwrites over two module stores
x event patterns x ok/fail, then commit / crash-after-application-commit / revert / restart) exhaustively inside
several plans and by simulation for longer ones, checks the spec-level invariants and prints (a sample of) the complete
histories with the expected observations; cmd/c16 replays each on the real framework.ABIHandler + statemachine.Executer
with a scripted test module, using the engine's own call sequence and request shapes, and compares the returned events,
the state read back through the real stores, the state DB and the committed / reverted / recovered state roots (expected
root = SHA-256 fold of the spec's LIP-0039 term)."""
import json, os, re
import common
from common import Inconclusive, finish, log
from props import c01

LEVEL = "model_checking"
SUMS = ("histories", "steps", "tx_executed", "tx_failed", "tx_state_observations", "events_compared", "commits", "dry_run_commits",
        "reverts", "restarts", "restarts_app_ahead", "restarts_app_ahead_2_or_more", "engine_tips_lost", "roots_compared", "state_dumps_compared", "histories_aborted_after_violation")


def interesting(h):
    """a history with a failing transaction that wrote, deleted and emitted events"""
    return any(s["op"] == "tx" and s["ok"] == 0 and len(s["w"]) >= 2 and any(w[1] == 0 for w in s["w"]) and len(s["e"]) >= 2 for s in h)


def generate(ctx, name, base, cfgkw, **kw):
    cfg = c01.write_cfg(ctx, name, c01.cfg_text(base, **cfgkw))
    r = ctx.tlc("MCStateMachine", cfg, timeout=kw.pop("timeout", 1500), seed=ctx.seed, **kw)
    if r["violation"]:
        raise Inconclusive("StateMachine.tla violates one of its own invariants: %s" % r["outpath"])
    metas = list(ctx.dumps(r["out"], "META"))
    if not metas:
        raise Inconclusive("no META line in the TLC output of %s" % name)
    mf = ctx.path(name + "_meta.json"); json.dump(metas[0], open(mf, "w"))
    hf = ctx.path(name + "_h.ndjson")
    seen = set(); n = 0; sample = None
    with open(hf, "w") as fh:
        for t in ctx.dumps(r["out"]):
            k = json.dumps(t, sort_keys=True)
            if k in seen:
                continue
            seen.add(k); fh.write(json.dumps(t) + "\n"); n += 1
            if (sample is None or not interesting(sample)) and len(t) >= 3 and (sample is None or interesting(t)):
                sample = t
    r["out"] = None
    if not ctx.violations and (n == 0):
        raise Inconclusive("TLC printed no history for %s: vacuous" % name)
    return hf, mf, n, sample, r


def engine_request_shape(ctx):
    """Does the ExecuteTransactionRequest built by the engine's two callers carry a Consensus?  (Today neither does.)
    The harness sends the request the engine sends."""
    shape = {}
    for who, rel in (("consensus", "pkg/consensus/abi_caller.go"), ("generator", "pkg/generator/abi_caller.go")):
        try:
            src = open(os.path.join(common.REPO, rel)).read()
        except OSError as e:
            raise Inconclusive("cannot read %s: %s" % (rel, e))
        lits = re.findall(r"labi\.ExecuteTransactionRequest\{(.*?)\}", src, re.S)
        if len(lits) != 1:
            raise Inconclusive("%s: expected one ExecuteTransactionRequest literal, found %d (engine call sequence refactored?)" % (rel, len(lits)))
        shape[who] = bool(re.search(r"\bConsensus\s*:", lits[0]))
    sf = ctx.path("shape.json"); json.dump(shape, open(sf, "w"))
    log("[c16] engine ExecuteTransactionRequest carries Consensus: %s" % json.dumps(shape))
    return sf


def replay(ctx, binp, hf, mf, name):
    of = ctx.path(name + "_res.json")
    p = ctx.run([binp, hf, mf, of, ctx.c16_shape], timeout=3000)
    if p.returncode != 0 or not os.path.exists(of):
        raise Inconclusive("c16 harness failed (rc=%d): %s" % (p.returncode, p.stderr[-1500:]))
    res = json.load(open(of))
    if res.get("harness_errors"):
        raise Inconclusive("c16 harness error: %s" % res["harness_errors"][:2])
    return res


def project(step):
    """compact view of a step for the evidence samples"""
    d = dict(op=step["op"], h=step["h"], st=step["st"])
    if step["op"] == "tx":
        d.update(w=step["w"], e=step["e"], ok=step["ok"], ev=[[x["n"], x["s"]] for x in step["ev"]])
    if step["op"] == "restart":
        d.update(ahead=step["ahead"])
    return d


def run(ctx):
    binp = ctx.go_build("./cmd/c16")
    ctx.c16_shape = engine_request_shape(ctx)
    if ctx.replay:
        d = json.load(open(ctx.replay))["replay"]
        if isinstance(d, list):
            d = dict(history=d)
        line = dict(history=d["history"])
        for k in ("gen", "prefetch"):
            if k in d:
                line[k] = d[k]
        # the META line (tree-key bits) comes from the spec
        cfg = c01.write_cfg(ctx, "meta", c01.cfg_text("StateMachine_tx", Plan="PlanTx1", DumpEvery=0, Presets="Presets2"))
        r = ctx.tlc("MCStateMachine", cfg, workers=4, timeout=600)
        metas = list(ctx.dumps(r["out"], "META"))
        if not metas:
            raise Inconclusive("no META line")
        mf = ctx.path("meta.json"); json.dump(metas[0], open(mf, "w"))
        hf = ctx.path("replay_h.ndjson"); open(hf, "w").write(json.dumps(line) + "\n")
        res = replay(ctx, binp, hf, mf, "replay")
        for v in res.get("violations") or []:
            ctx.violation(v["key"], v["what"], v.get("replay"))
        finish(ctx, LEVEL, dict(traces_validated_against_impl=res["histories"], samples=[[project(s) for s in d["history"]]],
                                replayed_steps=res["steps"]))
    q = ctx.tier == "quick"
    runs = []
    if q:
        # one transaction (<= 2 writes, <= 3 events, <= 4 operations) on 3 preset states x commit|crash x revert|restart
        runs.append(("tx2", "StateMachine_tx", dict(Plan="PlanTx2", DumpEvery=12), dict(workers=8), True))
        # two blocks, commit|crash, revert|restart, revert|transaction, commit
        runs.append(("seqA", "StateMachine_tx", dict(Plan="PlanSeqA", DumpEvery=16), dict(workers=8), True))
        # two transactions in one block
        runs.append(("2txA", "StateMachine_tx", dict(Plan="Plan2TxA", DumpEvery=20), dict(workers=10), True))
        # three blocks, the engine loses one or two tips (application 1..3 blocks ahead), recovery, revert|new block
        runs.append(("lose", "StateMachine_sim", dict(Plan="PlanLoseS"), dict(workers=1, simulate=150, depth=12), False))
        runs.append(("sim", "StateMachine_sim", dict(Plan="PlanSim14"), dict(workers=1, simulate=300, depth=16), False))
    else:
        runs.append(("tx2", "StateMachine_tx", dict(Plan="PlanTx2", DumpEvery=1), dict(workers=8), True))
        runs.append(("tx3", "StateMachine_tx", dict(Plan="PlanTx3", DumpEvery=40), dict(workers=12), True))
        runs.append(("tx4", "StateMachine_tx", dict(Plan="PlanTx4", Presets="Presets1", DumpEvery=160), dict(workers=12, timeout=2400), True))
        runs.append(("seqB", "StateMachine_tx", dict(Plan="PlanSeqB", DumpEvery=80), dict(workers=12), True))
        runs.append(("2txB", "StateMachine_tx", dict(Plan="Plan2TxB", DumpEvery=80), dict(workers=12), True))
        runs.append(("lose", "StateMachine_sim", dict(Plan="PlanLoseS"), dict(workers=1, simulate=1500, depth=12), False))
        runs.append(("sim", "StateMachine_sim", dict(Plan="PlanSim22"), dict(workers=1, simulate=2500, depth=24), False))
    tot = {k: 0 for k in SUMS}
    counts = {}
    degraded = {}
    samples = []
    distinct = 0
    exhaustive_states = 0
    per_run = []
    for name, base, cfgkw, kw, exh in runs:
        hf, mf, n, sample, r = generate(ctx, name, base, cfgkw, **kw)
        if exh:
            exhaustive_states += r["distinct"]
        res = replay(ctx, binp, hf, mf, name)
        for k in SUMS:
            tot[k] += res.get(k, 0)
        distinct = max(distinct, res.get("distinct_committed_states", 0))
        for k, v in (res.get("violation_counts") or {}).items():
            counts[k] = counts.get(k, 0) + v
        for k, v in (res.get("degraded_histories") or {}).items():
            degraded[k] = degraded.get(k, 0) + v
        for v in res.get("violations") or []:
            ctx.violation(v["key"], v["what"], v.get("replay"))
        per_run.append(dict(config=name, plan=cfgkw.get("Plan"), tlc_states=r["distinct"], histories_replayed=res["histories"],
                            sampled_one_in=cfgkw.get("DumpEvery", 1), exhaustive_enumeration=exh))
        if sample is not None and len(samples) < 3:
            samples.append(dict(config=name, history=[project(s) for s in sample]))
        log("[c16] %s: histories=%d steps=%d tx=%d (failed %d) commits=%d dry-runs=%d reverts=%d restarts=%d (ahead %d) roots=%d violations=%s" % (
            name, res["histories"], res["steps"], res["tx_executed"], res["tx_failed"], res["commits"], res["dry_run_commits"],
            res["reverts"], res["restarts"], res["restarts_app_ahead"], res["roots_compared"],
            json.dumps(res.get("violation_counts") or {}, sort_keys=True)))
    if not ctx.violations and (min(tot["tx_failed"], tot["commits"], tot["reverts"], tot["restarts_app_ahead"], tot["restarts_app_ahead_2_or_more"], tot["dry_run_commits"]) < 50 or tot["tx_state_observations"] < 1000):
        raise Inconclusive("the histories did not exercise failing transactions / commits / reverts / recoveries enough: vacuous")
    cov = dict(traces_validated_against_impl=tot["histories"], samples=samples, replayed_steps=tot["steps"],
               transactions_executed=tot["tx_executed"], failing_transactions_executed=tot["tx_failed"],
               state_observations_after_command=tot["tx_state_observations"], events_compared=tot["events_compared"],
               commits=tot["commits"], dry_run_commits=tot["dry_run_commits"], reverts=tot["reverts"], restarts=tot["restarts"],
               restarts_with_application_ahead=tot["restarts_app_ahead"], restarts_with_application_two_or_more_ahead=tot["restarts_app_ahead_2_or_more"], roots_compared=tot["roots_compared"],
               state_db_dumps_compared=tot["state_dumps_compared"], distinct_committed_states_max_per_run=distinct,
               histories_cut_short_after_a_violation=tot["histories_aborted_after_violation"],
               histories_continued_in_degraded_mode=degraded, violation_counts=counts,
               exhaustive_states=exhaustive_states, runs=per_run,
               rule="TLC state = (application chain, block in execution, history); every complete history of a plan (or the stated "
                    "sample of them) is replayed on the real ABIHandler twice per block where it is the node's own block (generator "
                    "pass with DryRun commit, then consensus pass) and once where it comes from a peer")
    finish(ctx, LEVEL, cov, assumptions=[
        "2 module stores x 3 keys x 2 values; tree keys = storePrefix ++ SHA-256(key), their leading 64 bits are fixed in MCStateMachine.tla and re-derived by the harness",
        "SHA-256 is injective on the terms that occur",
        "a command is a straight-line script (<= 4 writes, <= 3 events); reads do not influence it",
        "the scripted module observes the stores in AfterCommandExecute (and, for half of the histories, reads them in BeforeCommandExecute)",
        "the application is at most three blocks ahead of the engine at a restart (one by a crash between the two commits, two by an engine that lost its tip); an application behind the engine is out of scope",
        "where a real call panics on the engine's request shape the history is replayed once more with the deviation stated in the violation text "
        "(Consensus supplied to ExecuteTransaction; an execution context initialised before Init) so that the remaining defects are still observed",
        "in-memory pebble (no torn writes): a crash loses exactly the block in execution or the engine's commit"])
