"""C19 sync picks the best peer, serves correct chain segments, converges safely (and the sync part of C04).
Sync.tla: BestPeers as a set of acceptable answers (TLC prints the table: all tip sequences of <= 4 peers over ranks 0..1, of
<= 3 peers over ranks 0..2, 6000 sampled sequences of 5-6 peers; ranks are embedded monotonically into uint32 by the harness),
HighestCommon / BlocksFromOk (handler answers: consecutive followers, in order, never more than the cap), Outcomes (where a
node may end after being offered a peer's tip, from LIP-0014 priority, common block vs finalized height, fast/block sync
conditions and peer behaviour: honest, corrupt - also in the middle of the segment -, truncating, out of order),
FinalizeChainOk (C04: one finalize event per raise).  The harness evaluates the real peer selection on every table row, calls
the real RPC handlers of 113-block real nodes (one with a block cache of 8) over loopback libp2p incl. boundary ids, 210-id
requests, unknown and malformed requests, and runs offer scenarios (real node A with its own fork carrying transactions;
honest real node B up to 220 blocks ahead, fake peers) through the real process()/sync path; after every offer A forges its
next block and a twin node that always had exactly A's chain has to accept it (after a restoration: same database).  Several
honest peers: the in-situ selection (mhp against height, a peer that does not answer, most common id).  SyncTrace.tla validates
every handler answer and every scenario outcome and checks that the finalized height never decreases, no finalized block is
replaced, finalize events match the raises and the finalized height is not below the precommitted height of the tip.
VERIF_EXPERIMENTAL=1 adds peers that serve part of a segment and then nothing (open finding: the download loop never ends)."""
import json, os, re
import common
from common import Inconclusive, finish, log

LEVEL = "model_checking"

def run_sync(ctx, keys_for_pid):
    binp = ctx.go_build("./cmd/c19")
    r = ctx.tlc("Sync", "Sync_peers", workers=4, timeout=900, seed=ctx.seed)
    if r["violation"]:
        raise Inconclusive("Sync.tla property fails at spec level")
    table = ctx.path("peers.txt")
    with open(table, "w") as fh:
        for row in ctx.dumps(r["out"], "TB"):
            fh.write(json.dumps(row) + "\n")
    tf = ctx.path("sync_trace.ndjson"); of = ctx.path("c19.json")
    nh, no = ("150", "160") if ctx.tier == "quick" else ("1500", "1000")   # every networked node costs 2 descriptors until the process exits (limit 20000)
    p = ctx.run([binp, table, tf, of, nh, no], timeout=3000)
    if not os.path.exists(of):
        raise Inconclusive("c19 harness failed (rc=%d): %s" % (p.returncode, p.stderr[-1500:]))
    res = json.load(open(of))
    if res.get("harness_errors"):
        raise Inconclusive("c19 harness error: %s" % res["harness_errors"][:2])
    viols = [(v["key"], v["what"], v.get("replay")) for v in res.get("violations") or []]
    lines = open(tf).read().splitlines()
    t = ctx.tlc("SyncTrace", "SyncTrace", workers=1, timeout=1200, files={"trace.ndjson": tf})
    if t["distinct"] - 1 != len(lines):
        raise Inconclusive("SyncTrace consumed %d of %d records" % (t["distinct"] - 1, len(lines)))
    # tag of a MISMATCH line -> violation key (":sync" keys belong to C04, see c04.C04_SYNC)
    SCEN = {"temp-blocks-left": ("sync:temp-blocks-left", "the node ended on a chain (outcome '%(outcome)s') but temporary blocks of the attempt are left behind: %(temp)s"),
            "cannot-extend": ("sync:cannot-extend-after-sync", "after the synchronisation attempt (outcome '%(outcome)s') the node does not accept the next block forged on its own tip"),
            "twin-rejects": ("sync:twin-rejects-next-block", "after the synchronisation attempt (outcome '%(outcome)s') the node forged a block on its tip that a node which always had exactly that chain rejects"),
            "restore-differs": ("sync:restore-differs-from-twin", "the original blocks were restored (outcome '%(outcome)s') but the database differs from the one of a twin node that was never offered anything"),
            "finalize-events": ("finalize-events:sync", "the finalize events published during the synchronisation %(finEvents)s are not one event per raise of the finalized height from %(finBefore)s to %(finAfter)s"),
            "finalized-behind-precommit": ("finalized-behind-precommit:sync", "after the synchronisation the stored finalized height %(finAfter)s is below the precommitted height %(mhpcAfter)s of the tip")}
    for ln, tag, detail in re.findall(r'<<"MISMATCH", (\d+), "([a-z0-9-]+)", (.*)>>', t["out"]):
        e = json.loads(lines[int(ln) - 1])
        if tag == "sync-outcome":
            key = "sync-outcome:%s:%s" % (e["scenario"]["behaviour"], e["outcome"])
            what = "a node offered the tip of a %s peer's chain ended in state '%s' (features %s, error %s), which the specification does not allow" % (
                e["scenario"]["behaviour"], e["outcome"], json.dumps(e["f"]), e.get("err"))
        elif tag == "sync-outcome-two-peers":
            key = "sync-outcome:two-peers:" + e["outcome"]
            what = "several honest peers (%s), tips %s: the block of peer T (height %s) started a block synchronisation; by (maxHeightPrevoted, height, most common id) the node has to sync from a peer with tip id %s (best chain: height %s); it ended on '%s' (tip label %s, height %s, error %s)" % (
                e["scenario"].get("variant"), json.dumps(e["peers"]), e["trigger"]["h"], detail.strip('"'), e["best"]["h"], e["outcome"], e["tip"], e["tipH"]["h"], e.get("err"))
        elif tag == "honest-peer-banned":
            key = "sync:honest-peer-banned"
            what = "several honest peers (%s) that all serve valid chains: %s peer(s) banned after the block synchronisation (outcome '%s')" % (e["scenario"].get("variant"), e["banned"], e["outcome"])
        elif tag in ("finalized-height-decreased", "finalized-block-replaced"):
            key = tag + ":sync"
            what = "%s during sync: %s" % (tag, json.dumps(e)[:400])
        elif tag in SCEN:
            key = SCEN[tag][0]
            what = SCEN[tag][1] % e + " (scenario %s, features %s, error %s)" % (json.dumps({k: v for k, v in e["scenario"].items() if k != "features"}), json.dumps(e["f"]), e.get("err"))
        else:
            key = "handler:" + tag
            what = "RPC handler answer differs from the specification: got %s expected %s (request %s)" % (e.get("res"), detail[:200], json.dumps({k: e[k] for k in e if k not in ("chain", "res")})[:200])
        viols.append((key, what, e.get("scenario") or {k: e[k] for k in e if k != "chain"}))
    for key, what, rep in viols:
        if keys_for_pid(key):
            ctx.violation(key, what, rep)
    cv = res.get("cov") or {}
    log("[c19] peer rows=%d handler calls=%d offers=%d outcomes=%s kinds=%s violations=%s" % (res["peer_rows"], res["handler_calls"], res["offers"],
        res["outcomes"], res["offer_kinds"], sorted(set(k for k, _, _ in viols))))
    log("[c19] coverage %s" % json.dumps(cv, sort_keys=True))
    if not ctx.violations:
        if res["peer_rows"] < 1000 or res["handler_calls"] < 50 or res["outcomes"].get("peer", 0) < 5 or res["outcomes"].get("own+ban", 0) < 2:
            raise Inconclusive("scenarios did not cover switch and restore outcomes: vacuous")
        # every added sub-check has to have happened (a run in which it did not is not a pass)
        need = {"peers:rows-5-6-peers": 1000, "peers:rows-three-ranks": 1000, "peers:rows-frequency-over-all-peers-wrong": 1, "peers:rows-composite-key-wrong": 1,
                "handler:servers-with-small-cache": 1, "handler:blocks:at-cap": 3, "handler:blocks:below-cap": 3, "handler:blocks:unknown-or-malformed-id": 3,
                "handler:last": 1, "handler:malformed-requests": 8, "handler:common:ids-max": 200,
                "offers:small-cache:peer": 2, "offers:second-download-batch": 1, "offers:restored-blocks-with-transactions": 1,
                "ext:extended": 50, "ext:twin": 30, "ext:dump-after-restore": 2, "finalize-events:offers-with-raise": 3,
                "several-peers:mhp-and-height-disagree": 1, "several-peers:decided-by-most-common-id": 1, "several-peers:silent": 1, "several-peers:better": 1}
        missing = {k: cv.get(k, 0) for k, n in need.items() if cv.get(k, 0) < n}
        kinds = res["offer_kinds"]
        for b in ("static", "tamper", "gap", "reorder", "truncate"):
            if not any(k.endswith(":" + b) for k in kinds):
                missing["offers:" + b] = 0
        if missing:
            raise Inconclusive("sub-checks without cases in this run (vacuous): %s" % missing)
    cov = dict(traces_validated_against_impl=len(lines) + res["peer_rows"], samples=[json.loads(l) for l in lines[-2:]],
               peer_selection_rows=res["peer_rows"], handler_calls=res["handler_calls"], offer_scenarios=res["offers"],
               outcomes=res["outcomes"], offer_kinds=res["offer_kinds"], sub_checks=cv, exhaustive=False,
               rule="peer selection: all sequences of <= 4 tips over ranks 0..1 and of <= 3 tips over ranks 0..2 of (mhp, height) and 3 ids (exhaustive), "
                    "6000 sampled sequences of 5-6 tips, every row under 4 monotone embeddings into uint32; handlers and offers: fixed + seeded scenarios")
    return cov

C19_KEYS = ("best-peer", "handler:", "sync-outcome", "hang:sync", "panic:sync", "sync:", "observe-after-sync")   # "sync:" = tip-height-changed-on-own-chain, temp-blocks-left, cannot-extend-after-sync, twin-rejects-next-block, restore-differs-from-twin, honest-peer-banned

NET_KEYS = ("net:tip-mismatch", "net:ban-mismatch", "net:hang", "net:panic", "net:temp-blocks-left", "net:observe", "net:forged-block-rejected")

def run(ctx):
    from props import net as _net
    _net.maybe_replay(ctx, LEVEL)
    cov = run_sync(ctx, lambda k: k.startswith(C19_KEYS))
    # convergence in a network of honest real nodes: fork choice cascade + fast sync with the announcing peer (spec/Net.tla)
    from props import net
    cov.update(net.run_net(ctx, lambda k: k.startswith(NET_KEYS), parts=("honest_exh", "honest_sim", "chg_sim")))
    finish(ctx, LEVEL, cov, assumptions=["3 validators sign on both forks (the scenarios exercise the sync machinery, not BFT safety)",
                                         "toy application; loopback libp2p (a ban closes the shared loopback address: which of several peers is banned is not observable); fake peers serve re-signed blocks with a wrong state root / height, tampered payloads, statically invalid transactions, segments with a missing block, reversed or empty segments"])
