"""C19 sync picks the best peer, serves correct chain segments, converges safely (and the sync part of C04).
Sync.tla: BestPeers as a set of acceptable answers (TLC prints the table over all tip multisets of <= 4 peers), HighestCommon /
BlocksFrom (handler answers), Outcomes (where a node may end after being offered a peer's tip, from LIP-0014 priority, common
block vs finalized height, fast/block sync conditions and peer behaviour).  The harness evaluates the real peer selection on
every table row, calls the real RPC handlers of a 113-block real node over loopback libp2p, and runs offer scenarios
(real node A with its own fork; honest real node B, corrupting or truncating fake peer) through the real process()/sync path;
SyncTrace.tla validates every handler answer and every scenario outcome and checks that the finalized height never
decreases and no finalized block is replaced."""
import json, os, re
import common
from common import Inconclusive, finish, log

LEVEL = "model_checking"

def run_sync(ctx, keys_for_pid):
    binp = ctx.go_build("./cmd/c19")
    r = ctx.tlc("Sync", "Sync_peers", workers=4, timeout=600)
    if r["violation"]:
        raise Inconclusive("Sync.tla property fails at spec level")
    table = ctx.path("peers.txt")
    with open(table, "w") as fh:
        for line in r["out"].splitlines():
            if line.startswith('<<"TB"'):
                fh.write(line + "\n")
    tf = ctx.path("sync_trace.ndjson"); of = ctx.path("c19.json")
    nh, no = ("150", "160") if ctx.tier == "quick" else ("1500", "1000")   # every networked node costs 2 descriptors until the process exits (limit 20000)
    p = ctx.run([binp, table, tf, of, nh, no], timeout=3000)
    if not os.path.exists(of):
        raise Inconclusive("c19 harness failed (rc=%d): %s" % (p.returncode, p.stderr[-1500:]))
    res = json.load(open(of))
    if res.get("harness_errors"):
        raise Inconclusive("c19 harness error: %s" % res["harness_errors"][:2])
    viols = [(v["key"], v["what"], v.get("replay")) for v in res.get("violations") or []]
    lines = open(tf).read().splitlines()
    t = ctx.tlc("SyncTrace", "SyncTrace", workers=1, timeout=1200, files={"trace.ndjson": tf})
    if t["distinct"] - 1 != len(lines):
        raise Inconclusive("SyncTrace consumed %d of %d records" % (t["distinct"] - 1, len(lines)))
    for ln, tag, detail in re.findall(r'<<"MISMATCH", (\d+), "([a-z-]+)", (.*)>>', t["out"]):
        e = json.loads(lines[int(ln) - 1])
        if tag == "sync-outcome":
            key = "sync-outcome:%s:%s" % (e["scenario"]["behaviour"], e["outcome"])
            what = "a node offered the tip of a %s peer's chain ended in state '%s' (features %s, error %s), which the specification does not allow" % (
                e["scenario"]["behaviour"], e["outcome"], json.dumps(e["f"]), e.get("err"))
        elif tag == "sync-outcome-two-peers":
            key = "sync-outcome:two-peers:" + e["outcome"]
            what = "two honest peers: the block of peer T (height %s) started a block synchronisation, the best peer B has height %s; the node ended on '%s' (height %s, error %s) instead of B's chain" % (
                e["trigger"]["h"], e["best"]["h"], e["outcome"], e["tip"]["h"], e.get("err"))
        elif tag in ("finalized-height-decreased", "finalized-block-replaced"):
            key = tag + ":sync"
            what = "%s during sync: %s" % (tag, json.dumps(e)[:400])
        else:
            key = "handler:" + tag
            what = "RPC handler answer differs from the specification: got %s expected %s (request %s)" % (e.get("res"), detail[:200], json.dumps({k: e[k] for k in e if k not in ("chain", "res")})[:200])
        viols.append((key, what, e.get("scenario") or {k: e[k] for k in e if k != "chain"}))
    for key, what, rep in viols:
        if keys_for_pid(key):
            ctx.violation(key, what, rep)
    log("[c19] peer rows=%d handler calls=%d offers=%d outcomes=%s kinds=%s violations=%s" % (res["peer_rows"], res["handler_calls"], res["offers"],
        res["outcomes"], res["offer_kinds"], sorted(set(k for k, _, _ in viols))))
    if not ctx.violations and (res["peer_rows"] < 1000 or res["handler_calls"] < 50 or res["outcomes"].get("peer", 0) < 5 or res["outcomes"].get("own+ban", 0) < 2):
        raise Inconclusive("scenarios did not cover switch and restore outcomes: vacuous")
    cov = dict(traces_validated_against_impl=len(lines) + res["peer_rows"], samples=[json.loads(l) for l in lines[-2:]],
               peer_selection_rows=res["peer_rows"], handler_calls=res["handler_calls"], offer_scenarios=res["offers"],
               outcomes=res["outcomes"], offer_kinds=res["offer_kinds"], exhaustive=False,
               rule="peer selection: all sequences of <= 4 tips over mhp, height in 0..1 and 3 ids (exhaustive); handlers and offers: seeded scenarios")
    return cov

C19_KEYS = ("best-peer", "handler:", "sync-outcome", "hang:sync", "panic:sync", "sync:", "observe-after-sync")

NET_KEYS = ("net:tip-mismatch", "net:ban-mismatch", "net:hang", "net:panic", "net:temp-blocks-left", "net:observe", "net:forged-block-rejected")

def run(ctx):
    from props import net as _net
    _net.maybe_replay(ctx, LEVEL)
    cov = run_sync(ctx, lambda k: k.startswith(C19_KEYS))
    # convergence in a network of honest real nodes: fork choice cascade + fast sync with the announcing peer (spec/Net.tla)
    from props import net
    cov.update(net.run_net(ctx, lambda k: k.startswith(NET_KEYS), parts=("honest_exh", "honest_sim", "chg_sim")))
    finish(ctx, LEVEL, cov, assumptions=["3 validators sign on both forks (the scenarios exercise the sync machinery, not BFT safety)",
                                         "toy application; loopback libp2p; fake peers serve re-signed blocks with a wrong state root or empty segments"])
