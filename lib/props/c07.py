"""C07 header contradiction and fork-choice classification follow LIP-0014.
TLC enumerates all header pairs over small field ranges, checks operational = declarative contradiction,
symmetry, etc., and prints the truth tables (pairs; classification with boundary receive times; priority incl. the genesis
rule); the harness evaluates the real functions on every row under several concretisations (generator address families,
strictly increasing uint32 maps, a genesis tip) and on uint32-range pairs through rank compression.
The chain-level rule (compare with the generator's newest header in the window) is validated by the LiskBFT trace (Contra
events); RecvTime.tla scripts replayed under a moving wall clock offer valid, wrongly signed and CONTRADICTING blocks to the
real Executer in the first / last second of their slots and probe Executer.Synced against the priority table; a slice of the
honest network simulation of Net.tla checks on real nodes that validators whose node switched chains are not flagged;
'protocol-following generators are never flagged' is also the invariant HonestNoContra of the fork-tree model (thorough)
and a fact discharged by Apalache for all naturals."""
import json, os
import common
from common import Inconclusive, finish, log
from props import c02, c01

LEVEL = "model_checking"

def apalache_facts(ctx):
    import shutil, subprocess, tempfile, time
    src = os.path.join(common.SPEC, "apalache", "ContraInt.tla")
    res = {}
    for name, mutate in (("facts", None), ("control", ("\\/ eh > lg", "\\/ eh >= lg"))):
        wd = tempfile.mkdtemp(prefix="apa_", dir=ctx.scratch)
        text = open(src).read()
        if mutate:
            if mutate[0] not in text:
                raise Inconclusive("apalache control: pattern not found in ContraInt.tla")
            text = text.replace(mutate[0], mutate[1], 1)
        open(os.path.join(wd, "ContraInt.tla"), "w").write(text)
        t = time.time()
        try:
            p = subprocess.run(["timeout", "600", "apalache-mc", "check", "--init=Init", "--next=Next", "--inv=Inv", "--length=0", "ContraInt.tla"],
                               cwd=wd, stdout=subprocess.PIPE, stderr=subprocess.STDOUT, text=True)
        except Exception as e:
            raise Inconclusive("apalache failed to start: %s" % e)
        out = p.stdout
        ok = "The outcome is: NoError" in out
        err = "The outcome is: Error" in out
        log("[apalache] ContraInt %s: %s in %.1fs" % (name, "NoError" if ok else ("counterexample" if err else "rc=%d" % p.returncode), time.time() - t))
        if not ok and not err:
            raise Inconclusive("apalache run '%s' neither proved nor refuted: %s" % (name, out[-800:]))
        res[name] = ok
    if not res["facts"]:
        # the specification-level facts (ForkChoice.tla / LiskBFT.tla definitions) fail for some naturals: the bounded tables
        # above were too small to show it - the model needs attention before anything is concluded about the code
        raise Inconclusive("Apalache refutes a contradiction / fork-choice fact over the naturals: inspect spec/apalache/ContraInt.tla")
    if res["control"]:
        raise Inconclusive("Apalache control (weakened comparison) was not refuted: the obligation is vacuous")
    return dict(apalache_unbounded_facts=["operational = declarative contradiction", "symmetry", "never across generators", "equal triples contradict",
                                          "Better is a strict total preorder", "legitimate successor is Better", "honest generator never contradicts itself",
                                          "a later header that claims less than the generator's own earlier height contradicts it",
                                          "the genesis priority rule is monotone in the genesis height"],
                apalache_control_refuted=True)

def priority_table(ctx):
    """TP rows of ForkChoice.tla (HasPriority incl. the genesis rule) as a file; used by cmd/c07 and by the Synced probes of cmd/recv"""
    tp = ctx.path("tables_priority.txt")
    if not os.path.exists(tp):
        r = ctx.tlc("ForkChoice", "ForkChoice_priority", workers=4, timeout=900)
        if r["violation"]:
            raise Inconclusive("ForkChoice.tla property fails at spec level (priority): %s" % r["outpath"])
        with open(tp, "w") as fh:
            for line in r["out"].splitlines():
                if line.startswith('<<"TP'):
                    fh.write(line + "\n")
    return tp

# keys of the moving-clock replay that are about "a rejected block changes nothing" / restart / panic rather than about the
# LIP-0014 classification: reported under C07 as long as no other check owns them, and available to C03 through
# recvtime(ctx, prefix="...", keys=RECV_C03_KEYS)
RECV_C03_KEYS = ("child:none-instead-of-accept", "child:other-instead-of-", "restart-fails", "panic",
                 "contradicting-child:", "contradicting-comp:")

def recvtime(ctx, prefix="recvtime", keys=None, tables=None):
    """RecvTime.tla: fork choice under a MOVING wall clock.  TLC checks the model (exhaustively for 3 slots / 5 steps) and
    generates scripts in simulation; cmd/recv replays them side by side on real nodes with a block time of a few seconds.
    Returns coverage; violations are reported through ctx.violation under `prefix:...`.
    keys: None = all, else a tuple of key prefixes (after 'recvtime:') the caller owns; tables: priority table for the
    Executer.Synced probes (None = no probes)."""
    r = ctx.tlc("RecvTime", "RecvTime_exh", workers=4, timeout=600)
    if r["violation"]:
        raise Inconclusive("RecvTime.tla violates its own invariants: %s" % r["outpath"])
    quick = ctx.tier == "quick"
    scripts = []
    seen = set()
    # general scripts (4 validators) and directed ones that contain a CONTRADICTING block (3 validators: the generator of a
    # slot comes round again inside the 4 slots of a scenario)
    for cfg, nsim, cap, floor in (("RecvTime_sim", 400 if quick else 2000, 170 if quick else 700, 60),
                                  ("RecvTime_lying", 500 if quick else 2500, 90 if quick else 400, 30)):
        g = ctx.tlc("RecvTime", cfg, workers=1, timeout=600, simulate=nsim, depth=8, seed=ctx.seed)
        if g["violation"]:
            raise Inconclusive("RecvTime.tla violates its own invariants in simulation: %s" % g["outpath"])
        n = nend = 0
        for d in ctx.dumps(g["out"]):
            k = json.dumps(d, sort_keys=True)
            at_end = d["script"][0].get("pos") == "end"
            # the window in the last second of a slot is narrow (680 ms): at most a third of the scripts go there
            if k not in seen and n < cap and not (at_end and nend >= cap // 3):
                seen.add(k); scripts.append(d); n += 1; nend += at_end
        if n < floor:
            raise Inconclusive("RecvTime simulation (%s) produced only %d scripts" % (cfg, n))
    sp = ctx.path("recv_scripts.jsonl")
    with open(sp, "w") as fh:
        for d in scripts:
            fh.write(json.dumps(d) + "\n")
    binp = ctx.go_build("./cmd/recv")
    res = None
    vac = ("tie_breaks_performed", "competitors_refused_tip_in_time", "competitors_offered_after_a_rejected_child",
           "contradicting_children_offered", "contradicting_competitors_offered", "contradicting_competitors_in_tie_break_window",
           "blocks_offered_in_first_second_of_slot", "blocks_offered_in_last_second_of_slot", "tie_breaks_in_last_second")
    floors = dict(blocks_offered_in_first_second_of_slot=40, blocks_offered_in_last_second_of_slot=40, tie_breaks_in_last_second=3,
                  contradicting_children_offered=10, contradicting_competitors_offered=10, contradicting_competitors_in_tie_break_window=3)
    def placed(res):
        # scripts at the slot start have seconds of room: most of them must have kept their timing; for the ones in the last
        # second the floors below decide
        nstart = res["scripts"] - res.get("scripts_at_slot_end", 0)
        return res.get("scripts_at_slot_start_completed", res["completed"]) >= 0.7 * nstart
    def vacuous(res):
        return [k for k in vac if res.get(k, 0) < floors.get(k, 5)]
    for attempt in range(3):          # a run that lost its timing on a loaded machine is repeated (twice at most)
        of = ctx.path("recv_%d.json" % attempt)
        p = ctx.run([binp, sp, of, "4"] + ([tables] if tables else []), timeout=300)
        if p.returncode != 0 or not os.path.exists(of):
            if getattr(ctx, "real_panic", None):
                break
            raise Inconclusive("recv harness failed: " + p.stderr[-1500:])
        res = json.load(open(of))
        res["violations"] = res.get("violations") or []
        if res.get("harness_errors"):
            raise Inconclusive("recv harness: %s" % res["harness_errors"][:3])
        if res["violations"] or (placed(res) and not vacuous(res)):
            break
        log("[recv] only %d of %d scripts kept their timing (below their floor: %s); retrying" % (res["completed"], res["scripts"], vacuous(res)))
    if res is None:
        return {}
    log("[recv] scripts=%d (at slot end %d) completed=%d (at slot end %d) timing-inconclusive=%d steps=%d tie-breaks=%d (last second %d) refused(tip in time)=%d after-rejected-child=%d "
        "contradicting child/competitor/competitor-in-tie-window=%d/%d/%d first/last-second=%d/%d restarts=%d synced-probes=%d (true %d, genesis %d, tip raised prevoted %d) max-batch=%dms setup=%dms wall=%.0fs" % (
        res["scripts"], res.get("scripts_at_slot_end", 0), res["completed"], res.get("scripts_at_slot_end_completed", 0), res["timing_inconclusive"], res["steps"], res["tie_breaks_performed"],
        res.get("tie_breaks_in_last_second", 0), res["competitors_refused_tip_in_time"], res["competitors_offered_after_a_rejected_child"],
        res.get("contradicting_children_offered", 0), res.get("contradicting_competitors_offered", 0), res.get("contradicting_competitors_in_tie_break_window", 0),
        res.get("blocks_offered_in_first_second_of_slot", 0), res.get("blocks_offered_in_last_second_of_slot", 0), res["restarts"],
        res.get("synced_probes", 0), res.get("synced_probes_true", 0), res.get("synced_probes_genesis", 0), res.get("synced_probes_tip_raised_prevoted", 0),
        res.get("max_batch_ms", 0), res.get("setup_ms", 0), res["wall_s"]))
    reported = 0
    for v in res["violations"]:
        rest = v["key"].split(":", 1)[1]
        if keys is not None and not rest.startswith(tuple(keys)):
            log("[recv] note: a violation belonging to another property was observed: %s" % v["key"])
            continue
        reported += 1
        ctx.violation(prefix + ":" + rest, v["what"], v.get("replay"))
    if not res["violations"]:
        if not placed(res):
            raise Inconclusive("moving-clock replay: only %d of %d scripts could be placed inside their slots (machine too loaded)" % (res["completed"], res["scripts"]))
        if vacuous(res):
            raise Inconclusive("moving-clock replay is vacuous: %s" % {k: res.get(k, 0) for k in vacuous(res)})
        if tables and (res.get("synced_probes", 0) < 1000 or res.get("synced_probes_genesis", 0) < 100 or res.get("synced_probes_tip_raised_prevoted", 0) < 50
                       or not 0 < res.get("synced_probes_true", 0) < res.get("synced_probes", 0)):
            raise Inconclusive("Synced probes are vacuous: %s" % {k: res.get(k, 0) for k in res if k.startswith("synced_")})
    return dict(moving_clock_scripts=res["completed"], moving_clock_steps=res["steps"], moving_clock_tie_breaks=res["tie_breaks_performed"],
                moving_clock_competitors_refused_tip_in_time=res["competitors_refused_tip_in_time"],
                moving_clock_competitors_after_rejected_child=res["competitors_offered_after_a_rejected_child"],
                moving_clock_contradicting_children=res.get("contradicting_children_offered", 0),
                moving_clock_contradicting_competitors=res.get("contradicting_competitors_offered", 0),
                moving_clock_contradicting_competitors_in_tie_break_window=res.get("contradicting_competitors_in_tie_break_window", 0),
                moving_clock_blocks_in_first_second=res.get("blocks_offered_in_first_second_of_slot", 0),
                moving_clock_blocks_in_last_second=res.get("blocks_offered_in_last_second_of_slot", 0),
                moving_clock_tie_breaks_in_last_second=res.get("tie_breaks_in_last_second", 0),
                synced_probes=res.get("synced_probes", 0), synced_probes_genesis=res.get("synced_probes_genesis", 0),
                synced_probes_tip_raised_prevoted=res.get("synced_probes_tip_raised_prevoted", 0))

def tables(ctx):
    """truth tables of ForkChoice.tla on the real functions (cmd/c07)"""
    binp = ctx.go_build("./cmd/c07")
    tables = ctx.path("tables.txt")
    with open(tables, "w") as fh:
        for mode in ("pairs", "classify"):
            r = ctx.tlc("ForkChoice", "ForkChoice_" + mode, workers=4, timeout=900)
            if r["violation"]:
                raise Inconclusive("ForkChoice.tla property fails at spec level (%s): %s" % (mode, r["outpath"]))
            for line in r["out"].splitlines():
                if line.startswith('<<"T'):
                    fh.write(line + "\n")
        fh.write(open(priority_table(ctx)).read())
    of = ctx.path("c07.json")
    nrand = 200000 if ctx.tier == "quick" else 3000000
    p = ctx.run([binp, tables, of, str(nrand)], timeout=1800)
    if p.returncode != 0 or not os.path.exists(of):
        raise Inconclusive("c07 harness failed: " + p.stderr[-1500:])
    res = json.load(open(of))
    for v in res.get("violations") or []:
        ctx.violation(v["key"], v["what"], v.get("replay"))
    log("[c07] pairs=%d (contradicting %d; through the API %d, equal fields / distinct ids %d, re-decoded copies %d; generator identities %s) classify=%d rows %s x embeddings %s "
        "(duplicates of the tip with boundary receive times: %d rows; predicates compared %d; clock moved: repeated %d, unjudged %d) priority=%d rows (genesis header %d) x maps = %d random=%d of %d (API %d, with a uint32 boundary value %d)" % (
        res["pairs"], res["pairs_contradicting"], res["api_pairs"], res["api_pairs_equal_fields_distinct_ids"], res["api_pairs_redecoded_copy"], res["generator_identity_families"],
        res["classify_cases"], res["classes"], res["classify_embeddings"], res["classify_rows_duplicate_with_boundary_receive_times"],
        res["predicates_compared_where_the_cascade_reaches_them"], res["classify_evaluations_repeated_clock_moved"], res["classify_evaluations_unjudged_clock_moved"],
        res["priority_rows"], res["priority_rows_genesis_header"], res["priority_evaluations"], res["random_pairs"], res["random_pairs_requested"],
        res["random_pairs_through_api"], res["random_pairs_with_uint32_boundary_value"]))
    if not ctx.violations:
        # non-vacuity: every table, every concretisation and the uint32 phase really ran
        why = []
        if res["pairs"] < 1000 or res["classify_cases"] < 100 or len(res["classes"]) < 6:
            why.append("truth tables incomplete")
        if res["random_pairs"] < 0.9 * nrand:
            why.append("uint32 pairs: %d of %d requested (pair table narrower than fields 0..5?)" % (res["random_pairs"], nrand))
        if res["random_pairs_through_api"] < 0.2 * nrand or res["random_pairs_with_uint32_boundary_value"] < 0.2 * nrand:
            why.append("uint32 pairs through the API / with boundary values too few")
        if len(res["generator_identity_families"]) < 8 or min(res["generator_identity_families"].values()) < 1000:
            why.append("generator identity families not all exercised: %s" % res["generator_identity_families"])
        if res["api_pairs_equal_fields_distinct_ids"] < 400 or res["api_pairs_redecoded_copy"] < 1000:
            why.append("API pairs with equal fields / re-decoded copies too few")
        if len(res["classify_embeddings"]) < 6 or min(res["classify_embeddings"].values()) < 500:
            why.append("classification embeddings not all exercised: %s" % res["classify_embeddings"])
        if len(res["classify_generator_identity_families"]) < 7 or min(res["classify_generator_identity_families"].values()) < 500:
            why.append("classification rows: generator identity families not all exercised: %s" % res["classify_generator_identity_families"])
        if res["classify_rows_duplicate_with_boundary_receive_times"] < 50 or res["classes"].get("tiebreak", 0) < 4:
            why.append("receive-time boundary rows too few")
        if res["classify_evaluations_unjudged_clock_moved"] > 0.02 * max(1, res["classify_evaluations"]):
            why.append("too many classification rows lost to the moving clock")
        if res["priority_rows_genesis_header"] < 100 or res["priority_evaluations"] < 5 * res["priority_rows"]:
            why.append("priority rows (genesis header / uint32 maps) too few")
        if why:
            raise Inconclusive("truth tables vacuous: " + "; ".join(why))
    return res

# a validator's own node rejects the block it forges (flagged as contradicting), or a node does not end where the fork-choice
# rule puts it (e.g. because honest validators' blocks on the better chain are flagged against stale information)
C07_NET = ("net:forged-block-rejected", "net:tip-mismatch")
# what the fixed sequences are kept for (tie break after a sync, double forging inside the tie-break window): where the acted-on
# node ends up.  Finality, heights, temporary blocks, bans and agreement along these scripts belong to C01 / C04 / C05 / C19.
C07_FIXED = ("net:tip-mismatch", "net:forged-block-rejected", "net:hang", "net:panic", "net:restart-fails", "net:observe")

def fixed_sequences(ctx):
    from props import net
    nfixed, fv = net.run_fixed(ctx)
    binp = None
    for v in fv:
        if not v["key"].startswith(C07_FIXED):
            log("[c07] note: fixed sequence %s shows a violation that belongs to another property: %s" % (v["script"], v["key"]))
            continue
        if v["key"].startswith("net:hang") and isinstance(v.get("replay"), dict) and "config" in v["replay"]:
            # a call that missed its deadline on a busy machine proves nothing by itself: run the script again, alone
            binp = binp or ctx.go_build("./cmd/net")
            again = False
            for attempt in range(2):
                sf = ctx.path("fixed_hang_%d.ndjson" % attempt); open(sf, "w").write(json.dumps(dict(script=v["replay"]["script"])) + "\n")
                cf = ctx.path("fixed_hang_cfg.json"); json.dump(v["replay"]["config"], open(cf, "w"))
                of = ctx.path("fixed_hang_res.json")
                if os.path.exists(of):
                    os.remove(of)
                ctx.run([binp, sf, cf, of], timeout=600)
                r1 = json.load(open(of)) if os.path.exists(of) else {}
                if any(x["key"] == v["key"] for x in (r1.get("violations") or [])):
                    again = True
                    break
            if not again:
                log("[c07] a call exceeded its deadline once in %s (%s) and returned promptly when the script was re-run twice: not reported" % (v["script"], v["key"]))
                continue
        ctx.violation("forkchoice-sequence:" + v["key"], "%s: %s" % (v["script"], v["what"]), v.get("replay"))
    return nfixed

def honest_after_switch(ctx):
    """'Headers of a generator that switches chains only by fork choice are never flagged', on real nodes: a slice of the
    honest network simulation of Net.tla (validators forge on their own node's tip with honest generator information, nodes
    switch chains by the fork-choice rule, restart).  The block a validator forges AFTER its node switched chains (blocks
    deleted, BFT window rebuilt) must be accepted by its own node - IsHeaderContradictingChain in verifyBlock."""
    from props import net
    cov = net.run_net(ctx, lambda k: k.startswith(C07_NET), scripts_cap=80 if ctx.tier == "quick" else 600, parts=("honest_sim",))
    # non-vacuity from the scripts themselves: forges by a node after that node replaced blocks of its chain
    sf = ctx.path("net_sim_scripts.ndjson")
    after = 0; scripts = 0
    if os.path.exists(sf):
        for line in open(sf):
            d = json.loads(line); scripts += 1
            switched = set()
            for st in d["script"]:
                if st.get("op") == "deliver" and (st.get("sync") == "switch" or st.get("branch") == "tiebreak"):
                    switched.add(st.get("node"))
                elif st.get("op") == "forge" and st.get("node") in switched:
                    after += 1
    log("[c07] honest network slice: %d scripts, %d forges, %d of them by a validator whose node had switched chains before" % (scripts, cov.get("net_forges", 0), after))
    if not ctx.violations and (after < 20 or cov.get("net_forges", 0) < 100):
        raise Inconclusive("honest network slice is vacuous: %d forges after a chain switch" % after)
    return dict(honest_network_scripts=scripts, honest_network_forges=cov.get("net_forges", 0), honest_forges_after_chain_switch=after,
                honest_network_sync_outcomes=cov.get("net_sync_outcomes"), honest_network_branches=cov.get("net_branches"))

def run(ctx):
    from props import net as _net
    _net.maybe_replay(ctx, LEVEL)
    res = tables(ctx)
    # unbounded: the same algebraic facts for ALL natural field values, discharged by Apalache (SMT); a control with one
    # comparison of the operational form weakened must produce a counterexample (the obligation is not vacuous)
    apa = apalache_facts(ctx)
    # classification depends on the receive times the node remembers across steps: fixed multi-node sequences
    apa["fork_choice_sequences_replayed"] = fixed_sequences(ctx)
    # ... and on WHEN the tip was received: RecvTime.tla replayed under a moving wall clock (+ contradicting blocks offered to
    # the real Executer, Executer.Synced probed against the priority table)
    apa.update(recvtime(ctx, tables=priority_table(ctx)))
    # honest validators whose node switched chains are not flagged by their own node
    if not ctx.violations:
        apa.update(honest_after_switch(ctx))
    # chain-level rule through the real liskbft.Module: IsHeaderContradictingChain probes in the BFT trace
    b2 = ctx.go_build("./cmd/c02")
    chains = 300 if ctx.tier == "quick" else 3000
    tr = c02.validate(ctx, b2, chains, ctx.seed, "c07", cfg="LiskBFTTrace_contra")
    c02.report(ctx, tr, ctx.seed, chains, pid_kinds=("contra",))
    if not ctx.violations:
        if tr.get("ended_early"):
            # the monitor stopped before the end of the trace for a reason that is not a contradiction probe (a header accepted
            # by one side only, a TLC problem): the probes behind that line were not judged
            raise Inconclusive("BFT trace validation ended at line %d of %d for a reason outside C07 (%s): the contradiction probes behind it are unjudged" % (
                tr["accepted"], tr["events"], tr["ended_early"]))
        m = tr["meta"]
        if m.get("contra_true", 0) < 50 or m.get("contra_boundary_probes", 0) < 20:
            raise Inconclusive("chain-level contradiction probes are vacuous: %d true, %d at the far end of the window" % (m.get("contra_true", 0), m.get("contra_boundary_probes", 0)))
    # protocol-following generators never contradict themselves: HonestNoContra on the fork-tree model
    hn = None
    if ctx.tier == "thorough":
        cfg = c01.write_cfg(ctx, "honest", c01.cfg_text("LiskBFTTree_q", MaxBlocks=8, MaxHeight=6))
        hn = ctx.tlc("MCLiskBFTTree", cfg, workers=16, timeout=1800)
        if hn["violation"]:
            raise Inconclusive("fork-tree model violates an invariant at spec level: %s" % hn["outpath"])
    cov = dict(traces_validated_against_impl=res["pairs"] + res["classify_evaluations"] + res["priority_evaluations"] + tr["meta"].get("chains", 0),
               samples=res["samples"][:2] + [dict(classes=res["classes"])],
               **apa, header_pairs=res["pairs"], header_pairs_contradicting=res["pairs_contradicting"],
               header_pairs_through_api=res["api_pairs"], header_pairs_equal_fields_distinct_ids=res["api_pairs_equal_fields_distinct_ids"],
               header_pairs_redecoded_copy=res["api_pairs_redecoded_copy"], generator_identity_families=res["generator_identity_families"],
               classification_rows=res["classify_cases"], classification_evaluations=res["classify_evaluations"],
               classification_embeddings=res["classify_embeddings"], classification_generator_identity_families=res["classify_generator_identity_families"],
               classification_rows_with_boundary_receive_times=res["classify_rows_duplicate_with_boundary_receive_times"],
               priority_rows=res["priority_rows"], priority_rows_genesis_header=res["priority_rows_genesis_header"], priority_evaluations=res["priority_evaluations"],
               uint32_pairs=res["random_pairs"], uint32_pairs_contradicting=res["random_pairs_contradicting"], uint32_pairs_through_api=res["random_pairs_through_api"],
               chain_contradiction_probes_true=tr["meta"].get("contra_true", 0), chain_contradiction_boundary_probes=tr["meta"].get("contra_boundary_probes", 0),
               exhaustive=True,
               rule="one TLC state per input tuple; every row of the printed truth tables is evaluated on the real function")
    finish(ctx, LEVEL, cov, assumptions=[
        "uint32-range values are decided through rank compression / strictly increasing maps (the specification uses comparisons and the successor of the tip height only)",
        "generator identity is equality of the address bytes; the empty and the nil address are never compared with each other",
        "fork-choice predicates are evaluated in the order of Executer.process(); a predicate is compared only where that cascade reaches it",
        "the genesis rule of HeaderHasPriority / Synced (a version-0 header has priority over chains that do not reach above it) is transcribed from the SDK's behaviour; LIP-0014 itself is silent about it"])
