"""C07 header contradiction and fork-choice classification follow LIP-0014.
TLC enumerates all header pairs over small field ranges, checks operational = declarative contradiction,
symmetry, etc., and prints the truth tables; the harness evaluates the real functions on every row
(and on uint32-range pairs through rank compression).  The chain-level rule (compare with the generator's
newest header in the window) is validated by the LiskBFT trace (Contra events), and 'protocol-following
generators are never flagged' is the invariant HonestNoContra of the fork-tree model."""
import json, os
import common
from common import Inconclusive, finish, log
from props import c02, c01

LEVEL = "model_checking"

def apalache_facts(ctx):
    import shutil, subprocess, tempfile, time
    src = os.path.join(common.SPEC, "apalache", "ContraInt.tla")
    res = {}
    for name, mutate in (("facts", None), ("control", ("\\/ eh > lg", "\\/ eh >= lg"))):
        wd = tempfile.mkdtemp(prefix="apa_", dir=ctx.scratch)
        text = open(src).read()
        if mutate:
            if mutate[0] not in text:
                raise Inconclusive("apalache control: pattern not found in ContraInt.tla")
            text = text.replace(mutate[0], mutate[1], 1)
        open(os.path.join(wd, "ContraInt.tla"), "w").write(text)
        t = time.time()
        try:
            p = subprocess.run(["timeout", "600", "apalache-mc", "check", "--init=Init", "--next=Next", "--inv=Inv", "--length=0", "ContraInt.tla"],
                               cwd=wd, stdout=subprocess.PIPE, stderr=subprocess.STDOUT, text=True)
        except Exception as e:
            raise Inconclusive("apalache failed to start: %s" % e)
        out = p.stdout
        ok = "The outcome is: NoError" in out
        err = "The outcome is: Error" in out
        log("[apalache] ContraInt %s: %s in %.1fs" % (name, "NoError" if ok else ("counterexample" if err else "rc=%d" % p.returncode), time.time() - t))
        if not ok and not err:
            raise Inconclusive("apalache run '%s' neither proved nor refuted: %s" % (name, out[-800:]))
        res[name] = ok
    if not res["facts"]:
        # the specification-level facts (ForkChoice.tla / LiskBFT.tla definitions) fail for some naturals: the bounded tables
        # above were too small to show it - the model needs attention before anything is concluded about the code
        raise Inconclusive("Apalache refutes a contradiction / fork-choice fact over the naturals: inspect spec/apalache/ContraInt.tla")
    if res["control"]:
        raise Inconclusive("Apalache control (weakened comparison) was not refuted: the obligation is vacuous")
    return dict(apalache_unbounded_facts=["operational = declarative contradiction", "symmetry", "never across generators", "equal triples contradict",
                                          "Better is a strict total preorder", "legitimate successor is Better", "honest generator never contradicts itself"],
                apalache_control_refuted=True)

def recvtime(ctx, prefix="recvtime"):
    """RecvTime.tla: fork choice under a MOVING wall clock.  TLC checks the model (exhaustively for 3 slots / 5 steps) and
    generates scripts in simulation; cmd/recv replays them side by side on real nodes with a block time of a few seconds.
    Returns coverage; violations are reported through ctx.violation under `prefix:...`."""
    r = ctx.tlc("RecvTime", "RecvTime_exh", workers=4, timeout=600)
    if r["violation"]:
        raise Inconclusive("RecvTime.tla violates its own invariants: %s" % r["outpath"])
    nsim = 260 if ctx.tier == "quick" else 1500
    g = ctx.tlc("RecvTime", "RecvTime_sim", workers=1, timeout=600, simulate=nsim, depth=8, seed=ctx.seed)
    scripts = []
    seen = set()
    for d in ctx.dumps(g["out"]):
        k = json.dumps(d, sort_keys=True)
        if k not in seen:
            seen.add(k); scripts.append(d)
    if len(scripts) < 60:
        raise Inconclusive("RecvTime simulation produced only %d scripts" % len(scripts))
    scripts = scripts[:220 if ctx.tier == "quick" else 900]
    sp = ctx.path("recv_scripts.jsonl")
    with open(sp, "w") as fh:
        for d in scripts:
            fh.write(json.dumps(d) + "\n")
    binp = ctx.go_build("./cmd/recv")
    res = None
    for attempt in range(2):          # a run that lost its timing on a loaded machine is repeated once
        of = ctx.path("recv_%d.json" % attempt)
        p = ctx.run([binp, sp, of, "4"], timeout=300)
        if p.returncode != 0 or not os.path.exists(of):
            if ctx.real_panic:
                break
            raise Inconclusive("recv harness failed: " + p.stderr[-1500:])
        res = json.load(open(of))
        if res["harness_errors"]:
            raise Inconclusive("recv harness: %s" % res["harness_errors"][:3])
        if (res["violations"] or []) or res["completed"] >= 0.7 * res["scripts"]:
            break
        log("[recv] only %d of %d scripts kept their timing; retrying" % (res["completed"], res["scripts"]))
    if res is None:
        return {}
    log("[recv] scripts=%d completed=%d timing-inconclusive=%d steps=%d tie-breaks=%d refused(tip in time)=%d after-rejected-child=%d restarts=%d wall=%.0fs" % (
        res["scripts"], res["completed"], res["timing_inconclusive"], res["steps"], res["tie_breaks_performed"],
        res["competitors_refused_tip_in_time"], res["competitors_offered_after_a_rejected_child"], res["restarts"], res["wall_s"]))
    for v in (res["violations"] or []):
        ctx.violation(prefix + ":" + v["key"].split(":", 1)[1], v["what"], v.get("replay"))
    if not (res["violations"] or []):
        if res["completed"] < 0.7 * res["scripts"]:
            raise Inconclusive("moving-clock replay: only %d of %d scripts could be placed inside their slots (machine too loaded)" % (res["completed"], res["scripts"]))
        if res["tie_breaks_performed"] < 5 or res["competitors_refused_tip_in_time"] < 5 or res["competitors_offered_after_a_rejected_child"] < 5:
            raise Inconclusive("moving-clock replay is vacuous: %s" % {k: res[k] for k in ("tie_breaks_performed", "competitors_refused_tip_in_time", "competitors_offered_after_a_rejected_child")})
    return dict(moving_clock_scripts=res["completed"], moving_clock_steps=res["steps"], moving_clock_tie_breaks=res["tie_breaks_performed"],
                moving_clock_competitors_refused_tip_in_time=res["competitors_refused_tip_in_time"],
                moving_clock_competitors_after_rejected_child=res["competitors_offered_after_a_rejected_child"])

def run(ctx):
    from props import net as _net
    _net.maybe_replay(ctx, LEVEL)
    binp = ctx.go_build("./cmd/c07")
    tables = ctx.path("tables.txt")
    with open(tables, "w") as fh:
        for mode in ("pairs", "classify", "priority"):
            r = ctx.tlc("ForkChoice", "ForkChoice_" + mode, workers=4, timeout=900)
            if r["violation"]:
                raise Inconclusive("ForkChoice.tla property fails at spec level (%s): %s" % (mode, r["outpath"]))
            for line in r["out"].splitlines():
                if line.startswith('<<"T'):
                    fh.write(line + "\n")
    of = ctx.path("c07.json")
    nrand = 200000 if ctx.tier == "quick" else 3000000
    p = ctx.run([binp, tables, of, str(nrand)], timeout=1800)
    if p.returncode != 0 or not os.path.exists(of):
        raise Inconclusive("c07 harness failed: " + p.stderr[-1500:])
    res = json.load(open(of))
    for v in res.get("violations") or []:
        ctx.violation(v["key"], v["what"], v.get("replay"))
    log("[c07] pairs=%d (contradicting %d) classify=%d %s priority=%d random=%d" % (
        res["pairs"], res["pairs_contradicting"], res["classify_cases"], res["classes"], res["priority_rows"], res["random_pairs"]))
    if not ctx.violations and (res["pairs"] < 1000 or res["classify_cases"] < 100 or len(res["classes"]) < 6):
        raise Inconclusive("truth tables incomplete: vacuous")
    # unbounded: the same algebraic facts for ALL natural field values, discharged by Apalache (SMT); a control with one
    # comparison of the operational form weakened must produce a counterexample (the obligation is not vacuous)
    apa = apalache_facts(ctx)
    # classification depends on the receive times the node remembers across steps: fixed multi-node sequences
    from props import net
    nfixed, fv = net.run_fixed(ctx)
    for v in fv:
        ctx.violation("forkchoice-sequence:" + v["key"], "%s: %s" % (v["script"], v["what"]), v.get("replay"))
    apa["fork_choice_sequences_replayed"] = nfixed
    # ... and on WHEN the tip was received: RecvTime.tla replayed under a moving wall clock
    apa.update(recvtime(ctx))
    # chain-level rule through the real liskbft.Module: IsHeaderContradictingChain probes in the BFT trace
    b2 = ctx.go_build("./cmd/c02")
    chains = 300 if ctx.tier == "quick" else 3000
    tr = c02.validate(ctx, b2, chains, ctx.seed, "c07", cfg="LiskBFTTrace_contra")
    c02.report(ctx, tr, ctx.seed, chains, pid_kinds=("contra",))
    if tr["mismatch"] and tr["mismatch"]["kind"] != "contra":
        log("[c07] note: BFT trace diverges for a reason outside C07 (%s); contradiction probes before line %d were validated" % (
            tr["mismatch"]["kind"], tr["mismatch"]["line"]))
    # protocol-following generators never contradict themselves: HonestNoContra on the fork-tree model
    hn = None
    if ctx.tier == "thorough":
        cfg = c01.write_cfg(ctx, "honest", c01.cfg_text("LiskBFTTree_q", MaxBlocks=8, MaxHeight=6))
        hn = ctx.tlc("MCLiskBFTTree", cfg, workers=16, timeout=1800)
        if hn["violation"]:
            raise Inconclusive("fork-tree model violates an invariant at spec level: %s" % hn["outpath"])
    cov = dict(traces_validated_against_impl=res["pairs"] + res["classify_cases"] + res["priority_rows"] + tr["meta"].get("chains", 0),
               samples=res["samples"][:2] + [dict(classes=res["classes"])],
               **apa, header_pairs=res["pairs"], header_pairs_contradicting=res["pairs_contradicting"],
               classification_rows=res["classify_cases"], priority_rows=res["priority_rows"],
               uint32_pairs=res["random_pairs"], uint32_pairs_contradicting=res["random_pairs_contradicting"],
               chain_contradiction_probes_true=tr["meta"].get("contra_true", 0), exhaustive=True,
               rule="one TLC state per input tuple; every row of the printed truth tables is evaluated on the real function")
    finish(ctx, LEVEL, cov, assumptions=[
        "uint32-range pairs are decided through rank compression (the specification of contradiction uses comparisons only)",
        "fork-choice predicates are evaluated in the order of Executer.process(); the order inside process() itself is exercised by C03"])
