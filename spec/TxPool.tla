------------------------------- MODULE TxPool -------------------------------
(***************************************************************************)
(* Transaction pool (pkg/txpool) - property C14.                           *)
(*                                                                         *)
(* A pool state is a record                                                *)
(*   all  : set of pooled transactions            (allTransactions)        *)
(*   list : sender -> set of <<key nonce, tx>>    (perAccount[..].transactions) *)
(*   proc : sender -> sequence of nonces          (perAccount[..].processables) *)
(*   feeQ : sequence of transactions              (feePriorityQueue)       *)
(* A transaction is a record [id, sender, nonce, fee, size]; its fee       *)
(* priority is fee \div size.                                              *)
(*                                                                         *)
(* Every public call is an operator that maps a state (and the verifier's  *)
(* answers, which belong to the environment) to the SET of permitted       *)
(* results.  The sets are as large as the statement of C14 leaves room     *)
(* for: which transaction a full pool / a full sender list evicts, whether *)
(* a full pool evicts or rejects, whether inserting a nonce below the      *)
(* processable run demotes the run, whether a "pending" answer promotes.   *)
(* They are fixed where the statement is: duplicates, transactions below   *)
(* the minimum fee priority and invalid transactions are never accepted; a *)
(* rejected call changes nothing (except that a full pool may already have *)
(* made room before the verifier said invalid); a replacement needs        *)
(* fee >= old fee + MinReplacementFeeDifference and removes the old        *)
(* transaction from every index; an accepted transaction never makes a     *)
(* size exceed its limit; promotion extends the processable run by         *)
(* consecutive nonces whose verification did not answer invalid, and an    *)
(* invalid answer takes the transaction (and possibly what follows it) out *)
(* of the run.  Rejecting is always permitted: the statement is safety     *)
(* plus termination, it never demands that a transaction is accepted or    *)
(* that a promotion step promotes as far as it could.                      *)
(*                                                                         *)
(* The same operators are used by the exhaustive model below (Next) and by *)
(* the trace monitor spec/trace/TxPoolTrace.tla (observed post-state must  *)
(* be an element of the result set).  The configuration is a parameter     *)
(* (cfg) so that the monitor can follow traces that change it.             *)
(***************************************************************************)
EXTENDS Integers, Sequences, FiniteSets, SequencesExt, TLC

CONSTANTS Txs,                          \* universe of transactions (records)
          Senders,                      \* universe of senders
          MaxTransactions,              \* pool limit            (>= 1)
          MaxTransactionsPerAccount,    \* per-sender limit      (>= 1)
          MinReplacementFeeDifference,  \* fee increase needed to replace (>= 1, SetDefault turns 0 into 1)
          MinEntranceFeePriority        \* lowest accepted fee priority

Cfg == [max |-> MaxTransactions, acc |-> MaxTransactionsPerAccount,
        diff |-> MinReplacementFeeDifference, minp |-> MinEntranceFeePriority]

Verdicts == {"ok", "pending", "invalid"}
Inf == 1000000000                       \* above every nonce
Prio(t) == t.fee \div t.size
SetMin(S) == CHOOSE x \in S : \A y \in S : x <= y

Empty == [all |-> {}, list |-> [s \in Senders |-> {}], proc |-> [s \in Senders |-> <<>>], feeQ |-> <<>>]

(* ------------------------------ projections ------------------------------ *)
ListTxs(st, s) == {e[2] : e \in st.list[s]}
ListAll(st) == UNION {ListTxs(st, s) : s \in Senders}
Keys(st, s) == {e[1] : e \in st.list[s]}
At(st, s, n) == {e[2] : e \in {x \in st.list[s] : x[1] = n}}
TxAt(st, s, n) == CHOOSE t \in At(st, s, n) : TRUE
ProcTxs(st) == UNION {{e[2] : e \in {x \in st.list[s] : x[1] \in ToSet(st.proc[s])}} : s \in Senders}
Occ(st, t) == UNION {{<<s, e[1]>> : e \in {x \in st.list[s] : x[2] = t}} : s \in Senders}
Demote(p, cut) == SelectSeq(p, LAMBDA x : x < cut)
\* what the monitor compares: the order of the fee queue is an implementation matter
Canon(st) == [all |-> st.all, list |-> st.list, proc |-> st.proc, q |-> ToSet(st.feeQ)]

(* -------------------------- the property (C14) --------------------------- *)
\* every pooled transaction is in exactly one sender list ...
InvAllInList(st) == \A t \in st.all : Cardinality(Occ(st, t)) = 1
\* ... and vice versa ...
InvListInAll(st) == ListAll(st) \subseteq st.all /\ \A t \in ListAll(st) : Cardinality(Occ(st, t)) = 1
\* ... at its own sender and nonce
InvAtNonce(st) == \A s \in Senders : \A e \in st.list[s] : e[2].sender = s /\ e[2].nonce = e[1]
\* at most one transaction per sender and nonce
InvOnePerNonce(st) == \A s \in Senders : \A e1, e2 \in st.list[s] : e1[1] = e2[1] => e1 = e2
\* the fee queue holds exactly the pooled transactions, once each
InvFeeQ(st) == ToSet(st.feeQ) = st.all /\ Len(st.feeQ) = Cardinality(st.all)
IndexesAgree(st) == InvAllInList(st) /\ InvListInAll(st) /\ InvAtNonce(st) /\ InvOnePerNonce(st) /\ InvFeeQ(st)
\* sizes stay within the configured limits
InvPoolBound(cfg, st) == Cardinality(st.all) <= cfg.max
InvSenderBound(cfg, st) == \A s \in Senders : Cardinality(st.list[s]) <= cfg.acc
\* each sender's processable set is a gap-free ascending run of nonces the sender has in the pool
InvProcInList(st) == \A s \in Senders : ToSet(st.proc[s]) \subseteq Keys(st, s)
InvProcRun(st) == \A s \in Senders : \A i \in 2..Len(st.proc[s]) : st.proc[s][i] = st.proc[s][i - 1] + 1

(* ------------------------------ primitives ------------------------------- *)
\* remove a set of transactions from every index; processables from the lowest removed nonce on are demoted
DropSet(st, S) ==
  [all  |-> st.all \ S,
   list |-> [s \in Senders |-> {e \in st.list[s] : e[2] \notin S}],
   proc |-> [s \in Senders |->
               LET ks == {e[1] : e \in {x \in st.list[s] : x[2] \in S}}
               IN IF ks = {} THEN st.proc[s] ELSE Demote(st.proc[s], SetMin(ks))],
   feeQ |-> SelectSeq(st.feeQ, LAMBDA x : x \notin S)]
Drop(st, t) == DropSet(st, {t})

\* insert t into every index; processables of its sender from `cut` on are demoted
Put(st, t, cut) ==
  [all  |-> st.all \cup {t},
   list |-> [st.list EXCEPT ![t.sender] = @ \cup {<<t.nonce, t>>}],
   proc |-> [st.proc EXCEPT ![t.sender] = Demote(@, cut)],
   feeQ |-> Append(st.feeQ, t)]

\* The victim of a full pool is left open with ONE exception (see AddSucc): the transaction that occupies the incoming
\* transaction's own sender and nonce.  Evicting exactly that one "for capacity" and inserting the newcomer is a
\* replacement; without the configured fee increase it is permitted only where an eviction by capacity alone would have
\* chosen the occupant too - it is among the cheapest (lowest fee priority) transactions that are not processable or,
\* if every pooled transaction is processable, among the cheapest last elements of the processable runs.
Unproc(st) == ListAll(st) \ ProcTxs(st)
LastProc(st) == UNION {At(st, s, st.proc[s][Len(st.proc[s])]) : s \in {z \in Senders : st.proc[z] # <<>>}}
VictimClass(st) == IF Unproc(st) # {} THEN Unproc(st) ELSE LastProc(st)
CheapestVictims(st) == {x \in VictimClass(st) : \A y \in VictimClass(st) : Prio(x) <= Prio(y)}
\* (only where every processable run starts at its sender's lowest nonce: about other states the statement is silent, and
\* the implementation's notion of "not processable" - beyond the |run| lowest nonces - is a different one there)
AllRunsArePrefixes(st) == \A s \in Senders : st.proc[s] = <<>> \/ (Keys(st, s) # {} /\ st.proc[s][1] = SetMin(Keys(st, s)))

PoolFull(cfg, st) == Cardinality(st.all) >= cfg.max
SenderFull(cfg, st, s) == Cardinality(st.list[s]) >= cfg.acc

(* --------------------------------- Add ----------------------------------- *)
\* results of Add(t) when the verifier answers v: records [st, ok, out]
\* (out = transactions that were evicted or replaced; they must be gone from every index)
\* The statement of C14 is about what an ACCEPTED transaction may do to the indexes; it never demands acceptance.
\* So "rejected, nothing changed" is always permitted, and a transaction that fails verification at a full pool
\* may be rejected before or after the capacity eviction (the order of the two steps is not fixed).
AddSucc(cfg, st, t, v) ==
  LET same == [st |-> st, ok |-> FALSE, out |-> {}] IN
  IF t \in st.all \/ Prio(t) < cfg.minp
  THEN {same}
  ELSE IF v = "invalid"
  THEN {same} \cup (IF PoolFull(cfg, st) THEN {[st |-> Drop(st, x), ok |-> FALSE, out |-> {x}] : x \in st.all} ELSE {})
  ELSE
    LET s == t.sender
        \* a full pool may evict SOME pooled transaction before the sender list is consulted (not the occupant of
        \* t's own nonce in order to get around the replacement rule, see CheapestVictims)
        MayEvict(x) == x \notin At(st, s, t.nonce) \/ t.fee >= x.fee + cfg.diff \/ x \in CheapestVictims(st)
                       \/ ~AllRunsArePrefixes(st)
        S1 == {[st |-> st, out |-> {}]} \cup
              (IF PoolFull(cfg, st) THEN {[st |-> Drop(st, x), out |-> {x}] : x \in {y \in st.all : MayEvict(y)}} ELSE {})
        Rejected(a) == [st |-> a.st, ok |-> FALSE, out |-> a.out]
        Step2(a) ==
          IF At(a.st, s, t.nonce) # {}
          THEN \* same sender and nonce: replacement rule
               LET o == TxAt(a.st, s, t.nonce) IN
               IF t.fee < o.fee + cfg.diff
               THEN {Rejected(a)}
               ELSE {[st |-> Put(Drop(a.st, o), t, t.nonce), ok |-> TRUE, out |-> a.out \cup {o}]}
          ELSE IF SenderFull(cfg, a.st, s)
          THEN \* full sender list: reject, or evict SOME transaction of this sender
               {Rejected(a)} \cup
               {[st |-> Put(Drop(a.st, x), t, c), ok |-> TRUE, out |-> a.out \cup {x}] :
                    x \in ListTxs(a.st, s), c \in {t.nonce, Inf}}
          ELSE {[st |-> Put(a.st, t, c), ok |-> TRUE, out |-> a.out] : c \in {t.nonce, Inf}}
        R == UNION {Step2(a) : a \in S1}
    IN \* an accepted transaction never makes the pool exceed its limit
       {r \in R : ~r.ok \/ Cardinality(r.st.all) <= cfg.max} \cup {same}

\* Add when the announcement of the accepted transaction to the network (conn.Publish) is part of the call:
\* pubok = FALSE is the environment answer "publish failed".  The statement does not say whether the call then
\* reports success or whether the insertion is kept; whatever the pool does, the state is one AddSucc permits.
AddSuccPub(cfg, st, t, v, pubok) ==
  IF pubok THEN AddSucc(cfg, st, t, v)
  ELSE {[st |-> r.st, ok |-> b, out |-> r.out] : r \in AddSucc(cfg, st, t, v), b \in BOOLEAN}

(* -------------------------------- Remove --------------------------------- *)
RemoveSucc(st, t) ==
  IF t \in st.all THEN {[st |-> Drop(st, t), ok |-> TRUE, out |-> {t}]}
  ELSE {[st |-> st, ok |-> FALSE, out |-> {}]}

(* ------------------------- block notifications --------------------------- *)
\* pkg/generator: a new block removes its transactions one by one; a deleted block adds its
\* transactions back one by one (through Add, with all its rules).  Both are compositions of the
\* operators above; BlockApplied is the deterministic one.
BlockAppliedResult(st, B) == DropSet(st, B \cap st.all)

(* ----------------------------- promotion --------------------------------- *)
LowestKey(st, s) == SetMin(Keys(st, s))
RECURSIVE Chain(_, _, _)
Chain(st, s, n) == IF n \in Keys(st, s) THEN <<n>> \o Chain(st, s, n + 1) ELSE <<>>
\* nonces that continue the processable run (or start it at the sender's lowest nonce)
Promotable(st, s) ==
  IF Keys(st, s) = {} THEN <<>>
  ELSE IF st.proc[s] = <<>> THEN Chain(st, s, LowestKey(st, s))
  ELSE Chain(st, s, st.proc[s][Len(st.proc[s])] + 1)
Run(st, s) == st.proc[s] \o Promotable(st, s)
RunTxs(st, s) == {TxAt(st, s, Run(st, s)[i]) : i \in 1..Len(Run(st, s))}
\* the run starts at the sender's lowest nonce (the shape the implementation's promotion logic assumes)
IsPrefixState(st, s) == st.proc[s] = <<>> \/ st.proc[s][1] = LowestKey(st, s)

\* one promotion step for sender s; ans maps the transactions of the run to verifier answers.
\* The verifier is consulted in nonce order and stops at the first invalid answer (position f of the run).
\* Fixed by the statement: only transactions that were asked and not answered invalid become processable, the
\* result is a run, an already processable transaction that is now answered invalid does not stay processable.
\* Left open (the statement is silent): how far one step promotes (m: any length between the present run and f - 1,
\* promotion may be batched over several steps) and how much of the run from the invalid transaction on is dropped
\* (D: the invalid transaction with any part of what follows it; nothing at all when the invalid transaction was
\* not processable yet).
ReorgSenderSucc(st, s, ans) ==
  LET pr    == Promotable(st, s)
      run   == st.proc[s] \o pr
      inval == {i \in 1..Len(run) : ans[TxAt(st, s, run[i])] = "invalid"}
      f     == IF inval = {} THEN Len(run) + 1 ELSE SetMin(inval)
      pend  == \E i \in 1..(f - 1) : ans[TxAt(st, s, run[i])] = "pending"
      bad   == IF inval = {} THEN {} ELSE {TxAt(st, s, run[f])}
      rest  == {TxAt(st, s, run[i]) : i \in (f + 1)..Len(run)}
      lo    == IF Len(st.proc[s]) < f - 1 THEN Len(st.proc[s]) ELSE f - 1
      Ds    == {bad \cup X : X \in SUBSET rest} \cup (IF f > Len(st.proc[s]) THEN {{}} ELSE {})
      res(m, D) == [st |-> DropSet([st EXCEPT !.proc[s] = SubSeq(run, 1, m)], D), out |-> D,
                    passed |-> {TxAt(st, s, run[i]) : i \in 1..m}]
      same  == [st |-> st, out |-> {}, passed |-> {}]
  IN IF pr = <<>> THEN {same}
     ELSE {res(m, D) : m \in lo..(f - 1), D \in Ds}
          \cup (IF pend THEN {same} ELSE {})                   \* "pending: keep as it is" is permitted
          \cup (IF ~IsPrefixState(st, s) THEN {same} ELSE {})  \* statement silent about such runs

\* the step the implementation takes today (maximal promotion, the whole run from the invalid transaction on is
\* dropped): used for coverage notes only
ReorgSenderFull(st, s, ans) ==
  LET pr    == Promotable(st, s)
      run   == st.proc[s] \o pr
      inval == {i \in 1..Len(run) : ans[TxAt(st, s, run[i])] = "invalid"}
      f     == IF inval = {} THEN Len(run) + 1 ELSE SetMin(inval)
      out   == {TxAt(st, s, run[i]) : i \in f..Len(run)}
  IN IF pr = <<>> THEN st ELSE DropSet([st EXCEPT !.proc[s] = SubSeq(run, 1, f - 1)], out)

(***************************************************************************)
(* Exhaustive model: every interleaving of the public calls over a small   *)
(* universe, with every verifier answer.                                   *)
(***************************************************************************)
VARIABLES all, list, proc, feeQ,
          passed,   \* ghost: processable transactions whose promoting verification did not answer invalid
          gone      \* ghost: transactions the last step evicted / replaced / removed
vars == <<all, list, proc, feeQ, passed, gone>>
St == [all |-> all, list |-> list, proc |-> proc, feeQ |-> feeQ]
SetSt(r) == all' = r.all /\ list' = r.list /\ proc' = r.proc /\ feeQ' = r.feeQ

Init == all = {} /\ list = Empty.list /\ proc = Empty.proc /\ feeQ = <<>> /\ passed = {} /\ gone = {}

\* (AddSuccPub with a failed publish yields the same states as AddSucc, only the reported result differs, and the
\* result is not part of the model's state: AddSucc covers both environment answers here)
AddTx(t) == \E v \in Verdicts : \E r \in AddSucc(Cfg, St, t, v) :
            SetSt(r.st) /\ gone' = r.out /\ passed' = passed \cap ProcTxs(r.st)
RemoveTx(t) == \E r \in RemoveSucc(St, t) :
            SetSt(r.st) /\ gone' = r.out /\ passed' = passed \cap ProcTxs(r.st)
BlockApplied(B) == LET r == BlockAppliedResult(St, B) IN
            SetSt(r) /\ gone' = B \cap all /\ passed' = passed \cap ProcTxs(r)
BlockReverted(t) == AddTx(t)
ReorgStep(s) == \E ans \in [RunTxs(St, s) -> Verdicts] : \E r \in ReorgSenderSucc(St, s, ans) :
            SetSt(r.st) /\ gone' = r.out /\ passed' = (passed \cup r.passed) \cap ProcTxs(r.st)

Next == \/ \E t \in Txs : AddTx(t) \/ RemoveTx(t) \/ BlockReverted(t)
        \/ \E B \in SUBSET all : Cardinality(B) = 2 /\ BlockApplied(B)   \* transactions not in the pool are no-ops (RemoveTx)
        \/ \E s \in Senders : ReorgStep(s)
Spec == Init /\ [][Next]_vars

\* invariants of the model = the property
IndexesAgreeInv == IndexesAgree(St)
BoundsInv == InvPoolBound(Cfg, St) /\ InvSenderBound(Cfg, St)
ProcessableRunInv == InvProcInList(St) /\ InvProcRun(St)
ProcessableVerifiedInv == ProcTxs(St) \subseteq passed
ReplacedGoneInv == gone \cap (all \cup ListAll(St) \cup ToSet(feeQ)) = {}
TypeOK == all \subseteq Txs /\ \A s \in Senders : \A e \in list[s] : e[2] \in Txs
=============================================================================
