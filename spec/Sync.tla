-------------------------------- MODULE Sync --------------------------------
(***************************************************************************)
(* Block synchronisation (properties C19 and, for the finality part, C04). *)
(*  BestPeers      peer selection: largest maxHeightPrevoted, then largest *)
(*                 height, then most common block id (a SET of acceptable  *)
(*                 answers - the code picks one of them at random)         *)
(*  HighestCommon  answer of the getHighestCommonBlock handler             *)
(*  BlocksFromOk   answers of the getBlocksFromId handler the statement    *)
(*                 allows (consecutive followers, in order, <= cap)        *)
(*  Outcome        where a node ends after it was offered the tip of a     *)
(*                 peer's chain: decided by LIP-0014 priority, the common  *)
(*                 block vs the finalized height, the fast-sync / block-   *)
(*                 sync conditions and the peer's behaviour                *)
(* One state per input tuple (TLC as enumerator of finite tables) for the  *)
(* first; the others are used by SyncTrace.tla on recorded scenarios.      *)
(***************************************************************************)
EXTENDS Integers, Sequences, FiniteSets, TLC, Json, Randomization

\* MaxV: largest rank of maxHeightPrevoted / height in the wide part of the peer table; NSample: rows sampled per shape of
\* the 5- and 6-peer tables.  The table holds RANKS: the selection depends on the order of the values only, the harness
\* evaluates every row under several monotone embeddings into uint32 (identity, 2^31 and 2^32-1 among the images).
CONSTANTS MaxV, Mode, NSample

VARIABLES x
svars == <<x>>

Tips(v) == [mhp : 0..v, h : 0..v, id : 1..3]
\* exhaustive: every sequence of <= 4 tips over ranks 0..1 and of <= 3 tips over ranks 0..MaxV
Exhaustive == UNION {[1..n -> Tips(1)] : n \in 1..4} \cup UNION {[1..n -> Tips(MaxV)] : n \in 1..3}
\* sampled: 5 and 6 peers (a frequency counted over the wrong group needs 5 peers to beat the right one for certain)
Sampled == UNION {RandomSubset(NSample, [1..n -> Tips(v)]) : n \in 5..6, v \in {1, MaxV}}
Infos == Exhaustive \cup Sampled

MaxOf(S) == CHOOSE m \in S : \A y \in S : y <= m
Idx(s) == 1..Len(s)
BestPeers(s) ==
  LET m1 == MaxOf({s[i].mhp : i \in Idx(s)})
      S1 == {i \in Idx(s) : s[i].mhp = m1}
      m2 == MaxOf({s[i].h : i \in S1})
      S2 == {i \in S1 : s[i].h = m2}
      Freq(i) == Cardinality({j \in S2 : s[j].id = s[i].id})
      m3 == MaxOf({Freq(i) : i \in S2})
  IN {i \in S2 : Freq(i) = m3}

\* Two plausible WRONG selections, used only to count the rows on which they are certain to be noticed (non-vacuity of the
\* table): the frequency counted over all peers, and one pass over the composite key 2*mhp + height.
AllFreqBest(s) ==
  LET m1 == MaxOf({s[i].mhp : i \in Idx(s)})
      S1 == {i \in Idx(s) : s[i].mhp = m1}
      m2 == MaxOf({s[i].h : i \in S1})
      S2 == {i \in S1 : s[i].h = m2}
      Freq(i) == Cardinality({j \in Idx(s) : s[j].id = s[i].id})
      m3 == MaxOf({Freq(i) : i \in S2})
  IN {i \in S2 : Freq(i) = m3}
CompositeBest(s) ==
  LET Key(i) == 2 * s[i].mhp + s[i].h
      m == MaxOf({Key(i) : i \in Idx(s)})
      S == {i \in Idx(s) : Key(i) = m}
      Freq(i) == Cardinality({j \in S : s[j].id = s[i].id})
      m3 == MaxOf({Freq(i) : i \in S})
  IN {i \in S : Freq(i) = m3}

Init == x \in (IF Mode = "peers" THEN Infos ELSE {<<>>})
Next == UNCHANGED x
Spec == Init /\ [][Next]_svars

B(b) == IF b THEN 1 ELSE 0
\* one JSON object per row (a string is never wrapped by TLC's pretty printer)
Row == IF Mode = "peers"
       THEN PrintT(<<"TB", ToJson([t |-> [i \in Idx(x) |-> <<x[i].mhp, x[i].h, x[i].id>>],
                                  b |-> [i \in Idx(x) |-> B(i \in BestPeers(x))],
                                  k |-> <<B(AllFreqBest(x) \cap BestPeers(x) = {}), B(CompositeBest(x) \cap BestPeers(x) = {})>>])>>)
       ELSE TRUE
BestNonEmpty == Mode = "peers" => BestPeers(x) # {}

(* ---------------- handlers (used by SyncTrace) ---------------- *)
\* chain: sequence of ids, chain[i] at height i-1 (genesis first)
OnChain(chain, id) == \E i \in 1..Len(chain) : chain[i] = id
HeightOf(chain, id) == CHOOSE i \in 1..Len(chain) : chain[i] = id
HighestCommon(chain, ids) ==
  LET on == {i \in 1..Len(chain) : chain[i] \in ids} IN
  IF on = {} THEN 0 ELSE chain[MaxOf(on)]
\* the complete answer for a given cap (kept: what today's handler returns)
BlocksFrom(chain, id, cap) ==
  LET i == HeightOf(chain, id) IN SubSeq(chain, i + 1, IF i + cap <= Len(chain) THEN i + cap ELSE Len(chain))
\* what the statement fixes: the blocks that follow the id on the responder's own chain, consecutive, in order, never more
\* than the cap - and at least one when something follows (an answer that never makes progress serves no segment).
\* An id the responder does not have has no followers: no block may be returned.
BlocksFromOk(chain, id, cap, res) ==
  IF ~OnChain(chain, id) THEN res = <<>>
  ELSE LET i == HeightOf(chain, id) IN
       /\ Len(res) <= cap
       /\ i + Len(res) <= Len(chain)
       /\ res = SubSeq(chain, i + 1, i + Len(res))
       /\ (i < Len(chain) => Len(res) >= 1)

(* ---------------- outcome of offering a peer's tip ---------------- *)
Better(t2, t1) == t2.mhp > t1.mhp \/ (t2.mhp = t1.mhp /\ t2.h > t1.h)
Abs(a) == IF a < 0 THEN -a ELSE a
\* f: [a, b: tips [h, mhp]; common, fin: heights; n: number of validators; genKnown: the offered block's generator is a
\*     current validator; slotGap: current slot - slot of the finalized block; child: the offered block is a direct child of
\*     the node's tip; behaviour of the peer:
\*       "honest"    serves its valid chain the way the handlers of this specification do
\*       "corrupt"   one served block is invalid (re-signed wrong state root / height, payload that does not match the header,
\*                   statically invalid transaction, a block missing in the middle); the bad block may lie in the middle
\*       "truncate"  serves fewer blocks than asked for and then nothing
\*       "disorder"  serves the valid blocks of the segment, but not in ascending order (not a conforming handler: the node
\*                   may cope or may treat the peer as faulty - the statement fixes only that it ends in a sound state)]
Refused == {"own", "own+ban"}
Outcomes(f) ==
  \* the statement is silent about banning the sender of an invalid child block or of a block without priority
  IF f.child THEN (IF f.behaviour = "corrupt" THEN Refused ELSE {"peer"})
  ELSE IF ~Better(f.b, f.a) THEN Refused
  ELSE IF Abs(f.b.h - f.a.h) <= 2 * f.n /\ f.genKnown
       THEN \* fast sync
            IF f.common < f.fin THEN {"own+ban"}
            \* fork point more than two rounds back: refused; the common-block query over the last 2n-1 heights fails
            \* first, and that failure bans the peer (LIP-0014 fast chain switching does the same)
            ELSE IF f.a.h - f.common > 2 * f.n \/ f.b.h - f.common > 2 * f.n THEN Refused
            ELSE IF f.behaviour = "honest" THEN {"peer"}
            ELSE IF f.behaviour = "corrupt" THEN {"own+ban"}      \* downloaded blocks prove invalid: originals restored, peer banned
            ELSE IF f.behaviour = "disorder" THEN {"peer"} \cup Refused
            ELSE Refused                                           \* peer fails to serve the segment
  ELSE IF f.slotGap > 3 * f.n
       THEN \* block sync: the statement fixes the honest case only
            IF f.common < f.fin THEN Refused
            ELSE IF f.behaviour = "honest" THEN {"peer"}
            ELSE IF f.behaviour = "disorder" THEN {"peer", "partial", "partial+ban"} \cup Refused
            ELSE {"partial", "partial+ban"} \cup Refused
  ELSE Refused

\* The scenario is one for the block synchronisation (far ahead, finality lagging).  With a faulty peer the statement fixes
\* nothing there beyond safety: a failed attempt may leave the node on a prefix of the peer's chain - possibly a prefix
\* that ends in the node's own tip again - with the blocks it removed kept as temporary blocks.
BlockSyncPath(f) ==
  /\ ~f.child /\ Better(f.b, f.a)
  /\ ~(Abs(f.b.h - f.a.h) <= 2 * f.n /\ f.genKnown)
  /\ f.slotGap > 3 * f.n

(* ---------------- finality bookkeeping of a sync (C04) ---------------- *)
\* evs: the finalize events <<original, next>> published during the sync, in order.  "A finalization event is emitted
\* exactly for those raises": the events form a chain of strict raises from the height before to the height after
\* (one event per raise; how many heights one raise spans is not fixed).
FinalizeChainOk(evs, before, after) ==
  IF Len(evs) = 0 THEN before = after
  ELSE /\ evs[1][1] = before
       /\ evs[Len(evs)][2] = after
       /\ \A i \in 1..Len(evs) : evs[i][1] < evs[i][2]
       /\ \A i \in 1..(Len(evs) - 1) : evs[i][2] = evs[i + 1][1]
=============================================================================
