-------------------------------- MODULE Sync --------------------------------
(***************************************************************************)
(* Block synchronisation (properties C19 and, for the finality part, C04). *)
(*  BestPeers      peer selection: largest maxHeightPrevoted, then largest *)
(*                 height, then most common block id (a SET of acceptable  *)
(*                 answers - the code picks one of them at random)         *)
(*  HighestCommon  answer of the getHighestCommonBlock handler             *)
(*  BlocksFrom     answer of the getBlocksFromId handler (cap 103)         *)
(*  Outcome        where a node ends after it was offered the tip of a     *)
(*                 peer's chain: decided by LIP-0014 priority, the common  *)
(*                 block vs the finalized height, the fast-sync / block-   *)
(*                 sync conditions and the peer's behaviour                *)
(* One state per input tuple (TLC as enumerator of finite tables) for the  *)
(* first three; Outcome is used by SyncTrace.tla on recorded scenarios.    *)
(***************************************************************************)
EXTENDS Integers, Sequences, FiniteSets, TLC

CONSTANTS MaxV, Mode

VARIABLES x
svars == <<x>>

Tips == [mhp : 0..MaxV, h : 0..MaxV, id : 1..3]
Infos == UNION {[1..n -> Tips] : n \in 1..4}

MaxOf(S) == CHOOSE m \in S : \A y \in S : y <= m
Idx(s) == 1..Len(s)
BestPeers(s) ==
  LET m1 == MaxOf({s[i].mhp : i \in Idx(s)})
      S1 == {i \in Idx(s) : s[i].mhp = m1}
      m2 == MaxOf({s[i].h : i \in S1})
      S2 == {i \in S1 : s[i].h = m2}
      Freq(i) == Cardinality({j \in S2 : s[j].id = s[i].id})
      m3 == MaxOf({Freq(i) : i \in S2})
  IN {i \in S2 : Freq(i) = m3}

\* a consistent peer set never shows two different ids for the same (mhp, h, id) triple; ids are just labels
Init == x \in (IF Mode = "peers" THEN Infos ELSE {<<>>})
Next == UNCHANGED x
Spec == Init /\ [][Next]_svars

B(b) == IF b THEN 1 ELSE 0
Row == IF Mode = "peers"
       THEN PrintT(<<"TB", [i \in Idx(x) |-> <<x[i].mhp, x[i].h, x[i].id>>], [i \in Idx(x) |-> B(i \in BestPeers(x))]>>)
       ELSE TRUE
BestNonEmpty == Mode = "peers" => BestPeers(x) # {}

(* ---------------- handlers (used by SyncTrace) ---------------- *)
\* chain: sequence of ids, chain[i] at height i-1 (genesis first)
HeightOf(chain, id) == CHOOSE i \in 1..Len(chain) : chain[i] = id
HighestCommon(chain, ids) ==
  LET on == {i \in 1..Len(chain) : chain[i] \in ids} IN
  IF on = {} THEN 0 ELSE chain[MaxOf(on)]
BlocksFrom(chain, id, cap) ==
  LET i == HeightOf(chain, id) IN SubSeq(chain, i + 1, IF i + cap <= Len(chain) THEN i + cap ELSE Len(chain))

(* ---------------- outcome of offering a peer's tip ---------------- *)
Better(t2, t1) == t2.mhp > t1.mhp \/ (t2.mhp = t1.mhp /\ t2.h > t1.h)
Abs(a) == IF a < 0 THEN -a ELSE a
\* f: [a, b: tips [h, mhp]; common, fin: heights; n: number of validators; genKnown: the offered block's generator is a
\*     current validator; slotGap: current slot - slot of the finalized block; behaviour: "honest" | "corrupt";
\*     child: the offered block is a direct child of the node's tip]
Outcomes(f) ==
  IF f.child THEN (IF f.behaviour = "corrupt" THEN {"own"} ELSE {"peer"})
  ELSE IF ~Better(f.b, f.a) THEN {"own"}
  ELSE IF Abs(f.b.h - f.a.h) <= 2 * f.n /\ f.genKnown
       THEN \* fast sync
            IF f.common < f.fin THEN {"own+ban"}
            \* fork point more than two rounds back: refused; the common-block query over the last 2n-1 heights fails
            \* first, and that failure bans the peer (LIP-0014 fast chain switching does the same)
            ELSE IF f.a.h - f.common > 2 * f.n \/ f.b.h - f.common > 2 * f.n THEN {"own", "own+ban"}
            ELSE IF f.behaviour = "honest" THEN {"peer"}
            ELSE IF f.behaviour = "corrupt" THEN {"own+ban"}      \* downloaded blocks prove invalid: originals restored, peer banned
            ELSE {"own", "own+ban"}                                \* peer fails to serve the segment
  ELSE IF f.slotGap > 3 * f.n
       THEN \* block sync: the statement fixes the honest case only
            IF f.common < f.fin THEN {"own", "own+ban"}
            ELSE IF f.behaviour = "honest" THEN {"peer"} ELSE {"own", "own+ban", "partial", "partial+ban"}
  ELSE {"own"}
=============================================================================
