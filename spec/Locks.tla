------------------------------- MODULE Locks -------------------------------
(* Generic interpreter of lock programs extracted from the Go sources (harness/extract) - property C20.

   Prog is a sequence of programs, one per process (goroutine); a program is a sequence of <<op, obj>> with
     Lock / Unlock     sync.Mutex.Lock or the write side of sync.RWMutex
     RLock / RUnlock   read side of sync.RWMutex (also x.RLocker().Lock())
     Read / Write      access to a shared variable (receiver field, captured local)
     ARead / AWrite    the two halves of `x = append(x, item)`: read-modify-write of an accumulator
     SlotWrite         x[i] = v into a pre-allocated slot owned by the goroutine (no conflict)
     Send / Close      unbuffered channel send (needs a receiver) / close
     RecvLoop          a live subscriber / `for x := range ch`: receives whatever is sent until the channel is closed
     Recv              one `<-ch`: rendezvous with one Send (or returns at once when the channel is closed)
     WgAddN / WgAdd1   sync.WaitGroup.Add: by the spawning function (one per WgDone of the scenario) / by the goroutine
                       itself (one); WgDone; WgWait blocks until the counter is zero
     Call / Spawn      opaque step (collaborator assumed thread-safe) / goroutine start: releases the programs that
                       begin with <<"Start", same name>> (a child without Start runs from the beginning: scenarios
                       made of children only)

   Go semantics of sync.RWMutex: Lock first announces itself, from then on NEW RLock calls block (also
   re-entrant ones) until the writer has acquired and released; the writer acquires once the readers that
   were inside have left.  A goroutine that re-acquires a read lock it already holds therefore deadlocks
   with a writer arriving in between.  sync.Mutex is the same object without read side. *)
EXTENDS Integers, Sequences, FiniteSets, TLC

CONSTANT Prog

VARIABLES pc,      \* pc[p]: index of the next operation of process p
          rcount,  \* rcount[m][p]: read locks of mutex m held by p
          writer,  \* writer[m]: process holding m exclusively, 0 = none
          wwait,   \* wwait[m]: writers that announced themselves and wait for the readers to leave
          val,     \* val[v]: contributions <<p, i>> present in accumulator v
          tmp,     \* tmp[p]: value of the accumulator read by the last ARead of p
          closed,  \* closed channels
          wg,      \* wg[m]: counter of sync.WaitGroup m
          started  \* names of the goroutine bodies whose `go` statement has been executed
vars == <<pc, rcount, writer, wwait, val, tmp, closed, wg, started>>

Procs == DOMAIN Prog
Objs == UNION {{Prog[p][i][2] : i \in 1..Len(Prog[p])} : p \in Procs}

Init == /\ pc = [p \in Procs |-> 1]
        /\ rcount = [m \in Objs |-> [p \in Procs |-> 0]]
        /\ writer = [m \in Objs |-> 0]
        /\ wwait = [m \in Objs |-> {}]
        /\ val = [v \in Objs |-> {}]
        /\ tmp = [p \in Procs |-> {}]
        /\ closed = {}
        /\ wg = [m \in Objs |-> 0]
        /\ started = {}

Running(p) == pc[p] <= Len(Prog[p])
Cur(p) == Prog[p][pc[p]]
Readers(m) == {p \in Procs : rcount[m][p] > 0}
AtRecv(q, ch) == Running(q) /\ Cur(q) = <<"RecvLoop", ch>>
AtRecvOne(q, ch) == Running(q) /\ Cur(q) = <<"Recv", ch>>
\* number of WgDone operations on wait group m in the whole scenario: what a correct spawning function adds
NDone(m) == Cardinality(UNION {{<<p, i>> : i \in {j \in 1..Len(Prog[p]) : Prog[p][j] = <<"WgDone", m>>}} : p \in Procs})

\* enabling condition of the next operation of p (explicit, so that deadlock freedom is a state predicate)
CanStep(p) ==
  /\ Running(p)
  /\ LET op == Cur(p)[1]  m == Cur(p)[2] IN
     CASE op = "RLock"    -> writer[m] = 0 /\ wwait[m] = {}
       [] op = "Lock"     -> p \notin wwait[m] \/ (writer[m] = 0 /\ Readers(m) = {})
       [] op = "Send"     -> m \in closed \/ \E q \in Procs : AtRecv(q, m) \/ (q # p /\ AtRecvOne(q, m))
       [] op = "RecvLoop" -> m \in closed
       [] op = "Recv"     -> m \in closed      \* otherwise it moves together with a sender (the sender's step)
       [] op = "WgWait"   -> wg[m] = 0
       [] op = "Start"    -> m \in started
       [] OTHER           -> TRUE

Step(p) ==
  /\ CanStep(p)
  /\ LET op == Cur(p)[1]  m == Cur(p)[2]  adv == [pc EXCEPT ![p] = @ + 1] IN
     CASE op = "RLock" ->
            /\ rcount' = [rcount EXCEPT ![m][p] = @ + 1]
            /\ pc' = adv /\ UNCHANGED <<writer, wwait, val, tmp, closed, wg, started>>
       [] op = "RUnlock" ->
            /\ rcount' = [rcount EXCEPT ![m][p] = IF @ > 0 THEN @ - 1 ELSE 0]
            /\ pc' = adv /\ UNCHANGED <<writer, wwait, val, tmp, closed, wg, started>>
       [] op = "Lock" ->
            IF p \notin wwait[m]
            THEN /\ wwait' = [wwait EXCEPT ![m] = @ \cup {p}]            \* announce: new readers block from now on
                 /\ UNCHANGED <<pc, rcount, writer, val, tmp, closed, wg, started>>
            ELSE /\ writer' = [writer EXCEPT ![m] = p]
                 /\ wwait' = [wwait EXCEPT ![m] = @ \ {p}]
                 /\ pc' = adv /\ UNCHANGED <<rcount, val, tmp, closed, wg, started>>
       [] op = "Unlock" ->
            /\ writer' = [writer EXCEPT ![m] = 0]
            /\ pc' = adv /\ UNCHANGED <<rcount, wwait, val, tmp, closed, wg, started>>
       [] op = "ARead" ->
            /\ tmp' = [tmp EXCEPT ![p] = val[m]]
            /\ pc' = adv /\ UNCHANGED <<rcount, writer, wwait, val, closed, wg, started>>
       [] op = "AWrite" ->
            /\ val' = [val EXCEPT ![m] = tmp[p] \cup {<<p, pc[p]>>}]
            /\ pc' = adv /\ UNCHANGED <<rcount, writer, wwait, tmp, closed, wg, started>>
       [] op = "Close" ->
            /\ closed' = closed \cup {m}
            /\ pc' = adv /\ UNCHANGED <<rcount, writer, wwait, val, tmp, wg, started>>
       [] op = "Send" ->
            \* rendezvous: with a live receive loop (which stays where it is), with one `<-ch` (which moves on
            \* together with the sender), or - on a closed channel - the panic the lockset rule reports as Send/Close race
            /\ \/ /\ (m \in closed \/ \E q \in Procs : AtRecv(q, m))
                  /\ pc' = adv
               \/ \E q \in Procs \ {p} : AtRecvOne(q, m) /\ pc' = [pc EXCEPT ![p] = @ + 1, ![q] = @ + 1]
            /\ UNCHANGED <<rcount, writer, wwait, val, tmp, closed, wg, started>>
       [] op \in {"WgAddN", "WgAdd1", "WgDone"} ->
            /\ wg' = [wg EXCEPT ![m] = @ + (CASE op = "WgAddN" -> NDone(m) [] op = "WgAdd1" -> 1 [] OTHER -> -1)]
            /\ pc' = adv /\ UNCHANGED <<rcount, writer, wwait, val, tmp, closed, started>>
       [] op = "Spawn" ->
            /\ started' = started \cup {m}
            /\ pc' = adv /\ UNCHANGED <<rcount, writer, wwait, val, tmp, closed, wg>>
       [] OTHER ->   \* Read, Write, SlotWrite, Call, Start, RecvLoop / Recv (channel closed), WgWait (counter zero)
            /\ pc' = adv /\ UNCHANGED <<rcount, writer, wwait, val, tmp, closed, wg, started>>

Next == \E p \in Procs : Step(p)
Spec == Init /\ [][Next]_vars

\* a live subscriber parked in its receive loop counts as finished
Idle(p) == ~Running(p) \/ Cur(p)[1] = "RecvLoop"
Done == \A p \in Procs : Idle(p)

---------------------------------------------------------------------------
\* Properties

NoDeadlock == Done \/ \E p \in Procs : CanStep(p)

\* Go: unlocking a mutex that is not locked is a fatal error
NoBadUnlock == \A p \in Procs : Running(p) =>
                 /\ (Cur(p)[1] = "RUnlock" => rcount[Cur(p)[2]][p] > 0)
                 /\ (Cur(p)[1] = "Unlock" => writer[Cur(p)[2]] = p)

\* lockset discipline: two processes about to perform conflicting accesses to the same variable must both hold
\* one mutex that one of them holds exclusively.  A Send reads the channel's registration, Close writes it
\* (send on a closed channel is the race between the two).
Kind(op) == CASE op \in {"Read", "ARead", "Send"} -> "R"
              [] op \in {"Write", "AWrite", "Close"} -> "W"
              [] OTHER -> "N"
Holds(p) == {m \in Objs : rcount[m][p] > 0 \/ writer[m] = p}
AtAccess(p) == Running(p) /\ Kind(Cur(p)[1]) # "N"
Conflict(p, q) == /\ p # q /\ AtAccess(p) /\ AtAccess(q)
                  /\ Cur(p)[2] = Cur(q)[2]
                  /\ "W" \in {Kind(Cur(p)[1]), Kind(Cur(q)[1])}
NoRace == \A p, q \in Procs : Conflict(p, q) => \E m \in Holds(p) \cap Holds(q) : writer[m] \in {p, q}

\* accumulators: at quiescence every append is present exactly once (a lost update drops a contribution)
Expected(v) == UNION {{<<p, i>> : i \in {j \in 1..Len(Prog[p]) : Prog[p][j] = <<"AWrite", v>>}} : p \in Procs}
ExactlyOnce == Done => \A v \in Objs : val[v] = Expected(v)

---------------------------------------------------------------------------
\* Control programs (non-vacuity self-test of the interpreter; the checked programs are generated from the
\* extracted JSON into an MC module that defines ProgDef):
\* P1 nested read lock against one writer (deadlocks), P2 the same without nesting (passes everything),
\* P3 two unsynchronised appends (NoRace and ExactlyOnce fail), P4 the same appends under a mutex (pass).
P1 == << <<<<"RLock", "mu">>, <<"RLock", "mu">>, <<"Read", "x">>, <<"RUnlock", "mu">>, <<"RUnlock", "mu">>>>,
         <<<<"Lock", "mu">>, <<"Write", "x">>, <<"Unlock", "mu">>>> >>
P2 == << <<<<"RLock", "mu">>, <<"Read", "x">>, <<"RUnlock", "mu">>>>,
         <<<<"RLock", "mu">>, <<"Read", "x">>, <<"RUnlock", "mu">>>>,
         <<<<"Lock", "mu">>, <<"Write", "x">>, <<"Unlock", "mu">>>> >>
P3 == << <<<<"ARead", "acc">>, <<"AWrite", "acc">>>>, <<<<"ARead", "acc">>, <<"AWrite", "acc">>>> >>
P4 == << <<<<"Lock", "mu">>, <<"ARead", "acc">>, <<"AWrite", "acc">>, <<"Unlock", "mu">>>>,
         <<<<"Lock", "mu">>, <<"ARead", "acc">>, <<"AWrite", "acc">>, <<"Unlock", "mu">>>> >>
\* P5 fan-out with a result channel: the spawning function registers its children with the wait group, collects with
\* `for range ch`; a closer goroutine waits and closes (passes everything).  P6 the same with wg.Add(1) moved into the
\* children: the closer may pass Wait before a child has registered, close the channel and the child sends on a closed
\* channel (NoRace: Send against Close).  P7 one `<-ch` per child but one child never sends: the collector is stuck.
P5 == << <<<<"WgAddN", "wg">>, <<"Spawn", "c">>, <<"Spawn", "d">>, <<"RecvLoop", "ch">>>>,
         <<<<"Start", "c">>, <<"Send", "ch">>, <<"WgDone", "wg">>>>, <<<<"Start", "c">>, <<"Send", "ch">>, <<"WgDone", "wg">>>>,
         <<<<"Start", "d">>, <<"WgWait", "wg">>, <<"Close", "ch">>>> >>
P6 == << <<<<"Spawn", "c">>, <<"Spawn", "d">>, <<"RecvLoop", "ch">>>>,
         <<<<"Start", "c">>, <<"WgAdd1", "wg">>, <<"Send", "ch">>, <<"WgDone", "wg">>>>,
         <<<<"Start", "c">>, <<"WgAdd1", "wg">>, <<"Send", "ch">>, <<"WgDone", "wg">>>>,
         <<<<"Start", "d">>, <<"WgWait", "wg">>, <<"Close", "ch">>>> >>
P7 == << <<<<"Recv", "ch">>, <<"Recv", "ch">>>>, <<<<"Send", "ch">>>>, <<<<"Call", "notfound">>>> >>
=============================================================================
