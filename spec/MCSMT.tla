------------------------------- MODULE MCSMT -------------------------------
EXTENDS SMT
\* 16-bit keys: pairs sharing 15-bit prefixes, keys differing in the first byte only / second byte only,
\* siblings at the boundary between the two 8-bit subtrees
Keys6 == <<0, 1, 256, 32768, 32769, 65535>>
Keys10 == <<0, 1, 255, 256, 128, 32767, 32768, 32769, 33023, 65535>>
=============================================================================
